#!/bin/sh
# Build the framework from files on disk only (offline): Lean theorem modules + model drivers and the
# Rust harnesses of every property claimed in MANIFEST.json. Best effort per property: a target that fails
# to build here is rebuilt (and reported) by its own ./check run.
cd "$(dirname "$0")"
export CARGO_NET_OFFLINE=true
python3 - <<'PY' > /tmp/.p2verif_targets
import json
m = json.load(open('MANIFEST.json'))
lean, crates = [], []
for c in m['checks']:
    p = json.load(open('props/%s.json' % c['property_id']))
    lean += [p['lean_props'], p['driver']]
    crates.append(p.get('harness_dir', p['harness']))
print(' '.join(dict.fromkeys(lean)))
print(' '.join(dict.fromkeys(crates)))
PY
LEAN_TARGETS=$(sed -n 1p /tmp/.p2verif_targets)
CRATES=$(sed -n 2p /tmp/.p2verif_targets)
rm -f /tmp/.p2verif_targets
( cd lean && lake build $LEAN_TARGETS 2>&1 | tail -3 ) || echo "setup: some Lean targets failed (their checks will report it)"
for c in $CRATES; do ( cd harness/$c && { [ -f Cargo.lock ] || cp /repo/Cargo.lock Cargo.lock; } && cargo build 2>&1 | tail -2 ) || echo "setup: harness $c failed (its check will report it)"; done
echo setup done
exit 0
