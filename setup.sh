#!/bin/sh
# Build the framework from files on disk only (offline): Lean theorem modules + model drivers, Rust harnesses.
set -e
cd "$(dirname "$0")"
export CARGO_NET_OFFLINE=true
( cd lean && lake build $(python3 - <<'PY'
import glob, json
t = []
for p in sorted(glob.glob('../props/C*.json')):
    c = json.load(open(p))
    if c.get('disabled'): continue
    t += [c['lean_props'], c['driver']]
print(' '.join(dict.fromkeys(t)))
PY
) )
( cd harness && cargo build --workspace 2>&1 | tail -3 )
echo setup done
