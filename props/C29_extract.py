#!/usr/bin/env python3
"""C29: regenerate Lean definitions from the current text of p2panda-net/src/gossip/api.rs.

rs2lean (read-only use of /verif/rs2lean.py) cannot parse `trace!(key = value, …)` macro calls nor
`#[cfg(..)]` attributes on statements, so the source is first copied to a scratch dir with exactly those two
things removed (tracing output and the cfg-guarded verification schedule points carry no decision logic);
everything else of the function bodies is translated as is.  Any failure exits non-zero (= the tie no
longer checks)."""
import os
import re
import sys
import tempfile

sys.path.insert(0, os.path.dirname(os.path.dirname(os.path.abspath(__file__))))
import rs2lean  # noqa: E402

repo = sys.argv[1]
REL = "p2panda-net/src/gossip/api.rs"
src = open(os.path.join(repo, REL)).read()


def strip_macro(text, name):
    out, i = [], 0
    pat = re.compile(r"\b" + re.escape(name) + r"!\s*\(")
    while True:
        m = pat.search(text, i)
        if not m:
            out.append(text[i:])
            return "".join(out)
        out.append(text[i:m.start()])
        depth, k = 0, m.end() - 1
        while True:
            if text[k] == "(":
                depth += 1
            elif text[k] == ")":
                depth -= 1
                if depth == 0:
                    break
            k += 1
        k += 1
        while k < len(text) and text[k] in " \t":
            k += 1
        if k < len(text) and text[k] == ";":
            k += 1
        i = k


clean = strip_macro(src, "trace")
# cfg-guarded verification statements: attribute line + the single statement that follows
clean = re.sub(r"#\[cfg\(p2panda_p2panda_verif\)\]\s*verif_c29::schedule_point\(\"[^\"]*\"\);", "", clean)

# `let _ = <expr>;` (result explicitly ignored) is the statement `<expr>;`
clean = re.sub(r"\blet\s+_\s*=\s*", "", clean)

tmp = tempfile.mkdtemp(prefix="c29x")
os.makedirs(os.path.join(tmp, os.path.dirname(REL)))
open(os.path.join(tmp, REL), "w").write(clean)

SEQ = "std::sync::atomic::Ordering::SeqCst"
specs = [
    # Drop, the block run when the last reference went away: send Unsubscribe, THEN publish the flag.
    # `trace` records the order of the two effects (1 = send Unsubscribe, 2 = flag store).
    {"lean_name": "guardDropLast", "file": REL, "fn": "drop", "impl": "Drop for TopicDropGuard",
     "anchor": r"if\s+no_references_left\s*",
     "params": "(flag : Bool) (trace : List Nat)",
     "ret": "Bool × List Nat",
     "places": {"flag": "flag", "trace": "trace"},
     "atoms": {SEQ: "()"},
     "effects": {
         "self.actor_ref.send_message(ToGossipManager::Unsubscribe(self.topic))":
             {"trace": "({trace} ++ [1])"},
         f"self.unsubscribed.store(true, {SEQ})": {"flag": "true", "trace": "({trace} ++ [2])"},
     },
     "outputs": ["flag", "trace"]},
]
try:
    for s in specs:
        print(rs2lean.translate(s, tmp))
except Exception as e:  # noqa: BLE001
    sys.exit(f"translation failed: {e}")
