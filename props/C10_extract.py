#!/usr/bin/env python3
"""C10 extractor: reads `impl Drop for TransactionPermit` in p2panda-store/src/sqlite.rs and prints Lean
definitions (inside namespace P2.Extracted.C10):
  dropCondition        the condition under which Drop spawns the clean-up task
  permitMovedIntoTask  `let permit = self.permit.clone();` precedes the spawn (the task owns the permit)
  txStmts              the statements of `SqliteStore::tx()` (comments removed): lock, look into the slot through
                       the guard, call the closure while the guard is alive
  dropTaskStmts        the statements of the spawned async block, in order (comments and the cfg-guarded
                       verification schedule points removed)
Any shape it does not recognise is an error (the proof stage then fails)."""
import json, re, sys
repo = sys.argv[1] if len(sys.argv) > 1 else "/repo"
src = open(f"{repo}/p2panda-store/src/sqlite.rs").read()
m = re.search(r"impl Drop for TransactionPermit \{\s*fn drop\(&mut self\) \{(.*?)\n    \}\n\}", src, re.S)
if not m:
    sys.exit("impl Drop for TransactionPermit not found")
body = m.group(1)
body = re.sub(r"//[^\n]*", "", body)
c = re.search(r"if\s+(.*?)\s*\{", body, re.S)
if not c:
    sys.exit("no condition in drop()")
cond = " ".join(c.group(1).split())
sp = re.search(r"tokio::spawn\(async move \{(.*?)\n\s*\}\);", body, re.S)
if not sp:
    sys.exit("no tokio::spawn(async move { .. }) in drop()")
before = body[: sp.start()]
moved = bool(re.search(r"let\s+permit\s*=\s*self\.permit\.clone\(\)\s*;", before))
task = sp.group(1)
# remove the verification schedule points (attribute + the statement it guards)
task = re.sub(r"#\[cfg\(p2panda_p2panda_verif\)\]\s*[^;]*;", "", task)
stmts = [" ".join(l.split()) for l in task.split("\n") if l.strip()]
# --- SqliteStore::tx(): the MutexGuard of the slot must stay alive across the closure call ---------------
t = re.search(r"pub async fn tx<F, R>\(&self, f: F\) -> Result<R, SqliteError>\s*where(.*?)\{(.*?)\n    \}\n", src, re.S)
if not t:
    sys.exit("SqliteStore::tx not found")
txbody = re.sub(r"//[^\n]*", "", t.group(2))
txstmts = [" ".join(x.split()) for x in re.split(r"(?<=;)", txbody) if x.strip()]
print("def txStmts : List String := [" + ", ".join(json.dumps(x) for x in txstmts) + "]")
print(f"def dropCondition : String := {json.dumps(cond)}")
print(f"def permitMovedIntoTask : Bool := {'true' if moved else 'false'}")
print("def dropTaskStmts : List String := [" + ", ".join(json.dumps(x) for x in stmts) + "]")
