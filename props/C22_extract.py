#!/usr/bin/env python3
"""Extra extracted constant for C22: number of uses of `TopicLogSyncEvent::SessionStarted` in the
non-test code of p2panda-sync (the known finding says: the event is never constructed)."""
import os, re, sys
repo = sys.argv[1]
n = 0
for root, _, files in os.walk(os.path.join(repo, "p2panda-sync", "src")):
    for f in sorted(files):
        if not f.endswith(".rs") or f == "test_utils.rs":
            continue
        text = open(os.path.join(root, f)).read().split("#[cfg(test)]")[0]
        text = re.sub(r"//[^\n]*", "", text)
        n += len(re.findall(r"TopicLogSyncEvent::SessionStarted\b", text))
print(f"def sessionStartedUses : Nat := {n}")
