"""
Source-text extraction shared by the header / ingest / prune family (C01, C03, C04, C05).
Each function prints Lean definitions (strings / lists of strings) read from the *current* Rust
sources; theorems in P2/Props/Cxx.lean require them to be exactly the texts the models transcribe.
A missing anchor raises (./check reports it as a failed extraction = the tie no longer checks).
"""
import json
import os
import re
import sys

sys.path.insert(0, os.path.dirname(os.path.dirname(os.path.abspath(__file__))))
from rs2lean import strip_comments, balanced  # noqa: E402


def norm(s):
    return " ".join(s.split())


def lean_str(s):
    return json.dumps(norm(s), ensure_ascii=False)


def fn_body(src, name):
    m = re.search(r"\bfn\s+" + re.escape(name) + r"\b", src)
    if not m:
        raise SystemExit(f"fn {name} not found")
    # first '{' after the signature's closing parenthesis / where clause
    par = src.index("(", m.end())
    close = balanced(src, par, "(", ")")
    brace = src.index("{", close)
    end = balanced(src, brace)
    return src[brace + 1:end]


def read(repo, rel):
    return strip_comments(open(os.path.join(repo, rel)).read())


def ingest_order(repo):
    """Order of the validation / store calls in `ingest_operation`, the expression `past_header` is
    bound to, the arguments of the log validation and what the dedup branch returns."""
    body = fn_body(read(repo, "p2panda-stream/src/ingest/operation.rs"), "ingest_operation")
    vocab = ["validate_operation", "validate_header", "begin", "has_operation_tx", "has_operation", "get_operation_tx",
             "get_operation", "rollback", "get_latest_entry_tx", "get_latest_entry",
             "validate_prunable_backlink", "validate_backlink", "insert_operation", "associate", "commit", "prune_entries"]
    calls = []
    for m in re.finditer(r"\b(" + "|".join(vocab) + r")\s*\(", body):
        calls.append((m.start(), m.group(1)))
    calls.sort()
    print("def ingestCalls : List String := [" + ", ".join(json.dumps(c) for _, c in calls) + "]")
    # every call (function or method, whatever its name) that textually precedes validate_operation(…)
    first = re.search(r"\bvalidate_operation\s*\(", body)
    head = body[:first.start()] if first else body
    before = re.findall(r"\b([A-Za-z_][A-Za-z0-9_]*)\s*\(", head)
    print("def callsBeforeValidate : List String := [" + ", ".join(json.dumps(c) for c in before) + "]")
    m0 = re.search(r"validate_operation\((.*?)\)(\??);", body, re.S)
    print("def validateCall : String := " + lean_str((m0.group(1) + " " + m0.group(2)) if m0 else "MISSING"))
    m = re.search(r"let past_header\s*=\s*(.*?);\s*validate_prunable_backlink", body, re.S)
    if not m:
        raise SystemExit("binding of past_header directly before validate_prunable_backlink not found")
    # drop the error-mapping closure, keep the shape of the expression
    expr = re.sub(r"\.map_err\(\|err\| IngestError::StoreError\(err\.to_string\(\)\)\)", ".map_err(STORE)", m.group(1))
    print("def pastHeaderExpr : String := " + lean_str(expr))
    m = re.search(r"validate_prunable_backlink\((.*?)\)\?;", body, re.S)
    print("def vpbArgs : String := " + lean_str(m.group(1) if m else "MISSING"))
    m = re.search(r"if already_exists \{(.*?)return (.*?);\s*\}", body, re.S)
    print("def dedupReturn : String := " + lean_str(m.group(2) if m else "MISSING"))
    m = re.search(r"has_operation_tx\((.*?)\)", body, re.S)
    print("def dedupKey : String := " + lean_str(m.group(1) if m else "MISSING"))
    m = re.search(r"\.insert_operation\((.*?)\)", body, re.S)
    print("def insertArgs : String := " + lean_str(m.group(1) if m else "MISSING"))


def backlink_checks(repo):
    """`validate_backlink`: the (condition, error variant) pairs in source order."""
    body = fn_body(read(repo, "p2panda-core/src/operation.rs"), "validate_backlink")
    pairs = []
    for m in re.finditer(r"if\s+(.*?)\s*\{\s*return Err\(\s*OperationError::(\w+)", body, re.S):
        pairs.append((m.start(), norm(m.group(1)), m.group(2)))
    for m in re.finditer(r"None\s*=>\s*\{\s*return Err\(\s*OperationError::(\w+)", body, re.S):
        pairs.append((m.start(), "header.backlink is None", m.group(1)))
    pairs.sort()
    print("def backlinkChecks : List (String × String) := [" +
          ", ".join(f"({json.dumps(c)}, {json.dumps(e)})" for _, c, e in pairs) + "]")
    m = re.search(r"match\s+(\S+)\s*\{\s*Some\((\w+)\)", body)
    print("def backlinkScrutinee : String := " + lean_str(m.group(1) if m else "MISSING"))
    tail = body.strip().split("\n")[-1]
    print("def backlinkTail : String := " + lean_str(tail))


def prune_where(repo):
    """`prune_entries`: the statement text from DELETE to the end of the WHERE clause, and its binds."""
    src = read(repo, "p2panda-store/src/logs/sqlite/mod.rs")
    body = fn_body(src, "prune_entries")
    m = re.search(r'"\s*(DELETE.*?)"\s*,', body, re.S)
    print("def pruneSql : String := " + lean_str(m.group(1) if m else "MISSING"))
    binds = re.findall(r"\.bind\((.*?)\)\s*(?=\.bind|\.execute)", body, re.S)
    short = []
    for b in binds:
        b = norm(b)
        short.append("log_id" if "log_id" in b else b)
    print("def pruneBinds : List String := [" + ", ".join(json.dumps(b) for b in short) + "]")
    m = re.search(r"const GET_LATEST_ENTRY: &str = \"(.*?)\";", src, re.S)
    print("def latestSql : String := " + lean_str(m.group(1) if m else "MISSING"))


def pipeline_stages(repo):
    """The two `.map` stages of `Pipeline::new`, `Event::new`'s prune arguments, `disarm_log_prune`."""
    src = read(repo, "p2panda/src/processor/pipeline.rs")
    body = fn_body(src, "new")
    stages = re.findall(r"\.layer\((\w+)\)\s*\.map\(\|result\| match result \{\s*Ok\(\(mut event, result\)\) => \{(.*?)\}\s*Err\(\(mut event, err\)\) => \{(.*?)\}\s*\}\)", body, re.S)
    print("def stageNames : List String := [" + ", ".join(json.dumps(s[0]) for s in stages) + "]")
    print("def stageOkArms : List String := [" + ", ".join(lean_str(s[1]) for s in stages) + "]")
    print("def stageErrArms : List String := [" + ", ".join(lean_str(s[2]) for s in stages) + "]")
    ev = read(repo, "p2panda/src/processor/event.rs")
    nb = fn_body(ev, "new")
    m = re.search(r"log_prune_args:\s*(if .*?\}\s*else\s*\{.*?\}),", nb, re.S)
    print("def eventPruneArgs : String := " + lean_str(m.group(1) if m else "MISSING"))
    m = re.search(r"ingest_args:\s*IngestArgs\s*\{(.*?)\},", nb, re.S)
    print("def eventIngestArgs : String := " + lean_str(m.group(1) if m else "MISSING"))
    print("def disarmBody : String := " + lean_str(fn_body(ev, "disarm_log_prune")))
    lp = read(repo, "p2panda-stream/src/log_prune/processor.rs")
    pb = fn_body(lp, "process")
    m = re.search(r"let result = (if let LogPruneArgs::PruneEntriesUntil \{.*?\} = args)\s*\{\s*match (.*?) \{", pb, re.S)
    print("def logPruneGuard : String := " + lean_str(m.group(1) if m else "MISSING"))
    print("def logPruneCall : String := " + lean_str(m.group(2) if m else "MISSING"))
