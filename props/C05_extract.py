#!/usr/bin/env python3
import os, sys
sys.path.insert(0, os.path.dirname(os.path.abspath(__file__)))
import hdrfam_extract_lib as L
repo = sys.argv[1]
L.ingest_order(repo)
L.backlink_checks(repo)
L.prune_where(repo)
