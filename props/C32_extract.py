#!/usr/bin/env python3
"""C32: Lean definitions regenerated from p2panda-auth/src/group/crdt/state.rs (`merge`, `merge_tie_break_less`)."""
import sys
sys.path.insert(0, "/verif/props")
from grp_extract_lib import *  # noqa

repo = sys.argv[1] if len(sys.argv) > 1 else "/repo"
F = "p2panda-auth/src/group/crdt/state.rs"
try:
    _, body = fn_body(repo, F, "merge")
    inner = block_after(body, "if let Some(member_state) = next_state.members.get_mut(&id)")
    print("/-- the three sequential `if`s of `state::merge` (symbolically executed by rs2lean): new (member_counter, access, access_counter) of `member_state` -/")
    print(translate_block(inner, {
        "lean_name": "mergeMemberT",
        "params": "{A : Type} (lt : A → A → Bool) (mc1 ac1 : Nat) (a1 : A) (mc ac : Nat) (a : A)",
        "ret": "Nat × A × Nat",
        "places": {"member_state.member_counter": "mc", "member_state.access": "a", "member_state.access_counter": "ac"},
        "atoms": {"member_state_1.member_counter": "mc1", "member_state_1.access": "a1", "member_state_1.access_counter": "ac1"},
        "methods": {"tie_lt": {"value": "(lt {0} {recv} = true)"}},
        "outputs": ["member_state.member_counter", "member_state.access", "member_state.access_counter"],
    }, rewrites=[(r"merge_tie_break_less\(\s*&member_state_1\.access\s*,\s*&member_state\.access\s*\)",
                  "member_state.access.tie_lt(&member_state_1.access)")]))
    # the frame around the three ifs
    for name, rx, what in [
        ("mergeStart", r"let\s+mut\s+next_state\s*=\s*([^;]+);", "start state"),
        ("mergeLoop", r"for\s+(.*?)\s*\{", "loop header"),
        ("mergeAbsent", r"\}\s*else\s*\{\s*(next_state[^;]+);\s*\}\s*\}\s*next_state", "insert of an absent member"),
    ]:
        print("def " + name + " : String := " + lean_str(grab(body, rx, what)))
    _, tb = fn_body(repo, F, "merge_tie_break_less")
    print("/-- `merge_tie_break_less` (nested `match`, arm by arm) -/")
    print(translate_match(tb, {
        "a.level.cmp(&b.level)": "compare la lb",
        "&a.conditions": "ca", "&b.conditions": "cb",
        "true": "true", "false": "false",
        "a_conditions<b_conditions": "ltC a_conditions b_conditions",
    }, "tieBreakT", "{X : Type} (ltC : X → X → Bool) (la lb : Nat) (ca cb : Option X)", "Bool"))
except ExtractError as e:
    print(f"extraction failed: {e}", file=sys.stderr)
    print(f"extraction failed: {e}")
    sys.exit(1)
