#!/usr/bin/env python3
"""Extract `impl Default for Config` of p2panda-net/src/discovery/backoff.rs as millisecond Nats.
Prints Lean defs (placed inside `namespace P2.Extracted.C28`). Any field that is missing or not of
the shape `Duration::from_{secs,millis}(<int> [* <int>]*)` is a failure (exit 1)."""
import re
import sys

repo = sys.argv[1]
src = open(f"{repo}/p2panda-net/src/discovery/backoff.rs").read()
m = re.search(r"impl\s+Default\s+for\s+Config\s*\{.*?Self\s*\{(.*?)\}\s*\}\s*\}", src, re.S)
if not m:
    sys.exit("impl Default for Config not found")
body = m.group(1)
fields = ["initial_value", "min_increment", "max_increment", "max_value", "min_reset", "max_reset"]
lean = {"initial_value": "defInitial", "min_increment": "defMinInc", "max_increment": "defMaxInc",
        "max_value": "defMax", "min_reset": "defMinReset", "max_reset": "defMaxReset"}
out = []
for f in fields:
    fm = re.search(r"\b" + f + r"\s*:\s*Duration::from_(secs|millis)\(\s*([0-9_\s\*]+?)\s*\)\s*,", body)
    if not fm:
        sys.exit(f"field {f} not found / not a Duration::from_secs|from_millis(int product)")
    val = 1
    for part in fm.group(2).split("*"):
        part = part.strip().replace("_", "")
        if not part.isdigit():
            sys.exit(f"field {f}: cannot evaluate {fm.group(2)!r}")
        val *= int(part)
    if fm.group(1) == "secs":
        val *= 1000
    out.append(f"/-- `Config::default().{f}` in milliseconds -/\ndef {lean[f]} : Nat := {val}")
# the struct must have exactly these six fields (a new field would make the model incomplete)
sm = re.search(r"pub\s+struct\s+Config\s*\{(.*?)\n\}", src, re.S)
names = re.findall(r"^\s*(?:pub\s+)?([a-z_]+)\s*:\s*Duration\s*,", sm.group(1), re.M) if sm else []
if names != fields:
    sys.exit(f"Config fields changed: {names}")
print("\n".join(out))
