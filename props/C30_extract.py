#!/usr/bin/env python3
"""C30: regenerate Lean definitions from the current text of p2panda-discovery/src/psi_hash.rs with rs2lean
(read-only use of /verif/rs2lean.py).  Two purely syntactic normalisations are applied to a scratch copy first,
because the translator's front end does not accept them (no decision logic is touched):
  * array types `[u8; N]` in signatures become `[u8]`   (its fn-header regex stops at `;`)
  * `if A && let P = E { B }` (no else) becomes `if A { if let P = E { B } }`
  * `v.extend([x])` becomes `v.push(x)`
Any failure exits non-zero (= the tie no longer checks)."""
import os
import re
import sys
import tempfile

sys.path.insert(0, os.path.dirname(os.path.dirname(os.path.abspath(__file__))))
import rs2lean  # noqa: E402

repo = sys.argv[1]
REL = "p2panda-discovery/src/psi_hash.rs"
src = open(os.path.join(repo, REL)).read()
clean = re.sub(r"\[u8;\s*\d+\]", "[u8]", src)


def unchain(text):
    """`if A && let P = E {` … matching `}`  ->  `if A { if let P = E {` … `} }` (only when no `else` follows)."""
    pat = re.compile(r"\bif\s+(![a-z_]+)\s*&&\s*(let\s+Some\(\w+\)\s*=)")
    while True:
        m = pat.search(text)
        if not m:
            return text
        k = text.index("{", m.end())
        depth, e = 0, k
        while True:
            if text[e] == "{":
                depth += 1
            elif text[e] == "}":
                depth -= 1
                if depth == 0:
                    break
            e += 1
        if re.match(r"\s*else\b", text[e + 1:]):
            sys.exit("let-chain with else branch: cannot normalise")
        text = text[:m.start()] + f"if {m.group(1)} {{ if {m.group(2)}" + text[m.end():e + 1] + " }" + text[e + 1:]


clean = unchain(clean)
# `v.extend([x])` (one-element array literal; the tokenizer has no `[`-literals) is `v.push(x)`
clean = re.sub(r"\.extend\(\[(\w+)\]\)", r".push(\1)", clean)
tmp = tempfile.mkdtemp(prefix="c30x")
os.makedirs(os.path.join(tmp, os.path.dirname(REL)))
open(os.path.join(tmp, REL), "w").write(clean)

STORE_ERR = ".await.map_err(PsiHashError::Store)?"
specs = [
    # compute_intersection, body of the loop over the hashed local topics: the RAW local topic is collected
    # when its hash occurs in the remote set.
    {"lean_name": "ciBody", "file": REL, "fn": "compute_intersection",
     "anchor": r"for\s*\(i,\s*local_hash\)\s*in\s*local_topics_hashed\.iter\(\)\.enumerate\(\)\s*",
     "params": "{τ : Type} [DecidableEq τ] (intersection remote : List τ) (localI hashI : τ)", "ret": "List τ",
     "places": {"intersection": "intersection"},
     "atoms": {"remote_hashes.contains(local_hash)": "(hashI ∈ remote)"},
     "effects": {"intersection.insert(local_topics[i])": {"intersection": "(localI :: {intersection})"}},
     "outputs": ["intersection"]},
    # gather_transport_infos, restricted-sharing branch; the anchor pins the branch condition itself:
    # `if self.config.share_nodes_with_common_topics {` (anything between the flag and `{` breaks it)
    {"lean_name": "gatherRestricted", "file": REL, "fn": "gather_transport_infos",
     "anchor": r"let\s+node_infos\s*=\s*if\s+self\.config\.share_nodes_with_common_topics\s*(?=\{)",
     "params": "{α : Type} (byTopics : List α) (containsMe : Bool) (myInfo : Option α)",
     "ret": "List α",
     "atoms": {"self.store.node_infos_by_topics(&topics)" + STORE_ERR: "byTopics",
               "result.iter().any(|info|info.id()==self.my_node_id)": "(containsMe = true)",
               "self.store.node_info(&self.my_node_id)" + STORE_ERR: "myInfo"},
     # `result` is tracked as a place: it starts as the query result and is extended by the one statement below
     "places": {"result": "byTopics"},
     "effects": {"result.push(my_node_info)": {"result": "({result} ++ [{my_node_info}])"}},
     "outputs": ["result"]},
    # …and the other branch (first `} else {` of the function)
    {"lean_name": "gatherUnrestricted", "file": REL, "fn": "gather_transport_infos",
     "anchor": r"\}\s*else\s*(?=\{)",
     "params": "{α : Type} (allInfos : List α)", "ret": "List α",
     "atoms": {"self.store.all_node_infos()" + STORE_ERR: "allInfos"},
     "outputs": ["return"]},
    # …and which of them end up in the Nodes message: only those that have transport info
    {"lean_name": "gatherMapBody", "file": REL, "fn": "gather_transport_infos",
     "anchor": r"for\s+node_info\s+in\s+node_infos\s*",
     "params": "(map : List Nat) (nodeId : Nat) (transports : Option Unit)", "ret": "List Nat",
     "places": {"map": "map"},
     "atoms": {"node_info.transports()": "transports"},
     "effects": {"map.insert(node_info.id(), transport_info)": {"map": "(nodeId :: {map})"}},
     "outputs": ["map"]},
]
try:
    for s in specs:
        print(rs2lean.translate(s, tmp))
except Exception as e:  # noqa: BLE001
    sys.exit(f"translation of {s['lean_name']} failed: {e}")
