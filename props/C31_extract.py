#!/usr/bin/env python3
"""C31: Lean definitions regenerated from p2panda-auth/src/access.rs (`Access::partial_cmp`) and
p2panda-auth/src/group/crdt/mod.rs (`members_inner`, `merge_states`, `heads`)."""
import re
import sys
sys.path.insert(0, "/verif/props")
from grp_extract_lib import *  # noqa

repo = sys.argv[1] if len(sys.argv) > 1 else "/repo"
A = "p2panda-auth/src/access.rs"
M = "p2panda-auth/src/group/crdt/mod.rs"
try:
    refresh_extracted("C32", repo)
    _, pc = fn_body(repo, A, "partial_cmp", "PartialOrd for Access<C>")
    print("/-- `impl PartialOrd for Access<C>`: `partial_cmp` (nested `match`, arm by arm) -/")
    print(translate_match(pc, {
        "self.conditions.as_ref()": "sc", "other.conditions.as_ref()": "oc",
        "self_cond.partial_cmp(other_cond)": "cmpC self_cond other_cond",
        "self.level.cmp(&other.level)": "compare sl ol",
        "Some(Ordering::Less)": "some .lt", "Some(Ordering::Greater)": "some .gt", "None": "none",
        "Some(self.level.cmp(&other.level))": "some (compare sl ol)",
    }, "partialCmpT", "{X : Type} (cmpC : X → X → Option Ordering) (sc oc : Option X) (sl ol : Nat)", "Option Ordering"))
    _, oc = fn_body(repo, A, "cmp", "Ord for Access<C>")
    print("def ordCmpBody : String := " + lean_str(norm(oc)))

    _, mi = fn_body(repo, M, "members_inner")
    na = grab(mi, r"let\s+next_access\s*=\s*(match\s+root_access\.clone\(\)\s*\{.*?\})\s*;\s*members", "next_access")
    print("/-- `members_inner`: `let next_access = match root_access.clone() { … }` -/")
    print(translate_match(na, {
        "root_access.clone()": "root",
        "access<=root_access": "le access root_access = true",
        "access.clone()": "access", "root_access": "root_access",
    }, "nextAccessT", "{A : Type} (le : A → A → Bool) (root : Option A) (access : A)", "A"))
    blk = block_after(mi, ".and_modify(|current_access|")
    print("/-- `members_inner`: body of `.and_modify(|current_access| …)` -/")
    print(translate_block(blk, {
        "lean_name": "combineT", "params": "{A : Type} (lt : A → A → Bool) (cur next : A)", "ret": "A × A",
        "places": {"*current_access": "cur"}, "atoms": {"next_access": "next"},
        "methods": {"acc_lt": {"value": "(lt {recv} {0} = true)"}},
        "outputs": ["*current_access", "*current_access"]},
        rewrites=[(r"\*current_access\s*<\s*next_access", "(*current_access).acc_lt(&next_access)")]))
    for name, rx, what in [
        ("combineAbsent", r"\.or_insert_with\(\s*(.*?)\s*\)\s*;", "or_insert_with"),
        ("depthGuard", r"if\s+(depth\s*==\s*MAX_NESTED_DEPTH)\s*\{\s*return;\s*\}\s*depth\s*\+=\s*1;", "depth guard"),
        ("traversalState", r"let\s+current_states\s*=\s*([^;]+);", "current_states"),
        ("traversalLoop", r"for\s+(\(member,\s*access\)\s+in\s+group_state\.access_levels\(\))", "loop header"),
        ("recursionGuard", r"if\s+let\s+(GroupMember::Group\(id\)\s*=\s*member)\s*\{\s*self\.members_inner", "recursion guard"),
        ("recursionArgs", r"=\s*member\s*\{\s*self\.members_inner\((.*?)\)\s*\}", "recursive call"),
    ]:
        print("def " + name + " : String := " + lean_str(grab(mi, rx, what)))
    src = open(f"{repo}/{M}").read()
    print("def maxNestedDepthSrc : Nat := " + grab(src, r"const\s+MAX_NESTED_DEPTH\s*:\s*u32\s*=\s*([0-9_]+)\s*;", "MAX_NESTED_DEPTH").replace("_", ""))

    _, ms = fn_body(repo, M, "merge_states")
    for name, rx, what in [
        ("mergeStatesCall", r"\*current_state\s*=\s*(state::merge\([^;]*?\))\s*\}", "merge call"),
        ("mergeStatesAbsent", r"\.(or_insert\(state\))", "or_insert"),
        ("mergeStatesLoop", r"for\s+(id\s+in\s+ids)\s*\{", "outer loop"),
        ("mergeStatesMissing", r"None\s*=>\s*\{\s*return\s+Err\(\s*(GroupCrdtInnerError::\w+)", "missing state"),
    ]:
        print("def " + name + " : String := " + lean_str(grab(ms, rx, what)))
    _, hd = fn_body(repo, M, "heads")
    print("def headsDirection : String := " + lean_str(grab(hd, r"\.externals\(\s*([^)]*?)\s*\)", "externals direction")))
    _, tm = fn_body(repo, M, "traverse_members")
    print("def traverseStart : String := " + lean_str(grab(tm, r"(self\.members_inner\([^;]*\));", "traverse start")))
except ExtractError as e:
    print(f"extraction failed: {e}")
    sys.exit(1)
