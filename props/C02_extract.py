#!/usr/bin/env python3
"""C02 extractor: reads `impl<'de> Deserialize<'de> for Extensions` in p2panda/src/operation.rs and prints Lean
definitions (inside namespace P2.Extracted.C02):
  decodeBasicStmts   the statements of the basic-variant branch of visit_seq, in order (comments removed)
  decodeCausalStmts  the same for the causal-variant branch
  decodeClockReads   number of places in the whole impl that consult a clock (`now(`, SystemTime, Instant, elapsed)
A statement of the shape `let X: T = seq.next_element()?.ok_or(SerdeError::custom("..."))?;` is printed as
`X: T <- next_element` (the error text does not matter); every other statement is printed verbatim with
whitespace normalised, so a decoded field that is changed, re-bound or replaced between being read and being
stored (e.g. by `Timestamp::now()`) shows up as an extra / different statement.
Any shape it does not recognise is an error (the proof stage then fails)."""
import json, re, sys
repo = sys.argv[1] if len(sys.argv) > 1 else "/repo"
src = open(f"{repo}/p2panda/src/operation.rs").read()
m = re.search(r"impl<'de> Deserialize<'de> for Extensions \{(.*?)\n\}\n", src, re.S)
if not m:
    sys.exit("impl Deserialize for Extensions not found")
impl = re.sub(r"//[^\n]*", "", m.group(1))
b = re.search(r"let variant = if variant_code == BasicExtensions::VARIANT_CODE \{(.*?)\} else if variant_code == CausalExtensions::VARIANT_CODE \{(.*?)\} else \{", impl, re.S)
if not b:
    sys.exit("basic / causal branches of visit_seq not found")
READ = re.compile(r'^let (\w+): ([\w<>]+) = seq \.next_element\(\)\? \.ok_or\(SerdeError::custom\("[^"]*"\)\)\?;$')
def stmts(body):
    out = []
    for s in re.split(r"(?<=;)", body):
        s = " ".join(s.split())
        if not s:
            continue
        r = READ.match(s)
        out.append(f"{r.group(1)}: {r.group(2)} <- next_element" if r else s)
    return out
clock = len(re.findall(r"\bnow\s*\(|SystemTime|Instant|elapsed", impl))
for name, body in (("decodeBasicStmts", b.group(1)), ("decodeCausalStmts", b.group(2))):
    print(f"def {name} : List String := [" + ", ".join(json.dumps(x) for x in stmts(body)) + "]")
print(f"def decodeClockReads : Nat := {clock}")
