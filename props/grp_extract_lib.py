#!/usr/bin/env python3
"""
Source-to-Lean extraction helpers for the auth-groups family (C31, C32, C33); used by
props/C3x_extract.py, whose stdout ./check appends to lean/P2/Extracted/C3x.lean on every run.

Three techniques, all reading /repo's *current* text (comments stripped by rs2lean.strip_comments):

* `translate_block`  — runs /verif/rs2lean.py's symbolic executor on an inner block of a function (rs2lean
  itself only takes whole function bodies; `for` loops / closures around the block are outside its subset).
* `translate_match`  — a small translator for functions whose body is a (nested) `match` on `a.cmp(&b)`,
  on a tuple of `Option`s or on an `Option<Ordering>` (constructs rs2lean does not have): Rust arms become
  Lean `match` alternatives one to one, in order (both languages: first matching arm wins).
* `guards`           — the ordered list of early-return guards `(condition text, error expression)` of a
  function written as a chain of `let … else { return Err(..) }` / `if … { return Err(..) }` checks.
Anything unexpected raises ExtractError (./check then reports the tie as broken) — never a default.
"""
import re
import sys

sys.path.insert(0, "/verif")
import rs2lean  # noqa: E402


class ExtractError(Exception):
    pass


def norm(s):
    return " ".join(s.split())


def fn_body(repo, file, fn, impl=None):
    src = open(f"{repo}/{file}").read()
    try:
        sig, body = rs2lean.find_fn(src, fn, impl)
    except rs2lean.TranslateError as e:
        raise ExtractError(f"{file}: {e}")
    return sig, body


def lean_str(s):
    return '"' + s.replace("\\", "\\\\").replace('"', '\\"') + '"'


# ----------------------------------------------------------------------------------------------
# inner block through rs2lean
# ----------------------------------------------------------------------------------------------

def block_after(body, anchor):
    """Text of the `{…}` block that follows the first occurrence of `anchor` (whitespace-insensitive)."""
    pat = r"\s*".join(re.escape(t) for t in anchor.split())
    m = re.search(pat + r"\s*\{", body)
    if not m:
        raise ExtractError(f"anchor not found: {anchor!r}")
    end = rs2lean.balanced(body, m.end() - 1)
    return body[m.end():end]


def translate_block(block, spec, rewrites=()):
    """rs2lean's symbolic execution of a statement block. `rewrites`: purely syntactic (regex, repl) pairs
    applied first (used to write a free function call `f(&a, &b)` in method form so that the *current* value
    of a mutated place is substituted for its argument)."""
    for pat, repl in rewrites:
        block, n = re.subn(pat, repl, block)
        if n != 1:
            raise ExtractError(f"rewrite {pat!r} matched {n} times (expected 1)")
    try:
        tr = rs2lean.Translator(spec, "")
        st = rs2lean.State({}, {}, None)
        for place, term in spec.get("places", {}).items():
            st.places[re.sub(r"\s+", "", place)] = term
        blk = rs2lean.Parser(rs2lean.tokenize(block)).block_body(until="")
        tr.block(blk, st)
        if st.ret is not None:
            raise ExtractError("unexpected return in block")
        outs = []
        for o in spec["outputs"]:
            key = re.sub(r"\s+", "", o)
            if key not in st.places:
                raise ExtractError(f"output place {o} never assigned")
            outs.append(st.places[key])
    except rs2lean.TranslateError as e:
        raise ExtractError(f"{spec['lean_name']}: {e}")
    term = "(" + ", ".join(outs) + ")"
    if rs2lean.UNDEF in term:
        raise ExtractError("output depends on an unassigned place")
    return f"def {spec['lean_name']} {spec['params']} : {spec['ret']} :=\n  {term}\n"


# ----------------------------------------------------------------------------------------------
# match translator
# ----------------------------------------------------------------------------------------------

TOK = re.compile(r"\s*(=>|::|&&|\|\||[A-Za-z_][A-Za-z_0-9]*|[(){},|&.<>=_!])")


def toks(s):
    out, i = [], 0
    s = s.strip()
    while i < len(s):
        m = TOK.match(s, i)
        if not m:
            raise ExtractError(f"match translator: cannot tokenize {s[i:i+30]!r}")
        out.append(m.group(1))
        i = m.end()
    return out


class MatchTr:
    """exprs: {whitespace-free Rust expression text -> Lean term} for scrutinees and leaf expressions."""

    def __init__(self, tokens, exprs):
        self.t, self.i, self.exprs = tokens, 0, exprs

    def peek(self):
        return self.t[self.i] if self.i < len(self.t) else None

    def next(self):
        v = self.peek()
        self.i += 1
        return v

    def expect(self, v):
        if self.next() != v:
            raise ExtractError(f"match translator: expected {v!r} near {' '.join(self.t[max(0,self.i-4):self.i+3])}")

    def leaf(self, text):
        key = text.replace(" ", "")
        if key not in self.exprs:
            raise ExtractError(f"match translator: unknown expression {text!r}")
        return self.exprs[key]

    def until(self, stops, depth_chars="({", close="})"):
        """collect tokens up to (not including) a top-level token in `stops`"""
        out, depth = [], 0
        while self.peek() is not None:
            v = self.peek()
            if depth == 0 and v in stops:
                break
            depth += (v in depth_chars) - (v in close)
            if depth < 0:
                break
            out.append(self.next())
        return out

    def expr(self):
        if self.peek() == "match":
            return self.match()
        if self.peek() == "if":
            # `if C { A } else { B }` with leaf condition and (recursively translated) branch expressions
            self.next()
            cond = self.leaf("".join(self.until({"{"})))
            self.expect("{")
            a = self.expr()
            self.expect("}")
            self.expect("else")
            self.expect("{")
            b = self.expr()
            self.expect("}")
            return f"(if {cond} then {a} else {b})"
        body = self.until({",", "}"})
        return self.leaf("".join(body))

    def match(self):
        self.expect("match")
        scrut = "".join(self.until({"{"}))
        self.expect("{")
        if scrut.startswith("(") and scrut.endswith(")"):
            parts = split_top(scrut[1:-1])
            lscrut = ", ".join(self.leaf(p) for p in parts)
            arity = len(parts)
        else:
            lscrut, arity = self.leaf(scrut), 1
        arms = []
        while self.peek() != "}":
            pat = "".join(self.until({"=>"}))
            self.expect("=>")
            if self.peek() == "{":
                self.next()
                val = self.expr()
                self.expect("}")
            else:
                val = self.expr()
            if self.peek() == ",":
                self.next()
            for p in pat_alts(pat):
                arms.append((lean_pat(p, arity), val))
        self.expect("}")
        return "(match " + lscrut + " with " + " ".join(f"| {p} => {v}" for p, v in arms) + ")"


def split_top(s, sep=","):
    out, depth, cur = [], 0, ""
    for ch in s:
        if ch in "([":
            depth += 1
        if ch in ")]":
            depth -= 1
        if ch == sep and depth == 0:
            out.append(cur)
            cur = ""
        else:
            cur += ch
    if cur.strip():
        out.append(cur)
    return [x.strip() for x in out]


def pat_alts(p):
    """expand or-patterns (top level and one level inside a constructor) into separate alternatives"""
    alts = split_top(p, "|")
    out = []
    for a in alts:
        m = re.fullmatch(r"(\w+)\((.*)\)", a)
        if m and "|" in m.group(2) and not m.group(2).startswith("("):
            for inner in split_top(m.group(2), "|"):
                out.append(f"{m.group(1)}({inner})")
        else:
            out.append(a)
    return out


ORD = {"Ordering::Less": ".lt", "Ordering::Equal": ".eq", "Ordering::Greater": ".gt"}


def lean_pat(p, arity):
    p = p.strip()
    if p.startswith("(") and p.endswith(")") and arity > 1:
        parts = split_top(p[1:-1])
        if len(parts) != arity:
            raise ExtractError(f"match translator: pattern {p!r} has wrong arity")
        return ", ".join(lean_pat(x, 1) for x in parts)
    if arity > 1 and p == "_":
        return ", ".join("_" for _ in range(arity))
    if p in ORD:
        return ORD[p]
    if p == "None":
        return "none"
    if p == "_":
        return "_"
    m = re.fullmatch(r"Some\((.*)\)", p)
    if m:
        inner = m.group(1)
        return "some " + (lean_pat(inner, 1) if (inner in ORD or inner == "_") else inner)
    raise ExtractError(f"match translator: unsupported pattern {p!r}")


def translate_match(body, exprs, lean_name, params, ret):
    t = toks(body)
    tr = MatchTr(t, {k.replace(" ", ""): v for k, v in exprs.items()})
    term = tr.match()
    if tr.peek() is not None:
        raise ExtractError(f"match translator: trailing tokens after the match in {lean_name}")
    return f"def {lean_name} {params} : {ret} :=\n  {term}\n"


# ----------------------------------------------------------------------------------------------
# early-return guard chains
# ----------------------------------------------------------------------------------------------

def guards(body):
    """Ordered [(condition text, returned error text)] of every `return Err(…)` in the body: for
    `let P = E else { return Err(X); }` the condition is `let P = E else`; for `if C { return Err(X); }`
    (also `else if`, also `if let … && …`) it is `C`; an `else { return Err(X) }` branch gives `else`."""
    out = []
    for m in re.finditer(r"return\s+Err\s*\(", body):
        close = rs2lean.balanced(body, m.end() - 1, "(", ")")
        err = norm(body[m.end():close])
        # enclosing block: walk back to the `{` that opens the block containing the return
        depth, k = 0, m.start() - 1
        while k >= 0:
            if body[k] == "}":
                depth += 1
            elif body[k] == "{":
                if depth == 0:
                    break
                depth -= 1
            k -= 1
        if k < 0:
            raise ExtractError("guard extraction: return outside a block")
        head = body[:k]
        # the guard header is the text between the previous `;` / `{` / `}` and this `{`
        j = max(head.rfind(";"), head.rfind("{"), head.rfind("}"))
        cond = norm(head[j + 1:])
        cond = re.sub(r"^(else\s+)?if\s+", "", cond) if not cond.startswith("let ") and cond != "else" else cond
        out.append((cond, err))
    return out


def lean_pairs(name, pairs):
    items = ",\n   ".join(f"({lean_str(a)}, {lean_str(b)})" for a, b in pairs)
    return f"def {name} : List (String × String) :=\n  [{items}]\n"


def grab(body, regex, what):
    m = re.search(regex, body, re.S)
    if not m:
        raise ExtractError(f"pattern for {what} not found")
    return norm(m.group(1))


def refresh_extracted(pid, repo):
    """P2.Props.C31 builds on P2.Props.C32 (merge laws), whose source tie imports P2/Extracted/C32.lean; ./check
    regenerates only the checked property's file, so the C31 extractor refreshes C32's from the same source
    tree (same layout as ./check writes it)."""
    import subprocess
    r = subprocess.run([sys.executable, f"/verif/props/{pid}_extract.py", repo], capture_output=True, text=True)
    if r.returncode != 0:
        raise ExtractError(f"{pid} extractor failed: {r.stdout[-300:]}")
    lines = [f"-- GENERATED by ./check from {repo} on every run; do not edit.", f"namespace P2.Extracted.{pid}", "",
             r.stdout, "", f"end P2.Extracted.{pid}", ""]
    new = "\n".join(lines)
    target = f"/verif/lean/P2/Extracted/{pid}.lean"
    try:
        old = open(target).read()
    except OSError:
        old = None
    if old != new:
        open(target, "w").write(new)


def merge_member_def(repo):
    """the three sequential `if`s of `state::merge`, symbolically executed (shared by C32 and C33)"""
    _, body = fn_body(repo, "p2panda-auth/src/group/crdt/state.rs", "merge")
    inner = block_after(body, "if let Some(member_state) = next_state.members.get_mut(&id)")
    return body, translate_block(inner, {
        "lean_name": "mergeMemberT",
        "params": "{A : Type} (lt : A → A → Bool) (mc1 ac1 : Nat) (a1 : A) (mc ac : Nat) (a : A)",
        "ret": "Nat × A × Nat",
        "places": {"member_state.member_counter": "mc", "member_state.access": "a", "member_state.access_counter": "ac"},
        "atoms": {"member_state_1.member_counter": "mc1", "member_state_1.access": "a1", "member_state_1.access_counter": "ac1"},
        "methods": {"tie_lt": {"value": "(lt {0} {recv} = true)"}},
        "outputs": ["member_state.member_counter", "member_state.access", "member_state.access_counter"],
    }, rewrites=[(r"merge_tie_break_less\(\s*&member_state_1\.access\s*,\s*&member_state\.access\s*\)",
                  "member_state.access.tie_lt(&member_state_1.access)")])
