#!/usr/bin/env python3
"""Extra extracted facts for C40 (printed as Lean defs into P2/Extracted/C40.lean):
* how many statements in sync_metrics.rs (outside the test module) assign or add to the topic totals;
* the statement sequence of handle_session_end (comments stripped, whitespace normalised)."""
import json, re, sys
repo = sys.argv[1]
src = open(repo + "/p2panda/src/streams/sync_metrics.rs").read()
src = src.split("#[cfg(test)]")[0]
src = re.sub(r"//[^\n]*", "", src)
n_sent = len(re.findall(r"self\.total_bytes_sent\s*(?:\+=|-=|=[^=])", src))
n_recv = len(re.findall(r"self\.total_bytes_received\s*(?:\+=|-=|=[^=])", src))
print("def sentAddSites : Nat := %d" % n_sent)
print("def recvAddSites : Nat := %d" % n_recv)
m = re.search(r"fn handle_session_end\(&mut self, session_id: SessionId\) -> Metrics \{(.*?)\n    \}", src, re.S)
if not m:
    sys.stderr.write("handle_session_end not found\n")
    sys.exit(1)
print("def sessionEndBody : String := %s" % json.dumps(" ".join(m.group(1).split())))
