#!/usr/bin/env python3
"""Prints Lean defs for P2/Extracted/C23.lean, read from the current source text:

* `nextEventSkeleton`: the statement skeleton of the `OperationReceived` branch of
  `ManagerEventStream::next_event` (manager/event_stream.rs). Every statement of the branch must be
  one of the known snippets; they are emitted as tokens *in the order they occur*, so moving the
  consumer de-duplication in front of the forwarding loop, dropping the `id == session_id` skip,
  forwarding something else than `operation.clone()` … changes the token list (or fails extraction).
* `liveArmGuard` / `remoteArmGuard`: the condition of the first `if` of the two arms of the live loop
  in `TopicLogSync::run` (protocols/topic_log_sync.rs), which must stand before the send / the event.
"""
import re
import sys

sys.path.insert(0, "/verif")
import rs2lean

repo = sys.argv[1]


def die(msg):
    sys.stderr.write("C23 extract: " + msg + "\n")
    sys.exit(1)


def norm(s):
    return re.sub(r"\s+", "", rs2lean.strip_comments(s))


# ---------------------------------------------------------------- next_event
src = open(f"{repo}/p2panda-sync/src/manager/event_stream.rs").read()
_, body = rs2lean.find_fn(src, "next_event")
t = norm(body)
start = t.find("ifletSome(operation)=operation{")
if start < 0:
    die("`if let Some(operation) = operation {` not found in next_event")
open_idx = t.index("{", start)
end = rs2lean.balanced(t, open_idx)
block = t[open_idx + 1:end]
after = t[end + 1:]
DBG = r'debug!\([^;]*?\);'
SNIPPETS = [
    ("lookup-or-swallow", r"letSome\(topic\)=state\.session_topic_map\.topic\(session_id\)else\{" + DBG + r"state\.session_topic_map\.drop\(session_id\);continue;\};"),
    ("keys", r"letkeys=state\.session_topic_map\.sessions\(topic\);"),
    ("", r"letmutdropped=vec!\[\];"),
    ("for[", r"foridinkeys\{"),
    ("skip-self", r"ifid==session_id\{continue;\}"),
    ("sender", r"letSome\(tx\)=state\.session_topic_map\.sender_mut\(id\)else\{" + DBG + r"state\.session_topic_map\.drop\(session_id\);continue;\};"),
    ("send", r"letresult=tx\.send\(ToSync::Payload\(operation\.clone\(\)\)\)\.await;"),
    ("collect-failed", r"ifresult\.is_err\(\)\{dropped\.push\(id\);\}"),
    ("]", r"\}"),
    ("drop-failed", r"foridindropped\{" + DBG + r"state\.session_topic_map\.drop\(id\);\}"),
    ("dedup", r"if!state\.dedup\.insert\(operation\.hash\(\)\)\{continue;\}"),
]
toks, pos, in_for = [], 0, False
while pos < len(block):
    for name, rx in SNIPPETS:
        if name == "]" and not in_for:
            continue
        m = re.compile(rx).match(block, pos)
        if m:
            if name == "for[":
                in_for = True
            if name == "]":
                in_for = False
            if name:
                toks.append(name)
            pos = m.end()
            break
    else:
        die("statement of unknown shape in the OperationReceived branch of next_event: " + block[pos:pos + 140])
if not after.startswith("return(state,Some(from_sync))"):
    die("the OperationReceived branch is not followed by `return (state, Some(from_sync))`")
toks.append("report")
print("def nextEventSkeleton : List String := [" + ", ".join('"' + x + '"' for x in toks) + "]")

# ---------------------------------------------------------------- live loop of TopicLogSync::run
src2 = open(f"{repo}/p2panda-sync/src/protocols/topic_log_sync.rs").read()
t2 = norm(src2)
m = re.search(r"ToSync::Payload\(operation\)=>\{if(.*?)\{(.*?)sink\.send\(TopicLogSyncMessage::Live\(operation\.header,operation\.body,?\)\)", t2)
if not m or "sink.send" in m.group(1):
    die("live arm: `ToSync::Payload(operation) => { if <guard> { … continue } … sink.send(Live(..))` not found")
if not re.match(r"(trace!\([^;]*?\);)?continue;\}", m.group(2)):
    die("live arm: the guard's block is not `{ [trace!] continue; }`")
print(f'def liveArmGuard : String := "{m.group(1)}"')
m = re.search(r"letTopicLogSyncMessage::Live\(header,body\)=messageelse\{.*?\};if(.*?)\{(.*?)self\.event_tx\.send\(TopicLogSyncEvent::OperationReceived\{", t2)
if not m or "event_tx" in m.group(1):
    die("remote arm: `let Live(header, body) = message else {…}; if <guard> { … continue } … event_tx.send(OperationReceived{..})` not found")
if not re.match(r"(trace!\([^;]*?\);)?continue;\}", m.group(2)):
    die("remote arm: the guard's block is not `{ [trace!] continue; }`")
print(f'def remoteArmGuard : String := "{m.group(1)}"')
