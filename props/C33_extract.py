#!/usr/bin/env python3
"""C33: Lean definitions regenerated from p2panda-auth/src/group/crdt/{state.rs, mod.rs}: the ordered
early-return checks of state::{add, remove, modify} as decision functions, the state updates inside their
closures (symbolically executed by rs2lean), the order of validate's rejections."""
import re
import sys
sys.path.insert(0, "/verif/props")
from grp_extract_lib import *  # noqa

repo = sys.argv[1] if len(sys.argv) > 1 else "/repo"
F = "p2panda-auth/src/group/crdt/state.rs"
M = "p2panda-auth/src/group/crdt/mod.rs"

# guard condition text -> Lean proposition over (aK aM aG : actor known / active / manager,
# tK tM : target known / active, self : actor == target). A binding `x_state` only exists where the
# corresponding `get` returned Some, hence the explicit `tK = true` for conditions on the target's state.
def cond_table(actor, target):
    a, t = actor + "_state", target + "_state"
    return {
        f"let Some({a}) = state.members.get(&{actor}) else": "aK = false",
        f"!{a}.is_member()": "aM = false",
        f"!{a}.is_manager()": "aG = false",
        f"!{a}.is_manager() && {actor} != {target}": "aG = false ∧ self = false",
        f"let Some({t}) = state.members.get(&{target}) && {t}.is_member()": "tK = true ∧ tM = true",
        f"let Some({t}) = state.members.get(&{target}) && !{t}.is_member()": "tK = true ∧ tM = false",
        f"!state.members.contains_key(&{target})": "tK = false",
        f"!{t}.is_member()": "tK = true ∧ tM = false",
        "else": "tK = false",
    }

def chain(fn, actor, target):
    _, body = fn_body(repo, F, fn)
    gs = guards(body)
    tbl = cond_table(actor, target)
    term = "none"
    roles = []
    for cond, err in reversed(gs):
        if cond not in tbl:
            raise ExtractError(f"{fn}: unknown guard condition {cond!r}")
        m = re.fullmatch(r"GroupMembershipError::(\w+)\((\w+)\)", err)
        if not m:
            raise ExtractError(f"{fn}: unexpected error expression {err!r}")
        role = {actor: "actor", target: "target"}.get(m.group(2))
        if role is None:
            raise ExtractError(f"{fn}: error {err!r} names neither {actor} nor {target}")
        roles.append(f"{m.group(1)}:{role}")
        term = f"if {tbl[cond]} then some \"{m.group(1)}\" else {term}"
    roles.reverse()
    print(f"/-- the early-return checks of `state::{fn}`, in source order ({len(gs)} guards) -/")
    print(f"def {fn}ChecksT (aK aM aG tK tM self : Bool) : Option String :=\n  {term}\n")
    print(f"def {fn}ErrArgs : List String := [" + ", ".join(lean_str(r) for r in roles) + "]\n")
    return body

try:
    add_body = chain("add", "adder", "added")
    rem_body = chain("remove", "remover", "removed")
    mod_body = chain("modify", "modifier", "modified")

    # ---- the state updates (closure bodies), symbolically executed ----------------------------------
    blk = block_after(add_body, ".and_modify(|added|")
    print("/-- `add`: body of `.and_modify(|added| …)` -/")
    print(translate_block(blk, {
        "lean_name": "addModifyT", "params": "{A : Type} (mc ac : Nat) (a acc : A)", "ret": "Nat × A × Nat",
        "places": {"added.member_counter": "mc", "added.access": "a", "added.access_counter": "ac"},
        "atoms": {"added.is_member()": "(mc % 2 = 1)", "access": "acc"},
        "outputs": ["added.member_counter", "added.access", "added.access_counter"]}))
    print("def addInsert : String := " + lean_str(grab(add_body, r"\.or_insert\(\s*MemberState\s*\{(.*?)\}\s*\)", "or_insert")))
    blk = block_after(rem_body, ".and_modify(|removed|")
    print("/-- `remove`: body of `.and_modify(|removed| …)` -/")
    print(translate_block(blk, {
        "lean_name": "removeModifyT", "params": "{A : Type} (mc ac : Nat) (a : A)", "ret": "Nat × A × Nat",
        "places": {"removed.member_counter": "mc", "removed.access": "a", "removed.access_counter": "ac"},
        "atoms": {"removed.is_member()": "(mc % 2 = 1)"},
        "outputs": ["removed.member_counter", "removed.access", "removed.access_counter"]}))
    blk = block_after(mod_body, ".and_modify(|modified|")
    print("/-- `modify`: body of `.and_modify(|modified| …)` -/")
    print(translate_block(blk, {
        "lean_name": "modifyModifyT", "params": "{A : Type} [DecidableEq A] (mc ac : Nat) (a acc : A)", "ret": "Nat × A × Nat",
        "places": {"modified.member_counter": "mc", "modified.access": "a", "modified.access_counter": "ac"},
        "atoms": {"access": "acc"},
        "outputs": ["modified.member_counter", "modified.access", "modified.access_counter"]}))
    _, uns = fn_body(repo, M, "apply_remove_unsafe")
    blk = block_after(uns, ".and_modify(|state|")
    print("/-- `apply_remove_unsafe`: body of `.and_modify(|state| …)` -/")
    print(translate_block(blk, {
        "lean_name": "removeUnsafeT", "params": "(mc : Nat)", "ret": "Nat × Nat",
        "places": {"state.member_counter": "mc"}, "atoms": {},
        "outputs": ["state.member_counter", "state.member_counter"]},
        rewrites=[(r"\+=\s*1\s*\}", "+= 1; }")]))  # the statement has no trailing `;` in the source
    _, cr = fn_body(repo, F, "create")
    print("def createEntry : String := " + lean_str(grab(cr, r"MemberState\s*\{(.*?)\}", "create entry")))
    _, iam = fn_body(repo, F, "is_active_manager")
    print("def isActiveManagerBody : String := " + lean_str(norm(iam)))

    print("/-- `state::merge`: the three sequential `if`s (the state an operation is judged on is a merge of its dependencies' states) -/")
    print(merge_member_def(repo)[1])
    # ---- validate / apply_action: order of the rejections ------------------------------------------------
    _, val = fn_body(repo, M, "validate")
    vs = []
    for cond, err in guards(val):
        m = re.match(r"GroupCrdtError::(\w+)", err)
        if not m:
            raise ExtractError(f"validate: unexpected error {err!r}")
        vs.append((m.group(1), cond))
    print(lean_pairs("validateOrder", vs))
    print("def managerGuardPattern : String := " + lean_str(grab(val, r"match\s+&operation\.action\(\)\s*\{\s*(.*?)\s*if\s+member\.is_group", "manager guard pattern")))
    print("def validateStateUsed : String := " + lean_str(grab(val, r"let\s+result\s*=\s*apply_action\(\s*(.*?),", "state validate applies the action to")))
    _, ap = fn_body(repo, M, "apply_action")
    i_f, i_m = ap.find("filter.contains(&id)"), ap.find("match action.clone()")
    if i_f < 0 or i_m < 0:
        raise ExtractError("apply_action: filter check or action match not found")
    print("def filterBeforeAction : Bool := " + ("true" if i_f < i_m else "false"))
    print("def applyActionMissingGroup : String := " + lean_str(grab(ap, r"let\s+members_y\s*=\s*(if\s+action\.is_create\(\).*?)\s*;", "members_y")))
except ExtractError as e:
    print(f"extraction failed: {e}")
    sys.exit(1)
