#!/usr/bin/env python3
"""Prints Lean defs for P2/Extracted/C26.lean: the default `max_frame_len` of `Codec::default()`
(a product of integer literals in the source) and the width of the length prefix."""
import re
import sys

repo = sys.argv[1]
src = open(f"{repo}/p2panda-net/src/codec.rs").read()
m = re.search(r"fn default\(\) -> Self \{\s*Self \{\s*max_frame_len:\s*([0-9_ *]+),", src)
if not m:
    sys.stderr.write("C26 extract: default max_frame_len not found\n")
    sys.exit(1)
val = 1
for f in m.group(1).split("*"):
    val *= int(f.strip().replace("_", ""))
print(f"def defaultMaxFrameLen : Nat := {val}")
# the prefix is written with put_u32 and read from src[..4] with u32::from_be_bytes
if not re.search(r"dst\.put_u32\(", src) or not re.search(r"u32::from_be_bytes\(", src) or not re.search(r"src\[\.\.4\]", src):
    sys.stderr.write("C26 extract: big-endian 4-byte prefix calls not found\n")
    sys.exit(1)
print("def prefixLen : Nat := 4")
