#!/usr/bin/env python3
"""Prints Lean defs for P2/Extracted/C26.lean: the default `max_frame_len` of `Codec::default()`
(a product of integer literals in the source) and the width of the length prefix."""
import re
import sys

repo = sys.argv[1]
src = open(f"{repo}/p2panda-net/src/codec.rs").read()
m = re.search(r"fn default\(\) -> Self \{\s*Self \{\s*max_frame_len:\s*([0-9_ *]+),", src)
if not m:
    sys.stderr.write("C26 extract: default max_frame_len not found\n")
    sys.exit(1)
val = 1
for f in m.group(1).split("*"):
    val *= int(f.strip().replace("_", ""))
print(f"def defaultMaxFrameLen : Nat := {val}")
# the prefix is written with put_u32 and read from src[..4] with u32::from_be_bytes
if not re.search(r"dst\.put_u32\(", src) or not re.search(r"u32::from_be_bytes\(", src) or not re.search(r"src\[\.\.4\]", src):
    sys.stderr.write("C26 extract: big-endian 4-byte prefix calls not found\n")
    sys.exit(1)
print("def prefixLen : Nat := 4")

# ---- Codec::decode, regenerated from the current source text by rs2lean -------------------------
# The translator's expression subset has no range indexing; the two slice reads are renamed
# textually (each must occur exactly once) to opaque calls before translation. Everything that
# decides — the comparisons, their order, the early returns, the number of bytes consumed — is
# translated from the text as it is now.
import os
import tempfile
sys.path.insert(0, os.path.join(os.path.dirname(os.path.abspath(__file__)), ".."))
import rs2lean  # noqa: E402

subs = [
    ('src[..4].try_into().expect("checked available bytes")', "first4(src)"),
    ("&src[4..4 + frame_len]", "payload(src, frame_len)"),
]
text = src
for a, b in subs:
    if text.count(a) != 1:
        sys.stderr.write(f"C26 extract: slice read {a!r} not found exactly once in codec.rs\n")
        sys.exit(1)
    text = text.replace(a, b)
tmp = tempfile.mkdtemp(prefix="c26x")
os.makedirs(os.path.join(tmp, "p2panda-net", "src"))
open(os.path.join(tmp, "p2panda-net", "src", "codec.rs"), "w").write(text)
spec = {
    "lean_name": "decodeT", "file": "p2panda-net/src/codec.rs", "fn": "decode", "impl": "Decoder for Codec<M>",
    "params": "{M E : Type} (tooLarge postcard : E) (fromBe32 : List Nat → Nat) (max : Nat) (de : List Nat → Option M) (buf : List Nat)",
    "ret": "Except E (Option M) × List Nat",
    "places": {"src": "buf"},
    "atoms": {
        "src.len()": "buf.length",
        "self.max_frame_len": "max",
        "first4(src)": "(buf.take 4)",
        "u32::from_be_bytes(bytes)asusize": "(fromBe32 {bytes})",
        "Ok(None)": "(Except.ok none)",
        "Err(CodecError::TooLargeMessage(frame_len,self.max_frame_len))": "(Except.error tooLarge)",
        "postcard::from_bytes(payload(src,frame_len))?": "(de ((buf.drop 4).take {frame_len}))",
        "Ok(Some(item))": "(match {item} with | none => Except.error postcard | some m => Except.ok (some m))",
    },
    "effects": {"src.advance((4+frame_len))": {"src": "({src}.drop (4 + {frame_len}))"}},
    "outputs": ["return", "src"],
}
try:
    print(rs2lean.translate(spec, tmp))
except (rs2lean.TranslateError, OSError, KeyError, IndexError) as e:
    sys.stderr.write(f"C26 extract: translation of Codec::decode failed: {e}\n")
    sys.exit(1)
finally:
    import shutil
    shutil.rmtree(tmp, ignore_errors=True)
