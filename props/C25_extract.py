#!/usr/bin/env python3
"""Prints Lean defs for P2/Extracted/C25.lean: the statement skeleton of both `run` bodies of
`p2panda-sync/src/protocols/topic_handshake.rs`, read from the current source text.

Every top-level statement of a `run` body must have one of the known shapes (event send, sink send
with its error mapping, stream receive with its else-branch, item-error mapping, message pattern
with its else-branch, flushes, final `Ok(..)`); it is emitted as one token.  A statement of any other
shape (e.g. a `let … else` turned into an `if let` without else) is an extraction failure.  The Lean
side (`P2.C25.compile`) gives the tokens their meaning and `c25_model_is_source` proves that the
compiled skeletons are the hand-written models."""
import re
import sys

sys.path.insert(0, "/verif")
import rs2lean  # only for strip_comments / balanced / find_fn

repo = sys.argv[1]
src = open(f"{repo}/p2panda-sync/src/protocols/topic_handshake.rs").read()

SHAPES = [
    (r"^self\.event_tx\.send\(TopicHandshakeEvent::(Initiate|TopicReceived|Done)\((self\.topic|topic)(?:\.clone\(\))?\)\.into\(\)\)\.await\?$",
     lambda m: f"ev:{m.group(1)}:{'self' if m.group(2) == 'self.topic' else 'bound'}"),
    (r"^self\.event_tx\.send\(TopicHandshakeEvent::Accept\.into\(\)\)\.await\?$", lambda m: "ev:Accept"),
    (r"^sink\.send\(TopicHandshakeMessage::Topic\(self\.topic\.clone\(\)\)\)\.await\.map_err\(\|err\|TopicHandshakeError::(MessageSink|MessageStream)\(format!\(\"\{err:\?\}\"\)\)\)\?$",
     lambda m: f"send:Topic:self:{m.group(1)}"),
    (r"^sink\.send\(TopicHandshakeMessage::Done\)\.await\.map_err\(\|err\|TopicHandshakeError::(MessageSink|MessageStream)\(format!\(\"\{err:\?\}\"\)\)\)\?$",
     lambda m: f"send:Done:{m.group(1)}"),
    (r"^letSome\(message\)=stream\.next\(\)\.awaitelse\{returnErr\(TopicHandshakeError::(\w+)\);\}$", lambda m: f"recv:{m.group(1)}"),
    (r"^letmessage=message\.map_err\(\|err\|TopicHandshakeError::(MessageSink|MessageStream)\(format!\(\"\{err:\?\}\"\)\)\)\?$",
     lambda m: f"itemerr:{m.group(1)}"),
    (r"^letTopicHandshakeMessage::Topic\(topic\)=messageelse\{returnErr\(TopicHandshakeError::(\w+)\(message\)\);\}$",
     lambda m: f"expect:Topic:{m.group(1)}"),
    (r"^letTopicHandshakeMessage::Done=messageelse\{returnErr\(TopicHandshakeError::(\w+)\(message\)\);\}$",
     lambda m: f"expect:Done:{m.group(1)}"),
    (r"^sink\.flush\(\)\.await\.map_err\(\|err\|TopicHandshakeError::(MessageSink|MessageStream)\(format!\(\"\{err:\?\}\"\)\)\)\?$",
     lambda m: f"flush:{m.group(1)}"),
    (r"^self\.event_tx\.flush\(\)\.await\?$", lambda m: "evflush"),
    (r"^Ok\(\(\)\)$", lambda m: "ret:unit"),
    (r"^Ok\(topic\)$", lambda m: "ret:bound"),
]


def statements(body):
    """top-level statements of a block body (split at `;` outside braces/parens)"""
    out, depth, cur = [], 0, []
    for ch in body:
        if ch in "{([":
            depth += 1
        elif ch in "})]":
            depth -= 1
        if ch == ";" and depth == 0:
            out.append("".join(cur))
            cur = []
        else:
            cur.append(ch)
    tail = "".join(cur).strip()
    if tail:
        out.append(tail)
    return [re.sub(r"\s+", "", s) for s in out if s.strip()]


def skeleton(impl):
    sig, body = rs2lean.find_fn(src, "run", impl)
    toks = []
    for s in statements(body):
        for rx, f in SHAPES:
            m = re.match(rx, s)
            if m:
                toks.append(f(m))
                break
        else:
            sys.stderr.write(f"C25 extract: statement of unknown shape in `run` of {impl}: {s[:160]}\n")
            sys.exit(1)
    return toks


for name, impl in (("initiatorSkeleton", "Protocol for TopicHandshakeInitiator<T, Evt>"),
                   ("acceptorSkeleton", "Protocol for TopicHandshakeAcceptor<T, Evt>")):
    toks = skeleton(impl)
    print(f"def {name} : List String := [" + ", ".join('"' + t + '"' for t in toks) + "]")
