#!/usr/bin/env python3
"""Extracts the control-flow shape of `EphemeralStreamSubscription::poll_next` from the current source text and
prints Lean definitions (P2/Extracted/C17.lean). The C17 model's repaired `pollCore` is a loop over the inner stream
that leaves only by yielding a valid message, by the inner stream being pending (`ready!`, waker registered) or by
its end — never by a hand-written `Poll::Pending` after having consumed an item, and with no skip budget."""
import json, re, sys
sys.path.insert(0, "/verif")
import rs2lean

repo = sys.argv[1]
src = open(repo + "/p2panda/src/streams/ephemeral_stream.rs").read()
sig, body = rs2lean.find_fn(src, "poll_next", "Stream for EphemeralStreamSubscription<M>")
body = body.strip()
# loop head = text before the first `{` of the body's first statement
m = re.match(r"\s*(loop|for\b[^{]*|while\b[^{]*?)\s*\{", body)
head = " ".join(m.group(1).split()) if m else "NONE:" + " ".join(body.split())[:60]
after = ""
inner = body
if m:
    open_idx = m.end() - 1
    close_idx = rs2lean.balanced(body, open_idx)
    inner = body[open_idx + 1:close_idx]
    after = " ".join(body[close_idx + 1:].split())
squash = lambda s: "".join(s.split())
def return_exprs(text):
    out = []
    for mm in re.finditer(r"\breturn\b", text):
        depth, k = 0, mm.end()
        while k < len(text):
            c = text[k]
            if c in "({[":
                depth += 1
            elif c in ")}]":
                if depth == 0:
                    break
                depth -= 1
            elif c in ";," and depth == 0:
                break
            k += 1
        out.append(squash(text[mm.end():k]))
    return out
returns = return_exprs(inner)
def q(s): return json.dumps(s)
n_pending = len(re.findall(r"Poll::Pending", body))
n_ready = len(re.findall(r"ready!\(", body))
mi = re.search(r"ready!\((.*?)\)\)", body, re.S)
inner_polled = squash(mi.group(1) + ")") if mi else "NONE"
n_wake = len(re.findall(r"wake(_by_ref)?\(", body))
n_break = len(re.findall(r"\bbreak\b", body))
print("def loopHead : String := " + q(head))
print("def afterLoop : String := " + q(after))
print("def pendingCount : Nat := %d" % n_pending)
print("def readyMacroCount : Nat := %d" % n_ready)
print("def innerPolled : String := " + q(inner_polled))
print("def wakeCalls : Nat := %d" % n_wake)
print("def breakCount : Nat := %d" % n_break)
print("def returnsInLoop : List String := [" + ", ".join(q(r) for r in returns) + "]")
