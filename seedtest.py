#!/usr/bin/env python3
"""
seedtest.py <id> [--skip-confirm] [--tier quick]

Evaluates one independently written property-breaking change (DESIGN.md §9):

  input   /tmp/seed/out/<id>/{patch.diff, demo.diff|demo.*, meta.json}  and the agent's worktree /tmp/seed/<id>
  step 1  confirm, in the scratch worktree: demo fails with the change, existing tests of the touched crates pass with
          the change, demo passes with the change reverted
  step 2  run ./check <property> against the changed tree *in a private mount namespace*: a copy of /repo's HEAD with
          the patch applied is bind-mounted over /repo and a copy of /verif over /verif, so neither the real /repo nor
          the real /verif (evidence, Extracted files, target dir) is touched and other people's builds are not disturbed
  output  /verif/seeded/<id>/{patch.diff, demo.diff, meta.json}  (meta.json gains "confirmed" and "check" sections)

<id> is `<property>` or `<property>-<n>`; the property id is the part before the dash.
"""
import json
import os
import re
import shutil
import subprocess
import sys
import time

SEED = "/tmp/seed"
ST = "/tmp/st"


def sh(cmd, cwd=None, timeout=7200):
    r = subprocess.run(cmd, shell=True, cwd=cwd, stdout=subprocess.PIPE, stderr=subprocess.STDOUT, text=True, timeout=timeout)
    return r.returncode, r.stdout


def main():
    global ST
    sid = sys.argv[1]
    pid = sid.split("-")[0]
    ST = f"/tmp/st/{sid}"  # per seed: two concurrent evaluations must not share the patched copy
    skip_confirm = "--skip-confirm" in sys.argv
    tier = "thorough" if "--thorough" in sys.argv else "quick"
    out = f"{SEED}/out/{sid}"
    wt = f"{SEED}/{sid}"
    meta = json.load(open(f"{out}/meta.json")) if os.path.exists(f"{out}/meta.json") else {"property": pid}
    patch = f"{out}/patch.diff"
    files = re.findall(r"^\+\+\+ b/(\S+)", open(patch).read(), re.M)
    crates = sorted({f.split("/")[0] for f in files})
    # a private target dir per worktree: different worktrees of one workspace produce identically named
    # artifacts, so a shared target dir can silently link another worktree's build
    env = f"CARGO_NET_OFFLINE=true CARGO_TARGET_DIR={wt}/target"
    confirmed = {}
    if not skip_confirm:
        touch = " ".join(files)
        # make sure the patch is applied in the worktree
        rc, _ = sh(f"git apply --check -R {patch}", cwd=wt)
        if rc != 0:
            rc2, o = sh(f"git apply {patch}", cwd=wt)
            if rc2 != 0:
                print("cannot apply patch in worktree:", o)
                sys.exit(2)
        demo_cmd = meta.get("demo_cmd") or ""
        # the demo is already present in the worktree: never re-apply it
        segs = []
        for line in demo_cmd.split("\n"):
            line = re.sub(r"\s#\s*\([^)]*\)", " ", line)          # "# (already applied)" in the middle of a line
            if "&&" not in line.split(" #", 1)[-1]:
                line = re.sub(r"\s#.*$", "", line)
            for seg in line.split("&&"):
                seg = seg.strip()
                if seg and not ("git apply" in seg and "demo" in seg) and not seg.startswith("#"):
                    segs.append(seg)
        demo_cmd = " && ".join(segs)
        if "cargo" not in demo_cmd:
            print("meta.json has no usable demo_cmd")
            sys.exit(2)
        demo_cmd = re.sub(r"CARGO_TARGET_DIR=\S+", f"CARGO_TARGET_DIR={wt}/target", demo_cmd)
        if "CARGO_TARGET_DIR" not in demo_cmd:
            demo_cmd = env + " " + demo_cmd
        sh(f"touch {touch}", cwd=wt)
        t0 = time.time()
        rc, o = sh(demo_cmd, cwd=wt)
        confirmed["demo_with_change"] = {"rc": rc, "tail": o[-600:], "s": round(time.time() - t0)}
        print(f"[confirm] demo with change: rc={rc}")
        skip = "-- --skip supervisor::tests" if "p2panda-net" in crates else ""
        t0 = time.time()
        rc_t, o = sh(f"{env} cargo test {' '.join('-p ' + c for c in crates)} --offline {skip} 2>&1 | grep -E '^test result|FAILED|failed|error' | head -40", cwd=wt)
        failed = [l for l in o.split("\n") if re.search(r"\bFAILED\b|error(\[|:)", l)]
        # the demo itself (if it is a test inside the crate) is expected to fail; every other test must pass
        confirmed["existing_tests_with_change"] = {"summary": o[-1500:], "s": round(time.time() - t0)}
        print(f"[confirm] existing tests with change:\n{o[-800:]}")
        sh(f"git apply -R {patch} && touch {touch}", cwd=wt)
        rc, o = sh(demo_cmd, cwd=wt)
        confirmed["demo_without_change"] = {"rc": rc, "tail": o[-400:]}
        print(f"[confirm] demo without change: rc={rc}")
        sh(f"git apply {patch} && touch {touch}", cwd=wt)
        confirmed["ok"] = (confirmed["demo_with_change"]["rc"] != 0 and confirmed["demo_without_change"]["rc"] == 0)
    # ---- step 2: the check, in a private mount namespace ----
    repo_copy = f"{ST}/repo"
    verif_copy = f"{ST}/verif"
    os.makedirs(ST, exist_ok=True)
    sh(f"rsync -a --delete --exclude target --exclude .git /repo/ {repo_copy}/")
    # rsync keeps mtimes; uncommitted edits of other people in /repo must not leak into the evaluation: restore HEAD content
    rc, changed = sh("git -C /repo status --porcelain | grep -v '^??' | awk '{print $2}'")
    for f in changed.split():
        rc, _ = sh(f"git -C /repo show HEAD:{f} > {repo_copy}/{f}")
    rc, o = sh(f"git apply --directory=. {patch}", cwd=repo_copy) if False else sh(f"patch -p1 -s < {patch}", cwd=repo_copy)
    if rc != 0:
        print("patch does not apply to current HEAD:", o)
        sys.exit(2)
    sh(f"rsync -a --delete --exclude /work --exclude /replays --exclude /seeded /verif/ {verif_copy}/")
    t0 = time.time()
    cmd = (f"unshare -m sh -c 'mount --bind {repo_copy} /repo && mount --bind {verif_copy} /verif && cd /verif && "
           f"VERIF_SEED=1 ./check {pid} --tier {tier}'")
    rc, o = sh(cmd)
    wall = round(time.time() - t0)
    vio = [l for l in o.split("\n") if l.startswith("VIOLATION")]
    print(o[-2500:])
    print(f"[check] rc={rc} wall={wall}s violations={vio}")
    replay = None
    m = re.search(r"replay=(\S+)", vio[0]) if vio else None
    if m:
        rp = m.group(1).replace("/verif/", verif_copy + "/")
        if os.path.exists(rp):
            replay = json.load(open(rp))
    dest = f"/verif/seeded/{sid}"
    os.makedirs(dest, exist_ok=True)
    shutil.copy(patch, dest)
    for f in os.listdir(out):
        if f.startswith("demo"):
            shutil.copy(f"{out}/{f}", dest)
    meta["confirmed"] = confirmed
    meta["check"] = {"cmd": f"./check {pid} --tier {tier}", "rc": rc, "wall_s": wall, "violation_lines": vio,
                     "caught": bool(vio) and rc == 1,
                     "with_failing_input": bool(vio) and "no-failing-input-found" not in vio[0],
                     "replay": replay,
                     "log_tail": o[-1500:], "repo_head": sh("git -C /repo rev-parse --short HEAD")[1].strip()}
    json.dump(meta, open(f"{dest}/meta.json", "w"), indent=1)
    print(f"[seedtest] {sid}: caught={meta['check']['caught']} failing_input={meta['check']['with_failing_input']}")


if __name__ == "__main__":
    main()
