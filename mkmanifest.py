#!/usr/bin/env python3
"""Regenerate MANIFEST.json from props/*.json (one file per claimed property) + hooks.json."""
import glob, json, os, subprocess
V = os.path.dirname(os.path.abspath(__file__))
props = [json.loads(l) for l in open(os.path.join(V, "properties.jsonl"))]
ids = [p["id"] for p in props]
hooks = json.load(open(os.path.join(V, "hooks.json")))
na_reasons = json.load(open(os.path.join(V, "not_applicable.json"))) if os.path.exists(os.path.join(V, "not_applicable.json")) else {}
checks, claimed = [], set()
for pid in ids:
    p = os.path.join(V, "props", pid + ".json")
    if not os.path.exists(p):
        continue
    c = json.load(open(p))
    if c.get("disabled"):
        continue
    # claim a property only once its check has produced a clean evidence file on this tree
    ev = os.path.join(V, "evidence", pid + ".json")
    if not os.path.exists(ev) or json.load(open(ev)).get("violations", 1) != 0:
        continue
    claimed.add(pid)
    checks.append({
        "property_id": pid,
        "quick_cmd": f"./check {pid} --tier quick",
        "thorough_cmd": f"./check {pid} --tier thorough",
        "evidence_file": f"/verif/evidence/{pid}.json",
        "replay_cmd_template": f"./check {pid} --replay {{path}}",
        "engine": "lean4-proof+correspondence",
        "level_claimed": {"category": c.get("level", "proof"), "text": c["level_text"], "design_ref": c.get("design_ref", "DESIGN.md §6")},
        "level_note": c["level_note"],
        "technique": c.get("technique", "Lean 4 machine-checked proof over a hand-written model + differential correspondence check against the implementation"),
    })
man = {
    "version": 1,
    "setup_cmd": "./setup.sh",
    "hooks": hooks,
    "engines": [{
        "name": "lean4-proof+correspondence",
        "path": "/verif/check",
        "serves_properties": sorted(claimed),
        "kind_free_text": "Lean 4 theorems about hand-written executable models (lean/P2), re-checked by lake build + #print axioms audit on every run; models tied to /repo's working tree by per-property Rust harnesses (harness/) that run the real code and the compiled model driver on the same generated inputs and diff the answers; constants re-extracted from the sources into lean/P2/Extracted",
    }],
    "checks": checks,
    "not_applicable": [{"property_id": i, "reason": na_reasons.get(i, "no check built yet in this state of /verif (design in DESIGN.md §6); not claimed")} for i in ids if i not in claimed],
    "notes": "See DESIGN.md. ./check <id> --tier quick|thorough; VERIF_SEED and VERIF_TIER honoured. known_findings.json lists recorded findings and fixed defects.",
}
json.dump(man, open(os.path.join(V, "MANIFEST.json"), "w"), indent=1)
print(f"{len(checks)} checks, {len(man['not_applicable'])} not applicable")
