import P2.Model.SyncProto
import P2.Model.SyncPair
import P2.Model.SyncText
import P2.Drv.Util
/-
Requests:
  `pair #<id> cap=<c> A scope=<a>:<l>,…;… ops=<a>.<l>.<s>:<id>/<bytes>,…|- B scope=… ops=…`
      → `A: sent=<transcript> recv=<ids> fin=<metrics> hts=<heights after ingest> | B: …`
  `side #<id> cap=<c> rx=<0|1> scope=… | <I/O outcome>*`   (one side's recorded script, as in C20)
      → `sent=… | ev=… | res=…`
-/
open P2 P2.Sync P2.Sync.Text P2.Drv

def sop? (s : List Char) : Option SOp :=
  match splitC ':' s with
  | [k, v] =>
    match (splitC '.' k).mapM nat?, pair? '/' v with
    | some [a, l, sq], some (id, b) => some { a := a, l := l, s := sq, id := id, bytes := b }
    | _, _ => none
  | _ => none

def ops? (s : List Char) : Option (List SOp) :=
  if s = ['-'] then some [] else (splitC ',' s).mapM sop?

def replica? (ts : List String) : Option Replica := do
  let sc ← kv? "scope" ts
  let sc ← scope? sc
  let os ← kv? "ops" ts
  let os ← ops? os
  pure { store := os, scope := sc }

def showSide (cap : Nat) (x y : Replica) : String :=
  "sent=" ++ " ".intercalate ((transcript x y).map showMsg)
    ++ " recv=" ++ ",".intercalate ((received cap y x).map fun e => toString e.id)
    ++ " fin=" ++ showMetrics (finalMetrics x y)
    ++ " hts=" ++ showHeights (heightsAfter cap x y)

def handlePair (ts : List String) : String :=
  match splitTok "B" ts with
  | [l, rb] =>
    match splitTok "A" l with
    | [hdr, ra] =>
      match (kv? "cap" hdr).bind nat?, replica? ra, replica? rb with
      | some cap, some a, some b => "A: " ++ showSide cap a b ++ " | B: " ++ showSide cap b a
      | _, _, _ => "bad-op"
    | _ => "bad-op"
  | _ => "bad-op"

def handleSide (ts : List String) : String :=
  match splitTok "|" ts with
  | [hdr, items] =>
    match kv? "cap" hdr, kv? "rx" hdr, kv? "scope" hdr, items.mapM item? with
    | some cap, some rx, some scope, some script =>
      match nat? cap, nat? rx, scope? scope with
      | some cap, some rx, some scope => showSt (run (curCfg scope cap (rx != 0)) script)
      | _, _, _ => "bad-op"
    | _, _, _, _ => "bad-op"
  | _ => "bad-op"

def handle (line : String) : String :=
  match tokens line with
  | "pair" :: ts => handlePair ts
  | "side" :: ts => handleSide ts
  | _ => "bad-op"

def main : IO Unit := runMain handle
