import P2.Model.ProcStream
import P2.Drv.Util
/-
Request: `cur <kind> <n> a=.. p1=.. n1=.. [p2=.. n2=.. [p3=.. n3=..]] | <event>*`   (see harness/h_c13)
The observed event trace is replayed through the transition systems of `P2/Model/ProcStream.lean`:
  single / bag / chain2 / chain3 : one `SL` per `.layer()`, the items a layer yields are the next layer's input
  comp2                          : `CS`, `guard = true` iff every `process` delay of stage 2 is 0
  comp3                          : no transition system (depth-2 model only): accounting
                                   `expected inputs lost` with `lost` = the cancelled hand-overs of the trace
Answer: the items yielded by the last stream in order (` !undrained` appended if the trace ends while the model
still holds items: a stall); `bad-trace` if an observed event is not enabled (or names another item than the model's).
-/
open P2 P2.ProcStream P2.Drv

def fmtList (l : List Nat) : String := ",".intercalate (l.map toString)

/-- `<L><code><rest>` → (layer, code, rest) -/
def splitEv (t : String) : Option (Nat × Char × String) :=
  match t.toList with
  | l :: c :: r => if l.isDigit then some (l.toNat - '0'.toNat, c, String.ofList r) else none
  | _ => none

/-- `s:x@i` or `s:x` → (s, x, i?) -/
def parseStageItem (r : String) : Option (Nat × Nat × Option Nat) :=
  match r.splitOn ":" with
  | [s, xi] =>
    match xi.splitOn "@" with
    | [x] => do let s ← s.toNat?; let x ← x.toNat?; pure (s, x, none)
    | [x, i] => do let s ← s.toNat?; let x ← x.toNat?; let i ← i.toNat?; pure (s, x, some i)
    | _ => none
  | _ => none

def setAt (l : List SL) (i : Nat) (v : SL) : List SL := l.set i v

/-- Chains of single layers. `layers[k]` is layer k+1. -/
def stepChain (layers : List SL) (t : String) : Option (List SL) := do
  let (l, c, r) ← splitEv t
  if l = 0 then none
  let k := l - 1
  let s ← layers[k]?
  if c = 'u' then
    let x ← r.toNat?
    if s.src.head? = some x then (stepS s ActS.pull).map (setAt layers k) else none
  else if c = 'r' then
    let x ← r.toNat?
    if s.inCh.head? = some x then (stepS s ActS.recv).map (setAt layers k) else none
  else if c = 'd' then
    let x ← r.toNat?
    if s.busy = some x then (stepS s ActS.procDone).map (setAt layers k) else none
  else if c = 'o' then
    let (st, x, i?) ← parseStageItem r
    let i ← i?
    if st = 1 ∧ s.box[i]? = some x then (stepS s (ActS.nextAt i)).map (setAt layers k) else none
  else if c = 'y' then
    let x ← r.toNat?
    if s.outCh.head? = some x then
      let s' ← stepS s ActS.yld
      let layers := setAt layers k s'
      -- the yielded item is the next layer's input
      match layers[k + 1]? with
      | some nx => some (setAt layers (k + 1) { nx with src := nx.src ++ [x] })
      | none => some layers
    else none
  else none

structure CDrv where
  s : CS
  cancelSeen : Option Nat

def stepComp (guard : Bool) (d : CDrv) (t : String) : Option CDrv := do
  let (l, c, r) ← splitEv t
  if l ≠ 1 then none
  let s := d.s
  if c = 'u' then
    let x ← r.toNat?
    if s.src.head? = some x then (stepC guard s ActC.pull).map (fun s' => { d with s := s' }) else none
  else if c = 'c' then
    -- the future of `second.process(x)` was dropped: must be the hand-over in flight; the `recv` follows
    let (st, x, _) ← parseStageItem r
    if st = 2 ∧ s.hand = some x ∧ d.cancelSeen = none then some { d with cancelSeen := some x } else none
  else if c = 'r' then
    let x ← r.toNat?
    if s.inCh.head? = some x ∧ s.hand = d.cancelSeen then
      (stepC guard s ActC.recv).map (fun s' => { s := s', cancelSeen := none })
    else none
  else if d.cancelSeen.isSome then none
  else if c = 'd' then
    let x ← r.toNat?
    if s.busy = some x then (stepC guard s ActC.procDone).map (fun s' => { d with s := s' }) else none
  else if c = 'o' then
    let (st, x, _) ← parseStageItem r
    if st = 1 ∧ s.box1.head? = some x then (stepC guard s ActC.firstWins).map (fun s' => { d with s := s' })
    else if st = 2 ∧ s.box2.head? = some x then (stepC guard s ActC.secondWins).map (fun s' => { d with s := s' })
    else none
  else if c = 'i' then
    let (st, x, _) ← parseStageItem r
    if st = 2 ∧ s.hand = some x then some d else none
  else if c = 'f' then
    let (st, x, _) ← parseStageItem r
    if st = 2 ∧ s.hand = some x then (stepC guard s ActC.handDone).map (fun s' => { d with s := s' }) else none
  else if c = 'y' then
    let x ← r.toNat?
    if s.outCh.head? = some x then (stepC guard s ActC.yld).map (fun s' => { d with s := s' }) else none
  else none

def parseKV (t : String) : Option (String × List Nat) :=
  match t.splitOn "=" with
  | [k, v] => (if v = "" then some [] else (v.splitOn ",").mapM String.toNat?).map (fun l => (k, l))
  | _ => none

def handle (line : String) : String :=
  match splitTok "|" (tokens line) with
  | [head, evs] =>
    match head with
    | mode :: kind :: nS :: kvs =>
      match nS.toNat?, kvs.mapM parseKV with
      | some n, some kvs =>
        if mode ≠ "cur" then "bad-op" else
        let inputs := List.range n
        let p2zero := match kvs.find? (fun kv => kv.1 = "p2") with
          | some (_, l) => l.all (· == 0)
          | none => true
        if kind = "single" ∨ kind = "bag" ∨ kind = "hold" ∨ kind = "chain2" ∨ kind = "chain3" then
          let nl := if kind = "chain2" then 2 else if kind = "chain3" then 3 else 1
          let layers0 : List SL := (List.range nl).map (fun k => initS (if k = 0 then inputs else []))
          match evs.foldlM stepChain layers0 with
          | some layers =>
            match layers.getLast? with
            | some s =>
              -- the run is over: a layer that still holds items has stalled (c13_single_layer_complete)
              let undrained := layers.any (fun l => seqS l != l.yielded)
              fmtList s.yielded ++ (if undrained then " !undrained" else "")
            | none => "bad-op"
          | none => "bad-trace"
        else if kind = "comp2" then
          match evs.foldlM (stepComp p2zero) { s := initC inputs, cancelSeen := none } with
          | some d => fmtList d.s.yielded ++ (if seqC d.s != d.s.yielded then " !undrained" else "")
          | none => "bad-trace"
        else if kind = "comp3" then
          let lost := evs.filterMap (fun t => match splitEv t with
            | some (_, 'c', r) => (parseStageItem r).map (fun p => p.2.1)
            | _ => none)
          fmtList (expected inputs lost)
        else "bad-op"
      | _, _ => "bad-op"
    | _ => "bad-op"
  | _ => "bad-op"

def main : IO Unit := runMain handle
