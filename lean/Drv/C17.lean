import P2.Model.EphSub
import P2.Drv.Util
/-
Request:  `<cap> <tok>*`     cap = effective capacity of the broadcast channel
  `v`            push a valid message (ids 0,1,2,… in push order)
  `x` `s` `w`    push an invalid message (garbage bytes / wrong signature / unsupported version)
  `c`            drop the last sender (channel closed)
  `r`            run the executor until the task is idle (at most 200 polls)
Pushes after `c` are ignored (there is no sender any more).
Answer:   per `r`: `<ids yielded in this run, comma separated | ->:<P|D|S>:<polls in this run>`
          (P = idle, D = stream ended, S = still scheduled after 200 polls), then `w=<total waker invocations>`.
-/
open P2 P2.EphSub P2.Drv

structure Sim where
  st : St
  nextId : Nat
  out : List String

def runFuel : Nat := 200

def simStep (core : St → Out × St) (sim : Sim) (tok : String) : Option Sim :=
  let pushIt (i : Item) (next : Nat) : Sim :=
    match stepWith core sim.st (.push i) with
    | some s => { sim with st := s, nextId := next }
    | none => { sim with nextId := next }
  if tok = "v" then some (pushIt (.valid sim.nextId) (sim.nextId + 1))
  else if tok = "x" ∨ tok = "s" ∨ tok = "w" then some (pushIt .invalid sim.nextId)
  else if tok = "c" then
    match stepWith core sim.st .close with
    | some s => some { sim with st := s }
    | none => some sim
  else if tok = "r" then
    let s' := runExecWith core runFuel sim.st
    let newIds := s'.yielded.drop sim.st.yielded.length
    let ids := if newIds.isEmpty then "-" else ",".intercalate (newIds.map toString)
    let status := if s'.done then "D" else if s'.scheduled then "S" else "P"
    some { sim with st := s', out := (ids ++ ":" ++ status ++ ":" ++ toString (s'.polls - sim.st.polls)) :: sim.out }
  else none

def handleWith (core : St → Out × St) (toksAll : List String) : String :=
  match toksAll with
  | capS :: toks =>
    match capS.toNat? with
    | some cap =>
      match toks.foldlM (simStep core) ({ st := init cap, nextId := 0, out := [] } : Sim) with
      | some sim => " ".intercalate (sim.out.reverse ++ ["w=" ++ toString sim.st.wakes])
      | none => "bad-op"
    | none => "bad-op"
  | _ => "bad-op"

/-- A leading `orig` selects the model of the pinned tree's `poll_next` (used to document the defect:
    `orig <request>` reproduces the stalled answers of the unpatched code). -/
def handle (line : String) : String :=
  match tokens line with
  | "orig" :: rest => handleWith pollOrigCore rest
  | toks => handleWith pollCore toks

def main : IO Unit := runMain handle
