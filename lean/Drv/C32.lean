import P2.Model.GroupState
import P2.Drv.Util
/-
Requests (one per line); a state `S` is `_` (empty) or `k:mc:ac:lvl:cond` entries joined by `,`
(`cond` = `-` for `None`, else a number; `()` conditions are sent as `0`):
  `p <A> <B>`       answer `merge(A,B)|merge(B,A)|merge(A,A)`
  `t <A> <B> <C>`   answer `merge(merge(A,B),C)|merge(A,merge(B,C))`
States in answers are printed sorted by key in the same syntax.
The tie-break is the one of the current tree (`merge_tie_break_less` = `accessLtFix`).
-/
open P2 P2.GroupState P2.Drv

def natCmp (x y : Nat) : Option Ordering := some (compare x y)

def parseEntry (t : String) : Option (Nat × MemberState Nat) :=
  match t.splitOn ":" with
  | [k, mc, ac, lvl, c] =>
    match k.toNat?, mc.toNat?, ac.toNat?, lvl.toNat?, optNat? c with
    | some k, some mc, some ac, some lvl, some c =>
      if lvl < 4 then some (k, { mc := mc, access := { cond := c, level := lvl }, ac := ac }) else none
    | _, _, _, _, _ => none
  | _ => none

def parseState (t : String) : Option (State Nat Nat) :=
  if t = "_" then some []
  else
    match (t.splitOn ",").mapM parseEntry with
    | some es => if (es.map (·.1)).Nodup then some es else none
    | none => none

def insertSorted (p : Nat × MemberState Nat) : List (Nat × MemberState Nat) → List (Nat × MemberState Nat)
  | [] => [p]
  | q :: r => if p.1 ≤ q.1 then p :: q :: r else q :: insertSorted p r

def showState (s : State Nat Nat) : String :=
  if s.isEmpty then "_"
  else
    let sorted := s.foldl (fun acc p => insertSorted p acc) []
    ",".intercalate (sorted.map (fun p =>
      s!"{p.1}:{p.2.mc}:{p.2.ac}:{p.2.access.level}:{optNatStr p.2.access.cond}"))

def mg (a b : State Nat Nat) : State Nat Nat := merge (accessLtFix natCmp) a b

def handle (line : String) : String :=
  match tokens line with
  | ["p", a, b] =>
    match parseState a, parseState b with
    | some a, some b => showState (mg a b) ++ "|" ++ showState (mg b a) ++ "|" ++ showState (mg a a)
    | _, _ => "bad-op"
  | ["t", a, b, c] =>
    match parseState a, parseState b, parseState c with
    | some a, some b, some c => showState (mg (mg a b) c) ++ "|" ++ showState (mg a (mg b c))
    | _, _, _ => "bad-op"
  | _ => "bad-op"

def main : IO Unit := runMain handle
