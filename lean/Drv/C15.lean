import P2.Model.Replay
import P2.Drv.Util
/-
Request:  `<policy> <row>* | <cur>* | <assoc author>*`
    policy  `A` automatic / `E` explicit
    row     `<author>.<seq>.<b|n>.<id>`   a persisted operation of the topic (b = has a body)
    cur     `<author>:<seq>`              persisted cursor entry
    assoc   `<author>`                    author whose log is associated with the topic (`topics_v1`)
Answer:   `<delivered ids in replay order> | <cursor after the replay as author:seq, sorted by author>`
-/
open P2 P2.Replay P2.Heights P2.Drv

def parseRow (t : String) : Option Row :=
  match t.splitOn "." with
  | [a, s, b, i] =>
    match a.toNat?, s.toNat?, i.toNat? with
    | some a, some s, some i =>
      if b = "b" then some ⟨a, s, true, i⟩ else if b = "n" then some ⟨a, s, false, i⟩ else none
    | _, _, _ => none
  | _ => none

def parseCur (t : String) : Option (Nat × Nat) :=
  match t.splitOn ":" with
  | [a, s] => match a.toNat?, s.toNat? with
    | some a, some s => some (a, s)
    | _, _ => none
  | _ => none

def handle (line : String) : String :=
  match tokens line with
  | pol :: rest =>
    if pol ≠ "A" ∧ pol ≠ "E" then "bad-op" else
    match splitTok "|" rest with
    | [rowsT, curT, assocT] =>
      match rowsT.mapM parseRow, curT.mapM parseCur, natList? assocT with
      | some rows, some cur, some assoc =>
        let p : Persist := { rows := rows, cursor := cur, assoc := assoc }
        let d := (delivered p).map toString
        let c := ((replayCursor (pol = "A") p).toArray.qsort (fun a b => a.1 < b.1)).toList.map fun e => s!"{e.1}:{e.2}"
        " ".intercalate d ++ " | " ++ " ".intercalate c
      | _, _, _ => "bad-op"
    | _ => "bad-op"
  | _ => "bad-op"

def main : IO Unit := runMain handle
