import P2.Model.Psi
import P2.Extracted.C30
import P2.Drv.Util
/-
Requests (space separated `key=value` fields after the scenario word; lists use `,`, `-` = empty):

  honest rA=<0|1> rB=<0|1> ia=<id> ib=<id> A=<topics> B=<topics> bookA=<book> bookB=<book>
     -> ta=<topics> tb=<topics> m2=<#digests> m3=<#digests> x=<#digests in both> na=<ids> nb=<ids>
        (na = node ids Alice received, nb = node ids Bob received; all lists sorted, de-duplicated)
  echo rB=<0|1> ib=<id> B=<topics> bookB=<book> N=<ids>
     scripted Alice echoes Bob's own message-2 digests back as message 3, then sends Nodes N
     -> ok t=<topics> n=<ids> sent=<kinds>
  script role=<alice|bob> r=<0|1> i=<id> T=<topics> book=<book> in=<item>/<item>/…   (then the stream ends)
     item = salt | bd:<topics> | bdx:<topics> | ad:<topics> | adx:<topics> | nodes:<ids>   (lists with `.`)
            bd/ad = honest digests of the given raw topics for the proper direction, bdx/adx = wrong direction
     -> ok t=<topics> n=<ids> sent=<kinds>   |   err:unexpected sent=<kinds>   |   err:stream sent=<kinds>
        kinds: S (salt half), B<n> (BobData with n digests), A<n> (AliceData), N<ids joined by .> (Nodes)

  book = rec/rec/…  rec = <id>:<topics joined by .>:<stale 0|1>:<hasTransport 0|1>

The model is instantiated with a free (collision-free by construction) hash: digests are tagged pairs.
-/
open P2 P2.Psi P2.Drv

inductive T where
  | raw (n : Nat)
  | dig (t : T) (s : List Nat)
deriving DecidableEq

def hT : Hash T := fun t s => .dig t s

def aB : Nat := P2.Extracted.C30.aliceSaltByte
def bB : Nat := P2.Extracted.C30.bobSaltByte

def parseList (sep : String) (s : String) : Option (List Nat) :=
  if s = "-" || s = "" then some [] else (s.splitOn sep).mapM String.toNat?

def parseBool (s : String) : Option Bool :=
  if s = "0" then some false else if s = "1" then some true else none

def parseRec (s : String) : Option (NodeRec T) :=
  match s.splitOn ":" with
  | [i, ts, st, tr] => do
    let i ← i.toNat?
    let ts ← parseList "." ts
    let st ← parseBool st
    let tr ← parseBool tr
    pure { id := i, topics := ts.map T.raw, stale := st, hasTransport := tr }
  | _ => none

def parseBook (s : String) : Option (List (NodeRec T)) :=
  if s = "-" then some [] else (s.splitOn "/").mapM parseRec

def field (kvs : List (String × String)) (k : String) : Option String :=
  (kvs.find? (fun p => p.1 = k)).map (·.2)

def parseKvs (ts : List String) : Option (List (String × String)) :=
  ts.mapM (fun t => match t.splitOn "=" with
    | [k, v] => some (k, v)
    | _ => none)

/-- insertion sort + dedup on Nat (tiny inputs) -/
def insSorted (x : Nat) : List Nat → List Nat
  | [] => [x]
  | y :: ys => if x < y then x :: y :: ys else if x = y then y :: ys else y :: insSorted x ys

def canon (l : List Nat) : List Nat := l.foldr insSorted []

def showList (sep : String) (l : List Nat) : String :=
  if l.isEmpty then "-" else sep.intercalate (l.map toString)

def rawIds (ts : List T) : List Nat := ts.filterMap (fun t => match t with | .raw n => some n | _ => none)

def dedupT (l : List T) : List T := l.foldr (fun x acc => if x ∈ acc then acc else x :: acc) []

def kindStr : Msg T → String
  | .aliceSaltHalf _ => "S"
  | .bobData _ ts => s!"B{(dedupT ts).length}"
  | .aliceData ts => s!"A{(dedupT ts).length}"
  | .nodes ids => "N" ++ showList "." (canon ids)

def sentStr (ms : List (Msg T)) : String :=
  if ms.isEmpty then "-" else ",".intercalate (ms.map kindStr)

def outcomeStr (r : List (Msg T) × Except Err (Result T)) : String :=
  match r.2 with
  | .ok res => s!"ok t={showList "," (canon (rawIds res.topics))} n={showList "," (canon res.nodes)} sent={sentStr r.1}"
  | .error .unexpected => s!"err:unexpected sent={sentStr r.1}"
  | .error .stream => s!"err:stream sent={sentStr r.1}"

def mkParty (kvs : List (String × String)) (r i t book : String) : Option (Party T) := do
  let r ← (field kvs r).bind parseBool
  let i ← (field kvs i).bind String.toNat?
  let ts ← (field kvs t).bind (parseList ",")
  let b ← (field kvs book).bind parseBook
  pure { topics := ts.map T.raw, book := b, me := i, restricted := r }

def saltA : List Nat := [0]
def saltB : List Nat := [1]

def parseItem (s : String) : Option (Msg T) :=
  let dig (ts : List Nat) (dir : Nat) := hashVector hT (ts.map T.raw) (combineSalt saltA saltB dir)
  match s.splitOn ":" with
  | ["salt"] => some (.aliceSaltHalf saltA)
  | ["bd", ts] => (parseList "." ts).map (fun ts => .bobData saltB (dig ts bB))
  | ["bdx", ts] => (parseList "." ts).map (fun ts => .bobData saltB (dig ts aB))
  | ["ad", ts] => (parseList "." ts).map (fun ts => .aliceData (dig ts aB))
  | ["adx", ts] => (parseList "." ts).map (fun ts => .aliceData (dig ts bB))
  | ["nodes", ids] => (parseList "." ids).map Msg.nodes
  | _ => none

def handle (line : String) : String :=
  match tokens line with
  | "honest" :: rest =>
    match parseKvs rest with
    | some kvs =>
      match mkParty kvs "rA" "ia" "A" "bookA", mkParty kvs "rB" "ib" "B" "bookB" with
      | some pa, some pb =>
        let tr := honest hT aB bB pa pb saltA saltB
        let d2 := dedupT tr.m2.topicValues
        let d3 := dedupT tr.m3.topicValues
        let x := (d2.filter (· ∈ d3)).length
        s!"ta={showList "," (canon (rawIds tr.aliceResult.topics))} tb={showList "," (canon (rawIds tr.bobResult.topics))} m2={d2.length} m3={d3.length} x={x} na={showList "," (canon tr.aliceResult.nodes)} nb={showList "," (canon tr.bobResult.nodes)}"
      | _, _ => "bad-op"
    | none => "bad-op"
  | "echo" :: rest =>
    match parseKvs rest with
    | some kvs =>
      match mkParty kvs "rB" "ib" "B" "bookB", (field kvs "N").bind (parseList ",") with
      | some pb, some ids =>
        let echo := hashVector hT pb.topics (combineSalt saltA saltB bB)
        outcomeStr (bob hT aB bB pb saltB [.aliceSaltHalf saltA, .aliceData echo, .nodes ids])
      | _, _ => "bad-op"
    | none => "bad-op"
  | "script" :: rest =>
    match parseKvs rest with
    | some kvs =>
      match field kvs "role", mkParty kvs "r" "i" "T" "book", field kvs "in" with
      | some role, some p, some items =>
        match (if items = "-" then some [] else (items.splitOn "/").mapM parseItem) with
        | some inbox =>
          if role = "alice" then outcomeStr (alice hT aB bB p saltA inbox)
          else if role = "bob" then outcomeStr (bob hT aB bB p saltB inbox)
          else "bad-op"
        | none => "bad-op"
      | _, _, _ => "bad-op"
    | none => "bad-op"
  | _ => "bad-op"

def main : IO Unit := runMain handle
