import P2.Model.TxLts
import P2.Drv.Util
/-
C10 model driver.  Request: `ctl STEP*` (in-memory store), `ctlf STEP*` (file database, 4 connections) or `free STEP*`; a STEP is `y` (let the runtime run the spawned tasks)
`yb` / `ya` (verif hook: the clean-up task of a dropped permit is parked before it takes the transaction /
after its rollback but before `drop(permit)`) or `T:STMT` for task number T with STMT one of
  B        begin (answers `blk` while the permit is taken or others are queued before it; repeat the step later)
  wN / bN  one INSERT inside the transaction (bN: violates a deferred constraint → the commit will fail)
  r        dirty read: number of rows visible inside the transaction
  C R      commit / rollback            D  drop(permit)      Q  `?` early return      P  panic in the body
  X        the task's future is dropped between two statements
  e / fN   a task that shares the open transaction (without holding the permit) enters a `tx()` query and stays
           inside it (`e`), later writes row N and returns (`fN`); while it is inside, `ya` / `y` answer `blk`:
           the clean-up task waits for the slot lock
  S/K      statement S (B, wN, bN, C, R) dropped after K polls without having completed; for C with K ≥ 1 a
           trailing `+` / `-` says whether SQLite turned out to have committed
Answer: `ctl`: one observation per step, then `| db=` the committed rows `task.n` in order; `free`: only the rows.
Each step is translated into the actions of `P2.TxLts.stepFn`; an action that is not enabled answers `stuck`.
-/
open P2.TxLts P2.Drv

inductive Stmt where
  | y
  | yb   -- clean-up task parked before it takes the transaction: no transition yet
  | ya   -- clean-up task has rolled back, parked before `drop(permit)`: `rbTake`
  | begin (t : Nat) (cancel : Option Nat)
  | write (t n : Nat) (bad : Bool) (cancel : Option Nat)
  | enter (h : Nat)            -- a task sharing the open transaction starts a `tx()` query and stays inside it
  | finish (h n : Nat)         -- … that query writes row n and returns
  | read (t : Nat)
  | commit (t : Nat) (cancel : Option (Nat × Bool))
  | rollback (t : Nat) (cancel : Option Nat)
  | drop (t : Nat) (word : String)
  | cancelTask (t : Nat)

def splitOn1 (s : String) (c : Char) : String × Option String :=
  match s.splitOn (String.singleton c) with
  | [a] => (a, none)
  | [a, b] => (a, some b)
  | _ => (s, some "?")

def parseStmt (tok : String) : Option Stmt :=
  if tok = "y" then some .y else if tok = "yb" then some .yb else if tok = "ya" then some .ya else
  match tok.splitOn ":" with
  | [ts, rest] => do
    let t ← ts.toNat?
    let (body, canc) := splitOn1 rest '/'
    match body.toList with
    | ['B'] => match canc with
      | none => some (.begin t none)
      | some k => (k.toNat?).map (fun k => .begin t (some k))
    | ['r'] => if canc.isNone then some (.read t) else none
    | ['e'] => if canc.isNone then some (.enter t) else none
    | 'f' :: ds => if canc.isNone then ((String.ofList ds).toNat?).map (fun n => .finish t n) else none
    | ['C'] => match canc with
      | none => some (.commit t none)
      | some k =>
        if k = "0" then some (.commit t (some (0, false)))
        else if k.endsWith "+" then ((k.dropEnd 1).toString.toNat?).map (fun k => .commit t (some (k, true)))
        else if k.endsWith "-" then ((k.dropEnd 1).toString.toNat?).map (fun k => .commit t (some (k, false)))
        else none
    | ['R'] => match canc with
      | none => some (.rollback t none)
      | some k => (k.toNat?).map (fun k => .rollback t (some k))
    | ['D'] => if canc.isNone then some (.drop t "ok") else none
    | ['Q'] => if canc.isNone then some (.drop t "end") else none
    | ['P'] => if canc.isNone then some (.drop t "panic") else none
    | ['X'] => if canc.isNone then some (.cancelTask t) else none
    | 'w' :: ds => do
      let n ← (String.ofList ds).toNat?
      match canc with
      | none => some (.write t n false none)
      | some k => (k.toNat?).map (fun k => .write t n false (some k))
    | 'b' :: ds => do
      let n ← (String.ofList ds).toNat?
      match canc with
      | none => some (.write t n true none)
      | some k => (k.toNat?).map (fun k => .write t n true (some k))
    | _ => none
  | _ => none

/-- apply actions in order; `none` if one is not enabled -/
def acts (s : St) (as : List Act) : Option St := runActs s as

def isInTx : PC → Bool
  | .inTx => true
  | _ => false

/-- One harness step: new state and observation. -/
def stepStmt (s : St) : Stmt → St × String
  | .yb => (s, "ok")
  | .ya =>
    match s.spawn with
    | .pending =>
      if s.lock.isSome then (s, "blk")   -- the clean-up task waits for the query in flight
      else match stepFn s .rbTake with
        | some s' => (s', "ok")
        | none => (s, "stuck")
    | _ => (s, "ok")
  | .y =>
    match s.spawn with
    | .pending =>
      if s.lock.isSome then (s, "blk")
      else match acts s [.rbTake, .rbRelease] with
        | some s' => (s', "ok")
        | none => (s, "stuck")
    | .releasing => match acts s [.rbRelease] with
      | some s' => (s', "ok")
      | none => (s, "stuck")
    | .none => (s, "ok")
  | .begin t none =>
    -- first poll of a new `begin()`: gets the permit if it is free, otherwise queues up;
    -- a later poll of the same `begin()`: proceeds once the permit has been handed over to it
    let s1 := match s.pc t with
      | .idle => stepFn s (.want t)
      | .waiting => some s
      | .acquired => some s
      | _ => none
    match s1 with
    | none => (s, "bad-step")
    | some s1 =>
      match s1.pc t with
      | .acquired => match stepFn s1 (.opened t) with
        | some s2 => (s2, "ok")
        | none => (s1, "stuck")
      | _ => (s1, "blk")
  | .begin t (some k) =>
    if k = 0 then
      match s.pc t with
      | .idle => (s, "cx")
      | _ => (s, "bad-step")
    else
      match s.pc t with
      | .idle =>
        match stepFn s (.want t) with
        | none => (s, "stuck")
        | some s1 =>
          match s1.pc t with
          | .acquired => match stepFn s1 (.cancelAcquired t) with
            | some s2 => (s2, "cx")
            | none => (s1, "stuck")
          | _ => match stepFn s1 (.cancelWait t) with
            | some s2 => (s2, "cx")
            | none => (s1, "stuck")
      | _ => (s, "bad-step")
  | .write t n bad none =>
    if isInTx (s.pc t) then
      match acts s [.txEnter t, .txExit t n bad] with
      | some s' => (s', "ok")
      | none => (s, "stuck")
    else if s.slot.isNone then (s, "E:notx") else (s, "misuse")
  | .enter h =>
    match s.slot, s.lock with
    | none, _ => (s, "E:notx")
    | some _, some _ => (s, "blk")
    | some _, none => match stepFn s (.txEnter h) with
      | some s' => (s', "ok")
      | none => (s, "stuck")
  | .finish h n =>
    match stepFn s (.txExit h n false) with
    | some s' => (s', "ok")
    | none => (s, "stuck")
  | .write t _ _ (some _) =>
    match stepFn s (.dropPermit t) with
    | some s' => (s', "cx")
    | none => (s, "stuck")
  | .read t =>
    match s.pc t, s.slot with
    | .inTx, some buf => (s, toString (s.db.length + buf.length))
    | .inTx, none => (s, "stuck")
    | _, none => (s, "E:notx")
    | _, some _ => (s, "misuse")
  | .commit t none =>
    match stepFn s (.commitTake t) with
    | none => (s, "stuck")
    | some s1 =>
      match stepFn s1 (.commitDone t) with
      | some s2 => (s2, "ok")
      | none => match stepFn s1 (.commitFail t) with
        | some s2 => (s2, "E:sqlite")
        | none => (s1, "stuck")
  | .commit t (some (k, applied)) =>
    if k = 0 then
      match stepFn s (.dropPermit t) with
      | some s' => (s', "cx")
      | none => (s, "stuck")
    else
      match acts s [.commitTake t, .cancelCommit t applied] with
      | some s' => (s', "cx")
      | none => (s, "stuck")
  | .rollback t none =>
    match acts s [.rollbackTake t, .rollbackDone t] with
    | some s' => (s', "ok")
    | none => (s, "stuck")
  | .rollback t (some k) =>
    if k = 0 then
      match stepFn s (.dropPermit t) with
      | some s' => (s', "cx")
      | none => (s, "stuck")
    else
      match acts s [.rollbackTake t, .cancelRollback t] with
      | some s' => (s', "cx")
      | none => (s, "stuck")
  | .drop t word =>
    if isInTx (s.pc t) then
      match stepFn s (.dropPermit t) with
      | some s' => (s', word)
      | none => (s, "stuck")
    else (s, word)   -- a task that ends / panics without holding a permit changes nothing
  | .cancelTask t =>
    match s.pc t with
    | .inTx => match stepFn s (.dropPermit t) with
      | some s' => (s', "cx")
      | none => (s, "stuck")
    | .waiting => match stepFn s (.cancelWait t) with
      | some s' => (s', "cx")
      | none => (s, "stuck")
    | .acquired => match stepFn s (.cancelAcquired t) with   -- had been handed the permit: passed on
      | some s' => (s', "cx")
      | none => (s, "stuck")
    | .idle => (s, "cx")
    | _ => (s, "bad-step")

def dbStr (db : List Write) : String :=
  if db.isEmpty then "db=-" else "db=" ++ ",".intercalate (db.map (fun w => s!"{w.tid}.{w.n}"))

def handle (line : String) : String :=
  match tokens line with
  | mode :: steps =>
    if mode != "ctl" && mode != "ctlf" && mode != "free" then "bad-op" else
    match steps.mapM parseStmt with
    | none => "bad-op"
    | some stmts =>
      let (s, obs) := stmts.foldl (fun (acc : St × List String) st =>
        let (s', o) := stepStmt acc.1 st
        (s', o :: acc.2)) (St.init, [])
      if mode != "free" then " ".intercalate obs.reverse ++ " | " ++ dbStr s.db else dbStr s.db
  | _ => "bad-op"

def main : IO Unit := runMain handle
