import P2.Model.Heights
import P2.Drv.Util
/-
Requests
  `adv I <a.l=h>* A <a.l=h>*`
        Cursor::new(I) advanced by every `A` entry in order  -> final state, flat tokens sorted
        (`{}` if empty); keys of `I` must be distinct
  `ack N <name>:<topic>* X <i>,<author>,<log>,<seq>*`
        handles `Acked::from_name(store, topic_i, name_i)` over one shared store; each op acks a
        header (author, log id, seq) through handle `i`
        -> per op `ok[<cursor of handle i>]` / `E:topic[…]`, then ` | ` and every handle's final cursor
  `ackc N … X …`   the same acks issued concurrently -> `<#ok> <#E:topic> | <final cursors>`
  `race N <name>:<topic> <name>:<topic> X <op0> <op1>`
        two separately constructed handles; op0 through handle 0 and op1 through handle 1 in the
        interleaving read0 read1 write0 write1 (the harness parks both acks between their read and
        their write) -> `<res0> <res1> | <final cursors>`
Cursor tokens inside brackets are `a.l=h` joined by `,`, sorted by (a, l).
-/
open P2 P2.Heights P2.Drv

def parseFlat (t : String) : Option ((Nat × Nat) × Nat) :=
  match t.splitOn "=" with
  | [k, h] =>
    match k.splitOn "." with
    | [a, l] => do
      let a ← a.toNat?
      let l ← l.toNat?
      let h ← h.toNat?
      pure ((a, l), h)
    | _ => none
  | _ => none

def keyLe (x y : (Nat × Nat) × Nat) : Bool :=
  x.1.1 < y.1.1 || (x.1.1 == y.1.1 && x.1.2 ≤ y.1.2)

def flatToks (m : Heights (Nat × Nat)) : List String :=
  (m.mergeSort keyLe).map fun e => s!"{e.1.1}.{e.1.2}={e.2}"

def showFlat (m : Heights (Nat × Nat)) : String :=
  if m.isEmpty then "{}" else " ".intercalate (flatToks m)

def showBr (m : Heights (Nat × Nat)) : String := "[" ++ ",".intercalate (flatToks m) ++ "]"

def distinctKeys (m : Heights (Nat × Nat)) : Bool :=
  let ks := (m.mergeSort keyLe).map Prod.fst
  let rec go : List (Nat × Nat) → Bool
    | a :: b :: t => a != b && go (b :: t)
    | _ => true
  go ks

def parseHandle (t : String) : Option Acked :=
  match t.splitOn ":" with
  | [n, tp] => do
    let n ← n.toNat?
    let tp ← tp.toNat?
    pure { name := n, topicLog := tp }
  | _ => none

def parseAck (t : String) : Option (Nat × AckHeader) :=
  match t.splitOn "," with
  | [i, a, l, s] => do
    let i ← i.toNat?
    let a ← a.toNat?
    let l ← l.toNat?
    let s ← s.toNat?
    pure (i, { author := a, logId := l, seq := s })
  | _ => none

def resStr : AckResult → String
  | .ok => "ok"
  | .invalidTopic => "E:topic"

def finals (t : CursorTable (Nat × Nat)) (hs : List Acked) : String :=
  " ".intercalate (hs.map fun a => showBr (getCursor t a.name))

def runAcks (hs : List Acked) (ops : List (Nat × AckHeader)) (concurrent : Bool) : String :=
  let init : CursorTable (Nat × Nat) × List String × Nat × Nat := ([], [], 0, 0)
  let (t, outs, nok, nbad) := ops.foldl (fun st o =>
    let (t, outs, nok, nbad) := st
    match hs[o.1]? with
    | none => (t, "bad-op" :: outs, nok, nbad)
    | some a =>
      let (t', r) := ack t a o.2
      (t', (resStr r ++ showBr (getCursor t' a.name)) :: outs,
        if r = .ok then nok + 1 else nok, if r = .ok then nbad else nbad + 1)) init
  if outs.contains "bad-op" then "bad-op"
  else if concurrent then s!"{nok} {nbad} | " ++ finals t hs
  else " ".intercalate outs.reverse ++ " | " ++ finals t hs

def handle (line : String) : String :=
  match tokens line with
  | "adv" :: "I" :: rest =>
    match splitTok "A" rest with
    | [i, a] =>
      match i.mapM parseFlat, a.mapM parseFlat with
      | some i, some a => if distinctKeys i then showFlat (advanceAll i a) else "bad-op"
      | _, _ => "bad-op"
    | _ => "bad-op"
  | "race" :: "N" :: rest =>
    match splitTok "X" rest with
    | [hs, ops] =>
      match hs.mapM parseHandle, ops.mapM parseAck with
      | some [a0, a1], some [(0, h0), (1, h1)] =>
        let (t, r0, r1) := ackRacy [] a0 h0 a1 h1
        resStr r0 ++ " " ++ resStr r1 ++ " | " ++ finals t [a0, a1]
      | _, _ => "bad-op"
    | _ => "bad-op"
  | kind :: "N" :: rest =>
    if kind = "ack" || kind = "ackc" then
      match splitTok "X" rest with
      | [hs, ops] =>
        match hs.mapM parseHandle, ops.mapM parseAck with
        | some hs, some ops => runAcks hs ops (kind = "ackc")
        | _, _ => "bad-op"
      | _ => "bad-op"
    else "bad-op"
  | _ => "bad-op"

def main : IO Unit := runMain handle
