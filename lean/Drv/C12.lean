import P2.Model.OrdererNext
import P2.Extracted.C12
import P2.Drv.Util
/-
Request:  `<mode> <op>*`   mode = `cur` (variant found in the current source text) | `fix` | `orig`
          op = `p<k>`                       process item k
             | `n@<polls>:<ev>,…:<end>`      one `next()` call as observed on the implementation:
                 ev  = `begin` | `take<k>` | `take-` | `wake` | `gettx` | `commit` | `get`  (store calls that completed)
                 end = `ret` | `cx` | `cc` | `cr` | `blk`;  `<polls>` is ignored by the model
Answer:   per `p`: `q<queue length>`; per `n`: `=<k>` (item returned) or `-`, followed by `q<queue length>`.
          `bad-trace` as soon as an observed step is not enabled in the model.
-/
open P2 P2.OrdNext P2.Drv

def parseEv (t : String) : Option Ev :=
  if t = "begin" then some Ev.begin
  else if t = "gettx" then some Ev.gettx
  else if t = "wake" then some Ev.wake
  else if t = "commit" then some Ev.commit
  else if t = "get" then some Ev.get
  else if t = "take-" then some (Ev.take none)
  else match t.toList with
    | 't' :: 'a' :: 'k' :: 'e' :: r => (String.ofList r).toNat?.map (fun k => Ev.take (some k))
    | _ => none

def parseEnd (t : String) : Option Act :=
  if t = "ret" then some Act.ret
  else if t = "cx" then some Act.cancel
  else if t = "cc" then some (Act.cancelCommit true)
  else if t = "cr" then some (Act.cancelCommit false)
  else if t = "blk" then some Act.block
  else none

/-- `some (acts, isNext)` -/
def parseTok (t : String) : Option (List Act × Bool) :=
  match t.toList with
  | 'p' :: r => (String.ofList r).toNat?.map (fun k => ([Act.proc k], false))
  | 'n' :: '@' :: r =>
    match (String.ofList r).splitOn ":" with
    | [_, evs, e] =>
      match (if evs = "" then some [] else (evs.splitOn ",").mapM parseEv), parseEnd e with
      | some evs, some e => some ([Act.call] ++ evs.map Act.ev ++ [e], true)
      | _, _ => none
    | _ => none
  | _ => none

def handleOps (fixed : Bool) (ops : List String) : String :=
    match ops.mapM parseTok with
    | some toks =>
      let (_, outs, _) := toks.foldl (fun (acc : St × List String × Bool) (tok : List Act × Bool) =>
        let (s, outs, bad) := acc
        if bad then acc else
        match run fixed s tok.1 with
        | none => (s, "bad-trace" :: outs, true)
        | some s' =>
          let q := s!"q{s'.queue.length}"
          if tok.2 then
            let r := if s'.returned.length > s.returned.length then
              match s'.returned.getLast? with | some x => s!"={x}" | none => "-" else "-"
            (s', (r ++ q) :: outs, false)
          else (s', q :: outs, false)) (init, [], false)
      " ".intercalate outs.reverse
    | none => "bad-op"

def handle (line : String) : String :=
  match tokens line with
  | mode :: ops =>
    let fixed? : Option Bool := if mode = "cur" then some P2.Extracted.C12.nextFetchesInTx
      else if mode = "fix" then some true else if mode = "orig" then some false else none
    -- second driver: `s<n>` = n items through the real stream layer; by `c12_no_loss` and
    -- `c12_eventually_returned` the repaired code yields all n (the pinned code: unpredictable, `d?`)
    match fixed?, ops with
    | some fixed, [t] =>
      match t.toList with
      | 's' :: r =>
        match (String.ofList r).toNat? with
        | some n => if fixed then s!"d{n}" else "d?"
        | none => "bad-op"
      | _ => handleOps fixed ops
    | some fixed, _ => handleOps fixed ops
    | none, _ => "bad-op"
  | _ => "bad-op"

def main : IO Unit := runMain handle
