import P2.Model.SyncProto
import P2.Model.SyncText
import P2.Drv.Util
/-
Request:  `[orig] #<id> cap=<c> rx=<0|1> scope=<a>:<l>,<l>;… | <I/O outcome>*`   (see `P2.Sync.Text.item?`)
Answer:   `sent=<msgs> | ev=<events> | res=<ok(metrics) | E:kind | spin | mismatch | running>`
The model replays the I/O outcomes the real session consumed (`P2.Sync.run`).
-/
open P2 P2.Sync P2.Sync.Text P2.Drv

def handle (line : String) : String :=
  match splitTok "|" (tokens line) with
  | [hdr, items] =>
    let orig := hdr.contains "orig"
    match kv? "cap" hdr, kv? "rx" hdr, kv? "scope" hdr, items.mapM item? with
    | some cap, some rx, some scope, some script =>
      match nat? cap, nat? rx, scope? scope with
      | some cap, some rx, some scope =>
        let cfg := if orig then origCfg scope cap (rx != 0) else curCfg scope cap (rx != 0)
        showSt (run cfg script)
      | _, _, _ => "bad-op"
    | _, _, _, _ => "bad-op"
  | _ => "bad-op"

def main : IO Unit := runMain handle
