import P2.Model.SyncProto
import P2.Model.SyncEvents
import P2.Model.SyncText
import P2.Drv.Util
/-
Request:  `#<id> cap=<c> rx=<0|1> live=<0|1> scope=… | <I/O outcome>*`
          outcomes: those of C20 plus `T+ T-` (resolve), `C+ C-` (close), `Lp<id>/<b>` `Lc` (live
          channel), `Rl<id>/<b>` (Live message), `Rx` (Close message)
Answer:   `ev=<events> | res=<ok | E:kind | spin | mismatch | running>`
-/
open P2 P2.Sync P2.Sync.Text P2.Drv

def titem? (t : String) : Option TIn :=
  match t.toList with
  | ['T', '+'] => some (.resolve true)
  | ['T', '-'] => some (.resolve false)
  | ['C', '+'] => some (.close true)
  | ['C', '-'] => some (.close false)
  | ['L', 'c'] => some (.live .close)
  | 'L' :: 'p' :: r => (pair? '/' r).map fun p => .live (.payload p.1 p.2)
  | 'R' :: 'l' :: r => (pair? '/' r).map fun p => .recv (.live p.1 p.2)
  | ['R', 'x'] => some (.recv .closeMsg)
  | _ =>
    match item? t with
    | some (.heights r) => some (.heights r)
    | some (.size r) => some (.size r)
    | some (.entries r) => some (.entries r)
    | some (.send ok) => some (.send ok)
    | some (.recv r) => some (.recv (.sync r))
    | none => none

def showTEv : TEv → String
  | .sessionStarted => "SS"
  | .syncStarted m => s!"M({showMetrics m})"
  | .opReceived id m => s!"R{id}({showMetrics m})"
  | .syncFinished m => s!"SF({showMetrics m})"
  | .liveModeStarted => "LS"
  | .liveOpReceived id => s!"LR{id}"
  | .sessionFinished => "FIN"
  | .failed => "FAIL"

def showTErr : TErr → String
  | .sync e => "sync:" ++ showErr e
  | .topicStore => "topicStore"
  | .unexpectedMsg => "unexpectedMsg"
  | .sink => "sink"
  | .event => "event"
  | .closedLive => "closedLive"
  | .decodeLive => "decodeLive"

def showTRes (s : TSt) : String :=
  match s.pc with
  | .done none => "ok"
  | .done (some e) => "E:" ++ showTErr e
  | .mismatch => "mismatch"
  | .inner => match s.sync.pc with
    | .spin => "spin"
    | _ => "running"
  | _ => "running"

def handle (line : String) : String :=
  match splitTok "|" (tokens line) with
  | [hdr, items] =>
    match kv? "cap" hdr, kv? "rx" hdr, kv? "live" hdr, kv? "scope" hdr, items.mapM titem? with
    | some cap, some rx, some live, some scope, some script =>
      match nat? cap, nat? rx, nat? live, scope? scope with
      | some cap, some rx, some live, some scope =>
        let s := trun (curTCfg scope cap (rx != 0) (live != 0)) script
        "ev=" ++ " ".intercalate (s.events.map showTEv) ++ " | res=" ++ showTRes s
      | _, _, _, _ => "bad-op"
    | _, _, _, _, _ => "bad-op"
  | _ => "bad-op"

def main : IO Unit := runMain handle
