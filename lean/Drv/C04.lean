import P2.Model.Header
import P2.Model.HeaderText
import P2.Model.LogStore
import P2.Model.StoreText
import P2.Model.Pipeline
import P2.Drv.Util
/-
C04 model driver: one event through the node's processing pipeline.

  pipe <T> log=<n> topic=<n> prune=<T|F> ; O <id> <hid> <hdr8> body=… ; (R … | A … | S …)*
     answer: <ins|dup|E:…> <noop|p<k>> | <author>.<log>=<seq:id,…> …     (all logs afterwards)
  strm <ins|dup|fail> body=<T|F> decodes=<T|F> auto=<T|F> ack=<T|F>
     answer: processing-failed | processed | decode-failed | ack-failed | nothing
-/
open P2 P2.Header P2.LogStore P2.Pipeline P2.Drv

def doPipe {E : Type} (x : ExtText E) (logS topicS pruneS : String) (opS : List String)
    (secs : List (List String)) : String :=
  match kvNat "log=" logS, kvNat "topic=" topicS, kvBool "prune=" pruneS, parseOp x opS, parseSections secs with
  | some log, some topic, some prune, some o, some (s, tbl) =>
    let (s', out, ps) := pipelineStep x.codec tbl s { o := o, log := log, topic := topic, prune := prune }
    let p := match ps with
      | .noop => "noop"
      | .pruned k => s!"p{k}"
    s!"{outcomeStr out} {p} | {dumpStr s'}"
  | _, _, _, _, _ => "bad-op"

def streamStr : StreamEvent → String
  | .processingFailed => "processing-failed"
  | .processed => "processed"
  | .decodeFailed => "decode-failed"
  | .ackFailed => "ack-failed"
  | .nothing => "nothing"

def handle (line : String) : String :=
  match splitTok ";" (tokens line) with
  | ["pipe", t, logS, topicS, pruneS] :: ("O" :: opS) :: secs =>
    if t = "U" then doPipe unitText logS topicS pruneS opS secs
    else if t = "K" then doPipe customText logS topicS pruneS opS secs
    else if t = "N" then doPipe nodeText logS topicS pruneS opS secs
    else "bad-op"
  | [["strm", o, b, d, a, k]] =>
    let out : Option Outcome := if o = "ins" then some .inserted else if o = "dup" then some .already
      else if o = "fail" then some (.failed .signatureMismatch) else none
    match out, kvBool "body=" b, kvBool "decodes=" d, kvBool "auto=" a, kvBool "ack=" k with
    | some out, some b, some d, some a, some k => streamStr (processOperation out b d a k)
    | _, _, _, _, _ => "bad-op"
  | _ => "bad-op"

def main : IO Unit := runMain handle
