import P2.Model.Ratchet
import P2.Drv.Util
/-
Request:  `[@<base>] <fwd> <ooo> <tok>*` (`@<base>`: start at head generation `base`, empty past queue —
          the state one accepted jump to `base-1` with tolerance 0 leaves), tok = `<g>` (request generation g with the default windows) or
          `<g>/<fwd>/<ooo>` (this call uses its own windows).
Answer:   per tok `k<n>` (key material of sender generation n) or `E:future|E:past|E:oob|E:reuse`,
          then `| h<head generation> <past queue>` with `-` for `None`, `k<n>` for `Some`, front first.
The symbolic kdf is instantiated with secret = generation number: `key s = s`, `next s = s+1`, so the
model's key *is* the sender generation it belongs to.
-/
open P2 P2.Ratchet P2.Drv

def kdfN : Kdf Nat Nat := { key := id, next := (· + 1) }

def parseTok (f o : Nat) (t : String) : Option Req :=
  match t.splitOn "/" with
  | [g] => g.toNat?.map (fun g => { g := g, fwd := f, ooo := o })
  | [g, f', o'] =>
    match g.toNat?, f'.toNat?, o'.toNat? with
    | some g, some f', some o' => some { g := g, fwd := f', ooo := o' }
    | _, _, _ => none
  | _ => none

def errStr : Err → String
  | .future => "E:future" | .past => "E:past" | .oob => "E:oob" | .reuse => "E:reuse"

def ansStr : Except Err Nat → String
  | .ok k => s!"k{k}"
  | .error e => errStr e

def pastStr : Option Nat → String
  | none => "-"
  | some k => s!"k{k}"

def handleFrom (y0 : Recv Nat Nat) (toks : List String) : String :=
  match toks with
  | fS :: oS :: toks =>
    match fS.toNat?, oS.toNat? with
    | some f, some o =>
      match toks.mapM (parseTok f o) with
      | some reqs =>
        let (y, outs) := run kdfN y0 reqs
        " ".intercalate (outs.map ansStr ++ ["|", s!"h{y.head.gen}"] ++ y.past.map pastStr)
      | none => "bad-op"
    | _, _ => "bad-op"
  | _ => "bad-op"

def handle (line : String) : String :=
  match tokens line with
  | t :: rest =>
    if t.startsWith "@" then
      match (t.drop 1).toNat? with
      | some b => handleFrom { past := [], head := { secret := b, gen := b } } rest
      | none => "bad-op"
    else handleFrom (Recv.init 0) (t :: rest)
  | [] => "bad-op"

def main : IO Unit := runMain handle
