import P2.Model.HybridTs
import P2.Model.AddrBook
import P2.Drv.Util
/-
Request:  `<pure|actor> <node> <rec>*`   (the mode only selects which implementation path the harness drove)
  rec = `A:<w>/<l>:<payload>:<sigKey>:<sw>/<sl>:<sigPayload>`   authenticated record: current timestamp and payload,
                                                                 and who signed which (timestamp, payload)
      | `T:<w>/<l>:<payload>:<id>,<id>,…|-`                      trusted record with the endpoint ids of its addresses
Records arrive in the given order at `update_transports` of a fresh `NodeInfo::new(node)`.
Second form:  `<ni-pure|ni-actor> <node> <op>*`  — both entry points of one node's address-book entry
  op = `+<rec>`   the record arrives through `insert_transport_info` / `update_transports`
     | `=<rec>`   a complete `NodeInfo` with these transports is inserted (`insert_node_info` / `NodeInfo::verify`)
     | `=-`       a complete `NodeInfo` without transports is inserted
  answer per op: `+`: `<t|f|Esig|Emis>:<k|->`,  `=`: `<n|u|Esig|Emis>:<k|->` (n = newly inserted, u = overwritten);
  `k` indexes the records of the request in order of appearance (`=-` carries none).
Answer:   per record `<t|f|Esig|Emis>:<k|->`  — result of the step and the index (in the request) of the first
          record equal to the stored one afterwards (`-` = nothing stored).
-/
open P2 P2.HybridTs P2.AddrBook P2.Drv

def parseTs (s : String) : Option HTs :=
  match s.splitOn "/" with
  | [w, l] => do let w ← w.toNat?; let l ← l.toNat?; pure ⟨w, l⟩
  | _ => none

def parseIds (s : String) : Option (List Nat) :=
  if s = "-" then some [] else (s.splitOn ",").mapM String.toNat?

def parseRec (t : String) : Option Rec :=
  match t.splitOn ":" with
  | ["A", ts, p, k, sts, sp] => do
    let ts ← parseTs ts; let p ← p.toNat?; let k ← k.toNat?; let sts ← parseTs sts; let sp ← sp.toNat?
    pure { kind := .auth, ts := ts, payload := p, addrIds := [], sigKey := k, sigTs := sts, sigPayload := sp }
  | ["T", ts, p, ids] => do
    let ts ← parseTs ts; let p ← p.toNat?; let ids ← parseIds ids
    pure { kind := .trusted, ts := ts, payload := p, addrIds := ids, sigKey := 0, sigTs := ⟨0, 0⟩, sigPayload := 0 }
  | _ => none

def resWord : Res → String
  | .ok true => "t"
  | .ok false => "f"
  | .err .invalidSignature => "Esig"
  | .err .nodeIdMismatch => "Emis"

def indexOf (rs : List Rec) (r : Rec) : String :=
  match rs.findIdx? (· == r) with
  | some k => toString k
  | none => "?"

def infoWord : InfoRes → String
  | .ok true => "n"
  | .ok false => "u"
  | .err .invalidSignature => "Esig"
  | .err .nodeIdMismatch => "Emis"

def parseOp (t : String) : Option Op :=
  match t.toList with
  | '+' :: r => (parseRec (String.ofList r)).map Op.transport
  | '=' :: r =>
    if r = ['-'] then some (.nodeInfo none) else (parseRec (String.ofList r)).map (fun x => Op.nodeInfo (some x))
  | _ => none

def opRec : Op → List Rec
  | .transport r => [r]
  | .nodeInfo (some r) => [r]
  | .nodeInfo none => []

def handleOps (node : Nat) (ops : List Op) : String :=
  let rs := ops.flatMap opRec
  let stored (b : Book) : String := match b.reg with
    | none => "-"
    | some c => indexOf rs c
  let (_, words) := ops.foldl (fun (st : Book × List String) (op : Op) =>
    let (b, acc) := st
    match op with
    | .transport r => let (b', res) := arrive node b r; (b', (resWord res ++ ":" ++ stored b') :: acc)
    | .nodeInfo t => let (b', res) := insertNodeInfo node b t; (b', (infoWord res ++ ":" ++ stored b') :: acc))
    (Book.empty, [])
  if words.isEmpty then "-" else " ".intercalate words.reverse

def handle (line : String) : String :=
  match tokens line with
  | mode :: nodeS :: recs =>
    if mode = "ni-pure" ∨ mode = "ni-actor" then
      (match nodeS.toNat?, recs.mapM parseOp with
       | some node, some ops => handleOps node ops
       | _, _ => "bad-op")
    else
    if mode ≠ "pure" ∧ mode ≠ "actor" then "bad-op" else
    match nodeS.toNat?, recs.mapM parseRec with
    | some node, some rs =>
      let steps := trace node none rs
      let words := steps.map (fun (s : Option Rec × Res) =>
        resWord s.2 ++ ":" ++ (match s.1 with
                               | none => "-"
                               | some c => indexOf rs c))
      if words.isEmpty then "-" else " ".intercalate words
    | _, _ => "bad-op"
  | _ => "bad-op"

def main : IO Unit := runMain handle
