import P2.Model.Header
import P2.Model.HeaderText
import P2.Drv.Util
/-
C02 model driver.  <T> = U (unit extensions) | K (Custom) | N (Node extensions).

  rt  <T> <hdr8> ; S <key> <sig> <tok>*          header value → encoding, decode, re-encode, verify
      answer: <tok>* | ok same=<b> rest=<n> reenc=<b> verify=<b>      (or `| err`)
  dec <T> K=<valid key ids|-> ; <tok>*            token stream (possibly malformed) → header
      answer: ok <hdr8> rest=<n> | err
-/
open P2 P2.Header P2.Drv

def doRt {E : Type} [DecidableEq E] (x : ExtText E) (hdr : List String) (sigs : List (List String)) : String :=
  match parseHeader x hdr, sigs.mapM parseSigEntry with
  | some h, some tbl =>
    let enc := encode x.codec h
    let keyOk := fun id => id == h.key
    let tail := match decode x.codec keyOk enc with
      | .error _ => "err"
      | .ok (h', rest) =>
        s!"ok same={boolStr (h' == h)} rest={rest.length} reenc={boolStr (encode x.codec h' == enc)} verify={boolStr (verify x.codec tbl h && verify x.codec tbl h')}"
    renderToks enc ++ " | " ++ tail
  | _, _ => "bad-op"

def doDec {E : Type} (x : ExtText E) (kS : String) (toks : List String) : String :=
  match (stripPrefix "K=" kS).bind parseIds, parseToks toks with
  | some ks, some ts =>
    match decode x.codec (fun id => ks.contains id) ts with
    | .error _ => "err"
    | .ok (h, rest) => s!"ok {renderHeader x h} rest={rest.length}"
  | _, _ => "bad-op"

def handle (line : String) : String :=
  match splitTok ";" (tokens line) with
  | ("rt" :: t :: hdr) :: sigs =>
    if t = "U" then doRt unitText hdr sigs
    else if t = "K" then doRt customText hdr sigs
    else if t = "N" then doRt nodeText hdr sigs
    else "bad-op"
  | [["dec", t, kS], toks] =>
    if t = "U" then doDec unitText kS toks
    else if t = "K" then doDec customText kS toks
    else if t = "N" then doDec nodeText kS toks
    else "bad-op"
  | _ => "bad-op"

def main : IO Unit := runMain handle
