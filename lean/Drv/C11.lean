import P2.Model.Orderer
import P2.Extracted.C11
import P2.Drv.Util
/-
Request:  `<mode> <op>*`   mode = `cur` (the `ready` comparison found in the current source text, P2.Extracted.C11)
                                 | `fix` (repaired `ready`) | `orig` (pinned `ready`)
          op = `p<k>:<d>,<d>,…` (process item k with that dependency list; `p3:` = no dependencies)
             | `D`              (call `next` until it returns None)
Answer:   per `p`: `r<ready_len>q<ready_queue_len>w<pending_len>`
          per `D`: `[a,b|c|…]` the drained ids, split into the groups queued by one `process` call each
                   (in call order), every group sorted — the order *inside* a group depends on HashSet
                   iteration order in the real code and is judged by the harness' oracle instead.
          `FUEL` if the model's recursion bound was exhausted.
-/
open P2 P2.Orderer P2.Drv

inductive Req where
  | p (k : Nat) (ds : List Nat)
  | d

def parseReq (t : String) : Option Req :=
  if t = "D" then some Req.d else
  match t.toList with
  | 'p' :: r =>
    match (String.ofList r).splitOn ":" with
    | [k, ds] =>
      match k.toNat?, (if ds = "" then some [] else (ds.splitOn ",").mapM String.toNat?) with
      | some k, some ds => some (Req.p k ds)
      | _, _ => none
    | _ => none
  | _ => none

def splitGroups : List Nat → List Nat → List (List Nat)
  | [], rest => if rest.isEmpty then [] else [rest]
  | g :: gs, xs => xs.take g :: splitGroups gs (xs.drop g)

def fmtGroups (gs : List (List Nat)) : String :=
  "[" ++ "|".intercalate (gs.map (fun g => ",".intercalate ((sort g).map toString))) ++ "]"

structure DSt where
  s : St
  groups : List Nat   -- sizes, oldest first
  outs : List String  -- reversed
  failed : Bool

def stepReq (chk : Chk) (d : DSt) (r : Req) : DSt :=
  if d.failed then d else
  match r with
  | Req.p k ds =>
    match process chk id d.s k ds with
    | none => { d with failed := true, outs := "FUEL" :: d.outs }
    | some s' =>
      let delta := queueLen s' - queueLen d.s
      { d with s := s', groups := if delta > 0 then d.groups ++ [delta] else d.groups,
               outs := s!"r{s'.ready.length}q{queueLen s'}w{pendingLen s'}" :: d.outs }
  | Req.d =>
    let (s', xs) := drain (d.s.ready.length + 1) d.s
    { d with s := s', groups := [], outs := fmtGroups (splitGroups d.groups xs) :: d.outs }

def handle (line : String) : String :=
  match tokens line with
  | mode :: ops =>
    let chk? : Option Chk := if mode = "cur" then some (if P2.Extracted.C11.readyCountsDistinct then readyChk else readyChkOrig)
      else if mode = "fix" then some readyChk else if mode = "orig" then some readyChkOrig else none
    match chk?, ops.mapM parseReq with
    | some chk, some reqs =>
      let d := reqs.foldl (stepReq chk) { s := Orderer.empty, groups := [], outs := [], failed := false }
      " ".intercalate d.outs.reverse
    | _, _ => "bad-op"
  | _ => "bad-op"

def main : IO Unit := runMain handle
