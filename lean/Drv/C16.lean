import P2.Model.HybridTs
import P2.Model.Ephemeral
import P2.Drv.Util
/-
Requests:
  `pub <clock0> <now>*`    a publisher created under clock reading `clock0` publishes once per clock reading
                           answer: timestamp `w/l` carried by each published message (`-` if none)
  `sub <item>*`            byte strings arriving at a subscription, one after the other
     item = `g`                                                             bytes that do not decode to the 6-tuple
          | `m:<ver>:<key>:<w>/<l>:<body>:<skey>:<sver>:<sk2>:<sw>/<sl>:<sbody>`
            the 6-tuple (ver, key, sig, w, l, body) where sig is key `skey`'s signature over the 5-tuple
            (sver, sk2, sw, sl, sbody); `skey = 0`: 64 bytes that are nobody's signature
     answer per item: `Y:<author>:<w>/<l>:<body>` (yielded) | `Eenc` | `Ever` | `Esig` (dropped, with the reason)
-/
open P2 P2.HybridTs P2.Ephemeral P2.Drv

def parseTs (s : String) : Option HTs :=
  match s.splitOn "/" with
  | [w, l] => do let w ← w.toNat?; let l ← l.toNat?; pure ⟨w, l⟩
  | _ => none

def parseItem (t : String) : Option Input :=
  if t = "g" then some .garbage else
  match t.splitOn ":" with
  | ["m", ver, key, ts, body, skey, sver, sk2, sts, sbody] => do
    let ver ← ver.toNat?; let key ← key.toNat?; let ts ← parseTs ts; let body ← body.toNat?
    let skey ← skey.toNat?; let sver ← sver.toNat?; let sk2 ← sk2.toNat?; let sts ← parseTs sts
    let sbody ← sbody.toNat?
    let sig : Sig := if skey = 0 then none else sign skey ⟨sver, sk2, sts, sbody⟩
    pure (.wire { version := ver, key := key, sig := sig, ts := ts, body := body })
  | _ => none

def answer (i : Input) : String :=
  match unwrap i with
  | .ok m => "Y:" ++ toString m.key ++ ":" ++ m.ts.str ++ ":" ++ toString m.body
  | .error .encoding => "Eenc"
  | .error .version => "Ever"
  | .error .signature => "Esig"

def orDash (l : List String) : String := if l.isEmpty then "-" else " ".intercalate l

def handle (line : String) : String :=
  match tokens line with
  | "pub" :: c0 :: nows =>
    match c0.toNat?, natList? nows with
    | some c0, some nows =>
      orDash ((publishAll 1 (nowTs c0) (nows.map (fun n => (n, 0)))).map (fun w => w.ts.str))
    | _, _ => "bad-op"
  | "sub" :: items =>
    match items.mapM parseItem with
    | some is => orDash (is.map answer)
    | none => "bad-op"
  | _ => "bad-op"

def main : IO Unit := runMain handle
