import P2.Model.GroupSecret
import P2.Drv.Util
/-
Request:  `<op>*` on a bundle that starts empty:
  `i<id>:<ts>`        insert
  `r<id>`             remove            answer `<ts of removed|->/<latest>`
  `x<id>:<ts>,…|x-`   extend with `from_secrets([...])`
  `f<id>:<ts>,…|f-`   replace the state by `from_secrets([...])`
  `g<now>:<id>`       generate with clock reading `now` (fresh key id `id`), then insert;  answer `<ts>/<latest>`
  `G<now>:<id>`       generate only;                                                      answer `<ts>/<latest>`
Answer: per op the id of `latest()` afterwards (`-` = none); finally `| n=<len>`.
-/
open P2 P2.GroupSecret P2.Drv

def parseSec (t : String) : Option Sec :=
  match t.splitOn ":" with
  | [a, b] => match a.toNat?, b.toNat? with
    | some a, some b => some { id := a, ts := b }
    | _, _ => none
  | _ => none

def parseList (t : String) : Option (List Sec) :=
  if t = "-" then some [] else (t.splitOn ",").mapM parseSec

inductive Op where
  | ins (s : Sec) | rem (id : Nat) | ext (l : List Sec) | frm (l : List Sec)
  | gen (now id : Nat) (insert : Bool)

def parseOp (t : String) : Option Op :=
  match t.toList with
  | 'i' :: r => (parseSec (String.ofList r)).map Op.ins
  | 'r' :: r => (String.ofList r).toNat?.map Op.rem
  | 'x' :: r => (parseList (String.ofList r)).map Op.ext
  | 'f' :: r => (parseList (String.ofList r)).map Op.frm
  | 'g' :: r => (parseSec (String.ofList r)).map (fun s => Op.gen s.id s.ts true)
  | 'G' :: r => (parseSec (String.ofList r)).map (fun s => Op.gen s.id s.ts false)
  | _ => none

def latStr (y : Bundle) : String := optNatStr (y.latestSecret.map (·.id))

def stepOp (y : Bundle) : Op → Bundle × String
  | .ins s => let y' := y.insert s; (y', latStr y')
  | .rem id =>
    let (y', r) := y.remove id
    (y', optNatStr (r.map (·.ts)) ++ "/" ++ latStr y')
  | .ext l => let y' := y.extend (Bundle.fromSecrets l); (y', latStr y')
  | .frm l => let y' := Bundle.fromSecrets l; (y', latStr y')
  | .gen now id ins =>
    let s := y.generate now id
    let y' := if ins then y.insert s else y
    (y', toString s.ts ++ "/" ++ latStr y')

def handle (line : String) : String :=
  match (tokens line).mapM parseOp with
  | some ops =>
    let (y, outs) := ops.foldl (fun (st : Bundle × List String) op =>
      let (y', a) := stepOp st.1 op
      (y', a :: st.2)) (Bundle.init, [])
    " ".intercalate (outs.reverse ++ ["|", s!"n={y.secrets.length}"])
  | none => "bad-op"

def main : IO Unit := runMain handle
