import P2.Model.TwoParty
import P2.Drv.Util
/-
Request:  action tokens `a` (A sends) `b` (B sends) `A` (A receives its queue head) `B`
          `rA<k>` (deliver again to A the k-th message B ever sent) `rB<k>`.
Answer:   per action `S:P|S:R|S:O<i>` (sent, with the message's key_used) | `G<n>` (received plaintext
          number n) | `E:reuse|E:type|E:unknown|E:decrypt` | `-` (nothing to do),
          then `| A <next> <min> <#own keys> <their_next_key_used> B <…>`.
-/
open P2 P2.TwoParty P2.Drv

def parseAct (t : String) : Option Action :=
  match t.toList with
  | ['a'] => some .sendA
  | ['b'] => some .sendB
  | ['A'] => some .recvA
  | ['B'] => some .recvB
  | 'r' :: 'A' :: r => (String.ofList r).toNat?.map Action.replayA
  | 'r' :: 'B' :: r => (String.ofList r).toNat?.map Action.replayB
  | _ => none

def kuStr : KeyUsed → String
  | .preKey => "P" | .receivedKey => "R" | .ownKey i => s!"O{i}"

def errStr : Err → String
  | .preKeyReuse => "E:reuse" | .invalidType => "E:type" | .unknownSecret => "E:unknown" | .decrypt => "E:decrypt"

def obsStr (s : Sys) (a : Action) : Obs → String
  | .sent =>
    let l := match a with | .sendA => s.sentAB | _ => s.sentBA
    match l.getLast? with
    | some m => "S:" ++ kuStr m.keyUsed
    | none => "S:?"
  | .got p => s!"G{p}"
  | .err e => errStr e
  | .idle => "-"

def partyStr (p : Party) : String :=
  let n := ((List.range p.nextIdx).filter (fun i => (p.own i).isSome)).length
  s!"{p.nextIdx} {p.minIdx} {n} {kuStr p.theirNext}"

def handle (line : String) : String :=
  match (tokens line).mapM parseAct with
  | some acts =>
    let (s, outs) := acts.foldl (fun (st : Sys × List String) a =>
      let (s', o) := st.1.step a
      (s', obsStr s' a o :: st.2)) (Sys.init, [])
    " ".intercalate (outs.reverse ++ ["|", "A", partyStr s.a, "B", partyStr s.b])
  | none => "bad-op"

def main : IO Unit := runMain handle
