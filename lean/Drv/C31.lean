import P2.Drv.GroupCmd
/-
C31 model driver: the auth-group line protocol (see `P2/Drv/GroupCmd.lean`): `mrg` (merge_states),
`mem` (members / groups / root_members traversal), `dec`.
-/
def main : IO Unit := P2.Drv.runMain P2.Drv.GroupCmd.handle
