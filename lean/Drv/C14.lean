import P2.Model.Tasks
import P2.Drv.Util
/-
Requests (the model answers for the code as it is now = `Variant.fixed`):

  `T <id_0> … <id_{n-1}> | <macro>*`    tracker-level schedule on the real `TaskTracker`
       macro = `T<t>` `B<t>` `S<t>` `C<t>` `G<t>` `W<t>` `Pr` `Pm` `Ps` `Pn`   (see P2/Model/Tasks.lean)
       answer: one outcome word per macro, ` | `, then one final outcome per submitter after the drain
  `P <id_0> … <id_{n-1}> [!k]`          real `Pipeline` thread / free-running threads: final outcomes (ids only);
                                         `!k` = the pipeline thread was observed to die on submitter k's event
  `O …` same as `T …` but answered by the model of the ORIGINAL code (used only by the harness' self-test
       of the schedule machinery; never emitted in a normal run)
-/
open P2 P2.Tasks P2.Drv

def parseMacro (t : String) : Option Macro :=
  match t.toList with
  | ['P', 'r'] => some .Pr
  | ['P', 'm'] => some .Pm
  | ['P', 's'] => some .Ps
  | ['P', 'n'] => some .Pn
  | 'T' :: r => (String.ofList r).toNat?.map .T
  | 'B' :: r => (String.ofList r).toNat?.map .B
  | 'S' :: r => (String.ofList r).toNat?.map .S
  | 'C' :: r => (String.ofList r).toNat?.map .C
  | 'G' :: r => (String.ofList r).toNat?.map .G
  | 'W' :: r => (String.ofList r).toNat?.map .W
  | _ => none

def handleSched (v : Variant) (rest : List String) : String :=
  match splitTok "|" rest with
  | [idsT, msT] =>
    match natList? idsT, msT.mapM parseMacro with
    | some ids, some ms => runCase v ids ms
    | _, _ => "bad-op"
  | _ => "bad-op"

def handle (line : String) : String :=
  match tokens line with
  | "T" :: rest => handleSched .fixed rest
  | "O" :: rest => handleSched .orig rest
  | "P" :: rest =>
    -- optional last token `!k`: the pipeline thread died while working on submitter k's event (observed)
    -- `none` = unparsable flag, `some none` = no flag, `some (some k)` = flag
    let (idsT, die) : List String × Option (Option Nat) :=
      match rest.getLast? with
      | some l =>
        if l.startsWith "!" then
          (rest.dropLast, match (String.ofList (l.toList.drop 1)).toNat? with
                          | some k => some (some k)
                          | none => none)
        else (rest, some none)
      | none => (rest, some none)
    match natList? idsT, die with
    | some ids, some none => if ids.isEmpty then "bad-op" else runPipelineCase .fixed ids
    | some ids, some (some k) =>
      if ids.isEmpty ∨ k ≥ ids.length then "bad-op" else runPipelineCase .fixed ids (some k)
    | _, _ => "bad-op"
  | _ => "bad-op"

def main : IO Unit := runMain handle
