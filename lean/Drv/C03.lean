import P2.Model.Header
import P2.Model.HeaderText
import P2.Model.LogStore
import P2.Model.StoreText
import P2.Drv.Util
/-
C03 / C05 model driver: a whole delivery history per line.

  hist <T> ; (O <id> <hid> <hdr8> body=… | S <key> <sig> <tok>*)* ; E <event>*
     event = d<i>:<topic>   deliver declared operation number i (0-based, in order of the O sections)
           | p<i>           the prune step of operation i: (key, log, seq) of its header
  log id and prune flag of a delivery are derived from the header's extensions (ExtText.lg / pf).
  answer: one word per event  <ins|dup|E:…|p<k>|p->/<seq:id,…  rows of the touched log>
          then  | <author>.<log>=<seq:id,…> …   all non-empty logs, sorted
-/
open P2 P2.Header P2.LogStore P2.Drv

def parseEvent {E : Type} (ops : List (Op E)) (x : ExtText E) (t : String) : Option (Event E) :=
  match t.toList with
  | 'd' :: r =>
    match splitChars ':' r with
    | [i, tp] => match natOfChars i, natOfChars tp with
      | some i, some tp => (ops[i]?).map (fun o => Event.deliver o tp)
      | _, _ => none
    | _ => none
  | 'p' :: r =>
    match natOfChars r with
    | some i => (ops[i]?).map (fun o => Event.prune o.op.header.key (x.lg o.op.header.ext) o.op.header.seq)
    | none => none
  | _ => none

def doHist {E : Type} (x : ExtText E) (secs : List (List String)) : String :=
  let opSecs := secs.filter (fun s => s.head? == some "O")
  let sigSecs := secs.filter (fun s => s.head? == some "S")
  let evSecs := secs.filter (fun s => s.head? == some "E")
  match opSecs.mapM (fun s => parseOp x s.tail), sigSecs.mapM parseSigEntry, evSecs with
  | some ops, some tbl, [ "E" :: evs ] =>
    match evs.mapM (parseEvent ops x) with
    | none => "bad-op"
    | some events =>
      let lg := fun (h : Header E) => x.lg h.ext
      let pf := fun (h : Header E) => x.pf h.ext
      let (st, words) := events.foldl (fun (acc : Sys × List String) ev =>
        let (st', rep) := step x.codec tbl lg pf acc.1 ev
        let (a, l) := match ev with
          | .deliver o _ => (o.op.header.key, lg o.op.header)
          | .prune a l _ => (a, l)
        let w := match rep with
          | .ingest o => outcomeStr o
          | .pruned (some k) => s!"p{k}"
          | .pruned none => "p-"
        (st', acc.2 ++ [s!"{w}/{rowsStr (logRows st'.store a l)}"])) (Sys.init, [])
      " ".intercalate words ++ " | " ++ dumpStr st.store
  | _, _, _ => "bad-op"

def handle (line : String) : String :=
  match splitTok ";" (tokens line) with
  | ["hist", t] :: secs =>
    if t = "U" then doHist unitText secs
    else if t = "K" then doHist customText secs
    else if t = "N" then doHist nodeText secs
    else "bad-op"
  | _ => "bad-op"

def main : IO Unit := runMain handle
