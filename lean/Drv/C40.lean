import P2.Model.SyncMetrics
import P2.Drv.Util
/-
Request:  `[orig] <event> ; <event> ; …`
  event = `<session id> <kind> [12 metrics counters]`, kind ∈ ss (SessionStarted) | sy (SyncStarted m)
          | op (OperationReceived m) | sf (SyncFinished m) | lm (LiveModeStarted)
          | fin (SessionFinished m) | fail (Failed)
  counters in the order outSyncBytes outSyncOps inSyncBytes inSyncOps sentSyncBytes sentSyncOps
          recvSyncBytes recvSyncOps sentLiveBytes sentLiveOps recvLiveBytes recvLiveOps
  a leading `orig` selects the model of the pinned (pre-fix) code.
Answer:   per event `<emitted>/<running>,<sent total>,<recv total>` joined by ` ; `, emitted =
  `-` | `S:id,inOps,outOps,inBytes,outBytes,sessions` | `E:id,sentOps,recvOps,sentBytes,recvBytes,sentTotal,recvTotal:<error t|f>`
  | `O:id,sentOps,recvOps,sentBytes,recvBytes,sentTotal,recvTotal:<live t|f>`
-/
open P2 P2.SyncMetrics P2.Drv

def parseMetrics : List Nat → Option Metrics
  | [a, b, c, d, e, f, g, h, i, j, k, l] => some ⟨a, b, c, d, e, f, g, h, i, j, k, l⟩
  | _ => none

def parseEvent (ts : List String) : Option (Nat × Ev) :=
  match ts with
  | id :: kind :: rest => do
    let id ← id.toNat?
    let nums ← natList? rest
    match kind, nums with
    | "ss", [] => some (id, .sessionStarted)
    | "lm", [] => some (id, .liveModeStarted)
    | "fail", [] => some (id, .failed)
    | "sy", ns => (parseMetrics ns).map fun m => (id, .syncStarted m)
    | "op", ns => (parseMetrics ns).map fun m => (id, .operationReceived m)
    | "sf", ns => (parseMetrics ns).map fun m => (id, .syncFinished m)
    | "fin", ns => (parseMetrics ns).map fun m => (id, .sessionFinished m)
    | _, _ => none
  | _ => none

def nums (l : List Nat) : String := ",".intercalate (l.map toString)

def showOut : Out → String
  | .none => "-"
  | .syncStarted a b c d e f => "S:" ++ nums [a, b, c, d, e, f]
  | .syncEnded a b c d e f g err => "E:" ++ nums [a, b, c, d, e, f, g] ++ ":" ++ boolStr err
  | .operationReceived a b c d e f g live => "O:" ++ nums [a, b, c, d, e, f, g] ++ ":" ++ boolStr live

def runLine (orig : Bool) (evs : List (Nat × Ev)) : String :=
  let (_, outs) := evs.foldl (fun (st : Agg × List String) e =>
    let (s, o) := if orig then processOrig st.1 e.1 e.2 else process st.1 e.1 e.2
    (s, (showOut o ++ "/" ++ nums [s.running, s.sent, s.recv]) :: st.2)) (Agg.new, [])
  " ; ".intercalate outs.reverse

def handle (line : String) : String :=
  let ts := tokens line
  let (orig, ts) := match ts with
    | "orig" :: rest => (true, rest)
    | _ => (false, ts)
  if ts.isEmpty then "bad-op"
  else
    match (splitTok ";" ts).mapM parseEvent with
    | some evs => runLine orig evs
    | none => "bad-op"

def main : IO Unit := runMain handle
