import P2.Model.Dedup
import P2.Drv.Util
/-
Request:  `<cap> <op>*` with op = `i<n>` (insert n) | `c<n>` (contains n)
Answer:   one `t`/`f` per op, space separated.
-/
open P2 P2.Dedup P2.Drv

def parseOp (t : String) : Option (Bool × Nat) :=
  match t.toList with
  | 'i' :: r => (String.ofList r).toNat?.map (fun n => (true, n))
  | 'c' :: r => (String.ofList r).toNat?.map (fun n => (false, n))
  | _ => none

def handle (line : String) : String :=
  match tokens line with
  | capS :: ops =>
    match capS.toNat?, ops.mapM parseOp with
    | some cap, some ops =>
      let (_, outs) := ops.foldl (fun (st : Buf Nat × List String) (op : Bool × Nat) =>
        let (s, acc) := st
        if op.1 then
          let (s', b) := s.insert op.2
          (s', boolStr b :: acc)
        else (s, boolStr (s.contains op.2) :: acc)) ((new cap : Buf Nat), [])
      " ".intercalate outs.reverse
    | _, _ => "bad-op"
  | _ => "bad-op"

def main : IO Unit := runMain handle
