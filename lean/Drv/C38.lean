import P2.Model.KeyRegistry
import P2.Drv.Util
/-
Request:  tokens, registry starts empty, clock starts at 0:
  `t<now>`                       the clock reads `now` from here on (no answer token)
  `al<id>:<bundle>`              add_longterm_bundle      -> `ok` | `E:lifetime` | `E:sig` | `PANIC`
  `ao<id>:<bundle>`              add_onetime_bundle       -> same
  `ql<id>`                       long-term key_bundle     -> `b<prekey>[!]` | `-` | `E:expired`   (`!` = the bundle's signature does not verify)
  `qo<id>`                       one-time key_bundle      -> `b<prekey>` | `-`
  `rx`                           remove_expired           -> `ok`
  `sl<id>:<bundle>;<bundle>..`   restore member id's long-term list from persistence (`sl<id>:-` empty) -> `ok`
  `lk:<bundle>;<bundle>..`       the public `latest_key_bundle(&[..])` on an arbitrary list -> `b<prekey>` | `-`
  bundle = `<ident>.<prekey>.<not_before>.<not_after>.<sigBy>.<sigMsg>.<otk|->`
A failing / panicking add leaves the registry as it was (the caller's clone).
-/
open P2 P2.KeyReg P2.Drv

def parseBundle (t : String) : Option Bundle :=
  match t.splitOn "." with
  | [a, b, c, d, e, f, g] =>
    match a.toNat?, b.toNat?, c.toNat?, d.toNat?, e.toNat?, f.toNat?, optNat? g with
    | some a, some b, some c, some d, some e, some f, some g =>
      some { ident := a, prekey := b, nb := c, na := d, sigBy := e, sigMsg := f, otk := g }
    | _, _, _, _, _, _, _ => none
  | _ => none

inductive Cmd where
  | clock (now : Nat) | addL (id : Nat) (b : Bundle) | addO (id : Nat) (b : Bundle)
  | qL (id : Nat) | qO (id : Nat) | rx
  | setL (id : Nat) (l : List Bundle) | latestOf (l : List Bundle)

def parseAdd (r : String) : Option (Nat × Bundle) :=
  match r.splitOn ":" with
  | [i, b] => match i.toNat?, parseBundle b with
    | some i, some b => some (i, b)
    | _, _ => none
  | _ => none

def parseBundles (r : String) : Option (List Bundle) :=
  if r = "-" then some [] else (r.splitOn ";").mapM parseBundle

def parseSetL (r : String) : Option Cmd :=
  match r.splitOn ":" with
  | [i, bs] => match i.toNat?, parseBundles bs with
    | some i, some l => some (Cmd.setL i l)
    | _, _ => none
  | _ => none

def parseCmd (t : String) : Option Cmd :=
  match t.toList with
  | 's' :: 'l' :: r => parseSetL (String.ofList r)
  | 'l' :: 'k' :: ':' :: r => (parseBundles (String.ofList r)).map Cmd.latestOf
  | 't' :: r => (String.ofList r).toNat?.map Cmd.clock
  | 'a' :: 'l' :: r => (parseAdd (String.ofList r)).map (fun p => Cmd.addL p.1 p.2)
  | 'a' :: 'o' :: r => (parseAdd (String.ofList r)).map (fun p => Cmd.addO p.1 p.2)
  | 'q' :: 'l' :: r => (String.ofList r).toNat?.map Cmd.qL
  | 'q' :: 'o' :: r => (String.ofList r).toNat?.map Cmd.qO
  | ['r', 'x'] => some Cmd.rx
  | _ => none

def errStr : Err → String
  | .lifetime => "E:lifetime" | .sig => "E:sig" | .identity => "PANIC" | .expired => "E:expired"

def bStr : Option Bundle → String
  | some b => s!"b{b.prekey}" ++ (if sigOk b then "" else "!")
  | none => "-"

structure St where
  reg : Reg
  now : Nat
  out : List String

def stepCmd (s : St) : Cmd → St
  | .clock n => { s with now := n }
  | .addL id b => match s.reg.addLongterm id b s.now with
    | .ok r => { s with reg := r, out := "ok" :: s.out }
    | .error e => { s with out := errStr e :: s.out }
  | .addO id b => match s.reg.addOnetime id b s.now with
    | .ok r => { s with reg := r, out := "ok" :: s.out }
    | .error e => { s with out := errStr e :: s.out }
  | .qL id => match s.reg.keyBundleLongterm id s.now with
    | .ok b => { s with out := bStr b :: s.out }
    | .error e => { s with out := errStr e :: s.out }
  | .qO id =>
    let (r, b) := s.reg.keyBundleOnetime id s.now
    { s with reg := r, out := bStr b :: s.out }
  | .rx => { s with reg := s.reg.removeExpired s.now, out := "ok" :: s.out }
  | .setL id l => { s with reg := s.reg.restoreLongterm id l, out := "ok" :: s.out }
  | .latestOf l => { s with out := bStr (latest l s.now) :: s.out }

def handle (line : String) : String :=
  match (tokens line).mapM parseCmd with
  | some cmds =>
    let s := cmds.foldl stepCmd { reg := Reg.init, now := 0, out := [] }
    " ".intercalate s.out.reverse
  | none => "bad-op"

def main : IO Unit := runMain handle
