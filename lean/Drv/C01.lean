import P2.Model.Header
import P2.Model.HeaderText
import P2.Model.LogStore
import P2.Model.StoreText
import P2.Drv.Util
/-
C01 model driver.  <T> = U | K | N (extensions type, see HeaderText).

  ing <T> log=<n> topic=<n> prune=<T|F> ; O <id> <hid> <hdr8> body=… ; (R … | A … | S …)*
      answer: val=<ok|E:…> ing=<ins|dup|E:…> has=<t|f> same=<t|f>
  val  = validate_operation,  ing = ingest_operation on the given store,
  has  = has_operation(id) afterwards,  same = store (rows and topic associations) unchanged
-/
open P2 P2.Header P2.LogStore P2.Drv

def doIng {E : Type} [DecidableEq E] (x : ExtText E) (logS topicS pruneS : String) (opS : List String)
    (secs : List (List String)) : String :=
  match kvNat "log=" logS, kvNat "topic=" topicS, kvBool "prune=" pruneS, parseOp x opS, parseSections secs with
  | some log, some topic, some prune, some o, some (s, tbl) =>
    let v := match validateOperation x.codec tbl o.op with
      | .ok () => "ok"
      | .error e => errStr e
    let (s', out) := ingestStep x.codec tbl s o log topic prune
    s!"val={v} ing={outcomeStr out} has={boolStr (hasOp s' o.op.id)} same={boolStr (s' == s)}"
  | _, _, _, _, _ => "bad-op"

def handle (line : String) : String :=
  match splitTok ";" (tokens line) with
  | ["ing", t, logS, topicS, pruneS] :: ("O" :: opS) :: secs =>
    if t = "U" then doIng unitText logS topicS pruneS opS secs
    else if t = "K" then doIng customText logS topicS pruneS opS secs
    else if t = "N" then doIng nodeText logS topicS pruneS opS secs
    else "bad-op"
  | _ => "bad-op"

def main : IO Unit := runMain handle
