import P2.Model.LiveFwd
import P2.Drv.Util
/-
Request:  <consumer cap> ; <sid>:<topic>:<live 0|1>:<cap> … ; <action> …
  actions  R<sid>:<op>   the remote of session sid sends Live(op)
           P<sid>:<op>   ToSync::Payload(op) is sent on session_handle(sid)
           S<sid>        one poll of session sid's run future (everything queued: live channel first, then remote)
           C<sid>        the manager event stream is drained while only session sid has events pending
           Y<sid>[:<op>,<op>…]  session sid runs its sync phase, in which its remote sends these operations, and
                         goes on until it blocks in live mode (or ends, without live mode); every session
                         needs its Y before any R / S
Answer:   <sid>=<Live messages written to its remote, comma separated | -> … | <sid>.<op> … (events returned to the consumer)
-/
open P2 P2.Dedup P2.LiveFwd P2.Drv

def parseSess (t : String) : Option Sess :=
  match (t.splitOn ":").map String.toNat? with
  | [some sid, some topic, some live, some cap] =>
    if live ≤ 1 then some (newSess sid topic (live == 1) cap) else none
  | _ => none

def parseAct (t : String) : Option (Char × Nat × List Nat) :=
  match t.toList with
  | 'Y' :: r =>
    match (String.ofList r).splitOn ":" with
    | [a] => a.toNat?.map (fun a => ('Y', a, []))
    | [a, ops] =>
      match a.toNat?, (ops.splitOn ",").mapM String.toNat? with
      | some a, some ops => some ('Y', a, ops)
      | _, _ => none
    | _ => none
  | c :: r =>
    match ((String.ofList r).splitOn ":").map String.toNat? with
    | [some a] => if c = 'S' ∨ c = 'C' then some (c, a, []) else none
    | [some a, some b] => if c = 'R' ∨ c = 'P' then some (c, a, [b]) else none
    | _ => none
  | [] => none

def applyAct (st : St) : Char × Nat × List Nat → St
  | ('R', sid, [op]) => st.step (.remote sid op)
  | ('P', sid, [op]) => st.step (.publish sid op)
  | ('S', sid, _) => st.run (pollActs st sid)
  | ('C', sid, _) => st.run (drainActs st sid)
  | ('Y', sid, ops) => st.run (syncActs st sid ops)
  | _ => st

def natsStr (l : List Nat) : String :=
  if l.isEmpty then "-" else ",".intercalate (l.map toString)

def handle (line : String) : String :=
  match splitTok ";" (tokens line) with
  | [[ccS], sessT, actT] =>
    match ccS.toNat?, sessT.mapM parseSess, actT.mapM parseAct with
    | some ccap, some sess, some acts =>
      let st0 : St := { sess := sess, cdedup := new ccap, reports := [] }
      let st := acts.foldl applyAct st0
      let a := st.sess.map (fun s => s!"{s.sid}={natsStr s.sent}")
      let r := st.reports.map (fun p => s!"{p.1}.{p.2}")
      " ".intercalate (a ++ ["|"] ++ (if r.isEmpty then ["-"] else r))
    | _, _, _ => "bad-op"
  | _ => "bad-op"

def main : IO Unit := runMain handle
