import P2.Model.StoreRef
import P2.Drv.StoreCmd
import P2.Drv.Util
/- C09 model driver: see `P2/Drv/StoreCmd.lean` for the line protocol. -/
def main : IO Unit := P2.Drv.runMain P2.Drv.StoreCmd.handle
