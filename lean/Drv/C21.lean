import P2.Model.SyncSched
import P2.Drv.Util
/-
Request:  `[alt] c=<cap> A=<n1,n2,…|-> B=<…> | <action>*`, action = `Ae|Af|Ar|Be|Bf|Br`
          (the schedule the real pair of sessions executed: enqueue / send resolved / received)
Answer:   `final=<done|stuck|running|bad@i> A=<peer> B=<peer> static=<cap0|may-deadlock|must-complete>`
-/
open P2 P2.Sched P2.Drv

def batches? (s : String) : Option (List Nat) :=
  if s = "-" then some [] else (s.splitOn ",").mapM String.toNat?

def act? (t : String) : Option Act :=
  match t.toList with
  | ['A', 'e'] => some ⟨true, .enq⟩
  | ['A', 'f'] => some ⟨true, .flush⟩
  | ['A', 'r'] => some ⟨true, .recv⟩
  | ['B', 'e'] => some ⟨false, .enq⟩
  | ['B', 'f'] => some ⟨false, .flush⟩
  | ['B', 'r'] => some ⟨false, .recv⟩
  | _ => none

def kvs (key : String) (ts : List String) : Option String :=
  ts.findSome? fun t =>
    let k := (key ++ "=").toList
    if k.isPrefixOf t.toList then some (String.ofList (t.toList.drop k.length)) else none

/-- run as far as the schedule is valid, returning the state reached -/
def runPrefix (cfg : Cfg) (st : St) : List Act → St
  | [] => st
  | a :: rest =>
    match stepFn cfg st a with
    | none => st
    | some st' => runPrefix cfg st' rest

def handle (line : String) : String :=
  match splitTok "|" (tokens line) with
  | [hdr, acts] =>
    match (kvs "c" hdr).bind String.toNat?, (kvs "A" hdr).bind batches?, (kvs "B" hdr).bind batches?, acts.mapM act? with
    | some c, some ba, some bb, some sched =>
      let cfg : Cfg := { c := c, ba := ba, bb := bb, alt := hdr.contains "alt" }
      let st := runPrefix cfg init sched
      let fin :=
        match firstBad cfg init sched 0 with
        | some i => s!"bad@{i}"
        | none => if finished cfg st then "done" else if stuck cfg st then "stuck" else "running"
      s!"final={fin} A={showPeer st.a (total ba) (total bb)} B={showPeer st.b (total bb) (total ba)} static={staticVerdict c ba bb}"
    | _, _, _, _ => "bad-op"
  | _ => "bad-op"

def main : IO Unit := runMain handle
