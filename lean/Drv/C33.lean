import P2.Drv.GroupCmd
/-
C33 model driver: the auth-group line protocol (see `P2/Drv/GroupCmd.lean`): `st` (one `state::`
call), `dec` (validate / process decision relative to the states at the dependencies), `uns`.
-/
def main : IO Unit := P2.Drv.runMain P2.Drv.GroupCmd.handle
