import P2.Model.GossipGuard
import P2.Drv.Util
/-
Request:  `sched <action>*`   one schedule of atomic steps for one topic, from the initial state
  `L<t>` lookup · `K<t>` clone (pinned code only) · `R<t>` second look-up under the write lock ·
  `P<t>` one turn of the wait for a pending Unsubscribe · `S<t>` subscribe · `I<t>` insert ·
  `C<t>:<g>` dup a handle of generation g · `D<t>:<g>` drop (decrement) · `U<t>` send Unsubscribe
Answer:   one token per action
  lookup / relook / spin: `h<g>:<counter>` (handle returned) | `M` (no live entry) | `F` (going to subscribe) |
                          `W` (waiting for the pending Unsubscribe) | `K` (pinned code: in the check/clone window)
  clone / insert: `h<g>:<counter>` · subscribe: `s` · dup: `c<counter>` ·
  drop: `d<counter>` | `z` (reached zero, Unsubscribe to be sent) · send: `u` · not enabled: `bad-step` (stops)
  then `| log=<S|U,…> joined=<0|1> cells=<counter per generation>`
          `hammer guards` -> `unsub=1`   ·   `race streams` -> `ok`  (free-running stress runs: the answer is the
          invariant outcome the theorems give for every schedule)
-/
open P2 P2.GossipGuard P2.Drv

/-- The driver runs the model of the code that exists: the repaired `stream` / `TopicDropGuard`. -/
def currentStep : St → Act → Option St := stepFn

def parseAct (tok : String) : Option Act :=
  match tok.toList with
  | c :: rest =>
    let body := String.ofList rest
    match body.splitOn ":" with
    | [t] => t.toNat?.bind (fun t =>
        if c = 'L' then some (.lookup t) else if c = 'K' then some (.clone t)
        else if c = 'R' then some (.relook t) else if c = 'P' then some (.spin t)
        else if c = 'S' then some (.subscribe t) else if c = 'I' then some (.insert t)
        else if c = 'U' then some (.dropSend t) else none)
    | [t, g] => do
        let t ← t.toNat?
        let g ← g.toNat?
        if c = 'C' then some (.dup t g) else if c = 'D' then some (.dropDec t g) else none
    | _ => none
  | [] => none

def handleTok (s' : St) : String :=
  match s'.handles.head? with
  | some g => s!"h{g}:{s'.cells g}"
  | none => "?"

def token (s' : St) : Act → String
  | .lookup t | .relook t | .spin t => match s'.pc t with
    | .missed => "M"
    | .fresh => "F"
    | .waitLeft _ => "W"
    | .checked _ => "K"
    | _ => handleTok s'
  | .clone _ | .insert _ => handleTok s'
  | .subscribe _ => "s"
  | .dup _ g => s!"c{s'.cells g}"
  | .dropDec t g => match s'.pc t with
    | .dropping _ => "z"
    | _ => s!"d{s'.cells g}"
  | .dropSend _ => "u"

def evStr : Ev → String
  | .sub _ => "S"
  | .unsub _ => "U"

def summary (s : St) : String :=
  let log := if s.log.isEmpty then "-" else ",".intercalate (s.log.map evStr)
  let cells := if s.ngen = 0 then "-" else ",".intercalate ((List.range s.ngen).map (fun g => toString (s.cells g)))
  s!"| log={log} joined={if s.active.isSome then 1 else 0} cells={cells}"

def runTokens (s : St) (acc : List String) : List Act → St × List String
  | [] => (s, acc.reverse)
  | a :: as => match currentStep s a with
    | some s' => runTokens s' (token s' a :: acc) as
    | none => (s, ("bad-step" :: acc).reverse)

def handle (line : String) : String :=
  match tokens line with
  | ["hammer", "guards"] => "unsub=1"
  | ["race", "streams"] => "ok"
  | ["race", "rejoin"] => "ok"
  | ["race", "deadguard"] => "ok"
  | "sched" :: acts =>
    match acts.mapM parseAct with
    | some acts =>
      let (s, toks) := runTokens init [] acts
      " ".intercalate (toks ++ [summary s])
    | none => "bad-op"
  | _ => "bad-op"

def main : IO Unit := runMain handle
