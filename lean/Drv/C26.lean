import P2.Model.Codec
import P2.Drv.Util
/-
Requests (bytes are lower-case hex strings, `-` is the empty byte string):

  enc <max> <ty> <payload>*            encode the payloads one after the other into one buffer
       answer: `ok` / `E:<err>` per payload (a failed encode leaves the buffer untouched), `=`, buffer
  dec <max> raw:<ty>|bytes eof|open <chunk>*  feed the chunks to the decoder loop
       raw   : payloads are opaque (answer lists the payload of every frame)
       bytes : payload is postcard `Vec<u8>` (answer lists the decoded vector; may fail: E:postcard)
       eof   : FramedRead over a reader delivering the chunks, then end-of-file
       open  : the Decoder driven by hand, no end-of-file: answer ends with `open:<bytes left>`
       answer: decoded items, then `end` | `E:<err>` | `open:<n>`
-/
open P2 P2.Codec P2.Drv

def hexVal (c : Char) : Option Nat :=
  if '0' ≤ c ∧ c ≤ '9' then some (c.toNat - '0'.toNat)
  else if 'a' ≤ c ∧ c ≤ 'f' then some (c.toNat - 'a'.toNat + 10)
  else none

def unhexL : List Char → Option (List Nat)
  | [] => some []
  | [_] => none
  | a :: b :: r =>
    match hexVal a, hexVal b, unhexL r with
    | some x, some y, some t => some ((x * 16 + y) :: t)
    | _, _, _ => none

def unhex (s : String) : Option (List Nat) := if s = "-" then some [] else unhexL s.toList

def hexDigit (n : Nat) : Char := if n < 10 then Char.ofNat (48 + n) else Char.ofNat (87 + n)

def hex (b : List Nat) : String :=
  if b.isEmpty then "-" else String.ofList (b.flatMap (fun x => [hexDigit (x / 16 % 16), hexDigit (x % 16)]))

def errStr : Err → String
  | .tooLarge => "E:toolarge"
  | .postcard => "E:postcard"
  | .eof => "E:eof"
  | .panic => "E:panic"

def handleEnc (max : Nat) (ps : List (List Nat)) : String :=
  let (buf, outs) := ps.foldl (fun (st : List Nat × List String) p =>
    match encode (M := List Nat) max id p st.1 with
    | .ok b => (b, "ok" :: st.2)
    | .error e => (st.1, errStr e :: st.2)) ([], [])
  " ".intercalate (outs.reverse ++ ["=", hex buf])

def handleDec (max : Nat) (de : List Nat → Option (List Nat)) (eof : Bool) (chunks : List (List Nat)) : String :=
  if eof then
    let (ms, e) := runStream max de chunks
    " ".intercalate (ms.map hex ++ [match e with | none => "end" | some e => errStr e])
  else
    let (ms, rest, e) := feedAll max de [] chunks
    " ".intercalate (ms.map hex ++ [match e with | none => s!"open:{rest.length}" | some e => errStr e])

/-- message types the harness instantiates `Codec<M>` with (the model is the same for all:
    payloads are opaque; the tag only tells the harness how to replay the line) -/
def knownTy (ty : String) : Bool := ["vec", "string", "unit", "logsync", "topic", "op"].contains ty

def handle (line : String) : String :=
  match tokens line with
  | "enc" :: maxS :: ty :: ps =>
    match maxS.toNat?, knownTy ty, ps.mapM unhex with
    | some max, true, some ps => handleEnc max ps
    | _, _, _ => "bad-op"
  | "dec" :: maxS :: kind :: eofS :: cs =>
    let de? : Option (List Nat → Option (List Nat)) :=
      if kind = "bytes" then some deBytes
      else match kind.splitOn ":" with
        | ["raw", ty] => if knownTy ty then some some else none
        | _ => none
    let eof? : Option Bool := if eofS = "eof" then some true else if eofS = "open" then some false else none
    match maxS.toNat?, de?, eof?, cs.mapM unhex with
    | some max, some de, some eof, some cs => handleDec max de eof cs
    | _, _, _, _ => "bad-op"
  | _ => "bad-op"

def main : IO Unit := runMain handle
