import P2.Model.HybridTs
import P2.Model.AddrBook
import P2.Drv.Util
/-
Requests (one per line):
  `chain <wall> <logical> <now>*`   successive `increment`s from (wall, logical) under the clock readings
                                    answer: `w/l` per increment (`-` if none)
  `cmp <w1> <l1> <w2> <l2>`         derived `Ord`: `lt` | `eq` | `gt`
  `now <clock>`                     `HybridTimestamp::now()`: `w/l`
  `own <wall> <logical> <now>*`     a node's stored own record has timestamp (wall, logical); for every clock
                                    reading it builds its next record with `increment_timestamp(Some(prev))`,
                                    signs it and feeds it to `update_transports`
                                    answer per step: `<t|f|E>:<stored w/l after the step>`
-/
open P2 P2.HybridTs P2.AddrBook P2.Drv

def resWord : Res → String
  | .ok true => "t"
  | .ok false => "f"
  | .err _ => "E"

def ownSteps (node : Nat) (prev : Rec) : List Nat → List String
  | [] => []
  | now :: rest =>
    let r := ownNext node prev.ts now 0 [node]
    let (reg, res) := update node (some prev) r
    let stored := match reg with
      | some c => c.ts.str
      | none => "-"
    (resWord res ++ ":" ++ stored) :: ownSteps node (reg.getD prev) rest

def orDash (l : List String) : String := if l.isEmpty then "-" else " ".intercalate l

def handle (line : String) : String :=
  match tokens line with
  | "chain" :: w :: l :: nows =>
    match w.toNat?, l.toNat?, natList? nows with
    | some w, some l, some nows => orDash ((chain ⟨w, l⟩ nows).map HTs.str)
    | _, _, _ => "bad-op"
  | ["cmp", a, b, c, d] =>
    match a.toNat?, b.toNat?, c.toNat?, d.toNat? with
    | some a, some b, some c, some d => HTs.cmpWord ⟨a, b⟩ ⟨c, d⟩
    | _, _, _, _ => "bad-op"
  | ["now", c] =>
    match c.toNat? with
    | some c => (nowTs c).str
    | none => "bad-op"
  | "own" :: w :: l :: nows =>
    match w.toNat?, l.toNat?, natList? nows with
    | some w, some l, some nows =>
      let ts : HTs := ⟨w, l⟩
      let prev : Rec := { kind := .auth, ts := ts, payload := 0, addrIds := [1],
                          sigKey := 1, sigTs := ts, sigPayload := 0 }
      orDash (ownSteps 1 prev nows)
    | _, _, _ => "bad-op"
  | _ => "bad-op"

def main : IO Unit := runMain handle
