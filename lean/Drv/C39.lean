import P2.Model.SpacesGuard
import P2.Drv.Util
/-
Requests:
  `H <npeers> | <token>*`
       `c<p>:<kind><id>[.<author>.<bundle>]`          peer p created the message (only key bundles matter: the
                                                       author's registry already holds its own bundle)
       `d<p>:<kind><id>[.<author>.<bundle>]:<hint>`   delivered to peer p; hint = what the inner handler did when it
                                                       was invoked: `o<k>` | `e` | `p`
     answer per `d` token: `o0=` when the guard of the message's kind hits (no events, state unchanged), otherwise
     the outcome of invoking the inner handler (`o<k>` / `e` / `p`); rejected kinds answer `e`.
  `X <kind> <class> <hint>`   adversarial single message, hint = `o`/`e`/`p` (what the handler did): `err` for kinds /
                       contents the routing rejects (SpaceUpdate, auth Promote / Demote); otherwise `panic` iff the
                       inner handler panicked, else `nopanic`.
-/
open P2 P2.SpacesGuard P2.Drv

def kindOf (c : Char) : Option Kind :=
  match c with
  | 'k' => some .keyBundle
  | 'a' => some .auth
  | 'm' => some .membership
  | 'u' => some .spaceUpdate
  | 'p' => some .application
  | _ => none

/-- `<kind><id>[.<author>.<bundle>]` -/
def parseMsg (t : String) : Option Msg :=
  match t.toList with
  | c :: rest =>
    match kindOf c, (String.ofList rest).splitOn "." with
    | some k, [i] => i.toNat?.map (fun i => { kind := k, id := i })
    | some k, [i, a, b] =>
      match i.toNat?, a.toNat?, b.toNat? with
      | some i, some a, some b => some { kind := k, id := i, author := a, bundle := b }
      | _, _, _ => none
    | _, _ => none
  | [] => none

def parseHint (t : String) : Option (Inner Unit Unit) :=
  match t.toList with
  | ['e'] => some .err
  | ['p'] => some .panic
  | 'o' :: r => (String.ofList r).toNat?.map (fun k => .ok () (List.replicate k ()))
  | _ => none

def outStr : Outcome Unit → String
  | .ok evs => s!"o{evs.length}"
  | .err => "e"
  | .panic => "p"

abbrev Peers := List (Nat × St Unit)

def getPeer (ps : Peers) (p : Nat) : St Unit :=
  match ps.find? (fun x => x.1 = p) with
  | some x => x.2
  | none => emptySt ()

def setPeer (ps : Peers) (p : Nat) (st : St Unit) : Peers :=
  (p, st) :: ps.filter (fun x => x.1 ≠ p)

/-- One token; `none` = unparsable. Returns the new peer table and the answer word (if any). -/
def stepTok (n : Nat) (ps : Peers) (t : String) : Option (Peers × Option String) :=
  match t.toList with
  | 'c' :: r =>
    match (String.ofList r).splitOn ":" with
    | [p, m] =>
      match p.toNat?, parseMsg m with
      | some p, some m =>
        if p < n then
          if m.kind = .keyBundle then
            let st := getPeer ps p
            some (setPeer ps p { st with registry := (m.author, m.bundle) :: st.registry }, none)
          else some (ps, none)
        else none
      | _, _ => none
    | _ => none
  | 'n' :: r =>
    -- message forged outside the peer's manager: nothing enters its registry
    match (String.ofList r).splitOn ":" with
    | [p, m] =>
      match p.toNat?, parseMsg m with
      | some p, some _ => if p < n then some (ps, none) else none
      | _, _ => none
    | _ => none
  | 'd' :: r =>
    match (String.ofList r).splitOn ":" with
    | [p, m, h] =>
      match p.toNat?, parseMsg m, parseHint h with
      | some p, some m, some h =>
        if p < n then
          let st := getPeer ps p
          let hit := guardHit st m && !rejected m
          let (st', o) := process (fun _ _ => h) st m
          some (setPeer ps p st', some (if hit then "o0=" else outStr o))
        else none
      | _, _, _ => none
    | _ => none
  | _ => none

def runToks (n : Nat) : Peers → List String → Option (List String)
  | _, [] => some []
  | ps, t :: ts =>
    match stepTok n ps t with
    | none => none
    | some (ps', o) =>
      match runToks n ps' ts with
      | none => none
      | some os => some (match o with | some w => w :: os | none => os)

def handle (line : String) : String :=
  match tokens line with
  | "H" :: nS :: "|" :: toks =>
    match nS.toNat? with
    | some n =>
      match runToks n [] toks with
      | some os => " ".intercalate os
      | none => "bad-op"
    | none => "bad-op"
  | "X" :: kS :: cls =>
    match kS.toList with
    | [c] =>
      match kindOf c with
      | some k =>
        let unsupported := match cls with
          | c0 :: _ => c0.startsWith "promote" || c0.startsWith "demote"
          | [] => false
        let ptr := match cls with
          | c0 :: _ => c0.startsWith "pointer/promote" || c0.startsWith "pointer/demote"
          | [] => false
        let m : Msg := { kind := k, id := 0, unsupported := unsupported, pointsAtUnsupported := ptr }
        -- last token = what the inner handler did (`o` / `e` / `p`); the routing adds no panic of its own
        match cls.getLast? with
        | some "p" => (match (process (fun _ _ => (Inner.panic : Inner Unit Unit)) (emptySt ()) m).2 with
                       | .panic => "panic" | .err => "err" | .ok _ => "nopanic")
        | some "o" => if rejected m then "err" else "nopanic"
        | some "e" => if rejected m then "err" else "nopanic"
        | _ => "bad-op"
      | none => "bad-op"
    | _ => "bad-op"
  | _ => "bad-op"

def main : IO Unit := runMain handle
