import P2.Model.Heights
import P2.Drv.Util
/-
Request:  `cmp L <author>* R <author>*`     logs::compare(L, R)
          `cur C <author>* O <author>*`     Cursor::new(C).compare(O)   (= compare(O, C))
  author token: `<a>:<l>=<h>,<l>=<h>,…` (`<a>:` = author with an empty inner map);
  authors and logs strictly increasing (a BTreeMap), otherwise `bad-op`.
Answer:   `<diff> | <merged>`
  diff   = author tokens `<a>:<l>=<from>..<until>,…` (`from` = `-` for "from the start"), `{}` if empty
  merged = the receiving side's heights after advancing a cursor over every range of the diff,
           flat tokens `<a>.<l>=<h>` sorted by (a, l), `{}` if empty.
-/
open P2 P2.Heights P2.Drv

def strictlyIncreasing : List Nat → Bool
  | a :: b :: t => a < b && strictlyIncreasing (b :: t)
  | _ => true

def parseLog (t : String) : Option (Nat × Nat) :=
  match t.splitOn "=" with
  | [l, h] => do
    let l ← l.toNat?
    let h ← h.toNat?
    pure (l, h)
  | _ => none

def parseAuthor (t : String) : Option (Nat × List (Nat × Nat)) :=
  match t.splitOn ":" with
  | [a, rest] => do
    let a ← a.toNat?
    let logs ← if rest = "" then some [] else (rest.splitOn ",").mapM parseLog
    if strictlyIncreasing (logs.map Prod.fst) then pure (a, logs) else none
  | _ => none

def parseNested (ts : List String) : Option (Nested Nat Nat) := do
  let n ← ts.mapM parseAuthor
  if strictlyIncreasing (n.map Prod.fst) then pure n else none

def showRange (e : Nat × Range) : String :=
  s!"{e.1}={optNatStr e.2.1}..{e.2.2}"

def showDiff (d : NestedRanges Nat Nat) : String :=
  if d.isEmpty then "{}"
  else " ".intercalate (d.map fun e => s!"{e.1}:" ++ ",".intercalate (e.2.map showRange))

def keyLe (x y : (Nat × Nat) × Nat) : Bool :=
  x.1.1 < y.1.1 || (x.1.1 == y.1.1 && x.1.2 ≤ y.1.2)

def showFlat (m : Heights (Nat × Nat)) : String :=
  if m.isEmpty then "{}"
  else " ".intercalate ((m.mergeSort keyLe).map fun e => s!"{e.1.1}.{e.1.2}={e.2}")

def answer (loc rem : Nested Nat Nat) : String :=
  let d := compareNested loc rem
  showDiff d ++ " | " ++ showFlat (applyDiff (flatten rem) (flatten d))

def handle (line : String) : String :=
  match tokens line with
  | "cmp" :: "L" :: rest =>
    match splitTok "R" rest with
    | [l, r] =>
      match parseNested l, parseNested r with
      | some l, some r => answer l r
      | _, _ => "bad-op"
    | _ => "bad-op"
  | "cur" :: "C" :: rest =>
    match splitTok "O" rest with
    | [c, o] =>
      match parseNested c, parseNested o with
      | some c, some o =>
        -- Cursor::compare(&self, other) = compare(other, &self.state)
        answer o c
      | _, _ => "bad-op"
    | _ => "bad-op"
  | _ => "bad-op"

def main : IO Unit := runMain handle
