import P2.Model.Backoff
import P2.Drv.Util
/-
Request:  `<initial> <minInc> <maxInc> <max> <minReset> <maxReset> ; <op> ; <op> ; …`  (all ms)
  op = `seed <n>`                   rng seed of the implementation run (ignored by the model)
     | `new <rReset|->`             construct at the current time (must be the first op)
     | `adv <d>`                    let `d` ms pass (no answer token)
     | `inc <rInc|-> <rReset|->`    `increment()`; a draw is given exactly when the code draws it
     | `reset <rReset|->`           `reset()`
Answer:   one token per new/inc/reset: `<value>/<resetAfter>`; `PANIC` (empty `random_range`) ends the
          line; `bad-draw` when the supplied draws do not fit what the model consumes.
-/
open P2 P2.Backoff P2.Drv

inductive Cmd where
  | new (r : Option Nat)
  | adv (d : Nat)
  | inc (ri rr : Option Nat)
  | reset (r : Option Nat)
  | seed

def parseCmd : List String → Option Cmd
  | ["new", r] => (optNat? r).map Cmd.new
  | ["adv", d] => d.toNat?.map Cmd.adv
  | ["inc", a, b] => do
      let a ← optNat? a
      let b ← optNat? b
      pure (Cmd.inc a b)
  | ["reset", r] => (optNat? r).map Cmd.reset
  | ["seed", n] => n.toNat?.map (fun _ => Cmd.seed)
  | _ => none

def showSt (s : State) : String := s!"{s.value}/{s.resetAfter}"

/-- state: (model state if constructed, now, answers reversed, stopped) -/
def exec (c : Config) : Option State × Nat × List String × Bool → Cmd → Option State × Nat × List String × Bool
  | (st, now, acc, true), _ => (st, now, acc, true)
  | (st, now, acc, false), cmd =>
    let fin (o : Outcome) : Option State × Nat × List String × Bool :=
      match o with
      | .ok s => (some s, now, showSt s :: acc, false)
      | .panic => (st, now, "PANIC" :: acc, true)
      | .badDraw => (st, now, "bad-draw" :: acc, true)
    match cmd, st with
    | .adv d, _ => (st, now + d, acc, false)
    | .seed, _ => (st, now, acc, false)
    | .new r, none => fin (resetD c now r)
    | .new _, some _ => (st, now, "bad-op" :: acc, true)
    | .inc ri rr, some s => fin (incrementD false c s now ri rr)
    | .reset r, some _ => fin (resetD c now r)
    | _, none => (st, now, "bad-op" :: acc, true)

def handle (line : String) : String :=
  match splitTok ";" (tokens line) with
  | cfgT :: cmds =>
    match natList? cfgT, cmds.mapM parseCmd with
    | some [a, b, c, d, e, f], some cmds =>
      let cfg : Config := { initial := a, minInc := b, maxInc := c, max := d, minReset := e, maxReset := f }
      let (_, _, acc, _) := cmds.foldl (exec cfg) (none, 0, [], false)
      " ".intercalate acc.reverse
    | _, _ => "bad-op"
  | _ => "bad-op"

def main : IO Unit := runMain handle
