import P2.Model.Handshake
import P2.Drv.Util
/-
Requests (topics are small ids):
  ini <t> <fault> <evclosed> <item>*    initiator with topic t against the incoming transcript, then end of stream
  acc <fault> <evclosed> <item>*        acceptor
      fault    = `-` | `<k>` (k-th sink operation fails before taking the message) | `<k>L` (fails after taking it)
      evclosed = 0 | 1
      item     = `T<n>` | `D` | `X` (stream item error)
      answer   = `<res> | <sent> | <events>`
  pair <t> <schedule>                   both sides over FIFO channels; schedule = word over i/a (poll initiator / acceptor)
      answer   = `<ini res> <acc res> | <ini sent> | <acc sent> | <ini events> | <acc events>`
-/
open P2 P2.Handshake P2.Drv

def msgStr : Msg Nat → String
  | .topic t => s!"T{t}"
  | .done => "D"

def errStr : Err Nat → String
  | .unexpected m => s!"E:unexpected:{msgStr m}"
  | .closed => "E:closed"
  | .sink => "E:sink"
  | .stream => "E:stream"
  | .mpsc => "E:mpsc"

def evStr : Ev Nat → String
  | .initiate t => s!"I{t}"
  | .accept => "A"
  | .topicReceived t => s!"R{t}"
  | .done t => s!"F{t}"

def listStr {α : Type} (f : α → String) (l : List α) : String :=
  if l.isEmpty then "-" else " ".intercalate (l.map f)

def parseItem (s : String) : Option (Item Nat) :=
  if s = "D" then some (.msg .done)
  else if s = "X" then some .err
  else match s.toList with
    | 'T' :: r => (String.ofList r).toNat?.map (fun n => .msg (.topic n))
    | _ => none

def parseFault (s : String) : Option (Option (Nat × Bool)) :=
  if s = "-" then some none
  else match s.toList.reverse with
    | 'L' :: r => (String.ofList r.reverse).toNat?.map (fun n => some (n, true))
    | _ => s.toNat?.map (fun n => some (n, false))

def parseBool (s : String) : Option Bool :=
  if s = "0" then some false else if s = "1" then some true else none

def outStr {R : Type} (okStr : R → String) (o : Outcome Nat R) : String :=
  let r := match o.res with
    | .ok r => okStr r
    | .error e => errStr e
  s!"{r} | {listStr msgStr o.sent} | {listStr evStr o.events}"

def sideStr {R : Type} (okStr : R → String) : Side Nat R → String
  | .finished (.ok r) => okStr r
  | .finished (.error e) => errStr e
  | _ => "pending"

def parseSched (s : String) : Option (List Who) :=
  s.toList.mapM (fun c => if c = 'i' then some Who.ini else if c = 'a' then some Who.acc else none)

def handle (line : String) : String :=
  match tokens line with
  | "ini" :: tS :: fS :: eS :: items =>
    match tS.toNat?, parseFault fS, parseBool eS, items.mapM parseItem with
    | some t, some f, some e, some inc =>
      outStr (fun _ => "ok") (runT { sinkFault := f, evClosed := e } (initiator t) inc 0)
    | _, _, _, _ => "bad-op"
  | "acc" :: fS :: eS :: items =>
    match parseFault fS, parseBool eS, items.mapM parseItem with
    | some f, some e, some inc =>
      outStr (fun t => s!"ok:T{t}") (runT { sinkFault := f, evClosed := e } (acceptor (T := Nat)) inc 0)
    | _, _, _ => "bad-op"
  | ["pair", tS, schedS] =>
    match tS.toNat?, parseSched (if schedS = "-" then "" else schedS) with
    | some t, some sched =>
      -- one poll of a real future runs it until it blocks: start + every delivery that is
      -- possible, i.e. up to three model steps of that side (a side has at most three)
      let s := (Sys.init t).run (sched.flatMap (fun w => [w, w, w]))
      s!"{sideStr (fun _ => "ok") s.ini} {sideStr (fun t => s!"ok:T{t}") s.acc} | {listStr msgStr s.iniSent} | {listStr msgStr s.accSent} | {listStr evStr s.iniEv} | {listStr evStr s.accEv}"
    | _, _ => "bad-op"
  | _ => "bad-op"

def main : IO Unit := runMain handle
