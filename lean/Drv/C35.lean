import P2.Model.GroupEnc
import P2.Drv.Util
/-
Request:  schedule tokens (members are 0..5, clock reading 1000 throughout):
  `c<m>:<m1>,<m2>,../<sid>`  create by m (sid = id of the generated secret)
  `a<m>:<x>`  add      `r<m>:<x>/<sid>`  remove      `u<m>/<sid>`  update      `s<m>`  application message
  `d<k>:<j>`  deliver message number k to member j
Answer:   per token `m<k>` (issued message number) | `ok[:rm|:p<n>]*` (delivered, outputs in order) |
          `E:established|E:notyet|E:self|E:nosecret|E:unknownsecret|E:dcgka` | `-`;
          then `|` and per member `<m>:w<0|1>:v<view>:b<id@ts,..>:l<latest id|->`.
-/
open P2 P2.GroupEnc P2.GroupSecret P2.Drv

def two? (r : String) : Option (Nat × Nat) :=
  match r.splitOn ":" with
  | [a, b] => match a.toNat?, b.toNat? with
    | some a, some b => some (a, b)
    | _, _ => none
  | _ => none

def parseStep (t : String) : Option Step :=
  let (body, sid) : String × Option Nat := match t.splitOn "/" with
    | [b, s] => (b, s.toNat?)
    | _ => (t, none)
  let hasSlash := (t.splitOn "/").length = 2
  match body.toList with
  | 'c' :: r =>
    match (String.ofList r).splitOn ":", sid with
    | [m, ms], some sid =>
      match m.toNat?, ((ms.splitOn ",").filter (· ≠ "")).mapM String.toNat? with
      | some m, some ms => some (.create m ms sid)
      | _, _ => none
    | _, _ => none
  | 'a' :: r => if hasSlash then none else (two? (String.ofList r)).map (fun p => Step.add p.1 p.2)
  | 'r' :: r => match two? (String.ofList r), sid with
    | some p, some sid => some (.remove p.1 p.2 sid)
    | _, _ => none
  | 'u' :: r => match (String.ofList r).toNat?, sid with
    | some m, some sid => some (.update m sid)
    | _, _ => none
  | 's' :: r => if hasSlash then none else (String.ofList r).toNat?.map Step.send
  | 'd' :: r => if hasSlash then none else (two? (String.ofList r)).map (fun p => Step.deliver p.1 p.2)
  | _ => none

def errStr : Err → String
  | .established => "E:established" | .notYet => "E:notyet" | .addSelf => "E:self"
  | .noSecret => "E:nosecret" | .unknownSecret => "E:unknownsecret" | .dcgka => "E:dcgka"

def outStr : Out → String
  | .plain n => s!"p{n}"
  | .removed => "rm"

def obsStr : Obs → String
  | .issued k => s!"m{k}"
  | .delivered outs => ":".intercalate ("ok" :: outs.map outStr)
  | .err e => errStr e
  | .idle => "-"

def insertSorted (x : Nat) : List Nat → List Nat
  | [] => [x]
  | y :: ys => if x ≤ y then x :: y :: ys else y :: insertSorted x ys

def sortNat (l : List Nat) : List Nat := l.foldr insertSorted []

def memStr (i : Nat) (y : MState) : String :=
  let view := ",".intercalate ((sortNat y.view).map toString)
  let ids := sortNat (y.bundle.secrets.map (·.id))
  let b := ",".intercalate (ids.map (fun id =>
    match y.bundle.secrets.find? (·.id = id) with
    | some s => s!"{s.id}@{s.ts}"
    | none => "?"))
  let l := optNatStr (y.bundle.latestSecret.map (·.id))
  s!"{i}:w{if y.welcomed then 1 else 0}:v{view}:b{b}:l{l}"

def inRange : Step → Bool
  | .create m ms _ => m < 6 && ms.all (· < 6)
  | .add m x => m < 6 && x < 6
  | .remove m x _ => m < 6 && x < 6
  | .update m _ => m < 6
  | .send m => m < 6
  | .deliver _ j => j < 6

def handle (line : String) : String :=
  match (tokens line).mapM parseStep with
  | some steps =>
    if !steps.all inRange then "bad-op" else
    let (n, obs) := Net.init.run 1000 steps
    " ".intercalate (obs.map obsStr ++ ["|"] ++ (List.range 6).map (fun i => memStr i (n.mem i)))
  | none => "bad-op"

def main : IO Unit := runMain handle
