-- Root of the P2 library: per-property modules are built individually by ./check.
import P2.Model.Dedup
