/-
Model of the crash / replay path of a topic stream (p2panda/src/streams):

* `forge.rs` `create_operation`: the operation row is committed to the store BEFORE it is handed to the pipeline;
* `acked.rs` `Acked::ack` / `nacked_log_ranges`: a persisted cursor (author ↦ highest acknowledged seq) and
  `cursor.compare(local log heights)` (`P2.Heights.compare`, the model shared with C06/C07);
* `replay.rs` `replay_log_ranges`: for every returned range `(after, until]` fetch `get_log_entries` and run every
  row through `process_operation` (body-less → always ack, never delivered; body → delivered, ack iff the policy
  is automatic).

One log per author and topic (`LogId::from_topic`), so a topic's persistent state is `rows` (the topic's rows of
`operations_v1`) and `cursor` (its row of `cursors_v1`). Everything else (pipeline queue, channels, what has been
handed to the application) is volatile and lost by a crash.

Imports only the import-free `P2.Model.Heights` (linked into the driver executable).
-/
import P2.Model.Heights

namespace P2.Replay
open P2.Heights

structure Row where
  author : Nat
  seq : Nat
  body : Bool
  id : Nat
deriving DecidableEq, Repr

/-- Persistent state of one topic: its operation rows, its cursor row and the authors whose log is associated
    with the topic (`topics_v1`; `TopicStore::resolve` — the replay only looks at associated logs). -/
structure Persist where
  rows : List Row
  cursor : Heights Nat
  assoc : List Nat

/-- `get_log_heights`: latest seq per author (first-appearance order of the authors). -/
def heightsOf (rows : List Row) : Heights Nat :=
  rows.foldl (fun h r => advance h r.author r.seq) []

/-- `WHERE seq_num > after` (`>= 0` without `after`) `AND seq_num <= until`. -/
def inRange (rg : Range) (s : Nat) : Bool :=
  (match rg.1 with
   | none => true
   | some a => decide (a < s)) && decide (s ≤ rg.2)

def insertBySeq (r : Row) : List Row → List Row
  | [] => [r]
  | x :: t => if r.seq ≤ x.seq then r :: x :: t else x :: insertBySeq r t

/-- `ORDER BY seq_num`. -/
def sortBySeq : List Row → List Row
  | [] => []
  | r :: t => insertBySeq r (sortBySeq t)

/-- `get_log_entries(author, log, after, until)`. -/
def entries (rows : List Row) (a : Nat) (rg : Range) : List Row :=
  sortBySeq (rows.filter fun r => decide (r.author = a) && inRange rg r.seq)

/-- Rows of logs the topic knows about (`store.resolve(topic)` followed by `get_log_heights`). -/
def visibleRows (p : Persist) : List Row := p.rows.filter fun r => p.assoc.contains r.author

/-- `nacked_log_ranges(StreamFrom::Frontier)`. -/
def nacked (p : Persist) : Ranges Nat := compare (heightsOf (visibleRows p)) p.cursor

/-- Rows handed to the application by the replay (`StreamEvent::Processed`), in order. -/
def deliveredRows (p : Persist) : List Row :=
  (nacked p).flatMap fun e => (entries p.rows e.1 e.2).filter (·.body)

def delivered (p : Persist) : List Nat := (deliveredRows p).map (·.id)

/-- The cursor after the replay ran to its end: body-less rows are always acked, the others iff `auto`. -/
def replayCursor (auto : Bool) (p : Persist) : Heights Nat :=
  (nacked p).foldl (fun c e =>
    (entries p.rows e.1 e.2).foldl (fun c r => if !r.body || auto then advance c r.author r.seq else c) c)
    p.cursor

/-! ### Histories with crashes -/

/-- Volatile part: ids sitting in the pipeline / handed to the application. -/
structure St where
  p : Persist
  inPipeline : List Nat
  handed : List Nat

/-- Every constructor except `crash` is ONE committed store transaction (or a volatile step). -/
inductive Op
  | insert (r : Row)        -- forge / ingest: operation row AND topic association in one transaction (the code)
  | insertRow (r : Row)     -- split variant only: the operation row is committed on its own …
  | associate (a : Nat)     -- … and the topic association in a second transaction
  | process (i : Nat)       -- the pipeline finished an operation, it is handed to the application
  | ack (a : Nat) (h : Nat) -- `Acked::ack` (automatic, explicit or body-less)
  | crash                   -- abort: volatile state is gone, the SQLite file stays

def step (s : St) : Op → St
  | .insert r => { s with p := { s.p with rows := s.p.rows ++ [r], assoc := r.author :: s.p.assoc },
                            inPipeline := s.inPipeline ++ [r.id] }
  | .insertRow r => { s with p := { s.p with rows := s.p.rows ++ [r] } }
  | .associate a => { s with p := { s.p with assoc := a :: s.p.assoc } }
  | .process i => { s with inPipeline := s.inPipeline.erase i, handed := s.handed ++ [i] }
  | .ack a h => { s with p := { s.p with cursor := advance s.p.cursor a h } }
  | .crash => { s with inPipeline := [], handed := [] }

def runOps (s : St) (ops : List Op) : St := ops.foldl step s

/-- The operations the code performs: insert and association are never separate transactions. -/
def Op.atomic : Op → Bool
  | .insertRow _ => false
  | .associate _ => false
  | _ => true

end P2.Replay
