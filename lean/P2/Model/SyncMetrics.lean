/-
Model of `p2panda/src/streams/sync_metrics.rs` (`Aggregator`).

`Metrics` carries the twelve counters of `p2panda_sync::protocols::Metrics`; `HashMap`s are
association lists (`lookup` / `upsert` / `remove`), the `HashSet` of live sessions is a list.
`u32` counters are `Nat` (the Rust `+=` panics on overflow in the checked profile; totals
below 2^32 are an assumption of the property, not something it speaks about).

`processOrig` transcribes the pinned code (totals are increased by the session's cumulative
`sent_bytes()` on `SyncFinished` and again on `SessionFinished`; a failed session's bytes are
never added).  `process` transcribes the repaired code: the totals only ever receive the part
of a session's cumulative counters that was not counted before (`counted`), at `SyncFinished`
and at the end of the session (finished or failed, with the last metrics seen).

Imports only the association-list helpers of `P2.Model.Heights`.
-/
import P2.Model.Heights

namespace P2.SyncMetrics
open P2.Heights (lookup upsert)

structure Metrics where
  outSyncBytes : Nat
  outSyncOps : Nat
  inSyncBytes : Nat
  inSyncOps : Nat
  sentSyncBytes : Nat
  sentSyncOps : Nat
  recvSyncBytes : Nat
  recvSyncOps : Nat
  sentLiveBytes : Nat
  sentLiveOps : Nat
  recvLiveBytes : Nat
  recvLiveOps : Nat
deriving DecidableEq, Repr

def Metrics.zero : Metrics := ⟨0, 0, 0, 0, 0, 0, 0, 0, 0, 0, 0, 0⟩

def Metrics.sentBytes (m : Metrics) : Nat := m.sentSyncBytes + m.sentLiveBytes
def Metrics.recvBytes (m : Metrics) : Nat := m.recvSyncBytes + m.recvLiveBytes
def Metrics.sentOps (m : Metrics) : Nat := m.sentSyncOps + m.sentLiveOps
def Metrics.recvOps (m : Metrics) : Nat := m.recvSyncOps + m.recvLiveOps

/-- `TopicLogSyncEvent` (the operation payload of `OperationReceived` is irrelevant here). -/
inductive Ev where
  | sessionStarted
  | syncStarted (m : Metrics)
  | operationReceived (m : Metrics)
  | syncFinished (m : Metrics)
  | liveModeStarted
  | sessionFinished (m : Metrics)
  | failed
deriving DecidableEq, Repr

/-- `SyncEvent` returned by `process`. -/
inductive Out where
  | none
  | syncStarted (id inOps outOps inBytes outBytes sessions : Nat)
  | syncEnded (id sentOps recvOps sentBytes recvBytes sentTotal recvTotal : Nat) (error : Bool)
  | operationReceived (id sentOps recvOps sentBytes recvBytes sentTotal recvTotal : Nat) (live : Bool)
deriving DecidableEq, Repr

structure Agg where
  running : Nat
  sent : Nat
  recv : Nat
  sessions : List (Nat × Metrics)
  live : List Nat
  /-- repaired code only: bytes of each running session already part of the totals -/
  counted : List (Nat × (Nat × Nat))
deriving Repr

def Agg.new : Agg := ⟨0, 0, 0, [], [], []⟩

/-- `HashMap::remove`. -/
def remove {V : Type} (k : Nat) (m : List (Nat × V)) : List (Nat × V) :=
  m.filter fun e => e.1 ≠ k

def liveInsert (id : Nat) (l : List Nat) : List Nat := if id ∈ l then l else id :: l
def liveRemove (id : Nat) (l : List Nat) : List Nat := l.filter (· ≠ id)

/-! ## Pinned code -/

/-- `handle_session_end` (pinned): `saturating_sub(1)`, forget the session, return its last metrics. -/
def handleSessionEndOrig (s : Agg) (id : Nat) : Agg × Metrics :=
  ({ s with running := s.running - 1, live := liveRemove id s.live, sessions := remove id s.sessions },
   (lookup id s.sessions).getD Metrics.zero)

def processOrig (s : Agg) (id : Nat) : Ev → Agg × Out
  | .sessionStarted =>
    ({ s with running := s.running + 1, sessions := upsert id Metrics.zero s.sessions }, .none)
  | .syncStarted m =>
    let s := { s with sessions := upsert id m s.sessions }
    (s, .syncStarted id m.inSyncOps m.outSyncOps m.inSyncBytes m.outSyncBytes s.running)
  | .operationReceived m =>
    let s := { s with sessions := upsert id m s.sessions }
    (s, .operationReceived id m.sentOps m.recvOps m.sentBytes m.recvBytes s.sent s.recv
          (decide (id ∈ s.live)))
  | .syncFinished m =>
    let s := { s with sessions := upsert id m s.sessions,
                      sent := s.sent + m.sentBytes, recv := s.recv + m.recvBytes }
    (s, .syncEnded id m.sentOps m.recvOps m.sentBytes m.recvBytes s.sent s.recv false)
  | .sessionFinished m =>
    let s := (handleSessionEndOrig s id).1
    ({ s with sent := s.sent + m.sentBytes, recv := s.recv + m.recvBytes }, .none)
  | .failed =>
    let (s, m) := handleSessionEndOrig s id
    (s, .syncEnded id m.sentOps m.recvOps m.sentBytes m.recvBytes s.sent s.recv true)
  | .liveModeStarted =>
    ({ s with live := liveInsert id s.live }, .none)

/-! ## Repaired code -/

/-- `count_session_bytes`: add the not-yet-counted part of the session's cumulative counters. -/
def countSessionBytes (s : Agg) (id : Nat) (m : Metrics) : Agg :=
  let c := (lookup id s.counted).getD (0, 0)
  { s with sent := s.sent + (m.sentBytes - c.1), recv := s.recv + (m.recvBytes - c.2),
           counted := upsert id (max m.sentBytes c.1, max m.recvBytes c.2) s.counted }

/-- `handle_session_end` (repaired): additionally counts what the session transferred since
    its totals were last updated and forgets the `counted` entry. -/
def handleSessionEnd (s : Agg) (id : Nat) : Agg × Metrics :=
  let m := (lookup id s.sessions).getD Metrics.zero
  let s := { s with running := s.running - 1, live := liveRemove id s.live,
                    sessions := remove id s.sessions }
  let s := countSessionBytes s id m
  ({ s with counted := remove id s.counted }, m)

def process (s : Agg) (id : Nat) : Ev → Agg × Out
  | .sessionStarted =>
    ({ s with running := s.running + 1, sessions := upsert id Metrics.zero s.sessions }, .none)
  | .syncStarted m =>
    let s := { s with sessions := upsert id m s.sessions }
    (s, .syncStarted id m.inSyncOps m.outSyncOps m.inSyncBytes m.outSyncBytes s.running)
  | .operationReceived m =>
    let s := { s with sessions := upsert id m s.sessions }
    (s, .operationReceived id m.sentOps m.recvOps m.sentBytes m.recvBytes s.sent s.recv
          (decide (id ∈ s.live)))
  | .syncFinished m =>
    let s := { s with sessions := upsert id m s.sessions }
    let s := countSessionBytes s id m
    (s, .syncEnded id m.sentOps m.recvOps m.sentBytes m.recvBytes s.sent s.recv false)
  | .sessionFinished m =>
    let s := { s with sessions := upsert id m s.sessions }
    ((handleSessionEnd s id).1, .none)
  | .failed =>
    let (s, m) := handleSessionEnd s id
    (s, .syncEnded id m.sentOps m.recvOps m.sentBytes m.recvBytes s.sent s.recv true)
  | .liveModeStarted =>
    ({ s with live := liveInsert id s.live }, .none)

/-- The aggregator after a sequence of `(session id, event)` pairs. -/
def run (evs : List (Nat × Ev)) : Agg :=
  evs.foldl (fun s e => (process s e.1 e.2).1) Agg.new

def runOrig (evs : List (Nat × Ev)) : Agg :=
  evs.foldl (fun s e => (processOrig s e.1 e.2).1) Agg.new

end P2.SyncMetrics
