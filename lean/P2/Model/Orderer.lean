/-
Model of the causal orderer:
  * `p2panda-store/src/orderer/sqlite.rs`  (`impl OrdererStore<ID> for SqliteStore`, tables
    `orderer_ready_v1 (id PRIMARY KEY, queue_index UNIQUE, in_queue)` and
    `orderer_pending_v1 (id, child_id, parent_id, set_digest)` with a UNIQUE index over all four columns)
  * `p2panda-stream/src/orderer/orderer.rs` (`CausalOrderer::{process, process_pending, next}`)

Ids are `Nat`.  `set_digest` (BLAKE3 of the child and the *sorted* parent list, repetitions included)
is modelled by the sorted parent list itself (an injective function of the multiset, which is all the
code uses it for; the child is a column of the row anyway).

Two things the SQL/Rust code leaves open are explicit parameters:
  * `chk`  – the `ready` query.  `readyChkOrig` is the pinned code (`COUNT(..) == dependencies.len()`),
             `readyChk` the repaired one (`== number of distinct dependencies`).
  * `ord`  – the iteration order of the `HashSet<(ID, Vec<ID>)>` returned by `get_next_pending`
             (random per process in the real code).  The theorems hold for every `ord` that keeps the
             elements; the driver uses `id` and the comparison is made modulo that order.
No imports: this file is linked into the driver executable.
-/
namespace P2.Orderer

structure RRow where
  id : Nat
  idx : Nat
  inq : Bool
deriving Repr, DecidableEq

structure PRow where
  id : Nat
  child : Nat
  parent : Nat
  digest : List Nat
deriving Repr, DecidableEq

structure St where
  ready : List RRow
  pending : List PRow
deriving Repr

def empty : St := { ready := [], pending := [] }

/-- Remove repetitions (`DISTINCT`, `HashSet`); which occurrence is kept is irrelevant everywhere. -/
def dd {α : Type} [DecidableEq α] : List α → List α
  | [] => []
  | x :: xs => if x ∈ xs then dd xs else x :: dd xs

def readyIds (s : St) : List Nat := s.ready.map (·.id)

/-- `SELECT 1 FROM orderer_ready_v1 WHERE id = ?` … `is_some()` -/
def isReady (s : St) (x : Nat) : Bool := s.ready.any (fun r => r.id == x)

/-- `SELECT COUNT(id) FROM orderer_ready_v1 WHERE id IN (deps…)` -/
def countIn (s : St) (deps : List Nat) : Nat :=
  (s.ready.filter (fun r => deps.contains r.id)).length

/-- `OrdererStore::ready` as pinned: `count == dependencies.len()`. -/
def readyChkOrig (s : St) (deps : List Nat) : Bool := countIn s deps == deps.length

/-- `OrdererStore::ready` repaired: `count == number of distinct dependencies`. -/
def readyChk (s : St) (deps : List Nat) : Bool := countIn s deps == (dd deps).length

/-- `SELECT MAX(queue_index)` (0 on the empty table). -/
def maxIdx (rs : List RRow) : Nat := rs.foldl (fun m r => max m r.idx) 0

/-- `OrdererStore::mark_ready`: insert at `MAX+1`; if the id exists and is still queued do nothing,
    if it exists and was taken already re-queue it at `MAX+1`. -/
def markReady (s : St) (x : Nat) : St :=
  let qi := maxIdx s.ready + 1
  match s.ready.find? (fun r => r.id == x) with
  | none => { s with ready := s.ready ++ [RRow.mk x qi true] }
  | some r =>
    if r.inq then s
    else { s with ready := s.ready.map (fun r => if r.id == x then RRow.mk x qi true else r) }

def insertSorted (x : Nat) : List Nat → List Nat
  | [] => [x]
  | y :: ys => if x ≤ y then x :: y :: ys else y :: insertSorted x ys

/-- `parent_ids.sort()` -/
def sort (l : List Nat) : List Nat := l.foldr insertSorted []

/-- `INSERT OR IGNORE` under the four-column unique index. -/
def insertRow (p : List PRow) (r : PRow) : List PRow := if p.contains r then p else p ++ [r]

/-- `OrdererStore::mark_pending`: for every parent that is not in the ready table, one group of rows
    `(that parent, child, p, digest)` for **all** parents `p`. -/
def markPending (s : St) (child : Nat) (parents : List Nat) : St :=
  let ps := sort parents
  let group (acc : List PRow) (key : Nat) : List PRow :=
    ps.foldl (fun acc2 p => insertRow acc2 (PRow.mk key child p ps)) acc
  let pend := ps.foldl (fun acc key => if isReady s key then acc else group acc key) s.pending
  { s with pending := pend }

/-- `OrdererStore::get_next_pending`: the distinct `(child, digest)` pairs of the rows keyed by `key`,
    each with **every** `parent_id` stored for that `(child, digest)` (over all keys, hence with
    repetitions), ordered by parent. `none` when no row is keyed by `key`. -/
def getNextPending (s : St) (key : Nat) : Option (List (Nat × List Nat)) :=
  let sets := dd ((s.pending.filter (fun r => r.id == key)).map (fun r => (r.child, r.digest)))
  if sets.isEmpty then none
  else some (dd (sets.map (fun cd =>
      (cd.1, sort ((s.pending.filter (fun r => r.child == cd.1 && r.digest == cd.2)).map (·.parent))))))

/-- `DELETE FROM orderer_pending_v1 WHERE id = ?` -/
def removePending (s : St) (key : Nat) : St :=
  { s with pending := s.pending.filter (fun r => r.id != key) }

/-- The queued row with the smallest `queue_index`. -/
def minInq : List RRow → Option RRow
  | [] => none
  | r :: rs =>
    match minInq rs with
    | none => if r.inq then some r else none
    | some m => if r.inq && r.idx ≤ m.idx then some r else some m

/-- `OrdererStore::take_next_ready` (= `CausalOrderer::next`). -/
def takeNextReady (s : St) : St × Option Nat :=
  match minInq s.ready with
  | none => (s, none)
  | some m =>
    ({ s with ready := s.ready.map (fun r => if r.id == m.id then RRow.mk r.id r.idx false else r) }, some m.id)

/-- Sequential loop with early exit on failure (`?`). -/
def forM' (f : St → (Nat × List Nat) → Option St) : St → List (Nat × List Nat) → Option St
  | s, [] => some s
  | s, d :: ds =>
    match f s d with
    | none => none
    | some s' => forM' f s' ds

abbrev Chk := St → List Nat → Bool
abbrev Ord := List (Nat × List Nat) → List (Nat × List Nat)

/-- `CausalOrderer::process_pending`. `fuel` bounds the recursion *depth*; `none` = fuel exhausted
    (the Rust code would not terminate / overflow its stack). -/
def processPending (chk : Chk) (ord : Ord) : Nat → St → Nat → Option St
  | 0, _, _ => none
  | fuel + 1, s, key =>
    match getNextPending s key with
    | none => some s
    | some dependents =>
      match forM' (fun s d => if chk s d.2 then processPending chk ord fuel (markReady s d.1) d.1 else some s)
              s (ord dependents) with
      | none => none
      | some s' => some (removePending s' key)

/-- Recursion depth that always suffices (theorem `c11_fuel_suffices`). -/
def fuelFor (s : St) : Nat := s.pending.length + 1

/-- `CausalOrderer::process`. -/
def process (chk : Chk) (ord : Ord) (s : St) (key : Nat) (deps : List Nat) : Option St :=
  if chk s deps then processPending chk ord (fuelFor s) (markReady s key) key
  else some (markPending s key deps)

/-- Observable operations: deliver an item with its dependency list, or call `next` once. -/
inductive Op where
  | proc (key : Nat) (deps : List Nat)
  | next
deriving Repr, DecidableEq

/-- Run a history; the output is the sequence of ids returned by the `next` calls (a `next` on an empty
    queue returns `None` and contributes nothing). `none` = fuel exhausted. -/
def run (chk : Chk) (ord : Ord) : St → List Nat → List Op → Option (St × List Nat)
  | s, out, [] => some (s, out)
  | s, out, Op.proc k ds :: ops =>
    match process chk ord s k ds with
    | none => none
    | some s' => run chk ord s' out ops
  | s, out, Op.next :: ops =>
    match takeNextReady s with
    | (s', none) => run chk ord s' out ops
    | (s', some x) => run chk ord s' (out ++ [x]) ops

/-- `next` until `None` (at most `n` times). -/
def drain : Nat → St → St × List Nat
  | 0, s => (s, [])
  | n + 1, s =>
    match takeNextReady s with
    | (s', none) => (s', [])
    | (s', some x) => ((drain n s').1, x :: (drain n s').2)

def queueLen (s : St) : Nat := (s.ready.filter (·.inq)).length

/-- `COUNT(DISTINCT id)` of the pending table (`OrdererTestExt::pending_len`). -/
def pendingLen (s : St) : Nat := (dd (s.pending.map (·.id))).length

end P2.Orderer
