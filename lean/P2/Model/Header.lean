/-
Model of p2panda-core's operation header, its CBOR (de)serialiser and validation
(p2panda-core/src/serde.rs, operation.rs) and of the Node API extensions
(p2panda/src/operation.rs).  Import-free: linked into the model drivers.

CBOR level.  ciborium writes / reads a *stream of item heads*: an array head carries only its
declared length, the elements follow.  The model works on exactly that stream (`Tok`), so that
`field_count` (the declared length), the `SeqAccess` countdown, the trailing-field check and
ciborium's habit of leaving unread elements of a nested array in the stream are all modelled
as they are, not abstracted away by a tree.  Byte strings are `bytes len id` (`id` names the
content; the harness assigns ids order-preserving w.r.t. the byte-wise order of the contents,
so `Nat` order on ids of hashes = `Ord for Hash`).  Integers are shortest-form (trusted: ciborium).

Cryptography is ideal: hashes / keys / signatures are opaque ids; `verify` consults a table of
honestly produced signatures `(key, signed token stream, signature)`.
-/
namespace P2.Header

/-- One CBOR item head (definite lengths only; everything p2panda emits). -/
inductive Tok where
  | arr (n : Nat)            -- array head, `n` elements follow
  | map (n : Nat)            -- map head, `n` key/value pairs follow
  | uint (n : Nat)           -- major type 0
  | nint (n : Nat)           -- major type 1 (value −1−n)
  | bytes (len id : Nat)     -- byte string of length `len`, content named `id`
  | text (id : Nat)          -- text string, content named `id`
  | bool (b : Bool)
  | null
  | other                    -- float / tag / undefined / indefinite-length item
  deriving DecidableEq, Repr, Inhabited

inductive DecodeErr where
  | eof | type | range | length | badKey | missing | excess | version | variant
  | dupField | unknownField
  deriving DecidableEq, Repr

/-- A stream parser: consumes a prefix of the token stream. -/
abbrev P (α : Type) := List Tok → Except DecodeErr (α × List Tok)

/-- `deserialize_u16/u32/u64`: an unsigned integer below `bound`. -/
def pUint (bound : Nat) : P Nat
  | [] => .error .eof
  | .uint n :: r => if n < bound then .ok (n, r) else .error .range
  | _ => .error .type

/-- `deserialize_hex` + `TryFrom<&[u8]>` with a length check (`Hash`, `Signature`).
    (ciborium also accepts an *array of u8* here; never emitted, not modelled: `.type`.) -/
def pBytes (len : Nat) : P Nat
  | [] => .error .eof
  | .bytes l id :: r => if l = len then .ok (id, r) else .error .length
  | _ => .error .type

/-- `VerifyingKey`: 32 bytes that decompress to a curve point (`keyOk`, supplied per request). -/
def pKey (keyOk : Nat → Bool) : P Nat
  | [] => .error .eof
  | .bytes l id :: r =>
    if l = 32 then (if keyOk id then .ok (id, r) else .error .badKey) else .error .length
  | _ => .error .type

def pBool : P Bool
  | [] => .error .eof
  | .bool b :: r => .ok (b, r)
  | _ => .error .type

/-- `SeqAccess::next_element()?.ok_or("… missing")` on an `Access(_, Some(rem))`. -/
def req {α : Type} (p : P α) (rem : Nat) (ts : List Tok) : Except DecodeErr (α × Nat × List Tok) :=
  if rem = 0 then .error .missing
  else
    match p ts with
    | .ok (a, ts') => .ok (a, rem - 1, ts')
    | .error e => .error e

/-- Optional header field that is expected iff `present`. -/
def reqIf {α : Type} (present : Bool) (p : P α) (rem : Nat) (ts : List Tok) :
    Except DecodeErr (Option α × Nat × List Tok) :=
  if present then
    match req p rem ts with
    | .ok (a, r, ts') => .ok (some a, r, ts')
    | .error e => .error e
  else .ok (none, rem, ts)

/-! ## Header -/

structure Header (E : Type) where
  version : Nat
  key : Nat
  signature : Option Nat
  payloadSize : Nat
  payloadHash : Option Nat
  seq : Nat
  backlink : Option Nat
  ext : E
  deriving DecidableEq, Repr

/-- How an extensions type is (de)serialised. `zst = some z`: zero-sized type, the field is
    skipped on both sides (`has_non_zero_sized_extensions`, `zero_sized_extensions`). -/
structure ExtCodec (E : Type) where
  zst : Option E
  enc : E → List Tok
  dec : P E

def optCount {α : Type} : Option α → Nat
  | some _ => 1
  | none => 0

/-- `Header::field_count`. `base` is the literal `4` of the source (re-extracted on every run). -/
def fieldCountWith {E : Type} (base : Nat) (c : ExtCodec E) (h : Header E) : Nat :=
  base + optCount h.signature + optCount h.payloadHash + optCount h.backlink
    + (match c.zst with | some _ => 0 | none => 1)

def fieldCount {E : Type} (c : ExtCodec E) (h : Header E) : Nat := fieldCountWith 4 c h

def optBytes (len : Nat) : Option Nat → List Tok
  | some id => [.bytes len id]
  | none => []

/-- `impl Serialize for Header<E>`: field presence exactly as the serializer decides it. -/
def encode {E : Type} (c : ExtCodec E) (h : Header E) : List Tok :=
  [.arr (fieldCount c h), .uint h.version, .bytes 32 h.key]
    ++ optBytes 64 h.signature
    ++ [.uint h.payloadSize]
    ++ optBytes 32 h.payloadHash
    ++ [.uint h.seq]
    ++ optBytes 32 h.backlink
    ++ (match c.zst with | some _ => [] | none => c.enc h.ext)

/-- `HeaderVisitor::visit_seq` after the array head with declared length `n` was pulled. -/
def decodeFields {E : Type} (c : ExtCodec E) (keyOk : Nat → Bool) (n : Nat) (ts : List Tok) :
    Except DecodeErr (Header E × List Tok) :=
  match req (pUint (2 ^ 16)) n ts with
  | .error e => .error e
  | .ok (version, n, ts) =>
  match req (pKey keyOk) n ts with
  | .error e => .error e
  | .ok (key, n, ts) =>
  match req (pBytes 64) n ts with
  | .error e => .error e
  | .ok (sig, n, ts) =>
  match req (pUint (2 ^ 32)) n ts with
  | .error e => .error e
  | .ok (size, n, ts) =>
  match reqIf (size != 0) (pBytes 32) n ts with
  | .error e => .error e
  | .ok (ph, n, ts) =>
  match req (pUint (2 ^ 32)) n ts with
  | .error e => .error e
  | .ok (seq, n, ts) =>
  match reqIf (seq != 0) (pBytes 32) n ts with
  | .error e => .error e
  | .ok (bl, n, ts) =>
  match (match c.zst with
         | some z => (.ok (z, n, ts) : Except DecodeErr (E × Nat × List Tok))
         | none => req c.dec n ts) with
  | .error e => .error e
  | .ok (ext, n, ts) =>
  if n > 0 then .error .excess
  else .ok ({ version := version, key := key, signature := some sig, payloadSize := size,
              payloadHash := ph, seq := seq, backlink := bl, ext := ext }, ts)

/-- `impl Deserialize for Header<E>` (`deserialize_seq`). A byte string is offered to the
    visitor as a sequence of `u8`: the key field then always fails. -/
def decode {E : Type} (c : ExtCodec E) (keyOk : Nat → Bool) : P (Header E)
  | [] => .error .eof
  | .arr n :: ts => decodeFields c keyOk n ts
  | .bytes l _ :: _ => .error (if l = 0 then .missing else .type)
  | _ => .error .type

/-! ## Extension codecs -/

/-- `()` -/
def unitCodec : ExtCodec Unit := { zst := some (), enc := fun _ => [], dec := fun ts => .ok ((), ts) }

/-- The harness' user-defined extension
    `#[serde(deny_unknown_fields)] struct Custom { custom_field: u64, flag: bool }`
    (serde derive ⇒ CBOR map with text keys; key ids: 0 = "custom_field", 1 = "flag"). -/
structure Custom where
  a : Nat
  flag : Bool
  deriving DecidableEq, Repr

def customLoop : Nat → Option Nat → Option Bool → List Tok →
    Except DecodeErr ((Option Nat × Option Bool) × List Tok)
  | 0, a, f, ts => .ok ((a, f), ts)
  | n + 1, a, f, ts =>
    match ts with
    | [] => .error .eof
    | .text 0 :: ts =>
      if a.isSome then .error .dupField else
      match pUint (2 ^ 64) ts with
      | .ok (v, ts) => customLoop n (some v) f ts
      | .error e => .error e
    | .text 1 :: ts =>
      if f.isSome then .error .dupField else
      match pBool ts with
      | .ok (v, ts) => customLoop n a (some v) ts
      | .error e => .error e
    | .text _ :: _ => .error .unknownField
    | _ => .error .type

def decodeCustom : P Custom
  | [] => .error .eof
  | .map n :: ts =>
    match customLoop n none none ts with
    | .ok ((some a, some f), ts) => .ok ({ a := a, flag := f }, ts)
    | .ok (_, _) => .error .missing
    | .error e => .error e
  | _ => .error .type

def customCodec : ExtCodec Custom :=
  { zst := none
    enc := fun e => [.map 2, .text 0, .uint e.a, .text 1, .bool e.flag]
    dec := decodeCustom }

/-- Node API extensions (`p2panda::operation::Extensions`). The private `version` field is
    always `EXTENSIONS_VERSION` (only constructor + decoder set it), so it is not a component.
    `previous` is a *set*: its canonical representative is the strictly increasing list. -/
inductive NodeExt where
  | basic (log ts : Nat) (prune : Bool)
  | causal (log ts : Nat) (previous : List Nat)
  deriving DecidableEq, Repr

def nefVersion : Nat := 1
def basicCode : Nat := 0
def causalCode : Nat := 1
def nefHeaderFields : Nat := 2
def basicFields : Nat := 3
def causalFields : Nat := 3

/-- Set insertion into a strictly increasing list. -/
def setInsert (x : Nat) : List Nat → List Nat
  | [] => [x]
  | y :: ys => if x < y then x :: y :: ys else if x = y then y :: ys else y :: setInsert x ys

/-- Canonical (strictly increasing, duplicate-free) form of a list read as a set:
    what `HashSet::from_iter` + sorting by `Ord for Hash` yields. -/
def canon (l : List Nat) : List Nat := l.foldr setInsert []

/-- `impl Serialize for Extensions`, with the order in which the elements of `previous` are
    written as a parameter. -/
def encodeNodeWith (order : List Nat → List Nat) : NodeExt → List Tok
  | .basic log ts p =>
    [.arr (nefHeaderFields + basicFields), .uint nefVersion, .uint basicCode,
     .bytes 32 log, .uint ts, .bool p]
  | .causal log ts prev =>
    [.arr (nefHeaderFields + causalFields), .uint nefVersion, .uint causalCode,
     .bytes 32 log, .uint ts, .arr (order prev).length] ++ (order prev).map (Tok.bytes 32)

/-- Repaired serialiser (`fix:` commit): `previous` is written in increasing `Hash` order. -/
def encodeNode : NodeExt → List Tok := encodeNodeWith canon

/-- `HashSet<Hash>::deserialize`: `deserialize_seq`, elements until the declared count is
    used up. An *empty byte string* is accepted as an empty sequence (ciborium `BytesAccess`). -/
def hashElems : Nat → List Tok → Except DecodeErr (List Nat × List Tok)
  | 0, ts => .ok ([], ts)
  | n + 1, ts =>
    match pBytes 32 ts with
    | .error e => .error e
    | .ok (x, ts) =>
      match hashElems n ts with
      | .error e => .error e
      | .ok (xs, ts) => .ok (x :: xs, ts)

def pHashSet : P (List Nat)
  | [] => .error .eof
  | .arr n :: ts =>
    match hashElems n ts with
    | .ok (xs, ts) => .ok (canon xs, ts)
    | .error e => .error e
  | .bytes l _ :: ts => if l = 0 then .ok ([], ts) else .error .type
  | _ => .error .type

/-- `ExtensionsVisitor::visit_seq`. No trailing-field check (by design: forward compatibility);
    ciborium leaves unread elements in the stream, the model returns them as the rest. -/
def decodeNodeFields (n : Nat) (ts : List Tok) : Except DecodeErr (NodeExt × List Tok) :=
  match req (pUint (2 ^ 16)) n ts with
  | .error e => .error e
  | .ok (v, n, ts) =>
  if v ≠ nefVersion then .error .version else
  match req (pUint (2 ^ 16)) n ts with
  | .error e => .error e
  | .ok (code, n, ts) =>
  if code = basicCode then
    match req (pBytes 32) n ts with
    | .error e => .error e
    | .ok (log, n, ts) =>
    match req (pUint (2 ^ 64)) n ts with
    | .error e => .error e
    | .ok (t, n, ts) =>
    match req pBool n ts with
    | .error e => .error e
    | .ok (p, _, ts) => .ok (.basic log t p, ts)
  else if code = causalCode then
    match req (pBytes 32) n ts with
    | .error e => .error e
    | .ok (log, n, ts) =>
    match req (pUint (2 ^ 64)) n ts with
    | .error e => .error e
    | .ok (t, n, ts) =>
    match req pHashSet n ts with
    | .error e => .error e
    | .ok (prev, _, ts) => .ok (.causal log t prev, ts)
  else .error .variant

def decodeNode : P NodeExt
  | [] => .error .eof
  | .arr n :: ts => decodeNodeFields n ts
  | .bytes l _ :: _ => .error (if l = 0 then .missing else .type)
  | _ => .error .type

def nodeCodecWith (order : List Nat → List Nat) : ExtCodec NodeExt :=
  { zst := none, enc := encodeNodeWith order, dec := decodeNode }

/-- Repaired Node extensions codec. -/
def nodeCodec : ExtCodec NodeExt := nodeCodecWith canon

/-- `Extensions::prune_flag` / `log_id`. -/
def NodeExt.pruneFlag : NodeExt → Bool
  | .basic _ _ p => p
  | .causal _ _ _ => false

def NodeExt.logId : NodeExt → Nat
  | .basic l _ _ => l
  | .causal l _ _ => l

/-! ## Signatures, hashes, validation (operation.rs) -/

/-- Table of honestly produced signatures: `(key, signed token stream, signature)`. -/
abbrev SigTable := List (Nat × List Tok × Nat)

def unsign {E : Type} (h : Header E) : Header E := { h with signature := none }

/-- `Header::verify`: re-encode with `signature = None`, `verify_strict` (ideal: table lookup). -/
def verify {E : Type} (c : ExtCodec E) (tbl : SigTable) (h : Header E) : Bool :=
  match h.signature with
  | none => false
  | some s => tbl.contains (h.key, encode c (unsign h), s)

/-- `Header::sign` by the holder of `key`'s secret, producing signature id `s`:
    the header with the signature set, and the table entry that signing creates. -/
def signWith {E : Type} (c : ExtCodec E) (s : Nat) (h : Header E) : Header E × (Nat × List Tok × Nat) :=
  ({ h with signature := some s }, (h.key, encode c (unsign h), s))

inductive OpErr where
  | unsupportedVersion | missingSignature | signatureMismatch | seqNumMismatch
  | inconsistentPayloadInfo | missingPayloadHash | payloadMismatch | tooManyAuthors
  | seqNumNonIncremental | backlinkMissing | backlinkMismatch
  deriving DecidableEq, Repr

/-- `validate_header`, checks in source order. -/
def validateHeader {E : Type} (c : ExtCodec E) (tbl : SigTable) (h : Header E) : Except OpErr Unit :=
  if !verify c tbl h then .error .signatureMismatch
  else if h.version ≠ 1 then .error .unsupportedVersion
  else if (h.payloadHash.isSome && h.payloadSize == 0) || (h.payloadHash.isNone && h.payloadSize > 0) then
    .error .inconsistentPayloadInfo
  else if h.backlink.isSome && h.seq == 0 then .error .seqNumMismatch
  else if h.backlink.isNone && h.seq > 0 then .error .backlinkMissing
  else .ok ()

/-- A body as the model sees it: the id of its BLAKE3 hash and its length. -/
structure Body where
  hash : Nat
  size : Nat
  deriving DecidableEq, Repr

structure Operation (E : Type) where
  /-- the id the operation *claims* (`Operation.hash`; never compared with `header.hash()`) -/
  id : Nat
  header : Header E
  body : Option Body
  deriving DecidableEq, Repr

/-- `validate_operation`. -/
def validateOperation {E : Type} (c : ExtCodec E) (tbl : SigTable) (op : Operation E) : Except OpErr Unit :=
  match validateHeader c tbl op.header with
  | .error e => .error e
  | .ok () =>
    match (if op.header.payloadSize = 0 then (.ok none : Except OpErr (Option Nat))
           else match op.header.payloadHash with
                | none => .error .missingPayloadHash
                | some h => .ok (some h)) with
    | .error e => .error e
    | .ok claimed =>
      match op.body with
      | some b =>
        if claimed ≠ some b.hash || op.header.payloadSize ≠ b.size then .error .payloadMismatch
        else .ok ()
      | none => .ok ()

end P2.Header
