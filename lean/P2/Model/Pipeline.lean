/-
Model of the node's event processing pipeline (p2panda/src/processor/pipeline.rs, event.rs) and
of the status mapping of `process_operation` (p2panda/src/streams/stream.rs).  Import-free.

  Event::new(operation, log_id, topic, prune_flag)
     ingest_args    = (log_id, topic, prune_flag)
     log_prune_args = PruneEntriesUntil{author: header.verifying_key, log_id, seq_num: header.seq_num}
                      if prune_flag else Ignore            -- taken from the *unverified* header
  pipeline = Ingest → map(status) → LogPrune → map(status)
-/
import P2.Model.LogStore

namespace P2.Pipeline
open P2.Header P2.LogStore

/-- `Event::new` arguments. -/
structure PEvent (E : Type) where
  o : Op E
  log : Nat
  topic : Nat
  prune : Bool
  deriving Repr

/-- `LogPruneResult` / what the LogPrune stage did. -/
inductive PruneStatus where
  | noop
  | pruned (k : Nat)
  deriving DecidableEq, Repr

/-- Does the `LogPrune` stage receive armed arguments? `disarm = false`: the pinned tree forwards
    `PruneEntriesUntil` whatever the ingest status; `disarm = true`: a failed ingest disarms them. -/
def armedAfter (disarm prune : Bool) : Outcome → Bool
  | .failed _ => prune && !disarm
  | _ => prune

/-- The pipeline, parameterised by whether a failed ingest disarms the prune arguments and by the
    log validation. Returns the store afterwards, the ingest status and the prune status. -/
def pipelineStepWith {E : Type} (disarm : Bool)
    (vpb : Option Row → Header E → Bool → Except OpErr Unit)
    (c : ExtCodec E) (tbl : SigTable) (s : Store) (ev : PEvent E) : Store × Outcome × PruneStatus :=
  let r := ingestStepWith vpb c tbl s ev.o ev.log ev.topic ev.prune
  if armedAfter disarm ev.prune r.2 then
    let p := pruneBelow r.1 ev.o.op.header.key ev.log ev.o.op.header.seq
    (p.1, r.2, .pruned p.2)
  else (r.1, r.2, .noop)

/-- the pinned tree: pinned log validation, prune arguments always forwarded -/
def pipelineStepOrig {E : Type} := @pipelineStepWith E false validatePrunableBacklinkOrig
/-- only the C04 repair applied (used for the correspondence of intermediate trees) -/
def pipelineStepDisarmOnly {E : Type} := @pipelineStepWith E true validatePrunableBacklinkOrig
/-- repaired pipeline (C04 + C05 fixes) -/
def pipelineStep {E : Type} := @pipelineStepWith E true validatePrunableBacklink

/-- `Event::is_failed` (a `LogPrune` failure is a storage error: not modelled). -/
def isFailed : Outcome → Bool
  | .failed _ => true
  | _ => false

/-- What `process_operation` hands to the application for a processed event. -/
inductive StreamEvent where
  | processingFailed
  | processed
  | decodeFailed
  | ackFailed
  | nothing          -- operation without body: acknowledged, not forwarded
  deriving DecidableEq, Repr

/-- `process_operation` after `pipeline.process(..)`: `hasBody`, `decodes` (application message
    decodes), `ackOk` (acknowledging succeeds) are inputs. -/
def processOperation (out : Outcome) (hasBody decodes autoAck ackOk : Bool) : StreamEvent :=
  if isFailed out then .processingFailed
  else if !hasBody then (if ackOk then .nothing else .ackFailed)
  else if decodes then (if autoAck && !ackOk then .ackFailed else .processed)
  else .decodeFailed

end P2.Pipeline
