/-
Model of `p2panda-net/src/gossip/api.rs`: `Gossip::stream`, `TopicDropGuard` (`try_clone` / `Clone`,
`Drop`, `clone_without_increment`), for ONE topic, as a labelled transition system over any number
of threads (`pc : Nat → PC`).

A *generation* `g` is one `TopicDropGuard::new` (one `Arc<AtomicUsize>` cell, one `Subscribe`):
* `cells g`   — value of that counter cell (`INITIAL_COUNTER = 1` at creation)
* `left g`    — the generation's `Unsubscribe` has been sent (repaired code: `unsubscribed` flag)
* `entry`     — generation whose non-counting guard sits in `senders` for the topic
* `active`    — the gossip manager's session for the topic after processing every message sent so far
                (`Subscribe` installs the new session, `Unsubscribe(topic)` stops whatever is there —
                the message carries only the topic).  The mailbox is FIFO and `call!` waits for the
                reply, so "effect at send time" is exact for what `stream()` can rely on at return.
* `handles`   — live counting guards (handles / subscriptions) not currently being dropped, by generation
* `inflight`  — generations created by a `stream()` call that has not yet inserted / returned
* `dying`     — generations decremented to zero whose `Unsubscribe` has not been sent yet
* `log`       — `Subscribe` / `Unsubscribe` messages in send order (ghost: tagged with the generation)
* `wlock`     — thread holding the `senders` write lock (repaired code: held from the second look-up
                until the entry is inserted)
* `readers`   — threads inside the check/clone window of the pinned code (they hold the read lock)

Atomic steps (`Act`):
  `lookup`    read `senders` under the read lock; repaired code: increment-if-positive in one `fetch_update`
              (`try_clone`); pinned code: only `has_subscriptions()`
  `clone`     pinned code only: the separate `fetch_add` of `guard.clone()`
  `relook`    repaired code: take the write lock and look again (`try_clone`); pinned code: nothing
  `spin`      repaired code: one iteration of the wait for the dying generation's `Unsubscribe`
  `subscribe` `call!(Subscribe)`
  `insert`    `senders.insert`, return the handle (repaired code: releases the write lock)
  `dup`       `GossipHandle::clone` / `subscribe()` = guard `clone` (`fetch_add`)
  `dropDec`   `fetch_sub` in `Drop`
  `dropSend`  `send_message(Unsubscribe)` when the previous value was 1 (repaired code: then set the flag)
No imports: this file is linked into the driver executable.
-/
namespace P2.GossipGuard

inductive PC where
  | idle
  | checked (g : Nat)
  | missed
  | waitLeft (g : Nat)
  | fresh
  | subscribed (g : Nat)
  | dropping (g : Nat)
deriving DecidableEq, Repr

inductive Ev where
  | sub (g : Nat)
  | unsub (g : Nat)
deriving DecidableEq, Repr

structure St where
  ngen : Nat
  cells : Nat → Nat
  left : Nat → Bool
  entry : Option Nat
  active : Option Nat
  handles : List Nat
  inflight : List Nat
  dying : List Nat
  log : List Ev
  wlock : Option Nat
  readers : Nat
  pc : Nat → PC

def init : St :=
  { ngen := 0, cells := fun _ => 0, left := fun _ => false, entry := none, active := none,
    handles := [], inflight := [], dying := [], log := [], wlock := none, readers := 0,
    pc := fun _ => .idle }

inductive Act where
  | lookup (t : Nat)
  | clone (t : Nat)
  | relook (t : Nat)
  | spin (t : Nat)
  | subscribe (t : Nat)
  | insert (t : Nat)
  | dup (t g : Nat)
  | dropDec (t g : Nat)
  | dropSend (t : Nat)
deriving DecidableEq, Repr

def setFn {α : Type} (f : Nat → α) (i : Nat) (v : α) : Nat → α := fun j => if j = i then v else f j

def St.setPc (s : St) (t : Nat) (p : PC) : St := { s with pc := setFn s.pc t p }

/-- `INITIAL_COUNTER` -/
def initialCounter : Nat := 1

/-- The entry's generation if its counter is still positive (`has_subscriptions()` / `try_clone` succeeds). -/
def liveEntry (s : St) : Option Nat :=
  match s.entry with
  | some g => if s.cells g ≥ initialCounter then some g else none
  | none => none

/-- A counting guard of generation `g` is handed out: `fetch_add` / successful `fetch_update`. -/
def St.acquire (s : St) (g : Nat) : St :=
  { s with cells := setFn s.cells g (s.cells g + 1), handles := g :: s.handles }

/-- One atomic step of the repaired code. -/
def stepFn (s : St) : Act → Option St
  | .lookup t =>
    if s.pc t = .idle ∧ s.wlock = none then
      match liveEntry s with
      | some g => some (s.acquire g)
      | none => some (s.setPc t .missed)
    else none
  | .clone _ => none
  | .relook t =>
    if s.pc t = .missed ∧ s.wlock = none then
      match s.entry with
      | none => some { (s.setPc t .fresh) with wlock := some t }
      | some g =>
        if s.cells g ≥ initialCounter then some (s.acquire g |>.setPc t .idle)
        else if s.left g then some { (s.setPc t .fresh) with wlock := some t }
        else some { (s.setPc t (.waitLeft g)) with wlock := some t }
    else none
  | .spin t =>
    match s.pc t with
    | .waitLeft g => if s.left g then some (s.setPc t .fresh) else some s
    | _ => none
  | .subscribe t =>
    if s.pc t = .fresh then
      let g := s.ngen
      some { (s.setPc t (.subscribed g)) with
        ngen := g + 1, cells := setFn s.cells g initialCounter, active := some g,
        inflight := g :: s.inflight, log := s.log ++ [.sub g] }
    else none
  | .insert t =>
    match s.pc t with
    | .subscribed g =>
      some { (s.setPc t .idle) with
        entry := some g, handles := g :: s.handles, inflight := s.inflight.erase g, wlock := none }
    | _ => none
  | .dup t g =>
    if s.pc t = .idle ∧ g ∈ s.handles then some (s.acquire g) else none
  | .dropDec t g =>
    if s.pc t = .idle ∧ g ∈ s.handles then
      let prev := s.cells g
      let s' := { s with cells := setFn s.cells g (prev - 1), handles := s.handles.erase g }
      if prev = initialCounter then some { (s'.setPc t (.dropping g)) with dying := g :: s.dying }
      else some s'
    else none
  | .dropSend t =>
    match s.pc t with
    | .dropping g =>
      some { (s.setPc t .idle) with
        active := none, left := setFn s.left g true, dying := s.dying.erase g, log := s.log ++ [.unsub g] }
    | _ => none

/-- One atomic step of the pinned code: check and clone are separate steps, the fresh-subscription
path takes the write lock only for the insert, `Drop` sets no flag and nobody waits for it. -/
def stepFnOrig (s : St) : Act → Option St
  | .lookup t =>
    if s.pc t = .idle then
      match liveEntry s with
      | some g => some { (s.setPc t (.checked g)) with readers := s.readers + 1 }
      | none => some (s.setPc t .missed)
    else none
  | .clone t =>
    match s.pc t with
    | .checked g => some { (s.acquire g |>.setPc t .idle) with readers := s.readers - 1 }
    | _ => none
  | .relook t => if s.pc t = .missed then some (s.setPc t .fresh) else none
  | .spin _ => none
  | .subscribe t =>
    if s.pc t = .fresh then
      let g := s.ngen
      some { (s.setPc t (.subscribed g)) with
        ngen := g + 1, cells := setFn s.cells g initialCounter, active := some g,
        inflight := g :: s.inflight, log := s.log ++ [.sub g] }
    else none
  | .insert t =>
    match s.pc t with
    | .subscribed g =>
      if s.readers = 0 then
        some { (s.setPc t .idle) with
          entry := some g, handles := g :: s.handles, inflight := s.inflight.erase g }
      else none
    | _ => none
  | .dup t g =>
    if s.pc t = .idle ∧ g ∈ s.handles then some (s.acquire g) else none
  | .dropDec t g =>
    if s.pc t = .idle ∧ g ∈ s.handles then
      let prev := s.cells g
      let s' := { s with cells := setFn s.cells g (prev - 1), handles := s.handles.erase g }
      if prev = initialCounter then some { (s'.setPc t (.dropping g)) with dying := g :: s.dying }
      else some s'
    else none
  | .dropSend t =>
    match s.pc t with
    | .dropping g =>
      some { (s.setPc t .idle) with
        active := none, left := setFn s.left g true, dying := s.dying.erase g, log := s.log ++ [.unsub g] }
    | _ => none

def runFn (step : St → Act → Option St) (s : St) : List Act → Option St
  | [] => some s
  | a :: as => match step s a with
    | some s' => runFn step s' as
    | none => none

end P2.GossipGuard
