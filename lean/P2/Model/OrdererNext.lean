/-
Labelled transition system for `Orderer::next` / `Orderer::process`
(`p2panda-stream/src/orderer/processor.rs`) under cancellation, as `Buffer`'s `select!` produces it
(`p2panda-stream/src/processors/buffered.rs`: `process` runs only while no `next` future is alive;
the `next` future may be dropped at any await point).

Persistent state: `queue` = ids with `in_queue = TRUE` in committed database state (FIFO).
Volatile: the program counter of the one `next` future, the open transaction (`tx` = the queue as
seen inside it), the `Notify` permit and — repaired code only — the in-flight slot.

`fixed = false`: pinned code  (begin → take → commit → get_operation → return)
`fixed = true` : repaired code (slot check → begin → take → get_operation_tx → park+commit → return)

Every await point is a program counter; `cancel` is enabled at each of them. A cancel while `commit`
has been entered and not returned is `cancelCommit went`: the transaction went through or not — not
observable by the dropped caller (sqlx contract: atomic, outcome unobserved).
No imports: linked into the driver executable.
-/
namespace P2.OrdNext

inductive PC where
  | idle                    -- no `next` future alive
  | start                   -- future alive, no transaction open (loop head)
  | begun                   -- `begin` completed
  | waiting                 -- `take_next_ready` returned None: in `notified()`, transaction still open
  | taken (k : Nat)         -- `take_next_ready` returned k (inside the transaction)
  | fetchedTx (k : Nat)     -- repaired: `get_operation_tx` completed
  | committed (k : Nat)     -- `commit` completed
  | fetched (k : Nat)       -- pinned: `get_operation` completed
deriving Repr, DecidableEq

/-- Store calls of `next` that really completed (what the harness observes). -/
inductive Ev where
  | begin
  | take (k : Option Nat)
  | wake                    -- `notified()` returned (consuming the stored permit); the loop goes round
  | gettx
  | commit
  | get
deriving Repr, DecidableEq

inductive Act where
  | proc (k : Nat)            -- `process(k)` to completion (k has no dependencies: released at once)
  | call                      -- `next()` future created
  | ev (e : Ev)               -- a store call of the live `next` future completed
  | ret                       -- the future completed with an item
  | cancel                    -- future dropped, no commit entered-and-not-returned
  | cancelCommit (went : Bool) -- future dropped inside `commit`; `went` = the commit went through
  | block                     -- future found blocked in `notified()` (no permit) and dropped
deriving Repr, DecidableEq

structure St where
  queue : List Nat
  tx : Option (List Nat)
  pc : PC
  slot : Option Nat
  permit : Bool            -- `Notify` permit stored by `notify_one` with no waiter
  returned : List Nat      -- items completed `next` calls returned, in order
  released : List Nat      -- ghost: items ever released (processed)
  cancelledCommits : Nat   -- ghost
deriving Repr, DecidableEq

def init : St :=
  { queue := [], tx := none, pc := PC.idle, slot := none, permit := false, returned := [], released := [],
    cancelledCommits := 0 }

/-- One transition; `none` = the action is not enabled in this state. -/
def stepFn (fixed : Bool) (s : St) : Act → Option St
  | Act.proc k =>
    if s.pc = PC.idle ∧ k ∉ s.released then
      some { s with queue := s.queue ++ [k], released := s.released ++ [k], permit := true }
    else none
  | Act.call => if s.pc = PC.idle then some { s with pc := PC.start } else none
  | Act.ev Ev.begin =>
    match s.pc with
    | PC.start =>
      -- repaired code returns a parked item before opening a transaction
      if fixed ∧ s.slot.isSome then none else some { s with tx := some s.queue, pc := PC.begun }
    | _ => none
  | Act.ev Ev.wake =>
    match s.pc with
    | PC.waiting =>
      -- `notified()` completes only with a stored permit; the loop iteration ends (the uncommitted
      -- transaction permit is dropped: rollback) and the next iteration starts
      if s.permit then some { s with tx := none, permit := false, pc := PC.start } else none
    | _ => none
  | Act.ev (Ev.take r) =>
    match s.pc, s.tx with
    | PC.begun, some q =>
      if r = q.head? then
        match r with
        | some k => some { s with tx := some q.tail, pc := PC.taken k }
        | none => some { s with pc := PC.waiting }
      else none
    | _, _ => none
  | Act.ev Ev.gettx =>
    match s.pc with
    | PC.taken k => if fixed then some { s with pc := PC.fetchedTx k } else none
    | _ => none
  | Act.ev Ev.commit =>
    match s.pc, s.tx with
    | PC.taken k, some q => if fixed then none else some { s with queue := q, tx := none, pc := PC.committed k }
    | PC.fetchedTx k, some q =>
      if fixed then some { s with queue := q, tx := none, slot := some k, pc := PC.committed k } else none
    | _, _ => none
  | Act.ev Ev.get =>
    match s.pc with
    | PC.committed k => if fixed then none else some { s with pc := PC.fetched k }
    | _ => none
  | Act.ret =>
    match s.pc with
    | PC.start =>
      match fixed, s.slot with
      | true, some x => some { s with slot := none, returned := s.returned ++ [x], pc := PC.idle }
      | _, _ => none
    | PC.committed k =>
      if fixed then some { s with slot := none, returned := s.returned ++ [k], pc := PC.idle } else none
    | PC.fetched k => if fixed then none else some { s with returned := s.returned ++ [k], pc := PC.idle }
    | _ => none
  | Act.cancel =>
    if s.pc = PC.idle then none else some { s with tx := none, pc := PC.idle }
  | Act.cancelCommit went =>
    match s.pc, s.tx with
    | PC.taken _, some q =>
      if fixed then none
      else some { s with queue := if went then q else s.queue, tx := none, pc := PC.idle,
                         cancelledCommits := s.cancelledCommits + 1 }
    | PC.fetchedTx k, some q =>
      if fixed then
        some { s with queue := if went then q else s.queue, tx := none, slot := some k, pc := PC.idle,
                      cancelledCommits := s.cancelledCommits + 1 }
      else none
    | _, _ => none
  | Act.block =>
    if s.pc = PC.waiting ∧ s.permit = false then some { s with tx := none, pc := PC.idle } else none

/-- Run a schedule; `none` = some action was not enabled. -/
def run (fixed : Bool) : St → List Act → Option St
  | s, [] => some s
  | s, a :: as =>
    match stepFn fixed s a with
    | none => none
    | some s' => run fixed s' as

/-- An uncancelled `next()` call from an idle state, as a schedule. -/
def fullNext (fixed : Bool) (s : St) : List Act :=
  if fixed then
    match s.slot, s.queue with
    | some _, _ => [Act.call, Act.ret]
    | none, k :: _ => [Act.call, Act.ev Ev.begin, Act.ev (Ev.take (some k)), Act.ev Ev.gettx, Act.ev Ev.commit, Act.ret]
    | none, [] => []
  else
    match s.queue with
    | k :: _ => [Act.call, Act.ev Ev.begin, Act.ev (Ev.take (some k)), Act.ev Ev.commit, Act.ev Ev.get, Act.ret]
    | [] => []

end P2.OrdNext
