/-
Model of live-mode forwarding in p2panda-sync:

* `TopicLogSync::run`, live loop (`protocols/topic_log_sync.rs`): per session a de-duplication
  buffer (handed over from the sync phase), `live_mode_rx` (operations published through the
  session handle or forwarded by the manager) and the remote's `Live` messages;
* `ManagerEventStream::next_event` (`manager/event_stream.rs`): an `OperationReceived` event of
  session `s` is sent to the live channel of every *other* session of `s`'s topic, then passed
  through the consumer's de-duplication buffer;
* `SessionTopicMap` (`manager/session_map.rs`): session ↔ topic bookkeeping.

The system is a labelled transition system with explicit FIFO queues; every await point that
takes one message is one transition, so every interleaving of the session tasks and of the
consumer is a list of `Act`s.  Operations are identified with their hashes (`Nat`).
Built on `P2.Model.Dedup` (C24).  No other imports: linked into the driver executable.
-/
import P2.Model.Dedup

namespace P2.LiveFwd
open P2.Dedup

/-- Where an accepted (non-duplicate) hash came from. -/
inductive Src where
  /-- taken from `live_mode_rx` → a `Live` message was written to the remote -/
  | live
  /-- a `Live` message read from the remote → an `OperationReceived` event was emitted -/
  | remote
deriving DecidableEq, Repr

structure Sess where
  sid : Nat
  topic : Nat
  /-- `SessionConfig::live_mode`; a session without live mode drops its `live_mode_rx` -/
  live : Bool
  dedup : Buf Nat
  /-- `Live` messages sent by the remote, not yet read by the session -/
  remoteQ : List Nat
  /-- `live_mode_rx`: `ToSync::Payload`s not yet read by the session -/
  liveQ : List Nat
  /-- `OperationReceived` events emitted, not yet taken by the manager event stream -/
  evQ : List Nat
  /-- every hash the buffer accepted, in order, with its source: the `live` entries are exactly
      the `Live` messages written to the remote, the `remote` entries the events emitted -/
  log : List (Src × Nat)
deriving Repr

/-- The `Live` messages this session has written to its remote, in order. -/
def Sess.sent (s : Sess) : List Nat := (s.log.filter (fun e => e.1 = Src.live)).map (·.2)

/-- The hashes this session accepted from its remote (events emitted), in order. -/
def Sess.received (s : Sess) : List Nat := (s.log.filter (fun e => e.1 = Src.remote)).map (·.2)

structure St where
  sess : List Sess
  /-- `ManagerEventStreamState::dedup` -/
  cdedup : Buf Nat
  /-- `OperationReceived` events returned to the consumer: (session id, hash), in order -/
  reports : List (Nat × Nat)
  /-- sessions the event stream has removed from its `SessionTopicMap` because a forward to
      them failed (their live channel has no receiver) -/
  dropped : List Nat := []
deriving Repr

inductive Act where
  /-- the remote peer of session `s` sends `Live(op)` -/
  | remote (s op : Nat)
  /-- the application sends `ToSync::Payload(op)` on `session_handle(s)` -/
  | publish (s op : Nat)
  /-- session `s` takes one message from `live_mode_rx` -/
  | liveStep (s : Nat)
  /-- session `s` takes one `Live` message from its remote -/
  | remoteStep (s : Nat)
  /-- the manager event stream takes the next `OperationReceived` event of session `s` -/
  | consume (s : Nat)
  /-- sync phase of session `s` (`LogSync::run`, state `Sync`): the remote sends `Operation(op)`;
      the hash goes into the buffer that is later handed to the live loop, and if new an
      `OperationReceived` event is emitted — with or without live mode -/
  | syncRecv (s op : Nat)
deriving DecidableEq, Repr

def newSess (sid topic : Nat) (live : Bool) (cap : Nat) : Sess :=
  { sid := sid, topic := topic, live := live, dedup := new cap,
    remoteQ := [], liveQ := [], evQ := [], log := [] }

def updSess (sid : Nat) (f : Sess → Sess) (l : List Sess) : List Sess :=
  l.map (fun s => if s.sid = sid then f s else s)

/-- Live loop, `live_mode_rx` arm: `if !dedup.insert(hash) { continue }`, else send `Live`. -/
def Sess.stepLive (s : Sess) : Sess :=
  if s.live then
    match s.liveQ with
    | [] => s
    | x :: q =>
      { s with liveQ := q, dedup := (s.dedup.insert x).1,
               log := if (s.dedup.insert x).2 then s.log ++ [(Src.live, x)] else s.log }
  else s

/-- Live loop, remote arm: `if !dedup.insert(header.hash()) { continue }`, else emit
    `OperationReceived`. -/
def Sess.stepRemote (s : Sess) : Sess :=
  if s.live then
    match s.remoteQ with
    | [] => s
    | x :: q =>
      { s with remoteQ := q, dedup := (s.dedup.insert x).1,
               log := if (s.dedup.insert x).2 then s.log ++ [(Src.remote, x)] else s.log,
               evQ := if (s.dedup.insert x).2 then s.evQ ++ [x] else s.evQ }
  else s

/-- Sync-phase receive: `if !dedup.insert(header.hash()) { continue }`, else emit the event. -/
def Sess.syncRecv (s : Sess) (x : Nat) : Sess :=
  { s with dedup := (s.dedup.insert x).1,
           log := if (s.dedup.insert x).2 then s.log ++ [(Src.remote, x)] else s.log,
           evQ := if (s.dedup.insert x).2 then s.evQ ++ [x] else s.evQ }

/-- `next_event` for an `OperationReceived` of session `sid`: if the session is no longer in the
    stream's topic map the event is swallowed (`continue`); otherwise forward to every other
    session of the same topic still in the map (a session without live mode has no receiver:
    the send fails, nothing is delivered and the session is removed from the map), then consumer
    de-duplication. -/
def St.consume (st : St) (sid : Nat) : St :=
  match st.sess.find? (fun s => s.sid = sid) with
  | none => st
  | some s =>
    match s.evQ with
    | [] => st
    | x :: q =>
      if st.dropped.contains sid then
        { st with sess := updSess sid (fun s => { s with evQ := q }) st.sess }
      else
      { sess := (updSess sid (fun s => { s with evQ := q }) st.sess).map (fun s' =>
          if s'.sid ≠ sid ∧ s'.topic = s.topic ∧ s'.live = true then { s' with liveQ := s'.liveQ ++ [x] }
          else s'),
        cdedup := (st.cdedup.insert x).1,
        reports := if (st.cdedup.insert x).2 then st.reports ++ [(sid, x)] else st.reports,
        dropped := st.dropped ++ ((st.sess.filter (fun s' =>
          s'.sid ≠ sid ∧ s'.topic = s.topic ∧ s'.live = false ∧ !st.dropped.contains s'.sid)).map (·.sid)) }

def St.step (st : St) : Act → St
  | .remote sid op => { st with sess := updSess sid (fun s => if s.live then { s with remoteQ := s.remoteQ ++ [op] } else s) st.sess }
  | .publish sid op => { st with sess := updSess sid (fun s => if s.live then { s with liveQ := s.liveQ ++ [op] } else s) st.sess }
  | .liveStep sid => { st with sess := updSess sid Sess.stepLive st.sess }
  | .remoteStep sid => { st with sess := updSess sid Sess.stepRemote st.sess }
  | .consume sid => st.consume sid
  | .syncRecv sid op => { st with sess := updSess sid (fun s => s.syncRecv op) st.sess }

def St.run (st : St) (acts : List Act) : St := acts.foldl St.step st

/-! ### Macro actions used by the driver (what one hand-made poll of the real futures does) -/

/-- One poll of session `sid`'s `run` future: the biased `select!` loop takes everything from
    `live_mode_rx` first, then the remote's messages (nothing new arrives during a poll). -/
def pollActs (st : St) (sid : Nat) : List Act :=
  match st.sess.find? (fun s => s.sid = sid) with
  | none => []
  | some s => List.replicate s.liveQ.length (Act.liveStep sid) ++ List.replicate s.remoteQ.length (Act.remoteStep sid)

/-- The whole sync phase of session `sid` in which the remote sends `ops`, up to the first time
    the session blocks in live mode (it then has emptied its live channel). -/
def syncActs (st : St) (sid : Nat) (ops : List Nat) : List Act :=
  ops.map (Act.syncRecv sid) ++
  match st.sess.find? (fun s => s.sid = sid) with
  | none => []
  | some s => List.replicate s.liveQ.length (Act.liveStep sid) ++ List.replicate s.remoteQ.length (Act.remoteStep sid)

/-- Draining the manager event stream while only session `sid` has events pending. -/
def drainActs (st : St) (sid : Nat) : List Act :=
  match st.sess.find? (fun s => s.sid = sid) with
  | none => []
  | some s => List.replicate s.evQ.length (Act.consume sid)

end P2.LiveFwd
