/-
Model of the resolver-independent part of `p2panda-auth/src/group/crdt/mod.rs`:

* `apply_action`, `apply_remove_unsafe` on the map `group id ↦ GroupMembersState`,
* `merge_states` as a fold over an *arbitrary ordering* of the requested operation ids,
* `would_create_cycle`,
* `validate`'s acceptance rule relative to the states at the operation's dependencies
  (`decide`), and the state stored by `process` in the non-rebuild path,
* the nested-membership traversal `members_inner` / `members` / `groups` over an *arbitrary
  iteration order* of the maps (the list order of the model).

Not modelled (parameters): the strong-remove resolver (`ignore`, `mutual_removes`, the rebuilt
`states`). No imports outside `P2.Model.*`: linked into the C31 / C33 drivers.
-/
import P2.Model.GroupState

namespace P2.GroupCrdt
open P2.GroupState

/-- `GroupMember<ID>`. -/
inductive Member where
  | individual (id : Nat)
  | group (id : Nat)
deriving DecidableEq, Repr

def Member.id : Member → Nat
  | .individual i => i
  | .group i => i

def Member.isGroup : Member → Bool
  | .individual _ => false
  | .group _ => true

/-- `GroupAction<ID, C>`. -/
inductive Action (C : Type) where
  | create (initial : List (Member × Access C))
  | add (m : Member) (a : Access C)
  | remove (m : Member)
  | promote (m : Member) (a : Access C)
  | demote (m : Member) (a : Access C)
deriving Repr

def Action.isCreate {C : Type} : Action C → Bool
  | .create _ => true
  | _ => false

/-- What the `Operation` trait exposes. -/
structure Op (C : Type) where
  id : Nat
  author : Nat
  deps : List Nat
  group : Nat
  action : Action C
deriving Repr

variable {C : Type}

/-- `GroupMembersState<GroupMember<ID>, C>`. -/
abbrev MState (C : Type) := State Member C

/-- `GroupStates<ID, C> = HashMap<ID, GroupMembersState<GroupMember<ID>, C>>`. -/
abbrev GroupStates (C : Type) := List (Nat × MState C)

def gget? (gs : GroupStates C) (g : Nat) : Option (MState C) :=
  match gs with
  | [] => none
  | (g', s) :: rest => if g' = g then some s else gget? rest g

def gkeys (gs : GroupStates C) : List Nat := gs.map (·.1)

/-- `HashMap::insert` (also `remove` followed by `insert` of the same key). -/
def gupsert (gs : GroupStates C) (g : Nat) (s : MState C) : GroupStates C :=
  match gget? gs g with
  | some _ => gs.map (fun p => if p.1 = g then (p.1, s) else p)
  | none => gs ++ [(g, s)]

/-! ## apply_action -/

/-- `StateChangeResult`, plus the `expect("group already present in states map")` panic. -/
inductive ApplyRes (C : Type) where
  | ok (gs : GroupStates C)
  | error (gs : GroupStates C) (e : Err Member)
  | filtered (gs : GroupStates C)
  | panic

/-- The `state::` call selected by the action (the author acts as `Individual(actor)`). -/
def stateAction [DecidableEq C] (my : MState C) (actor : Nat) : Action C →
    Except (Err Member) (MState C)
  | .add m a => GroupState.add my (.individual actor) m a
  | .remove m => GroupState.remove my (.individual actor) m
  | .promote m a => GroupState.promote my (.individual actor) m a
  | .demote m a => GroupState.demote my (.individual actor) m a
  | .create initial => .ok (GroupState.create initial)

/-- `apply_action(groups_y, group_id, id, actor, action, filter)`. -/
def applyAction [DecidableEq C] (gs : GroupStates C) (group id actor : Nat) (action : Action C)
    (filter : List Nat) : ApplyRes C :=
  let my? : Option (MState C) := if action.isCreate then some [] else gget? gs group
  match my? with
  | none => .panic
  | some my =>
    if id ∈ filter then .filtered (gupsert gs group my)
    else
      match stateAction my actor action with
      | .ok my' => .ok (gupsert gs group my')
      | .error e => .error (gupsert gs group my) e

/-- `apply_remove_unsafe(groups_y, group_id, removed)`; `none` = the `expect` panic. -/
def applyRemoveUnsafe (gs : GroupStates C) (group : Nat) (removed : Member) :
    Option (GroupStates C) :=
  match gget? gs group with
  | none => none
  | some my => some (gupsert gs group (removeUnsafe my removed))

/-! ## merge_states -/

/-- Inner loop of `merge_states`: fold one operation's group states into the accumulator
    (`entry(id).and_modify(|cur| *cur = merge(state, cur)).or_insert(state)`). -/
def mergeGroupStates (lt : Access C → Access C → Bool) (cur gs : GroupStates C) : GroupStates C :=
  gs.foldl (fun cur p =>
    match gget? cur p.1 with
    | some c => gupsert cur p.1 (merge lt p.2 c)
    | none => cur ++ [p]) cur

/-- `states.get(id)`. -/
def statesGet? (states : List (Nat × GroupStates C)) (id : Nat) : Option (GroupStates C) :=
  match states with
  | [] => none
  | (i, gs) :: rest => if i = id then some gs else statesGet? rest id

/-- `merge_states(ids)`; `ids` in the iteration order of the `HashSet`; `none` = `StatesNotFound`. -/
def mergeStates (lt : Access C → Access C → Bool) (states : List (Nat × GroupStates C))
    (ids : List Nat) : Option (GroupStates C) :=
  ids.foldlM (fun cur id => (statesGet? states id).map (mergeGroupStates lt cur)) []

/-- Merge of already looked-up head states, in the given order. -/
def mergeAll (lt : Access C → Access C → Bool) (heads : List (GroupStates C)) : GroupStates C :=
  heads.foldl (mergeGroupStates lt) []

/-! ## would_create_cycle -/

/-- Sub-groups that are active members of `g`. -/
def subGroups (gs : GroupStates C) (g : Nat) : List Nat :=
  match gget? gs g with
  | none => []
  | some st => (accessLevels st).filterMap (fun p =>
      match p.1 with
      | .group i => some i
      | .individual _ => none)

/-- The explicit-stack DFS of `would_create_cycle` (`fuel` bounds the number of pops). -/
def cycleSearch (gs : GroupStates C) (parent : Nat) : Nat → List Nat → List Nat → Bool
  | 0, _, _ => false
  | _ + 1, [], _ => false
  | fuel + 1, child :: stack, visited =>
    if child ∈ visited then cycleSearch gs parent fuel stack visited
    else if child = parent then true
    else cycleSearch gs parent fuel ((subGroups gs child).reverse ++ stack) (child :: visited)

def totalEntries (gs : GroupStates C) : Nat := gs.foldl (fun n p => n + p.2.length) 0

/-- `would_create_cycle(operation)` on the current states. -/
def wouldCreateCycle (gs : GroupStates C) (group : Nat) : Action C → Bool
  | .add (.group child) _ => cycleSearch gs group (totalEntries gs + 2) [child] []
  | _ => false

/-! ## validate / process -/

inductive Decision (C : Type) where
  | accept (gs : GroupStates C)     -- state after applying the action to the state at the dependencies
  | dup                             -- DuplicateOperation
  | managerGroup (g : Nat)          -- ManagerGroupsNotAllowed
  | cycle                           -- GroupCycle
  | stateError (e : Err Member)     -- StateChangeError
  | panic                           -- `expect` / `unreachable!` reached

/-- The manager-group guard of `validate`. -/
def managerGroupGuard : Action C → Option Nat
  | .add m a => if m.isGroup && a.isManage then some m.id else none
  | .promote m a => if m.isGroup && a.isManage then some m.id else none
  | _ => none

/-- `validate`, relative to `atDeps` = the (possibly rebuilt) current state at the operation's
    dependencies and `ignore` = the filter valid there; `known` = the id is already in
    `operations`. -/
def decide [DecidableEq C] (known : Bool) (op : Op C) (atDeps : GroupStates C) (ignore : List Nat) :
    Decision C :=
  if known then .dup
  else
    match managerGroupGuard op.action with
    | some g => .managerGroup g
    | none =>
      if wouldCreateCycle atDeps op.group op.action then .cycle
      else
        match applyAction atDeps op.group op.id op.author op.action ignore with
        | .ok gs => .accept gs
        | .error _ e => .stateError e
        | .filtered _ => .panic
        | .panic => .panic

/-! ## members_inner -/

/-- Position of a member in the accumulator map. -/
def accGet? (acc : List (Member × Access C)) (m : Member) : Option (Access C) :=
  match acc with
  | [] => none
  | (m', a) :: rest => if m' = m then some a else accGet? rest m

def accSet (acc : List (Member × Access C)) (m : Member) (a : Access C) : List (Member × Access C) :=
  acc.map (fun p => if p.1 = m then (p.1, a) else p)

/-- "take whichever is less": `if access <= root_access { access } else { root_access }`. -/
def nextAccess (le : Access C → Access C → Bool) (root : Option (Access C)) (a : Access C) : Access C :=
  match root with
  | some r => if le a r then a else r
  | none => a

/-- `entry(member).and_modify(|cur| if *cur < next { *cur = next }).or_insert(next)`. -/
def combine (lt : Access C → Access C → Bool) (acc : List (Member × Access C)) (m : Member)
    (next : Access C) : List (Member × Access C) :=
  match accGet? acc m with
  | some cur => if lt cur next then accSet acc m next else acc
  | none => acc ++ [(m, next)]

/-- `members_inner(group_id, members, root_access, depth)`; `fuel = MAX_NESTED_DEPTH - depth`;
    `cur` is `self.current_state()`; the iteration order over the members of a group is the list
    order of its state. -/
def membersInner (le lt : Access C → Access C → Bool) (cur : GroupStates C) :
    Nat → Nat → Option (Access C) → List (Member × Access C) → List (Member × Access C)
  | 0, _, _, acc => acc
  | fuel + 1, g, root, acc =>
    match gget? cur g with
    | none => acc
    | some st =>
      (accessLevels st).foldl (fun acc p =>
        let next := nextAccess le root p.2
        let acc := combine lt acc p.1 next
        match p.1 with
        | .group i => membersInner le lt cur fuel i (some next) acc
        | .individual _ => acc) acc

def maxNestedDepth : Nat := 1000

/-- `traverse_members(group_id, depth)`. -/
def traverseMembers (le lt : Access C → Access C → Bool) (cur : GroupStates C) (g depth : Nat) :
    List (Member × Access C) :=
  membersInner le lt cur (maxNestedDepth - depth) g none []

/-- `members(group_id)`: the individuals. -/
def members (le lt : Access C → Access C → Bool) (cur : GroupStates C) (g : Nat) :
    List (Nat × Access C) :=
  (traverseMembers le lt cur g 0).filterMap (fun p =>
    match p.1 with
    | .individual i => some (i, p.2)
    | .group _ => none)

/-- `groups(group_id)`: the transitive sub-groups. -/
def groups (le lt : Access C → Access C → Bool) (cur : GroupStates C) (g : Nat) :
    List (Nat × Access C) :=
  (traverseMembers le lt cur g 0).filterMap (fun p =>
    match p.1 with
    | .group i => some (i, p.2)
    | .individual _ => none)

/-- `root_members(group_id)`. -/
def rootMembers (cur : GroupStates C) (g : Nat) : List (Member × Access C) :=
  match gget? cur g with
  | some st => accessLevels st
  | none => []

/-- Every visit of the traversal with the access carried along that path (no combination). -/
def paths (le : Access C → Access C → Bool) (cur : GroupStates C) :
    Nat → Nat → Option (Access C) → List (Member × Access C)
  | 0, _, _ => []
  | fuel + 1, g, root =>
    match gget? cur g with
    | none => []
    | some st =>
      (accessLevels st).flatMap (fun p =>
        let next := nextAccess le root p.2
        (p.1, next) :: (match p.1 with
          | .group i => paths le cur fuel i (some next)
          | .individual _ => []))

/-- `m` dominates `xs`: every other path access is strictly below it and not above it.
    With a dominating element the fold of `combine` ends in it for every visiting order. -/
def dominates [DecidableEq C] (lt : Access C → Access C → Bool) (m : Access C) (xs : List (Access C)) : Bool :=
  xs.all (fun x => x = m || (lt x m && !lt m x))

/-- Some member is reached along several paths whose accesses have no dominating element
    (incomparable or cyclic under `Access::<`): the answer of `members_inner` then depends on the
    iteration order of the maps. -/
def hazard [DecidableEq C] (le lt : Access C → Access C → Bool) (cur : GroupStates C) (g : Nat) : Bool :=
  let ps := paths le cur maxNestedDepth g none
  ps.any (fun p =>
    let mine := (ps.filter (fun q => q.1 = p.1)).map (·.2)
    !(mine.any (fun m => dominates lt m mine)))

end P2.GroupCrdt
