/-
Model of `p2panda-sync/src/protocols/topic_handshake.rs`
(`TopicHandshakeInitiator::run`, `TopicHandshakeAcceptor::run`, message / error / event enums).

Each `run` is written down as a small program tree (`Prog`): the sequence of its effects
(event, sink send, sink flush) with the continuation of every `stream.next().await`.
`runT` interprets a program against a *finite incoming transcript* (items, then end of stream),
a sink fault and a closed event channel; `seg` runs a program up to its next receive — the
building block of the two-party composition `Sys`.
No imports: this file is linked into the driver executable.
-/
namespace P2.Handshake

/-- `TopicHandshakeMessage<T>` -/
inductive Msg (T : Type) where
  | topic (t : T)
  | done
deriving DecidableEq, Repr

/-- What the message stream yields: `Ok(message)` or `Err(_)` (decode / transport error). -/
inductive Item (T : Type) where
  | msg (m : Msg T)
  | err
deriving DecidableEq, Repr

/-- Result of one `stream.next().await`. -/
inductive In (T : Type) where
  | item (i : Item T)
  | closed
deriving DecidableEq, Repr

/-- `TopicHandshakeError<T>` (the payload strings are dropped). -/
inductive Err (T : Type) where
  | unexpected (m : Msg T)   -- UnexpectedMessage
  | closed                   -- UnexpectedStreamClosure
  | sink                     -- MessageSink(_)   (also used by the code for *stream* item errors)
  | stream                   -- MessageStream(_) (used by the acceptor for its failed `send(Done)`)
  | mpsc                     -- MpscSend (event channel closed)
deriving DecidableEq, Repr

/-- `TopicHandshakeEvent<T>` -/
inductive Ev (T : Type) where
  | initiate (t : T)
  | accept
  | topicReceived (t : T)
  | done (t : T)
deriving DecidableEq, Repr

/-- Control flow of a `run` body. `send m e k`: `sink.send(m).await.map_err(|_| e)?` then `k`. -/
inductive Prog (T R : Type) where
  | ret (r : R)
  | fail (e : Err T)
  | ev (e : Ev T) (k : Prog T R)
  | send (m : Msg T) (onErr : Err T) (k : Prog T R)
  | flush (k : Prog T R)
  | recv (k : In T → Prog T R)

/-- `TopicHandshakeInitiator::run`. (`event_tx.flush()` cannot fail on a futures mpsc sender —
    a disconnected receiver counts as flushed — and is therefore not an effect here.) -/
def initiator {T : Type} (t : T) : Prog T Unit :=
  .ev (.initiate t) <|
  .send (.topic t) .sink <|
  .recv fun
    | .closed => .fail .closed
    | .item .err => .fail .sink
    | .item (.msg .done) =>
      .send .done .sink <| .ev (.done t) <| .flush <| .ret ()
    | .item (.msg m) => .fail (.unexpected m)

/-- `TopicHandshakeAcceptor::run`. -/
def acceptor {T : Type} : Prog T T :=
  .ev .accept <|
  .recv fun
    | .closed => .fail .closed
    | .item .err => .fail .sink
    | .item (.msg (.topic t)) =>
      .ev (.topicReceived t) <|
      .send .done .stream <|
      .recv fun
        | .closed => .fail .closed
        | .item .err => .fail .sink
        | .item (.msg .done) => .ev (.done t) <| .flush <| .ret t
        | .item (.msg m) => .fail (.unexpected m)
    | .item (.msg m) => .fail (.unexpected m)

/-- Environment faults. `sinkFault = some (k, leak)`: the k-th sink operation (sends and the final
    flush, counted from 0) fails; `leak`: the failing `send` had already handed the message to
    the transport (failure in the flush half of `SinkExt::send`). `evClosed`: the event receiver
    is gone, every event send fails. -/
structure Faults where
  sinkFault : Option (Nat × Bool) := none
  evClosed : Bool := false
deriving DecidableEq, Repr

def noFaults : Faults := {}

/-- Outcome of a run: result, messages handed to the sink, events emitted (both in order). -/
structure Outcome (T R : Type) where
  res : Except (Err T) R
  sent : List (Msg T)
  events : List (Ev T)

def sinkFails (f : Faults) (n : Nat) : Bool :=
  match f.sinkFault with
  | some (k, _) => k == n
  | none => false

def sinkLeaks (f : Faults) : Bool :=
  match f.sinkFault with
  | some (_, l) => l
  | none => false

/-- Run a program against a finite incoming transcript followed by end-of-stream.
    `n` = number of sink operations performed so far. -/
def runT {T R : Type} (f : Faults) : Prog T R → List (Item T) → Nat → Outcome T R
  | .ret r, _, _ => ⟨.ok r, [], []⟩
  | .fail e, _, _ => ⟨.error e, [], []⟩
  | .ev e k, inc, n =>
    if f.evClosed then ⟨.error .mpsc, [], []⟩
    else let o := runT f k inc n; ⟨o.res, o.sent, e :: o.events⟩
  | .send m onErr k, inc, n =>
    if sinkFails f n then ⟨.error onErr, if sinkLeaks f then [m] else [], []⟩
    else let o := runT f k inc (n + 1); ⟨o.res, m :: o.sent, o.events⟩
  | .flush k, inc, n =>
    if sinkFails f n then ⟨.error .sink, [], []⟩
    else runT f k inc (n + 1)
  | .recv k, [], n => runT f (k .closed) [] n
  | .recv k, i :: inc, n => runT f (k (.item i)) inc n

/-! ### Two-party composition over loss-free FIFO channels (no faults) -/

/-- A side between two receives. -/
inductive Side (T R : Type) where
  | notStarted (p : Prog T R)
  | waiting (k : In T → Prog T R)
  | finished (r : Except (Err T) R)

/-- Run a program up to its next receive: messages sent, events emitted, where it stopped. -/
def seg {T R : Type} : Prog T R → List (Msg T) × List (Ev T) × Side T R
  | .ret r => ([], [], .finished (.ok r))
  | .fail e => ([], [], .finished (.error e))
  | .ev e k => let s := seg k; (s.1, e :: s.2.1, s.2.2)
  | .send m _ k => let s := seg k; (m :: s.1, s.2.1, s.2.2)
  | .flush k => seg k
  | .recv k => ([], [], .waiting k)

structure Sys (T : Type) where
  ini : Side T Unit
  acc : Side T T
  toAcc : List (Msg T)      -- in flight, initiator → acceptor
  toIni : List (Msg T)      -- in flight, acceptor → initiator
  iniSent : List (Msg T)
  accSent : List (Msg T)
  iniEv : List (Ev T)
  accEv : List (Ev T)

def Sys.init {T : Type} (t : T) : Sys T :=
  ⟨.notStarted (initiator t), .notStarted acceptor, [], [], [], [], [], []⟩

inductive Who where
  | ini
  | acc
deriving DecidableEq, Repr

def finishedSide {T R : Type} : Side T R → Bool
  | .finished _ => true
  | _ => false

/-- One scheduling step of `who`: start it, or hand it the next in-flight message; a side
    waiting on an empty channel whose peer has finished sees the stream closed.
    `none` = `who` cannot move. -/
def Sys.step {T : Type} (s : Sys T) : Who → Option (Sys T)
  | .ini =>
    match s.ini with
    | .notStarted p =>
      let r := seg p
      some { s with ini := r.2.2, toAcc := s.toAcc ++ r.1, iniSent := s.iniSent ++ r.1, iniEv := s.iniEv ++ r.2.1 }
    | .waiting k =>
      match s.toIni with
      | m :: rest =>
        let r := seg (k (.item (.msg m)))
        some { s with ini := r.2.2, toIni := rest, toAcc := s.toAcc ++ r.1, iniSent := s.iniSent ++ r.1, iniEv := s.iniEv ++ r.2.1 }
      | [] =>
        if finishedSide s.acc then
          let r := seg (k .closed)
          some { s with ini := r.2.2, toAcc := s.toAcc ++ r.1, iniSent := s.iniSent ++ r.1, iniEv := s.iniEv ++ r.2.1 }
        else none
    | .finished _ => none
  | .acc =>
    match s.acc with
    | .notStarted p =>
      let r := seg p
      some { s with acc := r.2.2, toIni := s.toIni ++ r.1, accSent := s.accSent ++ r.1, accEv := s.accEv ++ r.2.1 }
    | .waiting k =>
      match s.toAcc with
      | m :: rest =>
        let r := seg (k (.item (.msg m)))
        some { s with acc := r.2.2, toAcc := rest, toIni := s.toIni ++ r.1, accSent := s.accSent ++ r.1, accEv := s.accEv ++ r.2.1 }
      | [] =>
        if finishedSide s.ini then
          let r := seg (k .closed)
          some { s with acc := r.2.2, toIni := s.toIni ++ r.1, accSent := s.accSent ++ r.1, accEv := s.accEv ++ r.2.1 }
        else none
    | .finished _ => none

/-- Run a schedule; steps of a side that cannot move are skipped. -/
def Sys.run {T : Type} (s : Sys T) : List Who → Sys T
  | [] => s
  | w :: ws =>
    match s.step w with
    | some s' => Sys.run s' ws
    | none => Sys.run s ws

end P2.Handshake
