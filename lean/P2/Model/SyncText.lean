/-
Text forms shared by the model drivers of the log-sync family (C19, C20, C22): parsing of the
request tokens written by `harness/h_synclib` and printing of answers. Import-free besides models.
-/
import P2.Model.SyncProto

namespace P2.Sync.Text
open P2.Sync

def splitC (c : Char) (s : List Char) : List (List Char) :=
  let rec go (cur : List Char) (acc : List (List Char)) : List Char → List (List Char)
    | [] => (cur.reverse :: acc).reverse
    | x :: xs => if x = c then go [] (cur.reverse :: acc) xs else go (x :: cur) acc xs
  go [] [] s

def nat? (s : List Char) : Option Nat := (String.ofList s).toNat?

/-- `x<sep>y` → two naturals -/
def pair? (sep : Char) (s : List Char) : Option (Nat × Nat) :=
  match splitC sep s with
  | [a, b] => do
    let a ← nat? a
    let b ← nat? b
    pure (a, b)
  | _ => none

/-- `l.s,l.s` (empty string = empty map) -/
def logMap? (s : List Char) : Option LogMap :=
  if s.isEmpty then some [] else (splitC ',' s).mapM (pair? '.')

/-- `[a:l.s,l.s;a:…]` -/
def heights? (s : List Char) : Option Heights :=
  match s with
  | '[' :: rest =>
    match rest.reverse with
    | ']' :: inner =>
      let inner := inner.reverse
      if inner.isEmpty then some []
      else (splitC ';' inner).mapM fun part =>
        match splitC ':' part with
        | [a, m] => do
          let a ← nat? a
          let m ← logMap? m
          pure (a, m)
        | _ => none
    | _ => none
  | _ => none

/-- `a:l,l;a:l` or `-` -/
def scope? (s : List Char) : Option (List (Nat × List Nat)) :=
  if s = ['-'] then some []
  else (splitC ';' s).mapM fun part =>
    match splitC ':' part with
    | [a, ls] => do
      let a ← nat? a
      let ls ← (splitC ',' ls).mapM nat?
      pure (a, ls)
    | _ => none

def op? (s : List Char) : Option Op := (pair? '/' s).map fun p => { id := p.1, bytes := p.2 }

def item? (t : String) : Option In :=
  match t.toList with
  | ['H', '-'] => some (.heights (some none))
  | ['H', 'E'] => some (.heights none)
  | 'H' :: r => (logMap? r).map fun m => .heights (some (some m))
  | ['Z', '-'] => some (.size (some none))
  | ['Z', 'E'] => some (.size none)
  | 'Z' :: r => (pair? '/' r).map fun p => .size (some (some p))
  | ['G', '-'] => some (.entries (some none))
  | ['G', 'E'] => some (.entries none)
  | ['G', '.'] => some (.entries (some (some [])))
  | 'G' :: r => ((splitC ',' r).mapM op?).map fun ops => .entries (some (some ops))
  | ['S', '+'] => some (.send true)
  | ['S', '-'] => some (.send false)
  | ['R', 'c'] => some (.recv .closed)
  | ['R', 'e'] => some (.recv .err)
  | ['R', 'd'] => some (.recv (.msg .done))
  | 'R' :: 'h' :: r => (heights? r).map fun h => .recv (.msg (.have h))
  | 'R' :: 'p' :: r => (pair? '/' r).map fun p => .recv (.msg (.preSync p.1 p.2))
  | 'R' :: 'o' :: r => (op? r).map fun o => .recv (.msg (.op o))
  | 'R' :: 'g' :: r => (nat? r).map fun b => .recv (.garbage b)
  | _ => none

def showLogMap (m : LogMap) : String :=
  ",".intercalate (m.map fun p => s!"{p.1}.{p.2}")

def showHeights (h : Heights) : String :=
  "[" ++ ";".intercalate (h.map fun p => s!"{p.1}:{showLogMap p.2}") ++ "]"

def showMsg : Msg → String
  | .have h => "H" ++ showHeights h
  | .preSync n b => s!"P{n}/{b}"
  | .op o => s!"O{o.id}/{o.bytes}"
  | .done => "D"

def showMetrics (m : Metrics) : String :=
  s!"{m.outOps},{m.outBytes},{m.inOps},{m.inBytes},{m.sentOps},{m.sentBytes},{m.recvOps},{m.recvBytes}"

def showEv : Ev → String
  | .metricsExchanged m => s!"M({showMetrics m})"
  | .opReceived id m => s!"R{id}({showMetrics m})"

def showErr : Err → String
  | .logStore => "logStore" | .opStore => "opStore" | .sink => "sink" | .stream => "stream"
  | .closed => "closed" | .unexpected => "unexpected" | .decode => "decode" | .bcast => "bcast"

def showRes (s : St) : String :=
  match s.pc with
  | .fin none => s!"ok({showMetrics s.m})"
  | .fin (some e) => "E:" ++ showErr e
  | .spin => "spin"
  | .mismatch => "mismatch"
  | _ => "running"

def showSt (s : St) : String :=
  "sent=" ++ " ".intercalate (s.sent.map showMsg) ++ " | ev=" ++ " ".intercalate (s.events.map showEv)
    ++ " | res=" ++ showRes s

/-- key=value header tokens -/
def kv? (key : String) (ts : List String) : Option (List Char) :=
  ts.findSome? fun t =>
    let k := (key ++ "=").toList
    if k.isPrefixOf t.toList then some (t.toList.drop k.length) else none

end P2.Sync.Text
