/-
Shared model of log-height maps ("state vectors"), their diff and their cursors.

Transcribes
  * `p2panda-core/src/logs.rs`   `compare`            (nested form `compareNested`, flat form `compare`)
  * `p2panda-core/src/cursor.rs` `Cursor::{compare, advance}`
  * `p2panda/src/streams/acked.rs` `Acked::{ack, cursor}` over the cursor table of
    `p2panda-store/src/cursors/sqlite.rs` (`get_cursor` / `set_cursor` upsert)

`BTreeMap`s are association lists; every function only uses first-match `lookup`, in-place
`upsert` and order-preserving `filterMap`, so the theorems need `Nodup` keys only where stated.
The Rust maps are nested (`author → log → height`); the property speaks about `(author, log)`
pairs, so the flat form over an arbitrary key type `K` is the one the theorems are about and
`flatten_compareNested` (P2/Props/C06.lean) relates the two.

No imports: this file is linked into the driver executables.
-/
namespace P2.Heights

/-! ## Association lists -/

section Assoc
variable {K V : Type} [DecidableEq K]

/-- `BTreeMap::get` (first match). -/
def lookup (k : K) : List (K × V) → Option V
  | [] => none
  | (k', v) :: t => if k' = k then some v else lookup k t

/-- `BTreeMap::insert`: replace the value in place, or append a new entry. -/
def upsert (k : K) (v : V) : List (K × V) → List (K × V)
  | [] => [(k, v)]
  | (k', v') :: t => if k' = k then (k, v) :: t else (k', v') :: upsert k v t

def keys (m : List (K × V)) : List K := m.map Prod.fst

end Assoc

/-- Log heights by key (`key = (author, log id)` in the flat reading). -/
abbrev Heights (K : Type) := List (K × Nat)

/-- `(from exclusive | none = from the start, until inclusive)`. The Rust type has an
    `Option` in the second place too; `compare` only ever produces `Some` there (the harness
    prints `-` otherwise, which no model answer contains). -/
abbrev Range := Option Nat × Nat

abbrev Ranges (K : Type) := List (K × Range)

def optMax : Option Nat → Option Nat → Option Nat
  | none, b => b
  | a, none => a
  | some a, some b => some (max a b)

/-- `a ≤ b` on optional heights, `none` least (a log not yet in the cursor). -/
def optLe : Option Nat → Option Nat → Prop
  | none, _ => True
  | some _, none => False
  | some a, some b => a ≤ b

section Flat
variable {K : Type} [DecidableEq K]

/-- Flat form of `logs::compare(local, remote)`: what the remote needs. -/
def compare (loc rem : Heights K) : Ranges K :=
  loc.filterMap fun e =>
    match lookup e.1 rem with
    | none => some (e.1, (none, e.2))
    | some r => if r < e.2 then some (e.1, (some r, e.2)) else none

/-- `Cursor::advance`: ignore a height lower than or equal to the current one. -/
def advance (c : Heights K) (k : K) (h : Nat) : Heights K :=
  match lookup k c with
  | some cur => if cur ≥ h then c else upsert k h c
  | none => upsert k h c

/-- A sequence of `advance` calls. -/
def advanceAll (c : Heights K) (hs : List (K × Nat)) : Heights K :=
  hs.foldl (fun c e => advance c e.1 e.2) c

/-- Merge a diff into the remote's heights (each range advances its log to `until`). -/
def applyDiff (rem : Heights K) (d : Ranges K) : Heights K :=
  d.foldl (fun c e => advance c e.1 e.2.2) rem

/-- Greatest height named for `k` in a list of advances (`none` if `k` does not occur). -/
def maxOf (k : K) : List (K × Nat) → Option Nat
  | [] => none
  | e :: t => if e.1 = k then optMax (some e.2) (maxOf k t) else maxOf k t

/-- `Cursor` (the name only matters to the store). -/
structure Cursor (K : Type) where
  name : Nat
  state : Heights K

/-- `Cursor::compare(&self, other)` = `compare(other, &self.state)`. -/
def Cursor.compare (c : Cursor K) (other : Heights K) : Ranges K :=
  P2.Heights.compare other c.state

def Cursor.advance (c : Cursor K) (k : K) (h : Nat) : Cursor K :=
  { c with state := P2.Heights.advance c.state k h }

end Flat

/-! ## Nested form: the literal shape of `logs::compare` -/

section Nested
variable {A L : Type} [DecidableEq A] [DecidableEq L]

abbrev Nested (A L : Type) := List (A × List (L × Nat))
abbrev NestedRanges (A L : Type) := List (A × List (L × Range))

/-- `logs::compare`, with its author-level shortcuts:
    * author unknown to the remote → every local log from the start (the author key is
      inserted even when the local inner map is empty);
    * `local_logs == remote_logs` → nothing;
    * otherwise per log; the author key appears only if some log produced a range
      (`entry().or_default()` runs only then). -/
def compareNested (loc rem : Nested A L) : NestedRanges A L :=
  loc.filterMap fun e =>
    match lookup e.1 rem with
    | none => some (e.1, e.2.map fun x => (x.1, ((none : Option Nat), x.2)))
    | some rl =>
      if e.2 = rl then none
      else
        let d := compare e.2 rl   -- the per-log loop is the flat diff over log ids
        if d.isEmpty then none else some (e.1, d)

def flatten {V : Type} (n : List (A × List (L × V))) : List ((A × L) × V) :=
  n.flatMap fun e => e.2.map fun x => ((e.1, x.1), x.2)

/-- Keys are unique at both levels (what a `BTreeMap` of `BTreeMap`s guarantees). -/
def NestedWF {V : Type} (n : List (A × List (L × V))) : Prop :=
  (keys n).Nodup ∧ ∀ e ∈ n, (keys e.2).Nodup

end Nested

/-! ## `Acked`: a named cursor persisted in the cursor table, guarded by the topic's log id -/

section Acked
variable {K : Type} [DecidableEq K]

/-- Table `cursors_v1(name PRIMARY KEY, cursor)`. -/
abbrev CursorTable (K : Type) := List (Nat × Heights K)

/-- `get_cursor(name)` followed by `unwrap_or(Cursor::new(name, default))`. -/
def getCursor (t : CursorTable K) (name : Nat) : Heights K :=
  (lookup name t).getD []

/-- `set_cursor`: `INSERT … ON CONFLICT(name) DO UPDATE SET cursor = EXCLUDED.cursor`. -/
def setCursor (t : CursorTable K) (name : Nat) (c : Heights K) : CursorTable K :=
  upsert name c t

inductive AckResult where
  | ok
  | invalidTopic
deriving DecidableEq, Repr

/-- `Acked { cursor_name, topic }`; `topicLog` is `LogId::from_topic(topic)`. -/
structure Acked where
  name : Nat
  topicLog : Nat
deriving DecidableEq, Repr

/-- The three header fields `Acked::ack` reads. -/
structure AckHeader where
  author : Nat
  logId : Nat
  seq : Nat
deriving DecidableEq, Repr

/-- `Acked::ack` (the semaphore makes the read-advance-write sequence atomic). -/
def ack (t : CursorTable (Nat × Nat)) (a : Acked) (h : AckHeader) :
    CursorTable (Nat × Nat) × AckResult :=
  if a.topicLog ≠ h.logId then (t, .invalidTopic)
  else
    let c := getCursor t a.name
    let c' := advance c (h.author, h.logId) h.seq
    (setCursor t a.name c', .ok)

/-- Two `ack`s through two *separately constructed* handles in the interleaving
    read₁ read₂ write₁ write₂.  Every `Acked::from_name` / `Acked::new` call creates its own
    `Semaphore`, so nothing orders the read-advance-write sequences of two handles — also when
    both use the same cursor name (two streams opened on one topic).  Each side first does its
    topic check (a rejected ack neither reads nor writes). -/
def ackRacy (t : CursorTable (Nat × Nat)) (a1 : Acked) (h1 : AckHeader) (a2 : Acked)
    (h2 : AckHeader) : CursorTable (Nat × Nat) × AckResult × AckResult :=
  let r1 := if a1.topicLog ≠ h1.logId then none
            else some (advance (getCursor t a1.name) (h1.author, h1.logId) h1.seq)
  let r2 := if a2.topicLog ≠ h2.logId then none
            else some (advance (getCursor t a2.name) (h2.author, h2.logId) h2.seq)
  let t1 := match r1 with
            | none => t
            | some c => setCursor t a1.name c
  let t2 := match r2 with
            | none => t1
            | some c => setCursor t1 a2.name c
  (t2, (if r1.isSome then .ok else .invalidTopic), (if r2.isSome then .ok else .invalidTopic))

end Acked

end P2.Heights
