/-
Model of `p2panda/src/streams/ephemeral_stream.rs`, message part (C16):
`WrappedMessage::{new, sign, verify, from_bytes, to_bytes}` and `EphemeralStreamPublisher::publish`.

Wire format: the CBOR 6-tuple `(version, verifying_key, signature, timestamp, lamport, body)`.
Signed items: the 5-tuple `(version, verifying_key, timestamp, lamport, body)`.

Ideal signatures (DESIGN §3.1): a signature value *is* the pair (signer, signed items) — or `none`
for bytes no key ever produced; `verify key items sig` holds iff `sig = some (key, items)`.
Keys and bodies are opaque ids. No imports outside the model directory.
-/
import P2.Model.HybridTs

namespace P2.Ephemeral
open P2.HybridTs

/-- `MESSAGE_VERSION` (re-extracted from the source into `P2.Extracted.C16.messageVersion`). -/
def messageVersion : Nat := 1

/-- The signed 5-tuple. -/
structure Items where
  version : Nat
  key : Nat
  ts : HTs
  body : Nat
deriving DecidableEq, Repr

/-- An ideal signature: who signed what (`none` = 64 bytes that are nobody's signature). -/
abbrev Sig := Option (Nat × Items)

def sign (signer : Nat) (items : Items) : Sig := some (signer, items)

/-- `VerifyingKey::verify(bytes, sig)` (strict, ideal). -/
def verifySig (key : Nat) (items : Items) (sig : Sig) : Bool := sig == some (key, items)

/-- A decoded `WrappedMessage` / the decodable content of a byte string on the gossip channel. -/
structure Wire where
  version : Nat
  key : Nat
  sig : Sig
  ts : HTs
  body : Nat
deriving DecidableEq, Repr

/-- What arrives on the channel: bytes that do not decode to the 6-tuple, or a 6-tuple. -/
inductive Input where
  | garbage
  | wire (w : Wire)
deriving DecidableEq, Repr

inductive Err where
  | encoding
  | version
  | signature
deriving DecidableEq, Repr

/-- The items `WrappedMessage::verify` re-encodes from the message's own fields. -/
def Wire.items (w : Wire) : Items := ⟨w.version, w.key, w.ts, w.body⟩

/-- `WrappedMessage::new(body, timestamp, signing_key)`; `sign` uses `MESSAGE_VERSION`. -/
def wrap (key : Nat) (ts : HTs) (body : Nat) : Wire :=
  { version := messageVersion, key := key,
    sig := sign key ⟨messageVersion, key, ts, body⟩, ts := ts, body := body }

/-- `WrappedMessage::from_bytes`: decode, version check, signature check — in this order. -/
def unwrap : Input → Except Err Wire
  | .garbage => .error .encoding
  | .wire w =>
    if w.version ≠ messageVersion then .error .version
    else if verifySig w.key w.items w.sig then .ok w
    else .error .signature

/-- `EphemeralStreamPublisher::publish` under the clock reading `now`: the publisher's timestamp is
    incremented and stored, the message wrapped with it. Returns (new publisher state, wire). -/
def publish (key : Nat) (st : HTs) (now : Nat) (body : Nat) : HTs × Wire :=
  let ts := increment st now
  (ts, wrap key ts body)

/-- The wires produced by successive publishes (clock reading and body per publish). -/
def publishAll (key : Nat) (st : HTs) : List (Nat × Nat) → List Wire
  | [] => []
  | (now, body) :: rest =>
    let (st', w) := publish key st now body
    w :: publishAll key st' rest

/-- Same with the pinned tree's `increment` (C18 defect). -/
def publishAllOrig (key : Nat) (st : HTs) : List (Nat × Nat) → List Wire
  | [] => []
  | (now, body) :: rest =>
    let ts := incrementOrig st now
    wrap key ts body :: publishAllOrig key ts rest

end P2.Ephemeral
