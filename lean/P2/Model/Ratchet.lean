/-
Model of `p2panda-encryption/src/message_scheme/ratchet.rs`
(`RatchetSecret::{init, ratchet_forward}`, `DecryptionRatchet::{init, secret_for_decryption}`).

Cryptography is symbolic (DESIGN.md §3.1): the three HKDF derivations of `ratchet_forward`
(`"key"`+`"nonce"` → key material, `"chain"` → next secret) are an *uninterpreted* pair of
functions `Kdf.key : S → K`, `Kdf.next : S → S`; every theorem holds for every such pair.
Generations are `Nat` (the `u32` wrap at 2³²−1 is outside the modelled domain).
No imports: this file is linked into the driver executable.
-/
namespace P2.Ratchet

/-- The HKDF chain step, uninterpreted. -/
structure Kdf (S K : Type) where
  key  : S → K
  next : S → S

/-- `RatchetSecretState`. -/
structure Chain (S : Type) where
  secret : S
  gen    : Nat
deriving Repr

/-- `DecryptionRatchetState`: `past` is the `VecDeque` (front first). -/
structure Recv (S K : Type) where
  past : List (Option K)
  head : Chain S
deriving Repr

/-- `RatchetError` (the `Hkdf` variant cannot occur for 32-byte outputs). -/
inductive Err where
  | future | past | oob | reuse
deriving Repr, DecidableEq

variable {S K : Type}

/-- `RatchetSecret::init`. -/
def Chain.init (s : S) : Chain S := { secret := s, gen := 0 }

/-- `RatchetSecret::ratchet_forward`: (new state, generation, key material). -/
def Chain.forward (kdf : Kdf S K) (y : Chain S) : Chain S × Nat × K :=
  ({ secret := kdf.next y.secret, gen := y.gen + 1 }, y.gen, kdf.key y.secret)

/-- `DecryptionRatchet::init`. -/
def Recv.init (s : S) : Recv S K := { past := [], head := Chain.init s }

/-- The `for _ in 0..(generation - generation_head)` loop: ratchet forward `n` times keeping
    the skipped generations' key material at the front of the queue. -/
def Recv.skip (kdf : Kdf S K) : Nat → Recv S K → Recv S K
  | 0, y => y
  | n + 1, y =>
    let (h, _, k) := y.head.forward kdf
    Recv.skip kdf n { past := some k :: y.past, head := h }

/-- `DecryptionRatchet::secret_for_decryption(y, generation, maximum_forward_distance,
    ooo_tolerance)`. On `Err` the real function drops the moved-in state; callers keep a
    clone, which is what "state unchanged on error" means here. -/
def Recv.get (kdf : Kdf S K) (y : Recv S K) (g fwd ooo : Nat) : Except Err (Recv S K × K) :=
  let hd := y.head.gen
  if g > hd + fwd then .error .future
  else if g < hd ∧ hd - g > ooo then .error .past
  else if g ≥ hd then
    let y1 := Recv.skip kdf (g - hd) y
    let (h, _, k) := y1.head.forward kdf
    .ok ({ past := (none :: y1.past).take ooo, head := h }, k)
  else
    let idx := hd - g - 1
    match y.past[idx]? with
    | none => .error .oob
    | some none => .error .reuse
    | some (some k) => .ok ({ y with past := y.past.set idx none }, k)

/-- The sender's chain secret at generation `n`. -/
def chainAt (kdf : Kdf S K) (s0 : S) : Nat → S
  | 0 => s0
  | n + 1 => kdf.next (chainAt kdf s0 n)

/-- The key material the sender uses for generation `n`
    (`n`-th output of `ratchet_forward` starting from `RatchetSecret::init s0`). -/
def senderKey (kdf : Kdf S K) (s0 : S) (n : Nat) : K := kdf.key (chainAt kdf s0 n)

/-- One request of a receiver history: generation and the two window parameters of that call. -/
structure Req where
  g : Nat
  fwd : Nat
  ooo : Nat
deriving Repr

/-- Run a request sequence; failed calls leave the state unchanged. -/
def run (kdf : Kdf S K) : Recv S K → List Req → Recv S K × List (Except Err K)
  | y, [] => (y, [])
  | y, r :: rs =>
    match y.get kdf r.g r.fwd r.ooo with
    | .ok (y', k) => let (yf, outs) := run kdf y' rs; (yf, .ok k :: outs)
    | .error e => let (yf, outs) := run kdf y rs; (yf, .error e :: outs)

/-- Generations handed out successfully along a request sequence, in order. -/
def handedOut (kdf : Kdf S K) : Recv S K → List Req → List Nat
  | _, [] => []
  | y, r :: rs =>
    match y.get kdf r.g r.fwd r.ooo with
    | .ok (y', _) => r.g :: handedOut kdf y' rs
    | .error _ => handedOut kdf y rs

/-- State after a request sequence. -/
def after (kdf : Kdf S K) (y : Recv S K) (rs : List Req) : Recv S K := (run kdf y rs).1

end P2.Ratchet
