/-
Model of `p2panda-net/src/addrs.rs`: `TransportInfo::verify` (both variants) and
`NodeInfo::update_transports` (last-write-wins register per node).

Ideal signatures (DESIGN §3.1): an Ed25519 signature is represented by *what was signed and by
whom* — `(sigKey, sigTs, sigPayload)`; `verify node r` holds iff the signature was produced by
`node`'s key over exactly the record's current `(timestamp, addresses)`. Address lists are opaque
payload ids; for the trusted variant the list of endpoint ids occurring in the addresses is kept
(`addrIds`) because `TrustedTransportInfo::verify` compares each of them with the node id.
No imports outside the model directory: linked into the driver executables.
-/
import P2.Model.HybridTs

namespace P2.AddrBook
open P2.HybridTs

inductive Kind where
  | trusted
  | auth
deriving DecidableEq, Repr

/-- A transport record as it arrives at `update_transports`. -/
structure Rec where
  kind : Kind
  ts : HTs
  /-- id of the `addresses` vector carried by the record -/
  payload : Nat
  /-- endpoint ids inside the addresses (only read for `trusted`) -/
  addrIds : List Nat
  /-- authenticated variant: key that produced the signature … -/
  sigKey : Nat
  /-- … and the `(timestamp, addresses)` it was produced over -/
  sigTs : HTs
  sigPayload : Nat
deriving DecidableEq, Repr

/-- `NodeInfoError` as far as `verify` can produce it. -/
inductive VErr where
  | invalidSignature
  | nodeIdMismatch
deriving DecidableEq, Repr

/-- `TransportInfo::verify(&node_id)`. Trusted: the first address whose endpoint id differs from the node id
    makes it fail; authenticated: signature by `node` over the record's own unsigned form. -/
def verify (node : Nat) (r : Rec) : Option VErr :=
  match r.kind with
  | .trusted => if r.addrIds.all (· == node) then none else some .nodeIdMismatch
  | .auth =>
    if r.sigKey = node ∧ r.sigTs = r.ts ∧ r.sigPayload = r.payload then none
    else some .invalidSignature

def authentic (node : Nat) (r : Rec) : Bool := (verify node r).isNone

inductive Res where
  | ok (newer : Bool)
  | err (e : VErr)
deriving DecidableEq, Repr

/-- `NodeInfo::update_transports`: verify first, then replace only by a strictly newer timestamp. -/
def update (node : Nat) (reg : Option Rec) (r : Rec) : Option Rec × Res :=
  match verify node r with
  | some e => (reg, .err e)
  | none =>
    match reg with
    | none => (some r, .ok true)
    | some c => if c.ts < r.ts then (some r, .ok true) else (reg, .ok false)

/-- Register after a list of arriving records. -/
def run (node : Nat) (reg : Option Rec) (rs : List Rec) : Option Rec :=
  rs.foldl (fun g r => (update node g r).1) reg

/-- Per-step trace (register after the step, result of the step). -/
def trace (node : Nat) (reg : Option Rec) : List Rec → List (Option Rec × Res)
  | [] => []
  | r :: rs => let s := update node reg r; s :: trace node s.1 rs

/-- A node's own next record: `UnsignedTransportInfo::increment_timestamp(Some(prev))` under the
    clock reading `now`, then `sign` with the node's own key. -/
def ownNext (node : Nat) (prevTs : HTs) (now : Nat) (payload : Nat) (ids : List Nat) : Rec :=
  let ts := increment prevTs now
  { kind := .auth, ts := ts, payload := payload, addrIds := ids,
    sigKey := node, sigTs := ts, sigPayload := payload }

/-- Same with the pinned tree's `increment`. -/
def ownNextOrig (node : Nat) (prevTs : HTs) (now : Nat) (payload : Nat) (ids : List Nat) : Rec :=
  let ts := incrementOrig prevTs now
  { kind := .auth, ts := ts, payload := payload, addrIds := ids,
    sigKey := node, sigTs := ts, sigPayload := payload }

/-! ### the address book entry of one node: both entry points -/

/-- `NodeInfo::verify`: a complete node info is verified through its transports (if any). -/
def nodeInfoVerify (node : Nat) (t : Option Rec) : Option VErr :=
  match t with
  | some r => verify node r
  | none => none

/-- The stored entry of one node: `row` = a `NodeInfo` row exists, `reg` = its `transports`. -/
structure Book where
  row : Bool
  reg : Option Rec
deriving DecidableEq, Repr

def Book.empty : Book := { row := false, reg := none }

/-- Result of `AddressBook::insert_node_info`: `Ok(true)` = newly inserted, `Ok(false)` = existing entry
    overwritten, or the verification error. -/
inductive InfoRes where
  | ok (newly : Bool)
  | err (e : VErr)
deriving DecidableEq, Repr

/-- `ToAddressBookActor::InsertNodeInfo`: verify the complete node info, then overwrite the entry —
    the documented local override: *no* timestamp comparison for a valid node info. -/
def insertNodeInfo (node : Nat) (b : Book) (t : Option Rec) : Book × InfoRes :=
  match nodeInfoVerify node t with
  | some e => (b, .err e)
  | none => ({ row := true, reg := t }, .ok (!b.row))

/-- `ToAddressBookActor::InsertTransportInfo`: verify, load the entry (or a fresh `NodeInfo::new`),
    `update_transports`, store. A failed verification stores nothing (no row is created). -/
def arrive (node : Nat) (b : Book) (r : Rec) : Book × Res :=
  match (update node b.reg r).2 with
  | .err e => (b, .err e)
  | .ok newer => ({ row := true, reg := (update node b.reg r).1 }, .ok newer)

/-- Operations on one node's entry. -/
inductive Op where
  | transport (r : Rec)
  | nodeInfo (t : Option Rec)
deriving DecidableEq, Repr

def applyOp (node : Nat) (b : Book) : Op → Book
  | .transport r => (arrive node b r).1
  | .nodeInfo t => (insertNodeInfo node b t).1

def runOps (node : Nat) (b : Book) (ops : List Op) : Book := ops.foldl (applyOp node) b

end P2.AddrBook
