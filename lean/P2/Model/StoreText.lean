/-
Text form of operations, store rows and results on the request / answer lines of the
ingest / prune drivers (C01, C03, C04, C05).  Import-free.

  O <id> <hid> <hdr8> body=<hash id>:<size>|-        an operation (claimed id, header hash id)
  R <id> <author> <log> <seq> <hid> <bl|-> <T|F> <size> <T|F>     a stored row
  A <topic> <author> <log>                            a topic association
  S <key> <sig> <tok>*                                an honest signature (HeaderText)
-/
import P2.Model.LogStore
import P2.Model.HeaderText

namespace P2.LogStore
open P2.Header

def errStr : OpErr → String
  | .unsupportedVersion => "E:version"
  | .missingSignature => "E:missing-sig"
  | .signatureMismatch => "E:sig"
  | .seqNumMismatch => "E:seq0-backlink"
  | .inconsistentPayloadInfo => "E:payload-info"
  | .missingPayloadHash => "E:missing-hash"
  | .payloadMismatch => "E:payload-mismatch"
  | .tooManyAuthors => "E:authors"
  | .seqNumNonIncremental => "E:seq"
  | .backlinkMissing => "E:backlink-missing"
  | .backlinkMismatch => "E:backlink-mismatch"

def parseBody (s : String) : Option (Option Body) :=
  match stripPrefix "body=" s with
  | none => none
  | some cs =>
    if cs = ['-'] then some none else
    match splitChars ':' cs with
    | [h, n] => match natOfChars h, natOfChars n with
      | some h, some n => some (some { hash := h, size := n })
      | _, _ => none
    | _ => none

/-- `O <id> <hid> <hdr8> body=…` (the leading `O` already removed) -/
def parseOp {E : Type} (x : ExtText E) : List String → Option (Op E)
  | id :: hid :: rest =>
    if rest.length ≠ 9 then none else
    match id.toNat?, hid.toNat?, parseHeader x (rest.take 8), (rest.drop 8).head?.bind parseBody with
    | some id, some hid, some h, some b => some { op := { id := id, header := h, body := b }, hid := hid }
    | _, _, _, _ => none
  | _ => none

def parseBoolS (s : String) : Option Bool := parseBoolC s.toList

def parseOptNatS (s : String) : Option (Option Nat) := parseOptNatC s.toList

/-- `R <id> <author> <log> <seq> <hid> <bl|-> <T|F> <size> <T|F>` (leading `R` removed) -/
def parseRow : List String → Option Row
  | [id, a, l, q, hid, bl, p, z, hb] =>
    match id.toNat?, a.toNat?, l.toNat?, q.toNat?, hid.toNat?, parseOptNatS bl, parseBoolS p,
          z.toNat?, parseBoolS hb with
    | some id, some a, some l, some q, some hid, some bl, some p, some z, some hb =>
      some { id := id, author := a, log := l, seq := q, hid := hid, backlink := bl, prune := p,
             payloadSize := z, hasBody := hb }
    | _, _, _, _, _, _, _, _, _ => none
  | _ => none

def renderRow (r : Row) : String :=
  s!"R {r.id} {r.author} {r.log} {r.seq} {r.hid} {renderOptNat r.backlink} {renderBool r.prune} {r.payloadSize} {renderBool r.hasBody}"

def parseAssoc : List String → Option (Nat × Nat × Nat)
  | [t, a, l] => match t.toNat?, a.toNat?, l.toNat? with
    | some t, some a, some l => some (t, a, l)
    | _, _, _ => none
  | _ => none

/-- Sections `R …`, `A …`, `S …` (in any order) → store and signature table. -/
def parseSections (secs : List (List String)) : Option (Store × SigTable) :=
  secs.foldlM (fun (acc : Store × SigTable) (sec : List String) =>
    match sec with
    | "R" :: r => (parseRow r).map (fun row => ({ acc.1 with rows := acc.1.rows ++ [row] }, acc.2))
    | "A" :: r => (parseAssoc r).map (fun a => ({ acc.1 with assoc := acc.1.assoc ++ [a] }, acc.2))
    | "S" :: _ => (parseSigEntry sec).map (fun e => (acc.1, acc.2 ++ [e]))
    | [] => some acc
    | _ => none) (Store.empty, [])

def kvNat (name : String) (s : String) : Option Nat := (stripPrefix name s).bind natOfChars
def kvBool (name : String) (s : String) : Option Bool := (stripPrefix name s).bind parseBoolC

def outcomeStr : Outcome → String
  | .inserted => "ins"
  | .already => "dup"
  | .failed e => errStr e

def insertSorted (r : Row) : List Row → List Row
  | [] => [r]
  | x :: xs => if r.seq < x.seq || (r.seq == x.seq && r.id ≤ x.id) then r :: x :: xs else x :: insertSorted r xs

def sortRows (rs : List Row) : List Row := rs.foldr insertSorted []

def rowsStr (rs : List Row) : String :=
  if rs.isEmpty then "-" else ",".intercalate ((sortRows rs).map (fun r => s!"{r.seq}:{r.id}"))

def logKeys (s : Store) : List (Nat × Nat) :=
  let ks := s.rows.map (fun r => (r.author, r.log))
  let ded := ks.foldl (fun acc k => if acc.contains k then acc else acc ++ [k]) []
  let ins (k : Nat × Nat) (l : List (Nat × Nat)) : List (Nat × Nat) :=
    let rec go : List (Nat × Nat) → List (Nat × Nat)
      | [] => [k]
      | x :: xs => if k.1 < x.1 || (k.1 == x.1 && k.2 ≤ x.2) then k :: x :: xs else x :: go xs
    go l
  ded.foldr ins []

def dumpStr (s : Store) : String :=
  let parts := (logKeys s).map (fun k => s!"{k.1}.{k.2}={rowsStr (logRows s k.1 k.2)}")
  if parts.isEmpty then "-" else " ".intercalate parts


end P2.LogStore
