/-
Model of the operation / log / topic store as far as `ingest_operation`, `LogPrune` and the
node's processing pipeline use it (p2panda-store `operations_v1`, `topics_v1`;
p2panda-stream/src/ingest/operation.rs, log_prune/processor.rs; p2panda-core/src/prune.rs,
operation.rs `validate_backlink`).  Import-free.

A store is the list of rows of `operations_v1` (in insertion order) plus the set of
`(topic, author, log)` associations.  Hashes, keys, logs, topics are opaque ids (`Nat`).
-/
import P2.Model.Header

namespace P2.LogStore
open P2.Header

/-- One row of `operations_v1`, reduced to what ingest / prune / the log queries read. -/
structure Row where
  /-- `hash` column (primary key): the id the operation was inserted under (`Operation.hash`) -/
  id : Nat
  /-- `verifying_key` column -/
  author : Nat
  /-- `log_id` column: the *argument* given to ingest, not a header field -/
  log : Nat
  /-- `seq_num` column -/
  seq : Nat
  /-- hash of the stored header bytes — what `get_latest_entry(..).header.hash()` yields -/
  hid : Nat
  /-- `backlink` of the stored header -/
  backlink : Option Nat
  /-- the prune flag the operation was ingested with (ghost: not a column) -/
  prune : Bool
  /-- `payload_size` column -/
  payloadSize : Nat
  /-- `body` column is non-NULL -/
  hasBody : Bool
  deriving DecidableEq, Repr

structure Store where
  rows : List Row
  /-- `topics_v1`: (topic, author, log), a set -/
  assoc : List (Nat × Nat × Nat)
  deriving DecidableEq, Repr

def Store.empty : Store := { rows := [], assoc := [] }

/-- `has_operation_tx` -/
def hasOp (s : Store) (id : Nat) : Bool := s.rows.any (fun r => r.id == id)

def inLog (a l : Nat) (r : Row) : Bool := r.author == a && r.log == l

/-- rows of one log, in insertion order -/
def logRows (s : Store) (a l : Nat) : List Row := s.rows.filter (inLog a l)

/-- the row with the greatest `seq` among `rs` (first one on ties) -/
def maxRow : List Row → Option Row
  | [] => none
  | r :: rs =>
    match maxRow rs with
    | none => some r
    | some m => if m.seq > r.seq then some m else some r

/-- `get_latest_entry_tx`: `WHERE verifying_key = ? AND log_id = ? ORDER BY seq_num DESC LIMIT 1` -/
def latest (s : Store) (a l : Nat) : Option Row := maxRow (logRows s a l)

/-- `get_log_heights` for one log: `MAX(seq_num)` -/
def height (s : Store) (a l : Nat) : Option Nat := (latest s a l).map (·.seq)

/-- `insert_operation`: `INSERT OR IGNORE` on the primary key -/
def insertRow (s : Store) (r : Row) : Store :=
  if hasOp s r.id then s else { s with rows := s.rows ++ [r] }

/-- `TopicStore::associate`: set insertion -/
def associate (s : Store) (t a l : Nat) : Store :=
  if s.assoc.contains (t, a, l) then s else { s with assoc := s.assoc ++ [(t, a, l)] }

/-- `prune_entries`: `DELETE … WHERE verifying_key = ? AND log_id = ? AND seq_num < ?`.
    Returns the new store and the number of deleted rows. -/
def pruneBelow (s : Store) (a l n : Nat) : Store × Nat :=
  let keep := s.rows.filter (fun r => !(inLog a l r && r.seq < n))
  ({ s with rows := keep }, s.rows.length - keep.length)

/-! ## Log validation (operation.rs `validate_backlink`, prune.rs `validate_prunable_backlink`) -/

/-- `validate_backlink(past_header, header)`; `past` is the stored latest row. -/
def validateBacklink {E : Type} (past : Row) (h : Header E) : Except OpErr Unit :=
  if past.author ≠ h.key then .error .tooManyAuthors
  else if past.seq + 1 ≠ h.seq then .error .seqNumNonIncremental
  else
    match h.backlink with
    | some b => if past.hid ≠ b then .error .backlinkMismatch else .ok ()
    | none => .error .backlinkMissing

/-- `validate_prunable_backlink` of the **pinned tree**: a prune-flagged operation with
    `seq > 0` is accepted whatever is stored. -/
def validatePrunableBacklinkOrig {E : Type} (past : Option Row) (h : Header E) (prune : Bool) :
    Except OpErr Unit :=
  if h.seq > 0 then
    if !prune then
      match past with
      | some p => validateBacklink p h
      | none => .error .backlinkMissing
    else .ok ()
  else
    match past with
    | some p => validateBacklink p h
    | none => .ok ()

/-- `validate_prunable_backlink` after the `fix:` commit: with a stored latest entry a
    prune-flagged operation must lie strictly ahead of it. -/
def validatePrunableBacklink {E : Type} (past : Option Row) (h : Header E) (prune : Bool) :
    Except OpErr Unit :=
  if h.seq > 0 then
    if !prune then
      match past with
      | some p => validateBacklink p h
      | none => .error .backlinkMissing
    else
      match past with
      | some p =>
        if p.author ≠ h.key then .error .tooManyAuthors
        else if h.seq ≤ p.seq then .error .seqNumNonIncremental
        else .ok ()
      | none => .ok ()
  else
    match past with
    | some p => validateBacklink p h
    | none => .ok ()

/-! ## `ingest_operation` -/

inductive IngestErr where
  | invalid (e : OpErr)
  deriving DecidableEq, Repr

/-- What the harness tells the model about an operation besides its header:
    `hid` is the id of the BLAKE3 hash of the header's bytes (`header.hash()`). -/
structure Op (E : Type) where
  op : Operation E
  hid : Nat
  deriving DecidableEq, Repr

def rowOf {E : Type} (o : Op E) (log : Nat) (prune : Bool) : Row :=
  { id := o.op.id, author := o.op.header.key, log := log, seq := o.op.header.seq, hid := o.hid,
    backlink := o.op.header.backlink, prune := prune, payloadSize := o.op.header.payloadSize,
    hasBody := o.op.body.isSome }

/-- `ingest_operation`, parameterised by the log validation used (`…Orig` / repaired).
    Every error path returns before anything is written (validation precedes `begin()`; after
    `begin()` a `?` drops the permit, which rolls back). `Ok(false)` = already stored.
    The function is ONE atomic step: dedup lookup, latest-entry lookup, log validation and insert
    all happen inside the store's serialised transaction (`has_operation_tx`, `get_latest_entry_tx`
    between `begin()` and `commit()`), so concurrent ingests are a sequence of such steps in the
    order in which they obtain the FIFO transaction permit. The ingest-order source ties
    (`c03_extracted_ingest_order`, `c05_extracted_sources`) pin the `_tx` calls between `begin` and
    `commit`; the harness' concurrent family checks it on a multi-connection store. -/
def ingestWith {E : Type}
    (vpb : Option Row → Header E → Bool → Except OpErr Unit)
    (c : ExtCodec E) (tbl : SigTable) (s : Store) (o : Op E) (log topic : Nat) (prune : Bool) :
    Except IngestErr (Store × Bool) :=
  match validateOperation c tbl o.op with
  | .error e => .error (.invalid e)
  | .ok () =>
    if hasOp s o.op.id then .ok (s, false)
    else
      match vpb (latest s o.op.header.key log) o.op.header prune with
      | .error e => .error (.invalid e)
      | .ok () => .ok (associate (insertRow s (rowOf o log prune)) topic o.op.header.key log, true)

def ingestOrig {E : Type} := @ingestWith E validatePrunableBacklinkOrig
def ingest {E : Type} := @ingestWith E validatePrunableBacklink

/-- What the caller of ingest observes. -/
inductive Outcome where
  | inserted
  | already
  | failed (e : OpErr)
  deriving DecidableEq, Repr

/-- One ingest as a state transition: the store afterwards and the outcome. On failure the
    store is the input store (validation before `begin()`, rollback after). -/
def ingestStepWith {E : Type}
    (vpb : Option Row → Header E → Bool → Except OpErr Unit)
    (c : ExtCodec E) (tbl : SigTable) (s : Store) (o : Op E) (log topic : Nat) (prune : Bool) :
    Store × Outcome :=
  match ingestWith vpb c tbl s o log topic prune with
  | .ok (s', true) => (s', .inserted)
  | .ok (s', false) => (s', .already)
  | .error (.invalid e) => (s, .failed e)

def ingestStep {E : Type} := @ingestStepWith E validatePrunableBacklink
def ingestStepOrig {E : Type} := @ingestStepWith E validatePrunableBacklinkOrig

/-! ## Histories: deliveries and (possibly late, possibly dropped) prune steps

The node derives the log id and the prune flag of a delivery from the operation's header
(`lg`, `pf`; Node extensions: `log_id()`, `prune_flag()`), runs `Ingest`, and — as a separate
step — `LogPrune` with `(author, log, seq)` of the operation when the flag is set and ingest
completed (inserted *or* already stored).  `armed` is the ghost set of prune steps that such a
completed ingest has justified; a `prune` event is a transition only if it is armed. -/

inductive Event (E : Type) where
  | deliver (o : Op E) (topic : Nat)
  | prune (a l n : Nat)
  deriving Repr

structure Sys where
  store : Store
  /-- prune steps justified by a completed ingest of a prune-flagged operation -/
  armed : List (Nat × Nat × Nat)
  /-- prune steps that have been executed -/
  pruned : List (Nat × Nat × Nat)
  deriving DecidableEq, Repr

def Sys.init : Sys := { store := Store.empty, armed := [], pruned := [] }

/-- what one event reports: the ingest outcome, or the number of deleted rows (`none`: the
    prune step was not armed, nothing happens) -/
inductive Report where
  | ingest (o : Outcome)
  | pruned (k : Option Nat)
  deriving DecidableEq, Repr

def stepWith {E : Type}
    (vpb : Option Row → Header E → Bool → Except OpErr Unit)
    (c : ExtCodec E) (tbl : SigTable) (lg : Header E → Nat) (pf : Header E → Bool)
    (st : Sys) : Event E → Sys × Report
  | .deliver o topic =>
    let h := o.op.header
    let r := ingestStepWith vpb c tbl st.store o (lg h) topic (pf h)
    let arm := match r.2 with
      | .failed _ => false
      | _ => pf h
    ({ st with store := r.1, armed := if arm then (h.key, lg h, h.seq) :: st.armed else st.armed },
     .ingest r.2)
  | .prune a l n =>
    if st.armed.contains (a, l, n) then
      let r := pruneBelow st.store a l n
      ({ st with store := r.1, pruned := (a, l, n) :: st.pruned }, .pruned (some r.2))
    else (st, .pruned none)

def step {E : Type} := @stepWith E validatePrunableBacklink
def stepOrig {E : Type} := @stepWith E validatePrunableBacklinkOrig

def runWith {E : Type}
    (vpb : Option Row → Header E → Bool → Except OpErr Unit)
    (c : ExtCodec E) (tbl : SigTable) (lg : Header E → Nat) (pf : Header E → Bool)
    (st : Sys) : List (Event E) → Sys
  | [] => st
  | e :: es => runWith vpb c tbl lg pf (stepWith vpb c tbl lg pf st e).1 es

def run {E : Type} := @runWith E validatePrunableBacklink
def runOrig {E : Type} := @runWith E validatePrunableBacklinkOrig

end P2.LogStore
