/-
The sink adapter between `LogSync` and a *buffering* transport (C21): `LogSyncSink`
(`topic_log_sync.rs`) forwards `poll_ready / start_send / poll_flush` to the transport sink, which
— like p2panda-net's `FramedWrite` codec over a byte pipe — only appends to a local buffer in
`start_send` and moves buffered messages into a pipe of capacity `c` when flushed.

One direction: a sender that sends `total` messages one after the other (`enq`, then waits for the
send to `resolve`), a transport that `push`es buffered messages into the pipe while a send is being
polled (or `poll_ready` drains above the high-water mark `hw`), a receiver that `recv`s.

* faithful adapter (`bestEffort = false`, the pinned code): a send resolves only when the
  transport's flush completed, i.e. the local buffer is empty.  Then, whenever no send is pending,
  every enqueued message is in the pipe or received — exactly the abstraction of
  `P2/Model/SyncSched.lean` (queue = `s - r`, capacity parameter `c`).
* best-effort adapter (`bestEffort = true`): the send resolves after polling the flush once.
-/
namespace P2.Flush

structure St where
  /-- messages handed to the sink -/
  s : Nat
  /-- of those: still in the local buffer -/
  b : Nat
  /-- in the pipe -/
  q : Nat
  /-- received -/
  r : Nat
  /-- a send has not resolved yet -/
  w : Bool
deriving DecidableEq, Repr

structure Cfg where
  c : Nat
  hw : Nat
  total : Nat
  bestEffort : Bool
deriving Repr

inductive Act | enq | push | resolve | recv
deriving DecidableEq, Repr

def step (cfg : Cfg) (st : St) : Act → Option St
  | .enq =>
    if !st.w && decide (st.s < cfg.total) && decide (st.b < cfg.hw) then
      some { st with s := st.s + 1, b := st.b + 1, w := true }
    else none
  | .push =>
    -- the transport is only driven from inside the sender's `send` (flush) or its next `poll_ready`
    if (st.w || (decide (cfg.hw ≤ st.b) && decide (st.s < cfg.total))) && decide (0 < st.b) && decide (st.q < cfg.c) then
      some { st with b := st.b - 1, q := st.q + 1 }
    else none
  | .resolve =>
    if st.w && (cfg.bestEffort || st.b == 0) then some { st with w := false } else none
  | .recv =>
    if decide (0 < st.q) then some { st with q := st.q - 1, r := st.r + 1 } else none

def init : St := { s := 0, b := 0, q := 0, r := 0, w := false }

def run (cfg : Cfg) (st : St) : List Act → Option St
  | [] => some st
  | a :: rest =>
    match step cfg st a with
    | none => none
    | some st' => run cfg st' rest

def stuck (cfg : Cfg) (st : St) : Bool :=
  [Act.enq, Act.push, Act.resolve, Act.recv].all fun a => (step cfg st a).isNone

end P2.Flush
