/-
Model of the routing / duplicate-guard layer of `p2panda-spaces` `Manager::process`
(p2panda-spaces/src/manager.rs, space.rs `handle_membership_message` / `handle_application_message`,
group.rs `Group::process`, identity.rs `process_key_bundle`).

The manager state is abstracted to the guard sets
  `seenAuth`   ids in `groups_y.inner.operations`                (Group::process duplicate check)
  `seenSpace`  ids in the spaces' `orderer.graph`                (`has_seen`; membership and application messages)
  `registry`   (author, bundle) pairs in the key registry        (process_key_bundle)
and an arbitrary inner state `σ` with an ARBITRARY inner handler `f : σ → Msg → Inner σ ε` (auth CRDT, DCGKA,
decryption, … — not modelled here). The outcome type has an explicit `panic` so that totality is a statement
about the model and not a triviality of Lean's totality.

`process`      = the code after the `fix:` commit (SpaceUpdate / Promote / Demote → error; duplicate guards for
                 key-bundle and application messages).
`processOrig`  = the pinned code (SpaceUpdate → `unimplemented!()`, Promote/Demote applied and then
                 `unimplemented!()` in the event conversion, no guard for key bundles and application messages).

No imports: this file is linked into the driver executable.
-/
namespace P2.SpacesGuard

inductive Kind
  | keyBundle | auth | membership | spaceUpdate | application
deriving DecidableEq, Repr

structure Msg where
  kind : Kind
  id : Nat
  /-- key bundle messages: author and (small id of) the carried bundle -/
  author : Nat := 0
  bundle : Nat := 0
  /-- auth messages: the action is Promote / Demote -/
  unsupported : Bool := false
  /-- membership messages: `auth_message_id` points at a stored auth message whose action is Promote / Demote
      (the lookup in `handle_space_membership_message` accepts supported auth actions only) -/
  pointsAtUnsupported : Bool := false
deriving DecidableEq, Repr

/-- What the inner handler does when it is really invoked. -/
inductive Inner (σ ε : Type)
  | ok (next : σ) (events : List ε)
  | err
  | panic

inductive Outcome (ε : Type)
  | ok (events : List ε)
  | err
  | panic
deriving DecidableEq, Repr

structure St (σ : Type) where
  seenAuth  : List Nat
  seenSpace : List Nat
  registry  : List (Nat × Nat)
  inner     : σ

variable {σ ε : Type}

/-- Record a successfully processed message in the guard set of its kind. -/
def St.record (st : St σ) (m : Msg) (i : σ) : St σ :=
  match m.kind with
  | .keyBundle => { st with registry := (m.author, m.bundle) :: st.registry, inner := i }
  | .auth => { st with seenAuth := m.id :: st.seenAuth, inner := i }
  | .membership => { st with seenSpace := m.id :: st.seenSpace, inner := i }
  | .application => { st with seenSpace := m.id :: st.seenSpace, inner := i }
  | .spaceUpdate => { st with inner := i }

/-- Invoke the inner handler; state changes only when it succeeds (`process_persisted` persists on `Ok`). -/
def invoke (f : σ → Msg → Inner σ ε) (st : St σ) (m : Msg) : St σ × Outcome ε :=
  match f st.inner m with
  | .ok i evs => (st.record m i, .ok evs)
  | .err => (st, .err)
  | .panic => (st, .panic)

/-- Has this message been processed before, as far as the guard of its kind can tell? -/
def guardHit (st : St σ) (m : Msg) : Bool :=
  match m.kind with
  | .keyBundle => decide ((m.author, m.bundle) ∈ st.registry)
  | .auth => decide (m.id ∈ st.seenAuth)
  | .membership => decide (m.id ∈ st.seenSpace)
  | .application => decide (m.id ∈ st.seenSpace)
  | .spaceUpdate => false

/-- Kinds / contents the manager rejects before touching any state. -/
def rejected (m : Msg) : Bool :=
  match m.kind with
  | .spaceUpdate => true
  | .auth => m.unsupported
  | .membership => m.pointsAtUnsupported
  | _ => false

/-- `Manager::process` (+ persist), repaired code. -/
def process (f : σ → Msg → Inner σ ε) (st : St σ) (m : Msg) : St σ × Outcome ε :=
  if rejected m then (st, .err)
  else if guardHit st m then (st, .ok [])
  else invoke f st m

/-- `Manager::process`, pinned code. -/
def processOrig (f : σ → Msg → Inner σ ε) (st : St σ) (m : Msg) : St σ × Outcome ε :=
  match m.kind with
  | .spaceUpdate => (st, .panic)
  | .keyBundle => invoke f st m
  | .application => invoke f st m
  | .auth =>
    if guardHit st m then (st, .ok [])
    else if m.unsupported then
      (match f st.inner m with
       | .ok _ _ => (st, .panic)        -- applied, then `unimplemented!()` in `auth_message_to_group_event`
       | .err => (st, .err)
       | .panic => (st, .panic))
    else invoke f st m
  | .membership => if guardHit st m then (st, .ok []) else invoke f st m

/-- A weaker key-bundle guard: compare only with the author's LATEST stored bundle (here: the most recently
    registered one; the registry is newest-first). Every other kind as in `process`. -/
def guardHitLatest (st : St σ) (m : Msg) : Bool :=
  match m.kind with
  | .keyBundle => decide (st.registry.find? (fun e => e.1 = m.author) = some (m.author, m.bundle))
  | _ => guardHit st m

def processLatestOnly (f : σ → Msg → Inner σ ε) (st : St σ) (m : Msg) : St σ × Outcome ε :=
  if rejected m then (st, .err)
  else if guardHitLatest st m then (st, .ok [])
  else invoke f st m

def run (f : σ → Msg → Inner σ ε) (st : St σ) : List Msg → St σ
  | [] => st
  | m :: ms => run f (process f st m).1 ms

def emptySt (i : σ) : St σ := { seenAuth := [], seenSpace := [], registry := [], inner := i }

end P2.SpacesGuard
