/-
Model of `EphemeralStreamSubscription::poll_next` (p2panda/src/streams/ephemeral_stream.rs) over
`GossipSubscription` = `tokio_stream::wrappers::BroadcastStream` (p2panda-net/src/gossip/api.rs):
poll-level labelled transition system (C17).

* The broadcast channel, seen from this one receiver: `queue` = retained unread items (at most `cap`,
  the channel's effective capacity), `lag` = the receiver was overrun (its next `recv` reports
  `Lagged` once and then continues with the oldest retained item), `closed` = all senders gone.
* A poll of the inner stream returns `Ready(item)` — no waker stored — or, on an empty open channel,
  `Pending` with the task's waker stored (`wakerSet`); a later `push`/`close` wakes it.
* The consuming task follows the executor contract: it is polled only while `scheduled` (initially,
  after having been woken, and right after it received an item — `while let Some(m) = rx.next().await`).

`pollOrig` is the pinned tree's `poll_next` (returns `Pending` after consuming an invalid or lagged
item), `poll` the repaired one (keeps polling the inner stream). No imports: linked into the driver.
-/
namespace P2.EphSub

/-- What sits in the channel: a message that passes `WrappedMessage::from_bytes` (with an id), or one
    that does not (garbage bytes, wrong version, wrong signature). -/
inductive Item where
  | valid (id : Nat)
  | invalid
deriving DecidableEq, Repr

/-- Result of one inner `poll_next`. -/
inductive Inner where
  | item (i : Item)
  | lagged
  | pending
  | ended
deriving DecidableEq, Repr

structure St where
  cap : Nat
  queue : List Item
  lag : Bool
  closed : Bool
  /-- the inner stream holds the task's waker -/
  wakerSet : Bool
  /-- the task has been woken (or has not been polled yet / just received an item) -/
  scheduled : Bool
  /-- the stream returned `Ready(None)` -/
  done : Bool
  yielded : List Nat
  /-- number of `poll_next` calls so far -/
  polls : Nat
  /-- number of waker invocations so far -/
  wakes : Nat
deriving DecidableEq, Repr

def init (cap : Nat) : St :=
  { cap := cap, queue := [], lag := false, closed := false, wakerSet := false, scheduled := true,
    done := false, yielded := [], polls := 0, wakes := 0 }

/-- Waking: only a registered waker is invoked. -/
def wake (s : St) : St :=
  if s.wakerSet then { s with wakerSet := false, scheduled := true, wakes := s.wakes + 1 } else s

/-- `broadcast::Sender::send`: a full ring overwrites the oldest unread item (receiver lags). -/
def push (s : St) (i : Item) : St :=
  let s' := if s.queue.length + 1 > s.cap
            then { s with queue := s.queue.tail ++ [i], lag := true }
            else { s with queue := s.queue ++ [i] }
  wake s'

/-- Last sender dropped. -/
def close (s : St) : St := wake { s with closed := true }

/-- One poll of the inner `BroadcastStream`: (result, state). -/
def innerPoll (s : St) : Inner × St :=
  if s.lag then (.lagged, { s with lag := false })
  else match s.queue with
    | i :: q => (.item i, { s with queue := q })
    | [] => if s.closed then (.ended, s) else (.pending, { s with wakerSet := true })

/-- Outcome of an outer `poll_next`. -/
inductive Out where
  | ready (id : Nat)
  | pending
  | ended
deriving DecidableEq, Repr

/-- Book-keeping of the consuming task after an outer poll returned `o`. -/
def afterPoll (s : St) (o : Out) : St :=
  match o with
  | .ready id => { s with yielded := s.yielded ++ [id], scheduled := true }
  | .pending => s
  | .ended => { s with done := true }

/-- `poll_next` of the pinned tree: exactly one inner poll; invalid and lagged items → `Pending`. -/
def pollOrigCore (s : St) : Out × St :=
  match innerPoll s with
  | (.item (.valid id), s') => (.ready id, s')
  | (.item .invalid, s') => (.pending, s')
  | (.lagged, s') => (.pending, s')
  | (.pending, s') => (.pending, s')
  | (.ended, s') => (.ended, s')

/-- Repaired `poll_next`: loop over the inner stream until it yields a valid message, is pending
    (waker registered) or has ended. `fuel` bounds the loop structurally; `queue.length + 2` suffices. -/
def pollCoreFuel : Nat → St → Out × St
  | 0, s => (.pending, s)
  | fuel + 1, s =>
    match innerPoll s with
    | (.item (.valid id), s') => (.ready id, s')
    | (.item .invalid, s') => pollCoreFuel fuel s'
    | (.lagged, s') => pollCoreFuel fuel s'
    | (.pending, s') => (.pending, s')
    | (.ended, s') => (.ended, s')

def pollCore (s : St) : Out × St := pollCoreFuel (s.queue.length + 2) s

/-- A scheduled poll of the task (enabled only when `scheduled ∧ ¬done`). -/
def pollWith (core : St → Out × St) (s : St) : Option St :=
  if s.scheduled ∧ ¬ s.done then
    let s0 := { s with scheduled := false, polls := s.polls + 1 }
    some (afterPoll (core s0).2 (core s0).1)
  else none

def poll : St → Option St := pollWith pollCore
def pollOrig : St → Option St := pollWith pollOrigCore

inductive Action where
  | push (i : Item)
  | close
  | poll
deriving DecidableEq, Repr

/-- Executable step function: `none` = action not enabled. Pushing after close is not possible
    (the sender is gone). -/
def stepWith (core : St → Out × St) (s : St) : Action → Option St
  | .push i => if s.closed then none else some (push s i)
  | .close => if s.closed then none else some (close s)
  | .poll => pollWith core s

def step : St → Action → Option St := stepWith pollCore
def stepOrig : St → Action → Option St := stepWith pollOrigCore

/-- Run the executor until the task is idle: poll while scheduled (`fuel` polls at most). -/
def runExecWith (core : St → Out × St) : Nat → St → St
  | 0, s => s
  | fuel + 1, s =>
    match pollWith core s with
    | some s' => runExecWith core fuel s'
    | none => s

def runExec : Nat → St → St := runExecWith pollCore
def runExecOrig : Nat → St → St := runExecWith pollOrigCore

/-- The valid ids in a queue, in order. -/
def valids : List Item → List Nat
  | [] => []
  | .valid id :: q => id :: valids q
  | .invalid :: q => valids q

end P2.EphSub
