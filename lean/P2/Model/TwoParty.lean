/-
Model of `p2panda-encryption/src/two_party/two_party.rs` (`TwoParty::{init_to_send, send, receive,
encrypt, decrypt}`, `KeyUsed`, `TwoPartyState`) for the one-time-prekey variant `OneTimeTwoParty`
together with `KeyManager::use_onetime_secret`, both parties initiating (as in /repo/fuzz's
`groups_2sm` target).

Cryptography is symbolic (DESIGN.md §3.1): keys are numbers drawn from a counter (`fresh`); the
public key of secret `k` is written `k` too; an HPKE ciphertext names the public key it was sealed
to and opens exactly with that secret; an X3DH ciphertext names the one-time pre-key it used and
opens iff the receiver's key manager still holds that one-time secret (which it then consumes).
No imports: linked into the driver executable.
-/
namespace P2.TwoParty

/-- `KeyUsed`. -/
inductive KeyUsed where
  | preKey
  | receivedKey
  | ownKey (i : Nat)
deriving DecidableEq, Repr

/-- `TwoPartyPlaintext`. -/
structure Payload where
  plain      : Nat   -- the application plaintext (an id)
  recvSecret : Nat   -- `receiver_new_secret`
  senderPk   : Nat   -- `sender_new_verifying_key`
  senderIdx  : Nat   -- `sender_next_index`
deriving DecidableEq, Repr

/-- `TwoPartyCiphertext` (symbolic). -/
inductive Ct where
  | x3dh (otk : Nat) (p : Payload)
  | hpke (pk : Nat) (p : Payload)
deriving DecidableEq, Repr

/-- `TwoPartyMessage`. -/
structure Msg where
  ct      : Ct
  keyUsed : KeyUsed
deriving DecidableEq, Repr

def Ct.payload : Ct → Payload
  | .x3dh _ p => p
  | .hpke _ p => p

def Msg.payload (m : Msg) : Payload := m.ct.payload

/-- `TwoPartyState` (seven fields) plus the party's key-manager one-time secrets `otks`. -/
structure Party where
  nextIdx   : Nat                 -- `our_next_key_index`
  minIdx    : Nat                 -- `our_min_key_index`
  own       : Nat → Option Nat    -- `our_secret_keys`
  recv      : Option Nat          -- `our_received_secret_key`
  theirNext : KeyUsed             -- `their_next_key_used`
  bundle    : Option Nat          -- `their_prekey_bundle` (the one-time pre-key id it carries)
  theirPk   : Option Nat          -- `their_verifying_key`
  otks      : List Nat            -- `KeyManagerState::onetime_secrets` (ids)

inductive Err where
  | preKeyReuse      -- `TwoPartyError::PreKeyReuse`
  | invalidType      -- `TwoPartyError::InvalidCiphertextType`
  | unknownSecret    -- `TwoPartyError::UnknownSecretUsed`
  | decrypt          -- `TwoPartyError::Hpke(..)` / `X3dh(..)`: wrong key
deriving DecidableEq, Repr

/-- `TwoParty::init_to_send(their_prekey_bundle)`; `myOtk` is the one-time secret our own key
    manager generated for the bundle we published. -/
def Party.init (theirOtk myOtk : Nat) : Party :=
  { nextIdx := 1, minIdx := 1, own := fun _ => none, recv := none, theirNext := .preKey,
    bundle := some theirOtk, theirPk := none, otks := [myOtk] }

/-- `TwoParty::send` with the two fresh secrets `ourNew` (`for_us.our_new_secret`) and `theirNew`
    (`for_them.their_new_secret`) as inputs. -/
def Party.send (y : Party) (plain ourNew theirNew : Nat) : Except Err (Party × Msg) :=
  let p : Payload := { plain := plain, recvSecret := theirNew, senderPk := ourNew, senderIdx := y.nextIdx }
  -- `encrypt`
  let enc : Except Err (Party × Ct) :=
    match y.theirPk with
    | none =>
      match y.bundle with
      | none => .error .preKeyReuse
      | some otk => .ok ({ y with bundle := none }, .x3dh otk p)
    | some pk => .ok (y, .hpke pk p)
  match enc with
  | .error e => .error e
  | .ok (y1, ct) =>
    .ok ({ y1 with own := fun i => if i = y1.nextIdx then some ourNew else y1.own i,
                   nextIdx := y1.nextIdx + 1,
                   theirPk := some theirNew,
                   theirNext := .receivedKey },
         { ct := ct, keyUsed := y1.theirNext })

/-- `decrypt`: returns the state after key bookkeeping and the opened payload. -/
def Party.decrypt (y : Party) (m : Msg) : Except Err (Party × Payload) :=
  match m.keyUsed with
  | .preKey =>
    match m.ct with
    | .hpke _ _ => .error .invalidType
    | .x3dh otk p =>
      -- `use_onetime_secret`: unknown (already used) id → `PreKeyReuse`
      if otk ∈ y.otks then .ok ({ y with otks := y.otks.filter (· ≠ otk) }, p)
      else .error .preKeyReuse
  | .receivedKey =>
    match m.ct with
    | .x3dh _ _ => .error .invalidType
    | .hpke pk p =>
      match y.recv with
      | none => .error .unknownSecret
      | some sk => if sk = pk then .ok (y, p) else .error .decrypt
  | .ownKey i =>
    match m.ct with
    | .x3dh _ _ => .error .invalidType
    | .hpke pk p =>
      match y.own i with
      | none => .error .unknownSecret
      | some sk =>
        if sk = pk then
          .ok ({ y with own := fun j => if y.minIdx ≤ j ∧ j ≤ i then none else y.own j,
                        minIdx := i + 1 }, p)
        else .error .decrypt

/-- `TwoParty::receive`. -/
def Party.receive (y : Party) (m : Msg) : Except Err (Party × Nat) :=
  match y.decrypt m with
  | .error e => .error e
  | .ok (y1, p) =>
    .ok ({ y1 with theirPk := some p.senderPk, theirNext := .ownKey p.senderIdx,
                   recv := some p.recvSecret }, p.plain)

/-- The two-party system: all messages ever sent per direction and how many of them the peer has
    processed (the in-flight FIFO queue is the unprocessed suffix). -/
structure Sys where
  a       : Party
  b       : Party
  sentAB  : List Msg
  sentBA  : List Msg
  procAB  : Nat        -- processed by B
  procBA  : Nat        -- processed by A
  fresh   : Nat        -- next unused key id
  plainNo : Nat        -- next plaintext id

/-- A's bundle carries one-time pre-key 1, B's carries 2. -/
def Sys.init : Sys :=
  { a := Party.init 2 1, b := Party.init 1 2, sentAB := [], sentBA := [], procAB := 0, procBA := 0,
    fresh := 3, plainNo := 0 }

inductive Action where
  | sendA | sendB | recvA | recvB
  | replayA (k : Nat)   -- deliver again to A the k-th message B ever sent (0-based)
  | replayB (k : Nat)
deriving DecidableEq, Repr

/-- Outcome of one action, as observed by the application. -/
inductive Obs where
  | sent                      -- a send succeeded
  | got (plain : Nat)         -- a receive returned this plaintext
  | err (e : Err)
  | idle                      -- receive on an empty queue / replay index out of range (no call made)
deriving DecidableEq, Repr

/-- One step. A failing call leaves the callee's state unchanged (the caller keeps its copy). -/
def Sys.step (s : Sys) : Action → Sys × Obs
  | .sendA =>
    match s.a.send s.plainNo s.fresh (s.fresh + 1) with
    | .ok (a', m) => ({ s with a := a', sentAB := s.sentAB ++ [m], fresh := s.fresh + 2, plainNo := s.plainNo + 1 }, .sent)
    | .error e => (s, .err e)
  | .sendB =>
    match s.b.send s.plainNo s.fresh (s.fresh + 1) with
    | .ok (b', m) => ({ s with b := b', sentBA := s.sentBA ++ [m], fresh := s.fresh + 2, plainNo := s.plainNo + 1 }, .sent)
    | .error e => (s, .err e)
  | .recvA =>
    match s.sentBA[s.procBA]? with
    | none => (s, .idle)
    | some m =>
      match s.a.receive m with
      | .ok (a', p) => ({ s with a := a', procBA := s.procBA + 1 }, .got p)
      | .error e => (s, .err e)
  | .recvB =>
    match s.sentAB[s.procAB]? with
    | none => (s, .idle)
    | some m =>
      match s.b.receive m with
      | .ok (b', p) => ({ s with b := b', procAB := s.procAB + 1 }, .got p)
      | .error e => (s, .err e)
  | .replayA k =>
    match s.sentBA[k]? with
    | none => (s, .idle)
    | some m =>
      match s.a.receive m with
      | .ok (a', p) => ({ s with a := a' }, .got p)
      | .error e => (s, .err e)
  | .replayB k =>
    match s.sentAB[k]? with
    | none => (s, .idle)
    | some m =>
      match s.b.receive m with
      | .ok (b', p) => ({ s with b := b' }, .got p)
      | .error e => (s, .err e)

def Sys.run (s : Sys) : List Action → Sys × List Obs
  | [] => (s, [])
  | a :: as =>
    let (s1, o) := s.step a
    let (s2, os) := s1.run as
    (s2, o :: os)

end P2.TwoParty
