/-
Model of `p2panda/src/processor/tasks.rs` (`TaskTracker`, `Task::ready`, `Task::mark_as_done`) and of
the submit path of `p2panda/src/processor/pipeline.rs` (`Pipeline::process`: track → send → ready;
pipeline thread: recv → work → `tasks.mark_as_done(hash, event)`).

Labelled transition system for ANY number of submitters (`pc : Nat → PC`, no bound on thread ids):

* shared state: the tracker map `tasks : id ↦ task ref` (behind the `RwLock`), one result slot per task ref
  (`ready_result`, behind its `Mutex`), the mpsc channel contents `queue`, the pipeline thread's `pipe` pc;
* `owner` is a ghost field (the id a task ref was created for) used only by the proofs;
* `tokio::sync::Notify` semantics as documented: `notify_waiters()` completes exactly the `Notified` futures that
  exist at that moment (a `Notified` future receives `notify_waiters` wake-ups from its creation on) and stores
  no permit — a future created later is not woken;
* the tracker's write lock is held by `TaskTracker::mark_as_done` from `remove` until `notify_waiters` returned:
  `track` is disabled while the pipeline is in `setRes`/`notify`.

Two variants of `Task::ready`:
* `Variant.orig`  (pinned tree): check result → release lock → [gap] → create `notified()` → await → re-read;
* `Variant.fixed` (after the `fix:` commit): create + `enable()` `Notified` → check result → await → re-read.

No imports: this file is linked into the driver executable.
-/
namespace P2.Tasks

/-- A pipeline result: the processed event; `id` = operation hash, `src` = submitter that sent this event. -/
structure Res where
  id  : Nat
  src : Nat
deriving DecidableEq, Repr

inductive Variant
  | orig
  | fixed
deriving DecidableEq, Repr

/-- Program counter of one `Pipeline::process` call (one submitter). -/
inductive PC
  | idle                       -- before `self.tasks.track(hash)`
  | missed                     -- split `track` only: looked the id up under the READ lock, found nothing, lock released
  | tracked (x : Nat)          -- holds a clone of task `x`; before `pipeline_tx.send`
  | sent (x : Nat)             -- inside `task.ready()`, nothing done yet
  | gap (x : Nat)              -- orig only: result checked (None), lock released, `notified()` NOT yet created
  | reg (x : Nat) (n : Bool)   -- fixed only: `Notified` created and enabled, result not yet checked; n = already notified
  | chk (x : Nat) (n : Bool)   -- fixed only: result checked (None) with `Notified` registered; n = already notified
  | wait (x : Nat)             -- awaiting the registered `Notified`
  | woken (x : Nat)            -- `Notified` completed; before re-locking the result
  | done (r : Res)             -- `ready()` returned `r`
  | panicked                   -- `expect("result exists after ready signal was fired")` failed
deriving DecidableEq, Repr

/-- Program counter of the pipeline thread. -/
inductive PPC
  | idle                       -- waiting on the channel
  | work (e : Res)             -- event received, being processed (ingest, log prune), then `mark_as_done(e.id, e)`
  | setRes (x : Nat) (e : Res) -- `TaskTracker::mark_as_done`: write lock held, task `x` removed from the map
  | notify (x : Nat)           -- result of `x` set; before `notify_waiters()`; write lock still held
deriving DecidableEq, Repr

inductive Act
  | track (t : Nat)
  | send (t : Nat)
  | check (t : Nat)
  | register (t : Nat)
  | await (t : Nat)
  | recheck (t : Nat)
  | recv
  | remove
  | setResult
  | notifyWaiters
deriving DecidableEq, Repr

structure St where
  tasks  : Nat → Option Nat    -- tracker map: operation id ↦ task ref
  result : Nat → Option Res    -- task ref ↦ `ready_result`
  owner  : Nat → Nat           -- ghost: task ref ↦ id it was created for
  next   : Nat                 -- next fresh task ref
  pc     : Nat → PC
  queue  : List Res            -- mpsc channel contents (oldest first)
  pipe   : PPC
  /-- harness level only (never read by `stepFn`): submitters whose `track` call is queued on the tracker's lock,
      in arrival order (tokio's `RwLock` is FIFO) -/
  lockQueue : List Nat := []

def upd {β : Type} (f : Nat → β) (k : Nat) (v : β) : Nat → β := fun i => if i = k then v else f i

def init : St :=
  { tasks := fun _ => none, result := fun _ => none, owner := fun _ => 0, next := 0,
    pc := fun _ => .idle, queue := [], pipe := .idle }

/-- The tracker's write lock is held by the pipeline thread. -/
def lockHeld : PPC → Bool
  | .setRes _ _ => true
  | .notify _ => true
  | _ => false

/-- Effect of `notify_waiters()` of task `x` on one submitter. -/
def wake (x : Nat) : PC → PC
  | .wait y => if y = x then .woken y else .wait y
  | .reg y n => if y = x then .reg y true else .reg y n
  | .chk y n => if y = x then .chk y true else .chk y n
  | p => p

/-- One transition; `none` = the action is not enabled. `sid t` = operation id submitted by `t`. -/
def stepFn (v : Variant) (sid : Nat → Nat) (s : St) : Act → Option St
  | .track t =>
    match s.pc t with
    | .idle =>
      if lockHeld s.pipe then none
      else match s.tasks (sid t) with
        | some x => some { s with pc := upd s.pc t (.tracked x) }
        | none => some { s with tasks := upd s.tasks (sid t) (some s.next),
                                owner := upd s.owner s.next (sid t),
                                next := s.next + 1,
                                pc := upd s.pc t (.tracked s.next) }
    | _ => none
  | .send t =>
    match s.pc t with
    | .tracked x => some { s with queue := s.queue ++ [⟨sid t, t⟩], pc := upd s.pc t (.sent x) }
    | _ => none
  | .check t =>
    match v, s.pc t with
    | .orig, .sent x =>
      (match s.result x with
       | some r => some { s with pc := upd s.pc t (.done r) }
       | none => some { s with pc := upd s.pc t (.gap x) })
    | .fixed, .reg x n =>
      (match s.result x with
       | some r => some { s with pc := upd s.pc t (.done r) }
       | none => some { s with pc := upd s.pc t (.chk x n) })
    | _, _ => none
  | .register t =>
    match v, s.pc t with
    | .orig, .gap x => some { s with pc := upd s.pc t (.wait x) }
    | .fixed, .sent x => some { s with pc := upd s.pc t (.reg x false) }
    | _, _ => none
  | .await t =>
    match s.pc t with
    | .chk x n => some { s with pc := upd s.pc t (if n then .woken x else .wait x) }
    | _ => none
  | .recheck t =>
    match s.pc t with
    | .woken x =>
      (match s.result x with
       | some r => some { s with pc := upd s.pc t (.done r) }
       | none => some { s with pc := upd s.pc t .panicked })
    | _ => none
  | .recv =>
    match s.pipe, s.queue with
    | .idle, e :: q => some { s with pipe := .work e, queue := q }
    | _, _ => none
  | .remove =>
    match s.pipe with
    | .work e =>
      (match s.tasks e.id with
       | some x => some { s with tasks := upd s.tasks e.id none, pipe := .setRes x e }
       | none => some { s with pipe := .idle })
    | _ => none
  | .setResult =>
    match s.pipe with
    | .setRes x e => some { s with result := upd s.result x (some e), pipe := .notify x }
    | _ => none
  | .notifyWaiters =>
    match s.pipe with
    | .notify x => some { s with pc := fun t => wake x (s.pc t), pipe := .idle }
    | _ => none

/-! ### `track` split in two steps (what a read-locked "fast path" turns it into)

The code takes the tracker's WRITE lock for the whole get-or-insert (`track` above is one atomic action; the
extracted source text of `TaskTracker::track` is checked against exactly that shape in `P2/Props/C14.lean`).
`stepSplit recheck` models the alternative: `lookup` under a shared READ lock (hit → clone; miss → lock released),
then `insert` under the WRITE lock — re-checking the map first (`recheck = true`) or blindly inserting a fresh
task that overwrites whatever is there (`recheck = false`). The atomic `track` is not available in this system;
all other actions are those of the repaired `Task::ready`. -/

inductive ActS
  | base (a : Act)
  | lookup (t : Nat)
  | insert (t : Nat)
deriving DecidableEq, Repr

def stepSplit (recheck : Bool) (sid : Nat → Nat) (s : St) : ActS → Option St
  | .base (.track _) => none
  | .base a => stepFn .fixed sid s a
  | .lookup t =>
    match s.pc t with
    | .idle =>
      if lockHeld s.pipe then none
      else match s.tasks (sid t) with
        | some x => some { s with pc := upd s.pc t (.tracked x) }
        | none => some { s with pc := upd s.pc t .missed }
    | _ => none
  | .insert t =>
    match s.pc t with
    | .missed =>
      if lockHeld s.pipe then none
      else match (if recheck then s.tasks (sid t) else none) with
        | some x => some { s with pc := upd s.pc t (.tracked x) }
        | none => some { s with tasks := upd s.tasks (sid t) (some s.next),
                                owner := upd s.owner s.next (sid t),
                                next := s.next + 1,
                                pc := upd s.pc t (.tracked s.next) }
    | _ => none

inductive ReachS (recheck : Bool) (sid : Nat → Nat) : St → Prop
  | init : ReachS recheck sid init
  | step {s s'} (a : ActS) : ReachS recheck sid s → stepSplit recheck sid s a = some s' → ReachS recheck sid s'

def runSplit (recheck : Bool) (sid : Nat → Nat) (s : St) : List ActS → Option St
  | [] => some s
  | a :: as => match stepSplit recheck sid s a with
    | some s' => runSplit recheck sid s' as
    | none => none

/-! ### `Pipeline::process` with send BEFORE track

The code does `tasks.track(hash)` → `pipeline_tx.send(event)` → `task.ready()` (the submitter pcs idle → tracked →
sent; the order is re-extracted from pipeline.rs in `P2/Props/C14.lean`). `stepReorder` is the other order:
`sendEarly` puts the event into the channel while nothing is tracked yet, `track` comes afterwards and `enter`
starts `ready()` without sending again. `mark_as_done` on an id that is not tracked is a no-op (`remove` → idle). -/

inductive ActR
  | base (a : Act)
  | sendEarly (t : Nat)
  | enter (t : Nat)
deriving DecidableEq, Repr

def stepReorder (sid : Nat → Nat) (s : St) : ActR → Option St
  | .base (.send _) => none
  | .base a => stepFn .fixed sid s a
  | .sendEarly t =>
    match s.pc t with
    | .idle => some { s with queue := s.queue ++ [⟨sid t, t⟩] }
    | _ => none
  | .enter t =>
    match s.pc t with
    | .tracked x => some { s with pc := upd s.pc t (.sent x) }
    | _ => none

inductive ReachR (sid : Nat → Nat) : St → Prop
  | init : ReachR sid init
  | step {s s'} (a : ActR) : ReachR sid s → stepReorder sid s a = some s' → ReachR sid s'

def runReorder (sid : Nat → Nat) (s : St) : List ActR → Option St
  | [] => some s
  | a :: as => match stepReorder sid s a with
    | some s' => runReorder sid s' as
    | none => none

/-! ### `ready()` reading the result with `try_lock`

In the code the early result check WAITS for the result mutex (`lock().await`): the `check` action always looks at
the result, it can not be skipped. `stepTryLock` adds what `try_lock` allows: while another waiter holds the
mutex the check is skipped (`checkSkip`: registered → "checked, nothing there") without looking at the result. -/

inductive ActT
  | base (a : Act)
  | checkSkip (t : Nat)
deriving DecidableEq, Repr

def stepTryLock (sid : Nat → Nat) (s : St) : ActT → Option St
  | .base a => stepFn .fixed sid s a
  | .checkSkip t =>
    match s.pc t with
    | .reg x n => some { s with pc := upd s.pc t (.chk x n) }
    | _ => none

inductive ReachT (sid : Nat → Nat) : St → Prop
  | init : ReachT sid init
  | step {s s'} (a : ActT) : ReachT sid s → stepTryLock sid s a = some s' → ReachT sid s'

def runTryLock (sid : Nat → Nat) (s : St) : List ActT → Option St
  | [] => some s
  | a :: as => match stepTryLock sid s a with
    | some s' => runTryLock sid s' as
    | none => none

def Step (v : Variant) (sid : Nat → Nat) (s s' : St) : Prop := ∃ a, stepFn v sid s a = some s'

inductive Reach (v : Variant) (sid : Nat → Nat) : St → Prop
  | init : Reach v sid init
  | step {s s'} : Reach v sid s → Step v sid s s' → Reach v sid s'

/-- Run a schedule; `none` as soon as an action is not enabled. -/
def runSched (v : Variant) (sid : Nat → Nat) (s : St) : List Act → Option St
  | [] => some s
  | a :: as => match stepFn v sid s a with
    | some s' => runSched v sid s' as
    | none => none

/-! ### Harness-level macro steps (what the schedule points in the real code allow to be driven)

`T t`  `tasks.track(id)`                                   ↦ track   (cancelled again if the lock is held: `blocked`)
`B t`  `tasks.track(id)`, left queued if the lock is held  ↦ track now, or when the lock is released (FIFO)
`S t`  `pipeline_tx.send(event)`                           ↦ send
`C t`  poll `task.ready()` up to the point "ready:checked" ↦ orig: check          fixed: register; check
`G t`  release from "ready:checked", poll                  ↦ orig: register        fixed: await [; recheck if woken]
`W t`  poll a submitter that is awaiting                   ↦ recheck (if woken)
`Pr`   pipeline receives the next event                    ↦ recv
`Pm`   `tasks.mark_as_done` up to "mark:removed"           ↦ remove
`Ps`   … up to "mark:result-set"                           ↦ setResult
`Pn`   … to the end                                        ↦ notifyWaiters
-/

inductive Macro
  | T (t : Nat) | B (t : Nat) | S (t : Nat) | C (t : Nat) | G (t : Nat) | W (t : Nat) | Pr | Pm | Ps | Pn
deriving DecidableEq, Repr

def resStr (r : Res) : String := s!"d{r.id}.{r.src}"

/-- Apply one macro step; returns the new state and the observable outcome word. -/
def macroStep (v : Variant) (sid : Nat → Nat) (s : St) : Macro → St × String
  | .T t =>
    match s.pc t with
    | .idle =>
      if s.lockQueue.contains t then (s, "x")
      else match stepFn v sid s (.track t) with
        | some s' => (s', "ok")
        | none => (s, "blocked")
    | _ => (s, "x")
  | .B t =>
    match s.pc t with
    | .idle =>
      if s.lockQueue.contains t then (s, "x")
      else match stepFn v sid s (.track t) with
        | some s' => (s', "ok")
        | none => ({ s with lockQueue := s.lockQueue ++ [t] }, "queued")
    | _ => (s, "x")
  | .S t =>
    match stepFn v sid s (.send t) with
    | some s' => (s', "ok")
    | none => (s, "x")
  | .C t =>
    match s.pc t with
    | .sent _ =>
      let s1 := match v with
        | .orig => some s
        | .fixed => stepFn v sid s (.register t)
      match s1 with
      | none => (s, "x")
      | some s1 =>
        match stepFn v sid s1 (.check t) with
        | none => (s, "x")
        | some s2 =>
          match s2.pc t with
          | .done r => (s2, resStr r)
          | _ => (s2, "gap")
    | _ => (s, "x")
  | .G t =>
    match v, s.pc t with
    | .orig, .gap _ =>
      (match stepFn v sid s (.register t) with
       | some s' => (s', "wait")
       | none => (s, "x"))
    | .fixed, .chk _ _ =>
      (match stepFn v sid s (.await t) with
       | none => (s, "x")
       | some s1 =>
         match s1.pc t with
         | .woken _ =>
           (match stepFn v sid s1 (.recheck t) with
            | none => (s, "x")
            | some s2 =>
              match s2.pc t with
              | .done r => (s2, resStr r)
              | _ => (s2, "panic"))
         | _ => (s1, "wait"))
    | _, _ => (s, "x")
  | .W t =>
    match s.pc t with
    | .wait _ => (s, "pending")
    | .woken _ =>
      (match stepFn v sid s (.recheck t) with
       | none => (s, "x")
       | some s2 =>
         match s2.pc t with
         | .done r => (s2, resStr r)
         | _ => (s2, "panic"))
    | _ => (s, "x")
  | .Pr =>
    match stepFn v sid s .recv with
    | some s' => (s', "ok")
    | none => (s, "x")
  | .Pm =>
    match stepFn v sid s .remove with
    | some s' => (s', match s'.pipe with | .idle => "notask" | _ => "removed")
    | none => (s, "x")
  | .Ps =>
    match stepFn v sid s .setResult with
    | some s' => (s', "set")
    | none => (s, "x")
  | .Pn =>
    match stepFn v sid s .notifyWaiters with
    | some s' =>
      -- the write lock is released: the queued `track` calls get it in arrival order
      let s'' := s'.lockQueue.foldl (fun acc t =>
        match stepFn v sid acc (.track t) with
        | some a => a
        | none => acc) { s' with lockQueue := [] }
      (s'', "ok")
    | none => (s, "x")

def Macro.tid : Macro → Option Nat
  | .T t => some t | .B t => some t | .S t => some t | .C t => some t | .G t => some t | .W t => some t | _ => none

/-- Run a macro schedule for the submitters `0 … n-1` (a step naming another submitter answers `x`). -/
def runMacros (v : Variant) (sid : Nat → Nat) (n : Nat) (s : St) : List Macro → St × List String
  | [] => (s, [])
  | m :: ms =>
    let (s1, o) := match m.tid with
      | some t => if t < n then macroStep v sid s m else (s, "x")
      | none => macroStep v sid s m
    let (s2, os) := runMacros v sid n s1 ms
    (s2, o :: os)

/-- Drive submitter `t` as far as it goes on its own (deterministic drain order used by harness and model). -/
def driveSubmitter (v : Variant) (sid : Nat → Nat) (s : St) (t : Nat) : St :=
  let s := match s.pc t with | .idle => (macroStep v sid s (.T t)).1 | _ => s
  let s := match s.pc t with | .tracked _ => (macroStep v sid s (.S t)).1 | _ => s
  let s := match s.pc t with | .sent _ => (macroStep v sid s (.C t)).1 | _ => s
  let s := match s.pc t with
    | .gap _ => (macroStep v sid s (.G t)).1
    | .chk _ _ => (macroStep v sid s (.G t)).1
    | _ => s
  match s.pc t with
  | .woken _ => (macroStep v sid s (.W t)).1
  | _ => s

/-- Let the pipeline thread finish what it holds and everything queued (`fuel` bounds the loop). -/
def drivePipe (v : Variant) (sid : Nat → Nat) : Nat → St → St
  | 0, s => s
  | fuel + 1, s =>
    match s.pipe with
    | .idle => match s.queue with
      | [] => s
      | _ => drivePipe v sid fuel (macroStep v sid s .Pr).1
    | .work _ => drivePipe v sid fuel (macroStep v sid s .Pm).1
    | .setRes _ _ => drivePipe v sid fuel (macroStep v sid s .Ps).1
    | .notify _ => drivePipe v sid fuel (macroStep v sid s .Pn).1

/-- Final drain: `rounds` times (all submitters 0..n-1 in order, then the pipeline to quiescence). -/
def drain (v : Variant) (sid : Nat → Nat) (n : Nat) : Nat → St → St
  | 0, s => s
  | r + 1, s =>
    let s1 := (List.range n).foldl (driveSubmitter v sid) s
    let s2 := drivePipe v sid (4 * (s1.queue.length + 1) + 4) s1
    drain v sid n r s2

def finalStr (s : St) (t : Nat) : String :=
  match s.pc t with
  | .done r => resStr r
  | .panicked => "panic"
  | .idle => "unstarted"
  | _ => "stuck"

/-- Whole tracker-level case: macro schedule, then drain, then every submitter's outcome. -/
def runCase (v : Variant) (ids : List Nat) (ms : List Macro) : String :=
  let n := ids.length
  let sid : Nat → Nat := fun t => ids.getD t 0
  let (s1, outs) := runMacros v sid n init ms
  let s2 := drain v sid n 4 s1
  " ".intercalate outs ++ " | " ++ " ".intercalate ((List.range n).map (finalStr s2))

/-- Pipeline thread runs until it has nothing left — or until it receives the event sent by submitter `die`
    (the thread panics while working on it: outside the tracker, e.g. a store assertion in ingest) and stops for good. -/
def drivePipeDying (v : Variant) (sid : Nat → Nat) (die : Option Nat) : Nat → St → St
  | 0, s => s
  | fuel + 1, s =>
    match s.pipe with
    | .idle => match s.queue with
      | [] => s
      | _ => drivePipeDying v sid die fuel (macroStep v sid s .Pr).1
    | .work e => if some e.src = die then s else drivePipeDying v sid die fuel (macroStep v sid s .Pm).1
    | .setRes _ _ => drivePipeDying v sid die fuel (macroStep v sid s .Ps).1
    | .notify _ => drivePipeDying v sid die fuel (macroStep v sid s .Pn).1

/-- Real-pipeline case: only the ids are observable; canonical schedule (all submit and park after the check,
    the pipeline drains, all are released). `die = some k`: the pipeline thread died while working on the event of
    submitter `k` (observed by the harness) — everything not completed before that point waits forever. -/
def runPipelineCase (v : Variant) (ids : List Nat) (die : Option Nat := none) : String :=
  let n := ids.length
  let sid : Nat → Nat := fun t => ids.getD t 0
  let pre : List Macro := (List.range n).flatMap (fun t => [.T t, .S t, .C t])
  let (s1, _) := runMacros v sid n init pre
  let s2 := match die with
    | none => drain v sid n 4 s1
    | some _ =>
      let sa := drivePipeDying v sid die (4 * (s1.queue.length + 1) + 4) s1
      let sb := (List.range n).foldl (driveSubmitter v sid) sa
      (List.range n).foldl (driveSubmitter v sid) sb
  " ".intercalate ((List.range n).map (fun t =>
    match s2.pc t with
    | .done r => s!"d{r.id}"
    | .panicked => "panic"
    | _ => "stuck"))

end P2.Tasks
