/-
Model of `p2panda-net/src/discovery/backoff.rs` (`Backoff`, `Config`).

All durations are whole milliseconds (`Nat`); the code draws its random values in milliseconds
(`as_millis()` ranges) and the default configuration is in whole seconds.  `Instant`s are points
on a millisecond time line, `now` is an explicit argument of every step (DESIGN.md §3.1 "time is
an input"), and the two random draws of a step are explicit arguments as well:

* `rInc`   — result of `random_increment()`   (`random_range(min_increment .. max_increment)`)
* `rReset` — result of `random_reset_after()` (`random_range(min_reset .. max_reset)`)

`incrementOrig` transcribes the pinned code (adds the draw whenever `value < max`, clamps only on
the *next* call); `increment` transcribes the repaired code (`fix:` commit — clamps in the same
call).  No imports: this file is linked into the driver executable.
-/
namespace P2.Backoff

structure Config where
  initial  : Nat
  minInc   : Nat
  maxInc   : Nat
  max      : Nat
  minReset : Nat
  maxReset : Nat
deriving Repr, DecidableEq

structure State where
  value      : Nat
  lastReset  : Nat
  resetAfter : Nat
deriving Repr, DecidableEq

/-- `Backoff::reset` at time `now` with the draw `rReset`. -/
def reset (c : Config) (now rReset : Nat) : State :=
  { value := c.initial, lastReset := now, resetAfter := rReset }

/-- `Backoff::new` (= construct + `reset`). -/
def new (c : Config) (now rReset : Nat) : State := reset c now rReset

/-- Does `increment` call `random_increment()` in state `s`? (same for both versions) -/
def drawsInc (c : Config) (s : State) : Bool := !(s.value > c.max) && s.value < c.max

/-- `last_reset_at.elapsed() >= reset_after` -/
def resetDue (s : State) (now : Nat) : Bool := now - s.lastReset ≥ s.resetAfter

/-- First half of `increment` as in the pinned tree. -/
def bumpOrig (c : Config) (v rInc : Nat) : Nat :=
  if v > c.max then c.max
  else if v < c.max then v + rInc
  else v

/-- First half of `increment` after the fix: clamp in the same call. -/
def bump (c : Config) (v rInc : Nat) : Nat :=
  if v > c.max then c.max
  else if v < c.max then Nat.min (v + rInc) c.max
  else v

/-- `Backoff::increment` of the pinned tree. -/
def incrementOrig (c : Config) (s : State) (now rInc rReset : Nat) : State :=
  let s1 := { s with value := bumpOrig c s.value rInc }
  if resetDue s1 now then reset c now rReset else s1

/-- `Backoff::increment` (repaired). -/
def increment (c : Config) (s : State) (now rInc rReset : Nat) : State :=
  let s1 := { s with value := bump c s.value rInc }
  if resetDue s1 now then reset c now rReset else s1

/-- One call on a backoff object, with the time of the call and the draws it may consume. -/
inductive Op where
  | inc   (now rInc rReset : Nat)
  | reset (now rReset : Nat)
deriving Repr, DecidableEq

def Op.now : Op → Nat
  | .inc n _ _ => n
  | .reset n _ => n

def step (c : Config) (s : State) : Op → State
  | .inc now rInc rReset => increment c s now rInc rReset
  | .reset now rReset => reset c now rReset

def stepOrig (c : Config) (s : State) : Op → State
  | .inc now rInc rReset => incrementOrig c s now rInc rReset
  | .reset now rReset => reset c now rReset

def run (c : Config) (s : State) (ops : List Op) : State := ops.foldl (step c) s
def runOrig (c : Config) (s : State) (ops : List Op) : State := ops.foldl (stepOrig c) s

/-- All intermediate states (after each op), oldest first. -/
def trace (c : Config) (s : State) : List Op → List State
  | [] => []
  | o :: os => step c s o :: trace c (step c s o) os

/-! ### Driver-level step: which draws are consumed, and `random_range` panicking on an empty range -/

inductive Outcome where
  | ok (s : State)
  | panic        -- `random_range` on an empty range ("cannot sample empty range")
  | badDraw      -- the request did not supply a draw the model needs / supplied one out of range
deriving Repr

def inRange (lo hi : Nat) : Option Nat → Bool
  | some r => lo ≤ r && r < hi
  | none => false

/-- `reset` with an optional draw. -/
def resetD (c : Config) (now : Nat) (rReset : Option Nat) : Outcome :=
  if c.minReset ≥ c.maxReset then .panic
  else if inRange c.minReset c.maxReset rReset then .ok (reset c now (rReset.getD 0))
  else .badDraw

/-- `increment` with optional draws: a draw must be present exactly when the code draws. -/
def incrementD (orig : Bool) (c : Config) (s : State) (now : Nat) (rInc rReset : Option Nat) : Outcome :=
  let needInc := drawsInc c s
  if needInc && c.minInc ≥ c.maxInc then .panic
  else if needInc && !inRange c.minInc c.maxInc rInc then .badDraw
  else if !needInc && rInc.isSome then .badDraw
  else
    let v := if orig then bumpOrig c s.value (rInc.getD 0) else bump c s.value (rInc.getD 0)
    let s1 := { s with value := v }
    if resetDue s1 now then resetD c now rReset
    else if rReset.isSome then .badDraw
    else .ok s1

end P2.Backoff
