/-
Model of `p2panda-discovery/src/psi_hash.rs` (`PsiHashDiscoveryProtocol::{alice, bob,
gather_transport_infos}`, `hash_vector`, `compute_intersection`, `combine_salt`).

* Topics and digests share one type `τ`, as in the code (`hash(..).into() : Topic`).
* The salted hash is a parameter `h : τ → List Nat → τ` (BLAKE3 over `topic ‖ salt`); a salt is the
  list `alice_half ++ bob_half ++ [direction byte]`.
* `HashSet`s are lists (only membership is used; outputs are compared as sets).
* The address book is a list of records; `node_infos_by_topics` = non-stale nodes with at least one
  of the topics, `all_node_infos` = non-stale nodes, `node_info(id)` = lookup regardless of `stale`
  (as the SQL does).
No imports: this file is linked into the driver executable.
-/
namespace P2.Psi

variable {τ : Type} [DecidableEq τ]

abbrev Hash (τ : Type) := τ → List Nat → τ

/-- `combine_salt` -/
def combineSalt (a b : List Nat) (dir : Nat) : List Nat := a ++ b ++ [dir]

/-- `hash_vector` -/
def hashVector (h : Hash τ) (ts : List τ) (salt : List Nat) : List τ := ts.map (fun t => h t salt)

/-- `compute_intersection`: the local topics whose salted hash occurs in the remote set. -/
def computeIntersection (h : Hash τ) (loc remote : List τ) (salt : List Nat) : List τ :=
  loc.filter (fun t => decide (h t salt ∈ remote))

structure NodeRec (τ : Type) where
  id : Nat
  topics : List τ
  stale : Bool
  hasTransport : Bool
deriving Repr

/-- `AddressBookStore::node_infos_by_topics` -/
def byTopics (book : List (NodeRec τ)) (ts : List τ) : List (NodeRec τ) :=
  book.filter (fun n => !n.stale && n.topics.any (fun t => decide (t ∈ ts)))

/-- the node infos `gather_transport_infos` collects before dropping those without transports -/
def gatherInfos (restricted : Bool) (book : List (NodeRec τ)) (me : Nat) (ts : List τ) : List (NodeRec τ) :=
  if restricted then
    let r := byTopics book ts
    if r.any (fun n => n.id == me) then r
    else r ++ (book.find? (fun n => n.id == me)).toList
  else book.filter (fun n => !n.stale)

/-- `gather_transport_infos`: ids (keys of the `BTreeMap`) of the transport infos sent. -/
def gather (restricted : Bool) (book : List (NodeRec τ)) (me : Nat) (ts : List τ) : List Nat :=
  ((gatherInfos restricted book me ts).filter (fun n => n.hasTransport)).map (fun n => n.id)

inductive Msg (τ : Type) where
  | aliceSaltHalf (a : List Nat)
  | bobData (b : List Nat) (topicsForAlice : List τ)
  | aliceData (topicsForBob : List τ)
  | nodes (ids : List Nat)
deriving Repr

inductive Err where
  | unexpected   -- `PsiHashError::UnexpectedMessage`
  | stream       -- `PsiHashError::Stream`
deriving Repr, DecidableEq

structure Party (τ : Type) where
  topics : List τ
  book : List (NodeRec τ)
  me : Nat
  restricted : Bool

structure Result (τ : Type) where
  topics : List τ     -- `DiscoveryResult::topics`
  nodes : List Nat    -- keys of `DiscoveryResult::transport_infos`
deriving Repr

/-- `alice`: the messages she sends and her outcome, given her salt half and her inbox. -/
def alice (h : Hash τ) (aByte bByte : Nat) (p : Party τ) (sa : List Nat) (inbox : List (Msg τ)) :
    List (Msg τ) × Except Err (Result τ) :=
  let m1 := Msg.aliceSaltHalf sa
  match inbox with
  | [] => ([m1], .error .stream)
  | .bobData sb tsForAlice :: rest =>
    let aliceSalt := combineSalt sa sb aByte
    let bobSalt := combineSalt sa sb bByte
    let inter := computeIntersection h p.topics tsForAlice bobSalt
    let m3 := Msg.aliceData (hashVector h p.topics aliceSalt)
    match rest with
    | [] => ([m1, m3], .error .stream)
    | .nodes ids :: _ =>
      ([m1, m3, .nodes (gather p.restricted p.book p.me inter)], .ok { topics := inter, nodes := ids })
    | _ :: _ => ([m1, m3], .error .unexpected)
  | _ :: _ => ([m1], .error .unexpected)

/-- `bob` -/
def bob (h : Hash τ) (aByte bByte : Nat) (p : Party τ) (sb : List Nat) (inbox : List (Msg τ)) :
    List (Msg τ) × Except Err (Result τ) :=
  match inbox with
  | [] => ([], .error .stream)
  | .aliceSaltHalf sa :: rest =>
    let aliceSalt := combineSalt sa sb aByte
    let bobSalt := combineSalt sa sb bByte
    let m2 := Msg.bobData sb (hashVector h p.topics bobSalt)
    match rest with
    | [] => ([m2], .error .stream)
    | .aliceData tsForBob :: rest2 =>
      let inter := computeIntersection h p.topics tsForBob aliceSalt
      let m4 := Msg.nodes (gather p.restricted p.book p.me inter)
      match rest2 with
      | [] => ([m2, m4], .error .stream)
      | .nodes ids :: _ => ([m2, m4], .ok { topics := inter, nodes := ids })
      | _ :: _ => ([m2, m4], .error .unexpected)
    | _ :: _ => ([m2], .error .unexpected)
  | _ :: _ => ([], .error .unexpected)

/-- The transcript of an honest session (both roles run the code above). -/
structure Transcript (τ : Type) where
  m1 : Msg τ
  m2 : Msg τ
  m3 : Msg τ
  m4 : Msg τ
  m5 : Msg τ
  aliceResult : Result τ
  bobResult : Result τ

def honest (h : Hash τ) (aByte bByte : Nat) (pa pb : Party τ) (sa sb : List Nat) : Transcript τ :=
  let aliceSalt := combineSalt sa sb aByte
  let bobSalt := combineSalt sa sb bByte
  let forAlice := hashVector h pb.topics bobSalt
  let forBob := hashVector h pa.topics aliceSalt
  let interA := computeIntersection h pa.topics forAlice bobSalt
  let interB := computeIntersection h pb.topics forBob aliceSalt
  let nodesB := gather pb.restricted pb.book pb.me interB
  let nodesA := gather pa.restricted pa.book pa.me interA
  { m1 := .aliceSaltHalf sa, m2 := .bobData sb forAlice, m3 := .aliceData forBob,
    m4 := .nodes nodesB, m5 := .nodes nodesA,
    aliceResult := { topics := interA, nodes := nodesB },
    bobResult := { topics := interB, nodes := nodesA } }

/-- every topic-typed value carried by a message -/
def Msg.topicValues : Msg τ → List τ
  | .aliceSaltHalf _ => []
  | .bobData _ ts => ts
  | .aliceData ts => ts
  | .nodes _ => []

def Transcript.messages (t : Transcript τ) : List (Msg τ) := [t.m1, t.m2, t.m3, t.m4, t.m5]

end P2.Psi
