/-
Model of one side of `LogSync::run` (`p2panda-sync/src/protocols/log_sync.rs`) as a function of
the **sequence of I/O outcomes** the session consumes, in program order:

* every `store.get_log_heights / get_log_size / get_log_entries` result (arbitrary, unrelated
  snapshots: this is what a concurrently mutated store amounts to),
* every `sink.send` outcome, every item `stream.next()` yields.

The only scheduling freedom of the real code — which arm of the `select!` in the `Sync` state
runs — is visible in such a script as the *kind* of the next item (a `recv` item = receive arm,
a store/sink item = send arm), so `run` is a total deterministic function of the script and
quantifying over all scripts quantifies over all store views, all remote behaviours, all sink
faults and all `select!` schedules.  A script item that the code could not consume at that point
moves the model to `Pc.mismatch` (the harness records the script from the real run; a mismatch is
a disagreement between model and code).

`Cfg.fixDone = false` is the pinned code (C20 defect: a second `Done`, or operations after
`Done`); `true` is the repaired code.  `Cfg.fixClosed = false` is the pinned `else` arm of the
`select!` (spins forever when the remote closes the stream in the `Sync` state before its
`Done`); `true` is the repaired arm (returns `UnexpectedStreamClosure`).

Also here: `compare` (`p2panda-core/src/logs.rs`) on sorted association lists.
Imports only `P2.Model.Dedup` (import-free): this file is linked into the driver executables.
-/
import P2.Model.Dedup

namespace P2.Sync

/-- log ↦ height of one author (a `BTreeMap<L, SeqNum>`: ascending keys) -/
abbrev LogMap := List (Nat × Nat)
/-- author ↦ log ↦ height (`LogHeights`) -/
abbrev Heights := List (Nat × LogMap)
/-- `(after, until)`: exclusive lower / inclusive upper bound, `none` = open -/
abbrev Range := Option Nat × Option Nat
/-- `LogRanges` -/
abbrev Ranges := List (Nat × List (Nat × Range))

/-- inner loop of `compare` for an author the remote knows -/
def needsOfAuthor (localLogs remoteLogs : LogMap) : List (Nat × Range) :=
  localLogs.filterMap fun lh =>
    match remoteLogs.lookup lh.1 with
    | none => some (lh.1, (none, some lh.2))
    | some rh => if rh < lh.2 then some (lh.1, (some rh, some lh.2)) else none

/-- `p2panda_core::logs::compare(local, remote)` -/
def compare (loc rem : Heights) : Ranges :=
  loc.filterMap fun al =>
    match rem.lookup al.1 with
    | none => some (al.1, al.2.map fun lh => (lh.1, (none, some lh.2)))
    | some rl =>
      if al.2 = rl then none
      else
        let n := needsOfAuthor al.2 rl
        if n.isEmpty then none else some (al.1, n)

/-- An operation as the protocol sees it: identity (hash) and wire size. -/
structure Op where
  id : Nat
  bytes : Nat
deriving DecidableEq, Repr

inductive Msg
  | have (h : Heights)
  | preSync (ops bytes : Nat)
  | op (o : Op)
  | done
deriving DecidableEq, Repr

/-- what `stream.next()` yields -/
inductive RecvItem
  | closed                       -- `None`
  | err                          -- `Some(Err(_))` (also: a non-sync message in the topic wrapper)
  | msg (m : Msg)
  | garbage (bytes : Nat)        -- `Operation` whose header bytes do not decode
deriving DecidableEq, Repr

/-- One consumed I/O outcome.  Store results: outer `none` = `Err`, inner = the `Option` returned. -/
inductive In
  | heights (r : Option (Option LogMap))
  | size (r : Option (Option (Nat × Nat)))
  | entries (r : Option (Option (List Op)))
  | send (ok : Bool)
  | recv (r : RecvItem)
deriving Repr

inductive Err
  | logStore | opStore | sink | stream | closed | unexpected | decode | bcast
deriving DecidableEq, Repr

structure Metrics where
  outOps : Nat := 0
  outBytes : Nat := 0
  inOps : Nat := 0
  inBytes : Nat := 0
  sentOps : Nat := 0
  sentBytes : Nat := 0
  recvOps : Nat := 0
  recvBytes : Nat := 0
deriving DecidableEq, Repr

inductive Ev
  | metricsExchanged (m : Metrics)
  | opReceived (id : Nat) (m : Metrics)
deriving DecidableEq, Repr

inductive Pc
  /-- `SendHave`: remaining `get_log_heights` calls (one per author of `logs`) -/
  | heights (todo : List (Nat × List Nat)) (acc : Heights)
  /-- `SendHave`: waiting for the sink outcome of `Have(local)` -/
  | sendHave (loc : Heights)
  | recvHave (loc : Heights)
  /-- `SendPreSync`: remaining `get_log_size` calls -/
  | sizes (needs : Ranges) (todo : List (Nat × Nat × Range)) (ops bytes : Nat)
  /-- `SendPreSync`: waiting for the sink outcome of `PreSync` / `Done` -/
  | sendPre (needs : Ranges) (ops bytes : Nat)
  | recvPre (needs : Ranges) (ops bytes : Nat)
  /-- `Sync`: at the `select!` -/
  | sync (rest : Ranges)
  /-- `Sync` send arm: waiting for `get_log_entries(a, l, r)` -/
  | batchLog (a l : Nat) (r : Range) (logs : List (Nat × Range)) (rest : Ranges)
  /-- `Sync` send arm: waiting for the sink outcome of the head operation -/
  | batchOps (a : Nat) (o : Op) (ops : List Op) (logs : List (Nat × Range)) (rest : Ranges)
  /-- `Sync` send arm: waiting for the sink outcome of the final `Done` -/
  | sendDone
  | fin (r : Option Err)          -- `none` = `Ok`
  /-- the `else` arm loops without an await point: the session never returns -/
  | spin
  | mismatch
deriving DecidableEq, Repr

structure Cfg where
  /-- `logs`: author ↦ log ids, in map order -/
  scope : List (Nat × List Nat)
  /-- de-duplication buffer capacity -/
  cap : Nat
  /-- does the event channel have a receiver? -/
  rx : Bool
  fixDone : Bool
  fixClosed : Bool
deriving Repr

structure St where
  pc : Pc
  /-- messages accepted by the sink, oldest first -/
  sent : List Msg := []
  events : List Ev := []
  /-- items taken from the stream, oldest first (ghost) -/
  recvd : List RecvItem := []
  doneSent : Bool := false
  doneRecv : Bool := false
  /-- `stream.next()` has yielded `None` in the `Sync` state (a closed stream stays closed) -/
  streamClosed : Bool := false
  dedup : Dedup.Buf Nat
  m : Metrics := {}
deriving Repr

def init (cfg : Cfg) : St :=
  { pc := match cfg.scope with
          | [] => .sendHave []
          | s => .heights s [],
    dedup := Dedup.new cfg.cap }

def flattenNeeds (needs : Ranges) : List (Nat × Nat × Range) :=
  needs.flatMap fun al => al.2.map fun lr => (al.1, lr.1, lr.2)

/-- Where the send arm of the `select!` stands after taking authors off `rest` until the first
    store call / the final `Done`; `none` = the arm is disabled (`remote_needs` exhausted). -/
def sendArm : Ranges → Option Pc
  | [] => none
  | (_, []) :: rest => if rest.isEmpty then some .sendDone else sendArm rest
  | (a, (l, r) :: logs) :: rest => some (.batchLog a l r logs rest)

/-- after the current log of author `a` is finished -/
def afterLog (a : Nat) (logs : List (Nat × Range)) (rest : Ranges) : Pc :=
  match logs with
  | (l, r) :: logs' => .batchLog a l r logs' rest
  | [] => if rest.isEmpty then .sendDone else .sync rest

/-- after the head operation has been handed to the sink -/
def afterOp (a : Nat) (ops : List Op) (logs : List (Nat × Range)) (rest : Ranges) : Pc :=
  match ops with
  | o :: ops' => .batchOps a o ops' logs rest
  | [] => afterLog a logs rest

def fail (s : St) (e : Err) : St := { s with pc := .fin (some e) }

/-- The `else` arm / loop exit, evaluated whenever the session is at the `select!` with the
    receive arm disabled by its guard and nothing left to send. -/
def settle (cfg : Cfg) (s : St) : St :=
  match s.pc with
  | .sync [] =>
    if s.doneRecv then
      if s.doneSent then { s with pc := .fin none } else { s with pc := .spin }
    else if s.streamClosed then
      -- both arms disabled, not both `Done`s seen: the pinned code loops without an await point
      if cfg.fixClosed then fail s .closed else { s with pc := .spin }
    else s
  | _ => s

/-- entering `State::Sync` after `MetricsExchanged` has been broadcast -/
def enterSync (cfg : Cfg) (s : St) (needs : Ranges) : St :=
  -- pinned code: always iterates `remote_needs`; repaired: nothing more is sent once `Done` went out
  let rest := if cfg.fixDone && s.doneSent then [] else needs
  -- an author map with only empty authors still ends with the final `Done` in the pinned code
  settle cfg { s with pc := .sync rest }

def recvSync (cfg : Cfg) (s : St) (r : RecvItem) : St :=
  let s := { s with recvd := s.recvd ++ [r] }
  match r with
  | .closed =>
    -- `Some(message) = stream.next()` does not match: arm disabled for this round
    settle cfg { s with streamClosed := true }
  | .err => fail s .stream
  | .garbage b =>
    fail { s with m := { s.m with recvBytes := s.m.recvBytes + b, recvOps := s.m.recvOps + 1 } } .decode
  | .msg (.op o) =>
    let m := { s.m with recvBytes := s.m.recvBytes + o.bytes, recvOps := s.m.recvOps + 1 }
    let (d, fresh) := s.dedup.insert o.id
    let s := { s with m := m, dedup := d }
    if !fresh then s
    else if cfg.rx then { s with events := s.events ++ [.opReceived o.id m] }
    else fail s .bcast
  | .msg .done => settle cfg { s with doneRecv := true }
  | .msg _ => fail s .unexpected

def step (cfg : Cfg) (s : St) (i : In) : St :=
  match s.pc, i with
  -- SendHave: get_log_heights per author
  | .heights todo acc, .heights r =>
    match todo with
    | [] => { s with pc := .mismatch }
    | (a, _) :: todo =>
      match r with
      | none => fail s .logStore
      | some r =>
        let acc := match r with
          | none => acc
          | some m => acc ++ [(a, m)]
        match todo with
        | [] => { s with pc := .sendHave acc }
        | _ => { s with pc := .heights todo acc }
  | .sendHave loc, .send ok =>
    if ok then { s with pc := .recvHave loc, sent := s.sent ++ [Msg.have loc] } else fail s .sink
  -- ReceiveHave
  | .recvHave loc, .recv r =>
    let s := { s with recvd := s.recvd ++ [r] }
    match r with
    | .closed => fail s .closed
    | .err => fail s .stream
    | .msg (.have rem) =>
      let needs := compare loc rem
      match flattenNeeds needs with
      | [] => { s with pc := .sendPre needs 0 0 }
      | todo => { s with pc := .sizes needs todo 0 0 }
    | _ => fail s .unexpected
  -- SendPreSync: get_log_size per needed log
  | .sizes needs todo ops bytes, .size r =>
    match todo with
    | [] => { s with pc := .mismatch }
    | _ :: todo =>
      match r with
      | none => fail s .opStore
      | some r =>
        let ob : Nat × Nat := match r with
          | none => (ops, bytes)
          | some (n, b) => (ops + n, bytes + b)
        match todo with
        | [] => { s with pc := .sendPre needs ob.1 ob.2 }
        | _ => { s with pc := .sizes needs todo ob.1 ob.2 }
  | .sendPre needs ops bytes, .send ok =>
    -- `sync_done_sent = true` is set before the send
    let s := if bytes > 0 then s else { s with doneSent := true }
    if ok then
      { s with pc := .recvPre needs ops bytes,
               sent := s.sent ++ [if bytes > 0 then .preSync ops bytes else .done] }
    else fail s .sink
  -- ReceivePreSyncOrDone
  | .recvPre needs ops bytes, .recv r =>
    let s := { s with recvd := s.recvd ++ [r] }
    let go (s : St) (inOps inBytes : Nat) : St :=
      let m : Metrics := { outOps := ops, outBytes := bytes, inOps := inOps, inBytes := inBytes }
      if cfg.rx then enterSync cfg { s with m := m, events := s.events ++ [.metricsExchanged m] } needs
      else fail s .bcast
    match r with
    | .closed => fail s .closed
    | .err => fail s .stream
    | .msg (.preSync n b) => go s n b
    | .msg .done => go { s with doneRecv := true } 0 0
    | _ => fail s .unexpected
  -- Sync: receive arm
  | .sync _, .recv r => if s.doneRecv then { s with pc := .mismatch } else recvSync cfg s r
  -- Sync: send arm starts with a store call …
  | .sync rest, .entries r =>
    match sendArm rest with
    | some (.batchLog a _ _ logs rest') =>
      match r with
      | none => fail s .opStore
      | some none => settle cfg { s with pc := afterLog a logs rest' }
      | some (some []) => settle cfg { s with pc := afterLog a logs rest' }
      | some (some (o :: ops)) =>
        { s with pc := .batchOps a o ops logs rest',
                 m := { s.m with sentBytes := s.m.sentBytes + o.bytes, sentOps := s.m.sentOps + 1 } }
    | _ => { s with pc := .mismatch }
  -- … or (only authors without logs left) directly with the final `Done`
  | .sync rest, .send ok =>
    match sendArm rest with
    | some .sendDone =>
      if ok then settle cfg { s with pc := .sync [], sent := s.sent ++ [Msg.done], doneSent := true }
      else fail s .sink
    | _ => { s with pc := .mismatch }
  | .batchLog a _ _ logs rest, .entries r =>
    match r with
    | none => fail s .opStore
    | some none => settle cfg { s with pc := afterLog a logs rest }
    | some (some []) => settle cfg { s with pc := afterLog a logs rest }
    | some (some (o :: ops)) =>
      { s with pc := .batchOps a o ops logs rest,
               m := { s.m with sentBytes := s.m.sentBytes + o.bytes, sentOps := s.m.sentOps + 1 } }
  | .batchOps a o ops logs rest, .send ok =>
    if ok then
      let (d, _) := s.dedup.insert o.id
      let s := { s with sent := s.sent ++ [Msg.op o], dedup := d }
      match ops with
      | o' :: _ =>
        { s with pc := afterOp a ops logs rest,
                 m := { s.m with sentBytes := s.m.sentBytes + o'.bytes, sentOps := s.m.sentOps + 1 } }
      | [] => settle cfg { s with pc := afterOp a ops logs rest }
    else fail s .sink
  | .sendDone, .send ok =>
    if ok then settle cfg { s with pc := .sync [], sent := s.sent ++ [Msg.done], doneSent := true }
    else fail s .sink
  | _, _ => { s with pc := .mismatch }

def run (cfg : Cfg) (script : List In) : St := script.foldl (step cfg) (init cfg)

/-- pinned code -/
def origCfg (scope : List (Nat × List Nat)) (cap : Nat) (rx : Bool) : Cfg :=
  { scope := scope, cap := cap, rx := rx, fixDone := false, fixClosed := false }

end P2.Sync

namespace P2.Sync

/-- The tree the drivers describe (updated together with the `fix:` commits in /repo). -/
def curCfg (scope : List (Nat × List Nat)) (cap : Nat) (rx : Bool) : Cfg :=
  { scope := scope, cap := cap, rx := rx, fixDone := true, fixClosed := true }

end P2.Sync

namespace P2.Sync

/-! ## The transcript grammar `Have · (Done | PreSync · Operation* · Done)`, prefix-closed -/

/-- nothing or only `Have` sent -/
def Pre (sent : List Msg) : Prop := sent = [] ∨ ∃ h, sent = [Msg.have h]
/-- `Have · PreSync · Operation*` — `Done` not sent yet -/
def Open (sent : List Msg) : Prop :=
  ∃ h n b ops, sent = Msg.have h :: Msg.preSync n b :: List.map Msg.op ops
/-- a complete transcript: `Have · Done` or `Have · PreSync · Operation* · Done` -/
def Closed (sent : List Msg) : Prop :=
  (∃ h, sent = [Msg.have h, Msg.done]) ∨
  ∃ h n b ops, sent = Msg.have h :: Msg.preSync n b :: (List.map Msg.op ops ++ [Msg.done])
/-- prefix of a complete transcript -/
def Shape (sent : List Msg) : Prop := Pre sent ∨ Open sent ∨ Closed sent

end P2.Sync
