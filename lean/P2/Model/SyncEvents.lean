/-
Model of `TopicLogSync::run` (`p2panda-sync/src/protocols/topic_log_sync.rs`) for C22: the event
sequence of a session as a function of the **fault script** — the outcome of every I/O step in the
order the session performs them: `resolve`, then everything the inner `LogSync` consumes
(`P2.Sync.step`, store views / sink outcomes / stream items), `SyncFinished` / `Failed`, the live
loop (items of the live channel, live sends, stream items), `sink.close()`, the final event.

`TCfg.fixTerminal = false` is the pinned code: a failing `resolve()` or `sink.close()` returns
before any terminal event; `true` the repaired code.  `SessionStarted` is emitted by neither
(known finding).  The inner protocol's flags are those of `P2.Sync.Cfg`.
-/
import P2.Model.SyncProto

namespace P2.Sync

inductive TEv
  | sessionStarted
  | syncStarted (m : Metrics)
  | opReceived (id : Nat) (m : Metrics)
  | syncFinished (m : Metrics)
  | liveModeStarted
  | liveOpReceived (id : Nat)
  | sessionFinished
  | failed
deriving DecidableEq, Repr

/-- what the topic-level stream yields -/
inductive TRecv
  | sync (r : RecvItem)          -- `Sync(_)`, a closed stream or a stream error
  | live (id bytes : Nat)        -- `Live(header, body)`
  | closeMsg                     -- `Close`
deriving Repr

inductive LiveIn
  | payload (id bytes : Nat)
  | close
deriving Repr

inductive TIn
  | resolve (ok : Bool)
  | heights (r : Option (Option LogMap))
  | size (r : Option (Option (Nat × Nat)))
  | entries (r : Option (Option (List Op)))
  | send (ok : Bool)
  | recv (x : TRecv)
  | close (ok : Bool)
  | live (x : LiveIn)
deriving Repr

inductive TErr
  | sync (e : Err)
  | topicStore
  | unexpectedMsg
  | sink
  | event
  | closedLive
  | decodeLive
deriving DecidableEq, Repr

inductive TPc
  | start
  | inner
  /-- inner session failed, `Failed` emitted: waiting for the outcome of `log_sync_sink.close()` -/
  | closeAfterFail (e : TErr)
  | liveLoop (closeSent : Bool)
  /-- live loop: waiting for the sink outcome of a forwarded operation -/
  | liveSendOp (closeSent : Bool)
  /-- live loop: waiting for the sink outcome of our `Close` -/
  | liveSendClose
  /-- waiting for the outcome of the final `sink.close()` -/
  | closing (result : Option TErr)
  | done (result : Option TErr)
  | mismatch
deriving DecidableEq, Repr

structure TCfg where
  inner : Cfg
  liveMode : Bool
  fixTerminal : Bool
deriving Repr

structure TSt where
  pc : TPc
  sync : St
  events : List TEv := []
  dedup : Dedup.Buf Nat
deriving Repr

def tinit (cfg : TCfg) : TSt :=
  { pc := .start, sync := init cfg.inner, dedup := Dedup.new cfg.inner.cap }

/-- inner events as topic events (`From<LogSyncEvent>`) -/
def liftEv : Ev → TEv
  | .metricsExchanged m => .syncStarted m
  | .opReceived id m => .opReceived id m

/-- broadcast an event; without a receiver the session returns `EventSend` at once -/
def emit (cfg : TCfg) (s : TSt) (e : TEv) (k : TSt → TSt) : TSt :=
  if cfg.inner.rx then k { s with events := s.events ++ [e] } else { s with pc := .done (some .event) }

/-- after the live loop (or directly when live mode is off): `sink.close()` comes next -/
def toClosing (s : TSt) (r : Option TErr) : TSt := { s with pc := .closing r }

/-- what happens once the inner `LogSync` state is `st'` -/
def afterInner (cfg : TCfg) (s : TSt) (st' : St) : TSt :=
  let s := { s with sync := st', events := s.events ++ (st'.events.drop s.sync.events.length).map liftEv }
  match st'.pc with
  | .fin none =>
    emit cfg s (.syncFinished st'.m) fun s =>
      let s := { s with dedup := st'.dedup }
      if cfg.liveMode then emit cfg s .liveModeStarted fun s => { s with pc := .liveLoop false }
      else toClosing s none
  | .fin (some e) =>
    -- a failed broadcast inside the inner session surfaces as `BroadcastSend`; `Failed` cannot be sent either
    emit cfg s .failed fun s => { s with pc := .closeAfterFail (.sync e) }
  | .mismatch => { s with pc := .mismatch }
  | _ => s

def toInner : TIn → Option In
  | .heights r => some (.heights r)
  | .size r => some (.size r)
  | .entries r => some (.entries r)
  | .send ok => some (.send ok)
  | .recv (.sync r) => some (.recv r)
  | .recv (.live _ _) => some (.recv .err)     -- `sync_channels`: "non-protocol message received"
  | .recv .closeMsg => some (.recv .err)
  | _ => none

/-- final event + return (repaired: after `close()` was attempted, whatever its outcome) -/
def finish (cfg : TCfg) (s : TSt) (r : Option TErr) : TSt :=
  emit cfg s (match r with | none => .sessionFinished | some _ => .failed) fun s => { s with pc := .done r }

def tstep (cfg : TCfg) (s : TSt) (i : TIn) : TSt :=
  match s.pc, i with
  | .start, .resolve ok =>
    if ok then { s with pc := .inner }
    else if cfg.fixTerminal then finish cfg s (some .topicStore)
    else { s with pc := .done (some .topicStore) }
  | .inner, i =>
    match toInner i with
    | none => { s with pc := .mismatch }
    | some i' => afterInner cfg s (step cfg.inner s.sync i')
  | .closeAfterFail e, .close ok =>
    -- `Failed` is already out; a failing close only changes the returned error
    { s with pc := .done (some (if ok then e else .sink)) }
  | .liveLoop cs, .live (.payload id _) =>
    let (d, fresh) := s.dedup.insert id
    let s := { s with dedup := d }
    if fresh then { s with pc := .liveSendOp cs } else s
  | .liveLoop _, .live .close => { s with pc := .liveSendClose }
  | .liveSendOp cs, .send ok => if ok then { s with pc := .liveLoop cs } else toClosing s (some .sink)
  | .liveSendClose, .send ok => if ok then { s with pc := .liveLoop true } else toClosing s (some .sink)
  | .liveLoop cs, .recv x =>
    match x with
    | .sync .closed => toClosing s (if cs then none else some .closedLive)
    | .sync .err => toClosing s (if cs then none else some .decodeLive)
    | .sync _ => toClosing s (some .unexpectedMsg)
    | .closeMsg => toClosing s none
    | .live id _ =>
      let (d, fresh) := s.dedup.insert id
      let s := { s with dedup := d }
      if fresh then emit cfg s (.liveOpReceived id) fun s => s else s
  | .closing r, .close ok =>
    if cfg.fixTerminal then
      finish cfg s (match r with | some e => some e | none => if ok then none else some .sink)
    else if ok then finish cfg s r
    else { s with pc := .done (some .sink) }
  | _, _ => { s with pc := .mismatch }

def trun (cfg : TCfg) (script : List TIn) : TSt := script.foldl (tstep cfg) (tinit cfg)

/-- the tree the drivers describe -/
def curTCfg (scope : List (Nat × List Nat)) (cap : Nat) (rx live : Bool) : TCfg :=
  { inner := curCfg scope cap rx, liveMode := live, fixTerminal := true }

end P2.Sync
