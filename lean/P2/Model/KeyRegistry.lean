/-
Model of `p2panda-encryption/src/key_registry.rs` (`KeyRegistry::{init, add_longterm_bundle,
add_onetime_bundle, remove_expired}`, both `PreKeyRegistry::key_bundle` impls),
`key_bundle/lifetime.rs` (`Lifetime::verify`) and `key_bundle/key_bundle.rs`
(`KeyBundle::verify` for both bundle kinds, `latest_key_bundle`).

Every wall-clock read (`SystemTime::now()` in `Lifetime::verify`) is the explicit argument `now`
(UNIX seconds). XEdDSA is ideal: a signature is the pair (signer's identity key, signed pre-key);
`xeddsa_verify(prekey, identity, sig)` succeeds iff the signature was made by that identity over
that pre-key. Keys are small numbers. The three `HashMap`s are functions `Nat → Option _`.
No imports: linked into the driver executable.
-/
namespace P2.KeyReg

/-- `LongTermKeyBundle` / `OneTimeKeyBundle` (`otk` = one-time pre-key id, `none` for long-term). -/
structure Bundle where
  ident  : Nat
  prekey : Nat
  nb     : Nat        -- `Lifetime::not_before`
  na     : Nat        -- `Lifetime::not_after`
  sigBy  : Nat        -- who produced `prekey_signature` (0 = nobody: corrupted bytes)
  sigMsg : Nat        -- which pre-key it signs
  otk    : Option Nat
deriving DecidableEq, Repr

inductive Err where
  | lifetime   -- `KeyBundleError::Lifetime(InvalidLifetime)`
  | sig        -- `KeyBundleError::XEdDSA(..)`
  | identity   -- the `assert_eq!` "sanity check" on a changed identity key (a panic)
  | expired    -- `KeyRegistryError::KeyBundlesExpired`
deriving DecidableEq, Repr

/-- `Lifetime::verify` at clock reading `now`. -/
def lifetimeOk (b : Bundle) (now : Nat) : Bool := decide (b.nb < now) && decide (now < b.na)

/-- `xeddsa_verify(signed_prekey.as_bytes(), identity_key, prekey_signature)`. -/
def sigOk (b : Bundle) : Bool := decide (b.sigBy = b.ident) && decide (b.sigMsg = b.prekey)

/-- `KeyBundle::verify`: lifetime first, then signature. -/
def verify (b : Bundle) (now : Nat) : Except Err Unit :=
  if !lifetimeOk b now then .error .lifetime
  else if !sigOk b then .error .sig
  else .ok ()

/-- `KeyRegistryState<ID>`. -/
structure Reg where
  identities : Nat → Option Nat
  onetime    : Nat → Option (List Bundle)
  longterm   : Nat → Option (List Bundle)

def upd {α : Type} (f : Nat → α) (k : Nat) (v : α) : Nat → α := fun x => if x = k then v else f x

/-- `KeyRegistry::init`. -/
def Reg.init : Reg := { identities := fun _ => none, onetime := fun _ => none, longterm := fun _ => none }

/-- The identity bookkeeping shared by both `add_*` functions: `identities.insert` + `assert_eq!`. -/
def checkIdentity (y : Reg) (id : Nat) (b : Bundle) : Except Err Unit :=
  match y.identities id with
  | some e => if e = b.ident then .ok () else .error .identity
  | none => .ok ()

/-- `KeyRegistry::add_longterm_bundle` (an already known bundle is not stored twice). -/
def Reg.addLongterm (y : Reg) (id : Nat) (b : Bundle) (now : Nat) : Except Err Reg := do
  verify b now
  checkIdentity y id b
  let l := match y.longterm id with
    | some l => if b ∈ l then l else l ++ [b]
    | none => [b]
  pure { y with identities := upd y.identities id (some b.ident), longterm := upd y.longterm id (some l) }

/-- `KeyRegistry::add_onetime_bundle`. -/
def Reg.addOnetime (y : Reg) (id : Nat) (b : Bundle) (now : Nat) : Except Err Reg := do
  verify b now
  checkIdentity y id b
  let l := match y.onetime id with
    | some l => l ++ [b]
    | none => [b]
  pure { y with identities := upd y.identities id (some b.ident), onetime := upd y.onetime id (some l) }

/-- `KeyRegistry::remove_expired`: keeps the bundles whose `verify()` succeeds now. -/
def Reg.removeExpired (y : Reg) (now : Nat) : Reg :=
  let keep := fun (l : List Bundle) => l.filter (fun b => (verify b now).isOk)
  { y with onetime := fun id => (y.onetime id).map keep, longterm := fun id => (y.longterm id).map keep }

/-- A registry state restored from persistence (`KeyRegistryState` is `Deserialize`): the member's
    long-term list is whatever was stored — nothing is verified on the way in. -/
def Reg.restoreLongterm (y : Reg) (id : Nat) (l : List Bundle) : Reg :=
  { y with longterm := upd y.longterm id (some l) }

/-- One iteration of `latest_key_bundle`. -/
def latestStep (now : Nat) (acc : Option Bundle) (b : Bundle) : Option Bundle :=
  if !lifetimeOk b now then acc
  else match acc with
    | some c => if b.na > c.na then some b else acc
    | none => some b

/-- `latest_key_bundle(bundles)`. -/
def latest (l : List Bundle) (now : Nat) : Option Bundle := l.foldl (latestStep now) none

/-- `<KeyRegistry as PreKeyRegistry<ID, LongTermKeyBundle>>::key_bundle`. -/
def Reg.keyBundleLongterm (y : Reg) (id : Nat) (now : Nat) : Except Err (Option Bundle) :=
  match y.longterm id with
  | none => .ok none
  | some l =>
    let v := latest l now
    if !l.isEmpty && v.isNone then .error .expired else .ok v

/-- `<KeyRegistry as PreKeyRegistry<ID, OneTimeKeyBundle>>::key_bundle` of the **pinned** tree:
    `bundles.pop()` with no look at the lifetime. -/
def Reg.keyBundleOnetimeOrig (y : Reg) (id : Nat) : Reg × Option Bundle :=
  match y.onetime id with
  | none => (y, none)
  | some l => ({ y with onetime := upd y.onetime id (some l.dropLast) }, l.getLast?)

/-- Pop from the back until a bundle whose lifetime is valid now comes off; expired ones are dropped.
    Works on the reversed vector (`r` = back first). -/
def popValidRev (now : Nat) : List Bundle → List Bundle × Option Bundle
  | [] => ([], none)
  | b :: r => if lifetimeOk b now then (r, some b) else popValidRev now r

/-- The same function after `fix: skip and drop expired one-time key bundles when popping`. -/
def Reg.keyBundleOnetime (y : Reg) (id : Nat) (now : Nat) : Reg × Option Bundle :=
  match y.onetime id with
  | none => (y, none)
  | some l =>
    let (r, b) := popValidRev now l.reverse
    ({ y with onetime := upd y.onetime id (some r.reverse) }, b)

/-- The property's notion of a usable bundle at time `now`. -/
def valid (b : Bundle) (now : Nat) : Prop := b.nb < now ∧ now < b.na ∧ sigOk b = true

/-- Registry operations with their clock readings (histories for the reachability theorems). -/
inductive Op where
  | addL (id : Nat) (b : Bundle) (now : Nat)
  | addO (id : Nat) (b : Bundle) (now : Nat)
  | popO (id : Nat) (now : Nat)
  | removeExpired (now : Nat)

/-- Apply an operation; a failing `add` leaves the (caller's copy of the) registry unchanged. -/
def Reg.apply (y : Reg) : Op → Reg
  | .addL id b now => match y.addLongterm id b now with | .ok y' => y' | .error _ => y
  | .addO id b now => match y.addOnetime id b now with | .ok y' => y' | .error _ => y
  | .popO id now => (y.keyBundleOnetime id now).1
  | .removeExpired now => y.removeExpired now

def Reg.run (y : Reg) (ops : List Op) : Reg := ops.foldl Reg.apply y

end P2.KeyReg
