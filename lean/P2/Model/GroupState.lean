/-
Model of `p2panda-auth/src/access.rs` (`Access<C>`, its `PartialOrd`) and
`p2panda-auth/src/group/crdt/state.rs` (`MemberState`, `GroupMembersState`,
`create/add/remove/modify/promote/demote/merge`).

* `AccessLevel` is its discriminant (`Pull = 0, Read = 1, Write = 2, Manage = 3`) as a `Nat`.
* `C::partial_cmp` is the parameter `cmpC : C → C → Option Ordering`.
* A `GroupMembersState` (`HashMap<ID, MemberState<C>>`) is an association list; the keys of a
  well-formed state are pairwise different (`WF`); iteration order of the map is the list order,
  and every theorem is stated on `get?` (finite-map view) so that it holds for every order.
* `merge` takes the tie-break relation as a parameter `lt`; the pinned tree used
  `accessLtOrig` (`Access::<`), the repaired tree uses `accessLtFix` (`merge_tie_break_less`).

No imports: this file is linked into the driver executables (C31, C32, C33).
-/
namespace P2.GroupState

/-! ## access.rs -/

structure Access (C : Type) where
  cond : Option C
  level : Nat
deriving DecidableEq, Repr

def lvlPull : Nat := 0
def lvlRead : Nat := 1
def lvlWrite : Nat := 2
def lvlManage : Nat := 3

variable {C : Type} {K : Type}

def Access.isManage (a : Access C) : Bool := a.level == 3
def Access.isPull (a : Access C) : Bool := a.level == 0

/-- `impl PartialOrd for Access<C>`: `partial_cmp`, branch by branch. -/
def accessPcmp (cmpC : C → C → Option Ordering) (a b : Access C) : Option Ordering :=
  match a.cond, b.cond with
  | some sc, some oc =>
    match cmpC sc oc with
    | some .gt => (match compare a.level b.level with
                   | .lt => some .lt
                   | _ => some .gt)
    | some .eq => (match compare a.level b.level with
                   | .lt => some .lt
                   | _ => some .gt)
    | some .lt => some .lt
    | none => none
  | none, some _ =>
    (match compare a.level b.level with
     | .lt => some .lt
     | _ => some .gt)
  | _, _ => some (compare a.level b.level)

/-- `a < b` on `Access<C>` (provided method of `PartialOrd`: `partial_cmp == Some(Less)`). -/
def accessLtOrig (cmpC : C → C → Option Ordering) (a b : Access C) : Bool :=
  match accessPcmp cmpC a b with
  | some .lt => true
  | _ => false

/-- `a <= b` on `Access<C>` (`Some(Less | Equal)`). -/
def accessLeOrig (cmpC : C → C → Option Ordering) (a b : Access C) : Bool :=
  match accessPcmp cmpC a b with
  | some .lt => true
  | some .eq => true
  | _ => false

/-- `a < b` on the conditions type. -/
def condLt (cmpC : C → C → Option Ordering) (x y : C) : Bool :=
  match cmpC x y with
  | some .lt => true
  | _ => false

/-- Repaired tie-break of `state::merge` (`merge_tie_break_less`): level first, then conditions,
    an access without conditions being the greatest of its level. -/
def accessLtFix (cmpC : C → C → Option Ordering) (a b : Access C) : Bool :=
  match compare a.level b.level with
  | .lt => true
  | .gt => false
  | .eq =>
    match a.cond, b.cond with
    | some x, some y => condLt cmpC x y
    | some _, none => true
    | none, _ => false

/-! ## state.rs -/

structure MemberState (C : Type) where
  mc : Nat            -- member_counter
  access : Access C
  ac : Nat            -- access_counter
deriving DecidableEq, Repr

def MemberState.isMember (m : MemberState C) : Bool := m.mc % 2 == 1
def MemberState.isManager (m : MemberState C) : Bool := m.access.isManage
def MemberState.isPuller (m : MemberState C) : Bool := m.access.isPull

/-- `GroupMembersState<ID, C>`: the `members` map. -/
abbrev State (K C : Type) := List (K × MemberState C)

inductive Err (K : Type) where
  | alreadyAdded (k : K)
  | alreadyRemoved (k : K)
  | insufficientAccess (k : K)
  | inactiveActor (k : K)
  | inactiveMember (k : K)
  | unrecognisedActor (k : K)
  | unrecognisedMember (k : K)
deriving DecidableEq, Repr

variable [DecidableEq K]

def get? (s : State K C) (k : K) : Option (MemberState C) :=
  match s with
  | [] => none
  | (k', v) :: rest => if k' = k then some v else get? rest k

def keys (s : State K C) : List K := s.map (·.1)

/-- Keys pairwise different: what a `HashMap` guarantees. -/
def WF (s : State K C) : Prop := (keys s).Nodup

/-- Overwrite the value stored under an existing key (`get_mut` / `and_modify`). -/
def setVal (s : State K C) (k : K) (v : MemberState C) : State K C :=
  s.map (fun p => if p.1 = k then (p.1, v) else p)

/-- `HashMap::insert`. -/
def upsert (s : State K C) (k : K) (v : MemberState C) : State K C :=
  match get? s k with
  | some _ => setVal s k v
  | none => s ++ [(k, v)]

/-- `GroupMembersState::members()` (active members). -/
def activeMembers (s : State K C) : List K :=
  (s.filter (fun p => p.2.isMember)).map (·.1)

/-- `GroupMembersState::access_levels()`. -/
def accessLevels (s : State K C) : List (K × Access C) :=
  (s.filter (fun p => p.2.isMember)).map (fun p => (p.1, p.2.access))

/-- `GroupMembersState::managers()`. -/
def managers (s : State K C) : List K :=
  (s.filter (fun p => p.2.isMember && p.2.isManager)).map (·.1)

/-- `state::create`: later duplicates of an id overwrite earlier ones (`HashMap::insert`). -/
def create (initial : List (K × Access C)) : State K C :=
  initial.foldl (fun s p => upsert s p.1 { mc := 1, access := p.2, ac := 0 }) []

/-- `state::add`. -/
def add (s : State K C) (adder added : K) (access : Access C) : Except (Err K) (State K C) :=
  match get? s adder with
  | none => .error (.unrecognisedActor adder)
  | some a =>
    if !a.isMember then .error (.inactiveActor adder)
    else if !a.isManager then .error (.insufficientAccess adder)
    else
      match get? s added with
      | some m =>
        if m.isMember then .error (.alreadyAdded added)
        else .ok (setVal s added { mc := m.mc + 1, access := access, ac := 0 })
      | none => .ok (s ++ [(added, { mc := 1, access := access, ac := 0 })])

/-- `state::remove`. -/
def remove (s : State K C) (remover removed : K) : Except (Err K) (State K C) :=
  match get? s remover with
  | none => .error (.unrecognisedActor remover)
  | some r =>
    if !r.isMember then .error (.inactiveActor remover)
    else if !r.isManager && remover ≠ removed then .error (.insufficientAccess remover)
    else
      match get? s removed with
      | none => .error (.unrecognisedMember removed)
      | some m =>
        if !m.isMember then .error (.alreadyRemoved removed)
        else .ok (setVal s removed { mc := m.mc + 1, access := m.access, ac := 0 })

/-- `state::modify` (private helper of `promote` / `demote`). -/
def modify [DecidableEq C] (s : State K C) (modifier modified : K) (access : Access C) :
    Except (Err K) (State K C) :=
  match get? s modifier with
  | none => .error (.unrecognisedActor modifier)
  | some a =>
    if !a.isMember then .error (.inactiveActor modifier)
    else if !a.isManager then .error (.insufficientAccess modifier)
    else
      match get? s modified with
      | some m =>
        if !m.isMember then .error (.inactiveMember modified)
        else if m.access ≠ access then
          .ok (setVal s modified { mc := m.mc, access := access, ac := m.ac + 1 })
        else .ok s
      | none => .error (.unrecognisedMember modified)

/-- `is_active_manager` (helper added by the `fix:` commit for C33). -/
def isActiveManager (s : State K C) (actor : K) : Bool :=
  match get? s actor with
  | some a => a.isMember && a.isManager
  | none => false

/-- `state::promote` (repaired tree): the no-op shortcut for an already-manager target is only taken
    when the promoter is an active manager and the target is active; otherwise `modify` reports the
    error. -/
def promote [DecidableEq C] (s : State K C) (promoter promoted : K) (access : Access C) :
    Except (Err K) (State K C) :=
  match get? s promoted with
  | some m =>
    if m.isManager && m.isMember && isActiveManager s promoter then .ok s
    else modify s promoter promoted access
  | none => .error (.unrecognisedMember promoted)

/-- `state::demote` (repaired tree). -/
def demote [DecidableEq C] (s : State K C) (demoter demoted : K) (access : Access C) :
    Except (Err K) (State K C) :=
  match get? s demoted with
  | some m =>
    if m.isPuller && m.isMember && isActiveManager s demoter then .ok s
    else modify s demoter demoted access
  | none => .error (.unrecognisedMember demoted)

/-- `state::promote` as on the pinned tree: an already-manager target returned `Ok(state)` before
    any check of the promoter (or of the target being active). -/
def promoteOrig [DecidableEq C] (s : State K C) (promoter promoted : K) (access : Access C) :
    Except (Err K) (State K C) :=
  match get? s promoted with
  | some m => if m.isManager then .ok s else modify s promoter promoted access
  | none => .error (.unrecognisedMember promoted)

/-- `state::demote` as on the pinned tree. -/
def demoteOrig [DecidableEq C] (s : State K C) (demoter demoted : K) (access : Access C) :
    Except (Err K) (State K C) :=
  match get? s demoted with
  | some m => if m.isPuller then .ok s else modify s demoter demoted access
  | none => .error (.unrecognisedMember demoted)

/-- The body of the loop of `state::merge` for a member present in both states: the three
    sequential `if`s; `m1` is the entry of `state_1`, `m` the entry of `next_state`. -/
def mergeMember (lt : Access C → Access C → Bool) (m1 m : MemberState C) : MemberState C :=
  let m := if m1.mc > m.mc then { mc := m1.mc, access := m1.access, ac := m1.ac } else m
  if m1.mc = m.mc then
    let m := if m1.ac > m.ac then { m with access := m1.access, ac := m1.ac } else m
    let m := if m1.ac = m.ac && lt m1.access m.access then { m with access := m1.access } else m
    m
  else m

/-- One iteration of the loop of `state::merge`. -/
def mergeStep (lt : Access C → Access C → Bool) (next : State K C) (p : K × MemberState C) :
    State K C :=
  match get? next p.1 with
  | some m => setVal next p.1 (mergeMember lt p.2 m)
  | none => next ++ [p]

/-- `state::merge(state_1, state_2)`: start from `state_2`, fold the entries of `state_1` in. -/
def merge (lt : Access C → Access C → Bool) (s1 s2 : State K C) : State K C :=
  s1.foldl (mergeStep lt) s2

/-- `apply_remove_unsafe` on one group's member map (crdt/mod.rs). -/
def removeUnsafe (s : State K C) (removed : K) : State K C :=
  match get? s removed with
  | some m => if m.mc % 2 != 0 then setVal s removed { m with mc := m.mc + 1 } else s
  | none => s

/-- Pointwise merge on the finite-map view. -/
def mergeOpt (lt : Access C → Access C → Bool) :
    Option (MemberState C) → Option (MemberState C) → Option (MemberState C)
  | none, y => y
  | some a, none => some a
  | some a, some b => some (mergeMember lt a b)

/-- Two states are the same finite map. -/
def MapEq (a b : State K C) : Prop := ∀ k, get? a k = get? b k

end P2.GroupState
