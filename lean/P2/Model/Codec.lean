/-
Model of `p2panda-net/src/codec.rs` (`Codec<M>`: `Encoder::encode`, `Decoder::decode`,
`max_frame_len`) and of the read loop `tokio_util::codec::FramedRead` drives it with.

Bytes are `Nat`s (the harness only ever sends values < 256; `be32` only produces such values).
The payload (de)serialiser (postcard, third party) is a parameter: `ser : M → List Nat`,
`de : List Nat → Option M`.  The framing theorems need only `de (ser m) = some m`.
No imports: this file is linked into the driver executable.
-/
namespace P2.Codec

inductive Err where
  /-- `CodecError::TooLargeMessage` -/
  | tooLarge
  /-- `CodecError::Postcard` (payload does not deserialise) -/
  | postcard
  /-- `CodecError::Io`: `FramedRead`'s "bytes remaining on stream" at end of stream -/
  | eof
  /-- `u32::try_from(frame_len).expect("already checked")` (only reachable with `max ≥ 2^32`) -/
  | panic
deriving DecidableEq, Repr

/-- `dst.put_u32(n)`: four bytes, big endian. -/
def be32 (n : Nat) : List Nat :=
  [n / 16777216 % 256, n / 65536 % 256, n / 256 % 256, n % 256]

/-- `u32::from_be_bytes(src[..4])` (callers guarantee four bytes; missing ones read as 0). -/
def fromBe32 (b : List Nat) : Nat :=
  b.getD 0 0 * 16777216 + b.getD 1 0 * 65536 + b.getD 2 0 * 256 + b.getD 3 0

/-- One frame: length prefix followed by the payload. -/
def frame (p : List Nat) : List Nat := be32 p.length ++ p

/-- The byte stream of a sequence of payloads. -/
def frames (ps : List (List Nat)) : List Nat := (ps.map frame).flatten

section
variable {M : Type} (max : Nat) (ser : M → List Nat) (de : List Nat → Option M)

/-- `Encoder::encode(item, dst)`: appends to `dst`; on error `dst` is untouched. -/
def encode (m : M) (dst : List Nat) : Except Err (List Nat) :=
  if (ser m).length > max then .error .tooLarge
  else if (ser m).length ≥ 4294967296 then .error .panic
  else .ok (dst ++ be32 (ser m).length ++ ser m)

/-- Encode a sequence of messages into one buffer, stopping at the first error. -/
def encodeAll : List M → List Nat → Except Err (List Nat)
  | [], dst => .ok dst
  | m :: ms, dst =>
    match encode max ser m dst with
    | .error e => .error e
    | .ok dst' => encodeAll ms dst'

/-- `Decoder::decode(src)`: `ok none` = need more bytes (buffer untouched),
    `ok (some (m, rest))` = one message, buffer advanced by `4 + frame_len`. -/
def decodeStep (buf : List Nat) : Except Err (Option (M × List Nat)) :=
  if buf.length < 4 then .ok none
  else if fromBe32 (buf.take 4) > max then .error .tooLarge
  else if buf.length < 4 + fromBe32 (buf.take 4) then .ok none
  else
    match de ((buf.drop 4).take (fromBe32 (buf.take 4))) with
    | none => .error .postcard
    | some m => .ok (some (m, buf.drop (4 + fromBe32 (buf.take 4))))

/-- `FramedRead`'s inner loop after a read: call `decode` until it says "need more bytes" or
    fails.  Result: messages yielded (in order), the buffer left, the error hit (if any).
    `fuel` bounds the number of calls; `buf.length + 1` always suffices (`drain_fuel`). -/
def drain : Nat → List Nat → List M × List Nat × Option Err
  | 0, buf => ([], buf, none)
  | fuel + 1, buf =>
    match decodeStep max de buf with
    | .error e => ([], buf, some e)
    | .ok none => ([], buf, none)
    | .ok (some (m, rest)) =>
      let r := drain fuel rest
      (m :: r.1, r.2.1, r.2.2)

def drainAll (buf : List Nat) : List M × List Nat × Option Err :=
  drain max de (buf.length + 1) buf

/-- One read of `chunk` bytes into the buffer, followed by draining. -/
def feed (buf chunk : List Nat) : List M × List Nat × Option Err :=
  drainAll max de (buf ++ chunk)

/-- A whole sequence of reads; stops at the first error (FramedRead ends the stream then). -/
def feedAll (buf : List Nat) : List (List Nat) → List M × List Nat × Option Err
  | [] => ([], buf, none)
  | c :: cs =>
    let r := feed max de buf c
    match r.2.2 with
    | some e => (r.1, r.2.1, some e)
    | none =>
      let r' := feedAll r.2.1 cs
      (r.1 ++ r'.1, r'.2.1, r'.2.2)

/-- The complete `FramedRead` stream over a reader that delivers `chunks` and then end-of-file:
    the `Ok` items in order and the final `Err` item, if any (`decode_eof`: a non-empty drained
    buffer at end-of-file is "bytes remaining on stream"). -/
def runStream (chunks : List (List Nat)) : List M × Option Err :=
  let r := feedAll max de [] chunks
  match r.2.2 with
  | some e => (r.1, some e)
  | none => if r.2.1.isEmpty then (r.1, none) else (r.1, some .eof)

end

/-! ### A small piece of postcard, only for the driver's malformed-payload streams
`Vec<u8>`: varint(u64) length, then that many bytes; trailing bytes are ignored by
`postcard::from_bytes`. Third-party behaviour; used by the correspondence run, by no theorem. -/

/-- `try_take_varint_u64`: returns (value, rest). -/
def varintU64 : Nat → Nat → Nat → List Nat → Option (Nat × List Nat)
  | 0, _, _, _ => none
  | _ + 1, _, _, [] => none
  | k + 1, i, acc, b :: bs =>
    let acc' := acc + (b % 128) * 2 ^ (7 * i)
    if b < 128 then
      if i = 9 ∧ b > 1 then none else some (acc', bs)
    else varintU64 k (i + 1) acc' bs

def deBytes (p : List Nat) : Option (List Nat) :=
  match varintU64 10 0 0 p with
  | none => none
  | some (n, rest) => if rest.length < n then none else some (rest.take n)

/-- `varint_usize` + bytes: canonical postcard form of a `Vec<u8>`. -/
def serVarint : Nat → Nat → List Nat
  | 0, _ => []
  | k + 1, n => if n < 128 then [n] else (n % 128 + 128) :: serVarint k (n / 128)

def serBytes (v : List Nat) : List Nat := serVarint 10 v.length ++ v

end P2.Codec
