/-
Model of `p2panda-core/src/timestamp.rs`: `HybridTimestamp(Timestamp, LamportTimestamp)` with the
derived lexicographic `Ord`, `HybridTimestamp::now` and `HybridTimestamp::increment`.

`u64` fields are `Nat` (DESIGN §3.1). The wall-clock read `Timestamp::now()` is the explicit
argument `now` of `increment`. `LamportTimestamp::increment` is `self.0 + 1` (overflow of the
logical part at `u64::MAX` is outside the model; the harness keeps logical parts below 2^62).

`incrementOrig` is the code of the pinned tree (`73d3fc7`), `increment` the repaired code
(`fix:` commit in /repo). No imports: this file is linked into the driver executables.
-/
namespace P2.HybridTs

/-- `HybridTimestamp(wall, logical)`. -/
structure HTs where
  wall : Nat
  logical : Nat
deriving DecidableEq, Repr, Inhabited

/-- Derived `Ord` on the tuple struct: lexicographic, wall clock first. -/
def HTs.lt (a b : HTs) : Prop :=
  a.wall < b.wall ∨ (a.wall = b.wall ∧ a.logical < b.logical)

instance : LT HTs := ⟨HTs.lt⟩

instance (a b : HTs) : Decidable (a < b) := by
  show Decidable (HTs.lt a b)
  unfold HTs.lt
  exact inferInstance

/-- `a <= b` of the derived order. -/
def HTs.le (a b : HTs) : Prop := a < b ∨ a = b

instance : LE HTs := ⟨HTs.le⟩

instance (a b : HTs) : Decidable (a ≤ b) := by
  show Decidable (HTs.le a b)
  unfold HTs.le
  exact inferInstance

/-- `Ord::cmp` as the three words the driver prints. -/
def HTs.cmpWord (a b : HTs) : String :=
  if a < b then "lt" else if a = b then "eq" else "gt"

/-- `HybridTimestamp::now()` under a clock reading `now`. -/
def nowTs (now : Nat) : HTs := ⟨now, 0⟩

/-- `HybridTimestamp::increment` as on the pinned tree: follows the clock wherever it goes. -/
def incrementOrig (t : HTs) (now : Nat) : HTs :=
  if now = t.wall then ⟨now, t.logical + 1⟩ else ⟨now, 0⟩

/-- `HybridTimestamp::increment`, repaired: never moves the wall-clock part backwards. -/
def increment (t : HTs) (now : Nat) : HTs :=
  if now ≤ t.wall then ⟨t.wall, t.logical + 1⟩ else ⟨now, 0⟩

/-- The timestamps produced by successive increments under the clock readings `nows`
    (each increment starts from the previous result, as the ephemeral publisher and
    `increment_timestamp(previous)` do). Parametrised by the increment function. -/
def chainWith (inc : HTs → Nat → HTs) (t : HTs) : List Nat → List HTs
  | [] => []
  | n :: ns => let t' := inc t n; t' :: chainWith inc t' ns

def chain (t : HTs) (nows : List Nat) : List HTs := chainWith increment t nows
def chainOrig (t : HTs) (nows : List Nat) : List HTs := chainWith incrementOrig t nows

/-- Last element of the chain = state of the clock holder after all increments. -/
def after (t : HTs) (nows : List Nat) : HTs := nows.foldl increment t

def HTs.str (t : HTs) : String := toString t.wall ++ "/" ++ toString t.logical

end P2.HybridTs
