/-
Labelled transition system for the liveness of a log-sync session (C21): two honest peers, two
FIFO channels with capacity parameter `c`.

Transport semantics (measured on `futures::channel::mpsc` with one sender, then modelled):
`SinkExt::send` = `poll_ready` + `start_send` + `poll_flush`, and for `mpsc::Sender` `poll_flush`
is `poll_ready` again: after enqueuing, `send` resolves only once at most `c` of the sender's
messages are still un-received (`channel(c)`; `c = 0` is a rendezvous).  Action `enq` is the
`start_send`, action `flush` the resolution of the `send` future, action `recv` a `stream.next()`
that yields a message.

Peer program (`LogSync::run`): `send Have · recv · send (PreSync | Done) · recv · Sync`, where
`Sync` sends one *batch* per author of `remote_needs` (the operations of that author, the last
batch followed by `Done`) and receives until the remote's `Done`.  A peer with nothing to send has
no batch and sends `Done` in place of `PreSync`.

* `Orig` (pinned code): inside a batch — and inside each of the two initial sends — the peer can
  only wait for its own `send` to resolve (`sink.send().await` inside the `select!` arm body);
  it can receive only at the `select!`, i.e. at a batch boundary with no send pending.
* `Alt` (what a repair would look like): while a `send` is waiting the receive side stays enabled.

Peer state: `s` messages enqueued so far, `w` a send is pending, `r` messages received.  The
queue from X to Y holds `s_X - r_Y` messages.  Everything is a function of message *counts*:
`Done` is the last message of a peer, so "remote `Done` received" is `r = total remote`.
-/
namespace P2.Sched

structure Peer where
  s : Nat
  w : Bool
  r : Nat
deriving DecidableEq, Repr

structure St where
  a : Peer
  b : Peer
deriving DecidableEq, Repr

structure Cfg where
  /-- channel capacity parameter -/
  c : Nat
  /-- operations per author batch of peer A / peer B -/
  ba : List Nat
  bb : List Nat
  alt : Bool
deriving Repr

/-- messages of the `Sync` state: all operations and the final `Done` (none if there is no batch) -/
def syncTotal (bs : List Nat) : Nat :=
  match bs with
  | [] => 0
  | _ => bs.sum + 1

/-- all messages of a peer: `Have`, `PreSync | Done`, then the `Sync` messages -/
def total (bs : List Nat) : Nat := 2 + syncTotal bs

/-- `s` is a `select!` point: the start of a batch, or everything sent.  (`acc` = messages sent
    before the remaining batches `bs`.) -/
def boundaryFrom (acc : Nat) : List Nat → Nat → Bool
  | [], s => s == acc
  | [n], s => s == acc || s == acc + n + 1
  | n :: rest, s => s == acc || boundaryFrom (acc + n) rest s

def boundary (bs : List Nat) (s : Nat) : Bool := boundaryFrom 2 bs s

inductive Kind | enq | flush | recv
deriving DecidableEq, Repr

structure Act where
  /-- `true` = peer A -/
  p : Bool
  k : Kind
deriving DecidableEq, Repr

/-- may the peer enqueue its next message?  (`Have` first; the second message needs the remote
    `Have`; `Sync` messages need the remote's second message) -/
def canEnq (me : Peer) (myTotal : Nat) : Bool :=
  !me.w && decide (me.s < myTotal) &&
    (me.s == 0 || (me.s == 1 && decide (1 ≤ me.r)) || (decide (2 ≤ me.s) && decide (2 ≤ me.r)))

/-- does the pending send resolve?  at most `c` messages un-received by the other side -/
def canFlush (c : Nat) (me other : Peer) : Bool :=
  me.w && decide (me.s - other.r ≤ c)

/-- may the peer take the next message from its stream? -/
def canRecv (alt : Bool) (myBatches : List Nat) (me other : Peer) : Bool :=
  decide (me.r < other.s) &&
    (if alt then
       (me.r == 0 && me.s == 1) || (me.r == 1 && me.s == 2) ||
       (decide (2 ≤ me.r) && decide (2 ≤ me.s) && (me.w || boundary myBatches me.s))
     else
       !me.w &&
       ((me.r == 0 && me.s == 1) || (me.r == 1 && me.s == 2) ||
        (decide (2 ≤ me.r) && boundary myBatches me.s)))

def stepPeer (c : Nat) (alt : Bool) (myBatches : List Nat) (me other : Peer) : Kind → Option Peer
  | .enq => if canEnq me (total myBatches) then some { me with s := me.s + 1, w := true } else none
  | .flush => if canFlush c me other then some { me with w := false } else none
  | .recv => if canRecv alt myBatches me other then some { me with r := me.r + 1 } else none

def stepFn (cfg : Cfg) (st : St) (act : Act) : Option St :=
  if act.p then
    (stepPeer cfg.c cfg.alt cfg.ba st.a st.b act.k).map fun a' => { st with a := a' }
  else
    (stepPeer cfg.c cfg.alt cfg.bb st.b st.a act.k).map fun b' => { st with b := b' }

def init : St := { a := ⟨0, false, 0⟩, b := ⟨0, false, 0⟩ }

/-- run a schedule; `none` as soon as an action is not enabled -/
def runSched (cfg : Cfg) (st : St) : List Act → Option St
  | [] => some st
  | a :: rest =>
    match stepFn cfg st a with
    | none => none
    | some st' => runSched cfg st' rest

/-- index of the first action of a schedule that is not enabled (for the driver) -/
def firstBad (cfg : Cfg) (st : St) : List Act → Nat → Option Nat
  | [], _ => none
  | a :: rest, i =>
    match stepFn cfg st a with
    | none => some i
    | some st' => firstBad cfg st' rest (i + 1)

def allActs : List Act :=
  [⟨true, .enq⟩, ⟨true, .flush⟩, ⟨true, .recv⟩, ⟨false, .enq⟩, ⟨false, .flush⟩, ⟨false, .recv⟩]

/-- no action is enabled -/
def stuck (cfg : Cfg) (st : St) : Bool := allActs.all fun a => (stepFn cfg st a).isNone

def peerDone (me : Peer) (myTotal otherTotal : Nat) : Bool :=
  me.s == myTotal && !me.w && me.r == otherTotal

/-- both sessions returned -/
def finished (cfg : Cfg) (st : St) : Bool :=
  peerDone st.a (total cfg.ba) (total cfg.bb) && peerDone st.b (total cfg.bb) (total cfg.ba)

/-- where a peer stands (for the driver / harness comparison) -/
def showPeer (me : Peer) (myTotal otherTotal : Nat) : String :=
  if peerDone me myTotal otherTotal then "done"
  else if me.w then s!"send#{me.s}" else s!"at#{me.s}/{me.r}"

/-- static verdict of `c21_partial` for the pinned design -/
def staticVerdict (c : Nat) (ba bb : List Nat) : String :=
  if c == 0 then "cap0"
  else if decide (c < syncTotal ba) && decide (c < syncTotal bb) then "may-deadlock"
  else "must-complete"

end P2.Sched
