/-
Labelled transition system for the transaction protocol of `p2panda-store/src/sqlite.rs`
(`SqliteStore::{begin, tx, commit, rollback}`, `TransactionPermit` + `Drop`, the `tx!` macro).  Import-free.

Any number of tasks (`pc : Nat → PC`); a task is a program counter over the await points of the code:

  begin():     `acquire_owned().await`   idle → acquired if the permit is free, else idle → waiting (queued);
                                          tokio's semaphore is fair: whoever releases the permit hands it to the
                                          head of the queue in the same step (waiting → acquired), nobody can
                                          barge in; a cancelled waiter leaves the queue, a cancelled `acquired`
                                          task passes the permit on
               `tx.lock()`, assert `tx_ref.is_none()`, `pool.begin().await`, `tx_ref.replace(tx)`
                                          acquired → inTx                 (needs the slot to be empty)
  tx(f):       one statement inside the open transaction                  inTx ws → inTx (ws ++ [w])
  commit():    `tx.lock().await.take()`  inTx → committing               (the sqlx transaction is now a local)
               `tx.commit().await` ; `permit.mark_committed_and_drop()`   committing → idle, permit free
               future dropped during `tx.commit().await`: SQLite may or may not have committed
               (`cancelCommit applied`), the `TransactionPermit` local is dropped uncommitted → spawned task
  rollback():  same shape
  Drop for TransactionPermit (explicit drop, `?` early return, panic, cancelled task, …):
               `tokio::spawn(async { if let Some(tx) = tx.lock().await.take() { tx.rollback().await } drop(permit) })`
               the spawned task owns (a clone of) the semaphore permit: `rbTake` then `rbRelease`.

SQLite / sqlx are the assumption "commit applies the transaction's buffer, anything else discards it"; a commit
of a buffer containing a `bad` write (deferred constraint violation) fails and applies nothing.

Ghost components (`hist`, `aborted`, the `ws` of a program counter = what the task itself wrote in this
transaction) exist only to state the theorems; no transition is guarded by them.
-/
namespace P2.TxLts

structure Write where
  tid : Nat
  n : Nat
  bad : Bool
deriving DecidableEq, Repr

inductive PC where
  | idle
  | waiting
  | acquired
  | inTx (ws : List Write)
  | committing (buf : List Write) (ws : List Write)
  | rollingBack (ws : List Write)
deriving DecidableEq, Repr

/-- Who owns the single semaphore permit. -/
inductive Owner where
  | free
  | task (t : Nat)
  | spawned
deriving DecidableEq, Repr

/-- State of the rollback task spawned by `Drop for TransactionPermit`. -/
inductive Spawn where
  | none
  | pending      -- spawned, has not yet taken the transaction out of the slot
  | releasing    -- rollback finished (or nothing to roll back), `drop(permit)` still to come
deriving DecidableEq, Repr

structure St where
  db : List Write                      -- committed rows, in commit order
  slot : Option (List Write)           -- `SqliteStore::tx`: the open sqlx transaction (its uncommitted rows)
  owner : Owner
  spawn : Spawn
  queue : List Nat                     -- tasks parked on the semaphore, in arrival order (tokio: FIFO)
  pc : Nat → PC
  hist : List (Nat × List Write)       -- ghost: committed transactions in commit order (task, its writes)
  aborted : List (Nat × List Write)    -- ghost: transactions that ended any other way

def St.init : St :=
  { db := [], slot := none, owner := .free, spawn := .none, queue := [], pc := fun _ => .idle, hist := [],
    aborted := [] }

def upd (pc : Nat → PC) (t : Nat) (v : PC) : Nat → PC := fun u => if u = t then v else pc u

inductive Act where
  | want (t : Nat)
  | opened (t : Nat)
  | cancelWait (t : Nat)
  | cancelAcquired (t : Nat)
  | write (t n : Nat) (bad : Bool)
  | commitTake (t : Nat)
  | commitDone (t : Nat)
  | commitFail (t : Nat)
  | cancelCommit (t : Nat) (applied : Bool)
  | rollbackTake (t : Nat)
  | rollbackDone (t : Nat)
  | cancelRollback (t : Nat)
  | dropPermit (t : Nat)
  | rbTake
  | rbRelease
deriving DecidableEq, Repr

def noBad (buf : List Write) : Bool := buf.all (fun w => !w.bad)

/-- The permit is given back: the head of the queue (if any) gets it at once. `s` is the state in which the
    releasing party has already been updated. -/
def release (s : St) : St :=
  match s.queue with
  | [] => { s with owner := .free }
  | u :: q => { s with owner := .task u, queue := q, pc := upd s.pc u .acquired }

/-- The executable transition function: `none` = the action is not enabled in this state. -/
def stepFn (s : St) : Act → Option St
  | .want t =>
    match s.pc t, s.owner with
    | .idle, .free => some { s with owner := .task t, pc := upd s.pc t .acquired }
    | .idle, _ => some { s with queue := s.queue ++ [t], pc := upd s.pc t .waiting }
    | _, _ => none
  | .opened t =>
    match s.pc t, s.slot with
    | .acquired, none => some { s with slot := some [], pc := upd s.pc t (.inTx []) }
    | _, _ => none   -- with the slot occupied the `assert!` in `begin` panics: shown unreachable (c10_mutex)
  | .cancelWait t =>
    match s.pc t with
    | .waiting => some { s with queue := s.queue.erase t, pc := upd s.pc t .idle }
    | _ => none
  | .cancelAcquired t =>
    match s.pc t with
    | .acquired => some (release { s with pc := upd s.pc t .idle })
    | _ => none
  | .write t n bad =>
    match s.pc t, s.slot with
    | .inTx ws, some buf =>
      let w : Write := { tid := t, n := n, bad := bad }
      some { s with slot := some (buf ++ [w]), pc := upd s.pc t (.inTx (ws ++ [w])) }
    | _, _ => none
  | .commitTake t =>
    match s.pc t, s.slot with
    | .inTx ws, some buf => some { s with slot := none, pc := upd s.pc t (.committing buf ws) }
    | _, _ => none
  | .commitDone t =>
    match s.pc t with
    | .committing buf ws =>
      if noBad buf then
        some (release { s with db := s.db ++ buf, hist := s.hist ++ [(t, ws)], pc := upd s.pc t .idle })
      else none
    | _ => none
  | .commitFail t =>
    match s.pc t with
    | .committing _ ws =>
      some (release { s with aborted := s.aborted ++ [(t, ws)], pc := upd s.pc t .idle })
    | _ => none
  | .cancelCommit t applied =>
    match s.pc t with
    | .committing buf ws =>
      if applied then
        if noBad buf then
          some { s with db := s.db ++ buf, hist := s.hist ++ [(t, ws)], owner := .spawned, spawn := .pending,
                        pc := upd s.pc t .idle }
        else none
      else
        some { s with aborted := s.aborted ++ [(t, ws)], owner := .spawned, spawn := .pending,
                      pc := upd s.pc t .idle }
    | _ => none
  | .rollbackTake t =>
    match s.pc t, s.slot with
    | .inTx ws, some _ => some { s with slot := none, pc := upd s.pc t (.rollingBack ws) }
    | _, _ => none
  | .rollbackDone t =>
    match s.pc t with
    | .rollingBack ws =>
      some (release { s with aborted := s.aborted ++ [(t, ws)], pc := upd s.pc t .idle })
    | _ => none
  | .cancelRollback t =>
    match s.pc t with
    | .rollingBack ws =>
      some { s with aborted := s.aborted ++ [(t, ws)], owner := .spawned, spawn := .pending,
                    pc := upd s.pc t .idle }
    | _ => none
  | .dropPermit t =>
    match s.pc t with
    | .inTx ws =>
      some { s with aborted := s.aborted ++ [(t, ws)], owner := .spawned, spawn := .pending,
                    pc := upd s.pc t .idle }
    | _ => none
  | .rbTake =>
    match s.spawn with
    | .pending => some { s with slot := none, spawn := .releasing }
    | _ => none
  | .rbRelease =>
    match s.spawn with
    | .releasing => some (release { s with spawn := .none })
    | _ => none

/-- Run a list of actions; `none` as soon as one is not enabled. -/
def runActs (s : St) : List Act → Option St
  | [] => some s
  | a :: as => match stepFn s a with
    | none => none
    | some s' => runActs s' as

/-- The pinned alternative the harness is designed to catch: `Drop` releases the permit at once and only the
    rollback is left to the spawned task (what "release before the rollback finishes" would be). Used only for
    the counterexample in `P2.Props.C10`. -/
def stepFnEarlyRelease (s : St) : Act → Option St
  | .dropPermit t =>
    match s.pc t with
    | .inTx ws =>
      some (release { s with aborted := s.aborted ++ [(t, ws)], spawn := .pending, pc := upd s.pc t .idle })
    | _ => none
  | .rbRelease =>
    match s.spawn with
    | .releasing => some { s with spawn := .none }
    | _ => none
  | a => stepFn s a

end P2.TxLts
