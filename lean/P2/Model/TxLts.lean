/-
Labelled transition system for the transaction protocol of `p2panda-store/src/sqlite.rs`
(`SqliteStore::{begin, tx, commit, rollback}`, `TransactionPermit` + `Drop`, the `tx!` macro).  Import-free.

Any number of tasks (`pc : Nat → PC`); a task is a program counter over the await points of the code:

  begin():     `acquire_owned().await`   idle → acquired if the permit is free, else idle → waiting (queued);
                                          tokio's semaphore is fair: whoever releases the permit hands it to the
                                          head of the queue in the same step (waiting → acquired), nobody can
                                          barge in; a cancelled waiter leaves the queue, a cancelled `acquired`
                                          task passes the permit on
               `tx.lock()`, assert `tx_ref.is_none()`, `pool.begin().await`, `tx_ref.replace(tx)`
                                          acquired → inTx                 (needs the slot to be empty)
  tx(f):       `let mut tx_ref = self.tx.lock().await` … `f(tx).await` with the guard alive: two steps,
               `txEnter h` (slot lock taken, the query is in flight) and `txExit h n bad` (row written, lock
               released) / `txCancel h` (the query future was dropped). `h` is *any* task: the store's
               documented pattern lets several processes share one transaction, so a query may be in flight
               on behalf of a task that does not hold the permit, also while the permit holder drops it.
               Everybody who takes the transaction out of the slot (`commit`, `rollback`, the clean-up task)
               needs that lock and therefore waits for a query in flight.
  commit():    `tx.lock().await.take()`  inTx → committing               (the sqlx transaction is now a local)
               `tx.commit().await` ; `permit.mark_committed_and_drop()`   committing → idle, permit free
               future dropped during `tx.commit().await`: SQLite may or may not have committed
               (`cancelCommit applied`), the `TransactionPermit` local is dropped uncommitted → spawned task
  rollback():  same shape
  Drop for TransactionPermit (explicit drop, `?` early return, panic, cancelled task, …):
               `tokio::spawn(async { if let Some(tx) = tx.lock().await.take() { tx.rollback().await } drop(permit) })`
               the spawned task owns (a clone of) the semaphore permit: `rbTake` then `rbRelease`.

SQLite / sqlx are the assumption "commit applies the transaction's buffer, anything else discards it"; a commit
of a buffer containing a `bad` write (deferred constraint violation) fails and applies nothing.

Every row carries the number `txn` of the transaction (counted by `opened`) it was written in.
Ghost components (`hist`, `aborted`, the `txn` tags) exist only to state the theorems; no transition is guarded
by them. `stash` is always `none` here; it only exists for the counterexample variant `stepFnTakeOut`.
-/
namespace P2.TxLts

structure Write where
  tid : Nat      -- the task that issued the statement
  n : Nat
  bad : Bool
  txn : Nat      -- ghost: number of the transaction it was issued in
deriving DecidableEq, Repr

inductive PC where
  | idle
  | waiting
  | acquired
  | inTx
  | committing (buf : List Write)
  | rollingBack
deriving DecidableEq, Repr

/-- Who owns the single semaphore permit. -/
inductive Owner where
  | free
  | task (t : Nat)
  | spawned
deriving DecidableEq, Repr

/-- State of the rollback task spawned by `Drop for TransactionPermit`. -/
inductive Spawn where
  | none
  | pending      -- spawned, has not yet taken the transaction out of the slot
  | releasing    -- rollback finished (or nothing to roll back), `drop(permit)` still to come
deriving DecidableEq, Repr

structure St where
  db : List Write                      -- committed rows, in commit order
  slot : Option (List Write)           -- `SqliteStore::tx`: the open sqlx transaction (its uncommitted rows)
  lock : Option Nat                    -- the slot mutex is held by a `tx()` call of this task (query in flight)
  stash : Option (List Write)          -- only used by `stepFnTakeOut`: a transaction taken out of the slot by `tx()`
  owner : Owner
  spawn : Spawn
  queue : List Nat                     -- tasks parked on the semaphore, in arrival order (tokio: FIFO)
  pc : Nat → PC
  txn : Nat                            -- ghost: transactions opened so far (= number of the current one)
  hist : List (Nat × List Write)       -- ghost: committed transactions in commit order (number, rows)
  aborted : List Nat                   -- ghost: numbers of the transactions that ended any other way

def St.init : St :=
  { db := [], slot := none, lock := none, stash := none, owner := .free, spawn := .none, queue := [],
    pc := fun _ => .idle, txn := 0, hist := [], aborted := [] }

def upd (pc : Nat → PC) (t : Nat) (v : PC) : Nat → PC := fun u => if u = t then v else pc u

inductive Act where
  | want (t : Nat)
  | opened (t : Nat)
  | cancelWait (t : Nat)
  | cancelAcquired (t : Nat)
  | txEnter (h : Nat)
  | txExit (h n : Nat) (bad : Bool)
  | txCancel (h : Nat)
  | commitTake (t : Nat)
  | commitDone (t : Nat)
  | commitFail (t : Nat)
  | cancelCommit (t : Nat) (applied : Bool)
  | rollbackTake (t : Nat)
  | rollbackDone (t : Nat)
  | cancelRollback (t : Nat)
  | dropPermit (t : Nat)
  | rbTake
  | rbRelease
deriving DecidableEq, Repr

def noBad (buf : List Write) : Bool := buf.all (fun w => !w.bad)

/-- The permit is given back: the head of the queue (if any) gets it at once. `s` is the state in which the
    releasing party has already been updated. -/
def release (s : St) : St :=
  match s.queue with
  | [] => { s with owner := .free }
  | u :: q => { s with owner := .task u, queue := q, pc := upd s.pc u .acquired }

/-- The executable transition function: `none` = the action is not enabled in this state. -/
def stepFn (s : St) : Act → Option St
  | .want t =>
    match s.pc t, s.owner with
    | .idle, .free => some { s with owner := .task t, pc := upd s.pc t .acquired }
    | .idle, _ => some { s with queue := s.queue ++ [t], pc := upd s.pc t .waiting }
    | _, _ => none
  | .opened t =>
    match s.pc t, s.slot, s.lock with
    | .acquired, none, none => some { s with slot := some [], txn := s.txn + 1, pc := upd s.pc t .inTx }
    | _, _, _ => none   -- with the slot occupied the `assert!` in `begin` panics: shown unreachable (c10_mutex)
  | .cancelWait t =>
    match s.pc t with
    | .waiting => some { s with queue := s.queue.erase t, pc := upd s.pc t .idle }
    | _ => none
  | .cancelAcquired t =>
    match s.pc t with
    | .acquired => some (release { s with pc := upd s.pc t .idle })
    | _ => none
  | .txEnter h =>
    match s.slot, s.lock with
    | some _, none => some { s with lock := some h }
    | _, _ => none     -- no transaction: `TransactionMissing`; lock taken: the call waits
  | .txExit h n bad =>
    match s.slot with
    | some buf =>
      if s.lock = some h then
        some { s with slot := some (buf ++ [{ tid := h, n := n, bad := bad, txn := s.txn }]), lock := none }
      else none
    | none => none
  | .txCancel h =>
    if s.lock = some h then some { s with lock := none } else none
  | .commitTake t =>
    match s.pc t, s.slot, s.lock with
    | .inTx, some buf, none => some { s with slot := none, pc := upd s.pc t (.committing buf) }
    | _, _, _ => none
  | .commitDone t =>
    match s.pc t with
    | .committing buf =>
      if noBad buf then
        some (release { s with db := s.db ++ buf, hist := s.hist ++ [(s.txn, buf)], pc := upd s.pc t .idle })
      else none
    | _ => none
  | .commitFail t =>
    match s.pc t with
    | .committing _ =>
      some (release { s with aborted := s.aborted ++ [s.txn], pc := upd s.pc t .idle })
    | _ => none
  | .cancelCommit t applied =>
    match s.pc t with
    | .committing buf =>
      if applied then
        if noBad buf then
          some { s with db := s.db ++ buf, hist := s.hist ++ [(s.txn, buf)], owner := .spawned, spawn := .pending,
                        pc := upd s.pc t .idle }
        else none
      else
        some { s with aborted := s.aborted ++ [s.txn], owner := .spawned, spawn := .pending,
                      pc := upd s.pc t .idle }
    | _ => none
  | .rollbackTake t =>
    match s.pc t, s.slot, s.lock with
    | .inTx, some _, none => some { s with slot := none, pc := upd s.pc t .rollingBack }
    | _, _, _ => none
  | .rollbackDone t =>
    match s.pc t with
    | .rollingBack =>
      some (release { s with aborted := s.aborted ++ [s.txn], pc := upd s.pc t .idle })
    | _ => none
  | .cancelRollback t =>
    match s.pc t with
    | .rollingBack =>
      some { s with aborted := s.aborted ++ [s.txn], owner := .spawned, spawn := .pending,
                    pc := upd s.pc t .idle }
    | _ => none
  | .dropPermit t =>
    -- no lock needed: the permit can be dropped while a query of a task sharing the transaction is in flight
    match s.pc t with
    | .inTx =>
      some { s with aborted := s.aborted ++ [s.txn], owner := .spawned, spawn := .pending,
                    pc := upd s.pc t .idle }
    | _ => none
  | .rbTake =>
    -- `tx.lock().await.take()`: waits for a query in flight
    match s.spawn, s.lock with
    | .pending, none => some { s with slot := none, spawn := .releasing }
    | _, _ => none
  | .rbRelease =>
    match s.spawn with
    | .releasing => some (release { s with spawn := .none })
    | _ => none

/-- Run a list of actions; `none` as soon as one is not enabled. -/
def runActs (s : St) : List Act → Option St
  | [] => some s
  | a :: as => match stepFn s a with
    | none => none
    | some s' => runActs s' as

/-- Variant the harness is designed to catch: `Drop` releases the permit at once and only the rollback is left
    to the spawned task. Used only for the counterexample in `P2.Props.C10`. -/
def stepFnEarlyRelease (s : St) : Act → Option St
  | .dropPermit t =>
    match s.pc t with
    | .inTx =>
      some (release { s with aborted := s.aborted ++ [s.txn], spawn := .pending, pc := upd s.pc t .idle })
    | _ => none
  | .rbRelease =>
    match s.spawn with
    | .releasing => some { s with spawn := .none }
    | _ => none
  | a => stepFn s a

/-- Variant "do not hold the slot lock across the query": `tx()` takes the transaction out of the slot, runs the
    query on the local value and puts it back afterwards. The slot is empty while a query is in flight, so
    nobody waits for it. Used only for the counterexample in `P2.Props.C10`. -/
def stepFnTakeOut (s : St) : Act → Option St
  | .txEnter h =>
    match s.slot, s.stash with
    | some buf, none => some { s with slot := none, stash := some buf, lock := some h }
    | _, _ => none
  | .txExit h n bad =>
    match s.stash with
    | some buf =>
      if s.lock = some h then
        some { s with slot := some (buf ++ [{ tid := h, n := n, bad := bad, txn := s.txn }]), stash := none,
                      lock := none }
      else none
    | none => none
  | .rbTake =>
    match s.spawn with
    | .pending => some { s with slot := none, spawn := .releasing }
    | _ => none
  | .opened t =>
    match s.pc t, s.slot with
    | .acquired, none => some { s with slot := some [], txn := s.txn + 1, pc := upd s.pc t .inTx }
    | _, _ => none
  | a => stepFn s a

end P2.TxLts
