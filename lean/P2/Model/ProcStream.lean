/-
Labelled transition systems for the processor stream layer
(`p2panda-stream/src/processors/{buffered,stream,composed,pipeline}.rs`).

Items are `Nat`s. Processing delays, arrival times and polling times are *not* parameters: every
enabled transition may fire at any time, which covers every delay script.

`SL` — one `ProcessorStream` over one cancel-safe processor:
  input stream (`src`) → `tx.send` (`inCh`) → `Buffer`: `select!{ recv → process(x).await | next() → send }`
  → output channel (`outCh`) → items yielded by `poll_next` (`yielded`).
  The processor is a box of accepted items; `next()` takes one out (`nextAt i`; a FIFO processor only
  `i = 0`). Dropping a pending `next()` future of a cancel-safe processor changes nothing, so the
  `recv` transition (input arm wins, `next` future dropped) needs no extra effect.

`CS` — the same `Buffer` over `ComposedProcessors{first, second}`:
  `next()` = `loop { select!{ i = first.next() → { second.process(i).await; yield_now().await }
                              | o = second.next() → return o } }`
  `hand = some i`: `first.next()` resolved with `i`, `second.process(i)` has not completed yet.
  `recv` (Buffer's input arm wins) drops the whole `next()` future — and with it `i` (`lost`).
  `guard = true` describes a second stage whose `process` never yields (the hand-over is atomic: `recv`
  is not enabled while `hand` is occupied).
No imports: linked into the driver executable.
-/
namespace P2.ProcStream

/-! ## Single layer -/

structure SL where
  src : List Nat        -- not yet pulled from the input stream
  inCh : List Nat       -- in Buffer's input channel
  busy : Option Nat     -- Buffer is inside `processor.process(x).await`
  box : List Nat        -- accepted by the processor, not yet returned by `next`
  outCh : List Nat      -- in Buffer's output channel
  yielded : List Nat    -- yielded by the stream
deriving Repr, DecidableEq

inductive ActS where
  | pull                -- `poll_next`: input stream ready → `tx.send`
  | recv                -- `select!`: `input_rx.recv()` wins; the pending `next()` future is dropped
  | procDone            -- `processor.process(x).await` completes
  | nextAt (i : Nat)    -- `select!`: `processor.next()` wins with the i-th item of the box → `output_tx.send`
  | yld                 -- `poll_next`: `rx.poll_recv` ready → item yielded
deriving Repr, DecidableEq

def initS (inputs : List Nat) : SL :=
  { src := inputs, inCh := [], busy := none, box := [], outCh := [], yielded := [] }

def stepS (s : SL) : ActS → Option SL
  | ActS.pull =>
    match s.src with
    | x :: r => some { s with src := r, inCh := s.inCh ++ [x] }
    | [] => none
  | ActS.recv =>
    match s.busy, s.inCh with
    | none, x :: r => some { s with inCh := r, busy := some x }
    | _, _ => none
  | ActS.procDone =>
    match s.busy with
    | some x => some { s with busy := none, box := s.box ++ [x] }
    | none => none
  | ActS.nextAt i =>
    match s.busy, s.box[i]? with
    | none, some x => some { s with box := s.box.eraseIdx i, outCh := s.outCh ++ [x] }
    | _, _ => none
  | ActS.yld =>
    match s.outCh with
    | x :: r => some { s with outCh := r, yielded := s.yielded ++ [x] }
    | [] => none

def runS : SL → List ActS → Option SL
  | s, [] => some s
  | s, a :: as =>
    match stepS s a with
    | none => none
    | some s' => runS s' as

/-- Everything in the layer, oldest first. -/
def seqS (s : SL) : List Nat :=
  s.yielded ++ s.outCh ++ s.box ++ s.busy.toList ++ s.inCh ++ s.src

/-- Only FIFO `next`: every `nextAt` takes the head. -/
def fifoS : List ActS → Bool
  | [] => true
  | ActS.nextAt i :: as => i == 0 && fifoS as
  | _ :: as => fifoS as

/-! ## Composed processors inside one Buffer -/

structure CS where
  src : List Nat
  inCh : List Nat
  busy : Option Nat     -- Buffer inside `composed.process(x)` = `first.process(x)`
  box1 : List Nat       -- first stage
  hand : Option Nat     -- `composed.next()` is at `second.process(i).await`
  box2 : List Nat       -- second stage
  outCh : List Nat
  yielded : List Nat
  lost : List Nat       -- ghost: items dropped together with a cancelled `next()` future
deriving Repr, DecidableEq

inductive ActC where
  | pull
  | recv                -- Buffer's input arm wins: the `composed.next()` future is dropped
  | procDone
  | firstWins           -- inner `select!`: `first.next()` resolves (FIFO head of `box1`)
  | handDone            -- `second.process(i).await` completes
  | secondWins          -- inner `select!`: `second.next()` resolves → `output_tx.send`
  | yld
deriving Repr, DecidableEq

def initC (inputs : List Nat) : CS :=
  { src := inputs, inCh := [], busy := none, box1 := [], hand := none, box2 := [], outCh := [], yielded := [],
    lost := [] }

def stepC (guard : Bool) (s : CS) : ActC → Option CS
  | ActC.pull =>
    match s.src with
    | x :: r => some { s with src := r, inCh := s.inCh ++ [x] }
    | [] => none
  | ActC.recv =>
    match s.busy, s.inCh with
    | none, x :: r =>
      if guard && s.hand.isSome then none
      else some { s with inCh := r, busy := some x, hand := none, lost := s.lost ++ s.hand.toList }
    | _, _ => none
  | ActC.procDone =>
    match s.busy with
    | some x => some { s with busy := none, box1 := s.box1 ++ [x] }
    | none => none
  | ActC.firstWins =>
    match s.busy, s.hand, s.box1 with
    | none, none, x :: r => some { s with box1 := r, hand := some x }
    | _, _, _ => none
  | ActC.handDone =>
    match s.busy, s.hand with
    | none, some x => some { s with hand := none, box2 := s.box2 ++ [x] }
    | _, _ => none
  | ActC.secondWins =>
    match s.busy, s.hand, s.box2 with
    | none, none, x :: r => some { s with box2 := r, outCh := s.outCh ++ [x] }
    | _, _, _ => none
  | ActC.yld =>
    match s.outCh with
    | x :: r => some { s with outCh := r, yielded := s.yielded ++ [x] }
    | [] => none

def runC (guard : Bool) : CS → List ActC → Option CS
  | s, [] => some s
  | s, a :: as =>
    match stepC guard s a with
    | none => none
    | some s' => runC guard s' as

def seqC (s : CS) : List Nat :=
  s.yielded ++ s.outCh ++ s.box2 ++ s.hand.toList ++ s.box1 ++ s.busy.toList ++ s.inCh ++ s.src

/-- What the stream yields once everything has drained, given the items whose hand-over was cancelled:
    the inputs in order without them (theorem `c13_composed_accounting`). -/
def expected (inputs lost : List Nat) : List Nat := inputs.filter (fun x => !lost.contains x)

end P2.ProcStream
