/-
Text form of token streams and headers used on the request / answer lines of the
header-family drivers (C01, C02, C03, C04, C05).  Import-free.

  token   A<n> M<n> u<n> n<n> b<len>:<id> t<id> T F N X
  header  v=<n> k=<id> s=<id|-> z=<n> ph=<id|-> q=<n> bl=<id|-> x=<ext>
  ext     -                      ()
          c:<a>:<T|F>            Custom
          B:<log>:<ts>:<T|F>     Node basic
          C:<log>:<ts>:<ids|->   Node causal, ids separated by '.'
-/
import P2.Model.Header

namespace P2.Header

def natOfChars (cs : List Char) : Option Nat :=
  if cs.isEmpty then none else (String.ofList cs).toNat?

def splitChars (sep : Char) (cs : List Char) : List (List Char) :=
  let rec go (cur : List Char) (acc : List (List Char)) : List Char → List (List Char)
    | [] => (cur.reverse :: acc).reverse
    | c :: r => if c = sep then go [] (cur.reverse :: acc) r else go (c :: cur) acc r
  go [] [] cs

def parseBoolC : List Char → Option Bool
  | ['T'] => some true
  | ['F'] => some false
  | _ => none

def renderBool (b : Bool) : String := if b then "T" else "F"

def parseTok (s : String) : Option Tok :=
  match s.toList with
  | 'A' :: r => (natOfChars r).map Tok.arr
  | 'M' :: r => (natOfChars r).map Tok.map
  | 'u' :: r => (natOfChars r).map Tok.uint
  | 'n' :: r => (natOfChars r).map Tok.nint
  | 't' :: r => (natOfChars r).map Tok.text
  | 'b' :: r =>
    match splitChars ':' r with
    | [l, i] => match natOfChars l, natOfChars i with
      | some l, some i => some (Tok.bytes l i)
      | _, _ => none
    | _ => none
  | ['T'] => some (Tok.bool true)
  | ['F'] => some (Tok.bool false)
  | ['N'] => some Tok.null
  | ['X'] => some Tok.other
  | _ => none

def renderTok : Tok → String
  | .arr n => s!"A{n}"
  | .map n => s!"M{n}"
  | .uint n => s!"u{n}"
  | .nint n => s!"n{n}"
  | .bytes l i => s!"b{l}:{i}"
  | .text i => s!"t{i}"
  | .bool b => renderBool b
  | .null => "N"
  | .other => "X"

def renderToks (ts : List Tok) : String := " ".intercalate (ts.map renderTok)

def parseToks (ss : List String) : Option (List Tok) := ss.mapM parseTok

def renderOptNat : Option Nat → String
  | none => "-"
  | some n => toString n

def parseOptNatC (cs : List Char) : Option (Option Nat) :=
  if cs = ['-'] then some none else (natOfChars cs).map some

def stripPrefix (p : String) (s : String) : Option (List Char) :=
  let pl := p.toList
  let sl := s.toList
  if pl.isPrefixOf sl then some (sl.drop pl.length) else none

/-- Text form of an extensions type together with its codec. -/
structure ExtText (E : Type) where
  codec : ExtCodec E
  render : E → String
  parse : List Char → Option E
  /-- log id the delivery of an operation with these extensions is ingested under -/
  lg : E → Nat
  /-- prune flag derived from the extensions -/
  pf : E → Bool

def unitText : ExtText Unit :=
  { codec := unitCodec, render := fun _ => "-", parse := fun cs => if cs = ['-'] then some () else none,
    lg := fun _ => 0, pf := fun _ => false }

def customText : ExtText Custom :=
  { codec := customCodec
    render := fun e => s!"c:{e.a}:{renderBool e.flag}"
    parse := fun cs =>
      match splitChars ':' cs with
      | [['c'], a, f] => match natOfChars a, parseBoolC f with
        | some a, some f => some { a := a, flag := f }
        | _, _ => none
      | _ => none
    lg := fun e => e.a
    pf := fun e => e.flag }

def renderIds (l : List Nat) : String :=
  if l.isEmpty then "-" else ".".intercalate (l.map toString)

def parseIds (cs : List Char) : Option (List Nat) :=
  if cs = ['-'] then some [] else (splitChars '.' cs).mapM natOfChars

def renderNode : NodeExt → String
  | .basic l t p => s!"B:{l}:{t}:{renderBool p}"
  | .causal l t prev => s!"C:{l}:{t}:{renderIds prev}"

def parseNode (cs : List Char) : Option NodeExt :=
  match splitChars ':' cs with
  | [['B'], l, t, p] => match natOfChars l, natOfChars t, parseBoolC p with
    | some l, some t, some p => some (.basic l t p)
    | _, _, _ => none
  | [['C'], l, t, prev] => match natOfChars l, natOfChars t, parseIds prev with
    | some l, some t, some prev => some (.causal l t prev)
    | _, _, _ => none
  | _ => none

def nodeText : ExtText NodeExt :=
  { codec := nodeCodec, render := renderNode, parse := parseNode, lg := NodeExt.logId, pf := NodeExt.pruneFlag }

def renderHeader {E : Type} (x : ExtText E) (h : Header E) : String :=
  s!"v={h.version} k={h.key} s={renderOptNat h.signature} z={h.payloadSize} ph={renderOptNat h.payloadHash} q={h.seq} bl={renderOptNat h.backlink} x={x.render h.ext}"

/-- Parse the eight `name=value` tokens of a header. -/
def parseHeader {E : Type} (x : ExtText E) : List String → Option (Header E)
  | [v, k, s, z, ph, q, bl, e] =>
    match (stripPrefix "v=" v).bind natOfChars, (stripPrefix "k=" k).bind natOfChars,
          (stripPrefix "s=" s).bind parseOptNatC, (stripPrefix "z=" z).bind natOfChars,
          (stripPrefix "ph=" ph).bind parseOptNatC, (stripPrefix "q=" q).bind natOfChars,
          (stripPrefix "bl=" bl).bind parseOptNatC, (stripPrefix "x=" e).bind x.parse with
    | some v, some k, some s, some z, some ph, some q, some bl, some e =>
      some { version := v, key := k, signature := s, payloadSize := z, payloadHash := ph,
             seq := q, backlink := bl, ext := e }
    | _, _, _, _, _, _, _, _ => none
  | _ => none

/-- `S <key> <sig> <tok>*` sections → signature table. -/
def parseSigEntry : List String → Option (Nat × List Tok × Nat)
  | "S" :: k :: s :: toks =>
    match k.toNat?, s.toNat?, parseToks toks with
    | some k, some s, some ts => some (k, ts, s)
    | _, _, _ => none
  | _ => none

end P2.Header
