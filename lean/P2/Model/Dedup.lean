/-
Model of `p2panda-sync/src/dedup.rs` (`DeduplicationBuffer<T>`).

`buf` is the `VecDeque` (oldest first), `set` the `HashSet` (as a list; only membership is
ever used), `cap` is `VecDeque::capacity()` which for the capacities the code is built with
equals the requested capacity (checked by the harness on every run).
No imports: this file is linked into the driver executable.
-/
namespace P2.Dedup

structure Buf (α : Type) where
  cap : Nat
  buf : List α
  set : List α
deriving Repr

variable {α : Type} [DecidableEq α]

def new (cap : Nat) : Buf α := { cap := cap, buf := [], set := [] }

/-- `DeduplicationBuffer::insert`. -/
def Buf.insert (s : Buf α) (x : α) : Buf α × Bool :=
  if x ∈ s.set then (s, false)
  else
    let evict := s.buf.length + 1 > s.cap
    let buf' := if evict then s.buf.tail else s.buf
    let set' := if evict then (match s.buf.head? with
                               | some e => s.set.erase e
                               | none => s.set) else s.set
    ({ cap := s.cap, buf := buf' ++ [x], set := x :: set' }, true)

/-- `DeduplicationBuffer::contains`. -/
def Buf.contains (s : Buf α) (x : α) : Bool := decide (x ∈ s.set)

/-- Run a list of inserts, returning the final buffer and the answers. -/
def run (s : Buf α) : List α → Buf α × List Bool
  | [] => (s, [])
  | x :: xs =>
    let (s', b) := s.insert x
    let (s'', bs) := run s' xs
    (s'', b :: bs)

/-- The accepted subsequence: inputs whose `insert` returned `true`, in order. -/
def accepted (s : Buf α) : List α → List α
  | [] => []
  | x :: xs =>
    let (s', b) := s.insert x
    if b then x :: accepted s' xs else accepted s' xs

/-- Final state after a list of inserts. -/
def after (s : Buf α) (xs : List α) : Buf α := xs.foldl (fun s x => (s.insert x).1) s

/-- The last `n` elements of a list. -/
def lastN (n : Nat) (l : List α) : List α := l.drop (l.length - n)

end P2.Dedup
