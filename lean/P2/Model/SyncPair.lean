/-
Message-level model of a completed log-sync session between two replicas (C19).

A replica is its operation table (`operations_v1`: author, log, seq, hash-id, wire size) plus the
session's `logs` argument (`scope`).  The three `LogStore` queries the protocol uses are
transcribed from `p2panda-store/src/logs/sqlite/mod.rs`:

* `getHeights`  — `SELECT log_id, MAX(seq_num) … WHERE verifying_key = ? AND log_id IN (…) GROUP BY log_id`
                  (`None` when no row),
* `getSize`     — `COUNT(*)`, `SUM(header_size) + SUM(payload_size)` over `seq_num >[=] after AND seq_num <= until`
                  (always `Some`),
* `getEntries`  — the same rows `ORDER BY seq_num` (`None` when empty).

On top: what each side announces (`haveOf`), what it owes the other (`needs = compare`), what it
sends (`sendList`, `transcript`) and what the receiver's event stream carries (`received`: the
send list filtered by the receiver's de-duplication buffer).  The `select!` concurrency of the real
loop is abstracted to FIFO delivery; its liveness is C21's subject, the per-side state machine is
`P2.Sync.run` (C20).
-/
import P2.Model.SyncProto

namespace P2.Sync

structure SOp where
  a : Nat
  l : Nat
  s : Nat
  id : Nat
  bytes : Nat
deriving DecidableEq, Repr

structure Replica where
  store : List SOp
  scope : List (Nat × List Nat)
deriving Repr

/-- sorted insert without duplicates (`BTreeMap` key order) -/
def insSorted (x : Nat) : List Nat → List Nat
  | [] => [x]
  | y :: ys => if x < y then x :: y :: ys else if x = y then y :: ys else y :: insSorted x ys

def sortDedup (l : List Nat) : List Nat := l.foldr insSorted []

/-- `MAX(seq_num)` of a log, `none` when the log has no row -/
def maxSeq (store : List SOp) (a l : Nat) : Option Nat :=
  store.foldl (fun acc e =>
    if e.a = a ∧ e.l = l then
      match acc with
      | none => some e.s
      | some m => some (max m e.s)
    else acc) none

/-- `get_log_heights(author, logs)` -/
def getHeights (store : List SOp) (a : Nat) (logs : List Nat) : Option LogMap :=
  let m := (sortDedup logs).filterMap fun l => (maxSeq store a l).map fun h => (l, h)
  if m.isEmpty then none else some m

/-- `seq_num > after` (`>= 0` when `after` is `None`) `AND seq_num <= until` -/
def inRange (r : Range) (s : Nat) : Bool :=
  (match r.1 with
   | none => true
   | some x => decide (x < s)) &&
  (match r.2 with
   | none => true
   | some u => decide (s ≤ u))

def insBySeq (e : SOp) : List SOp → List SOp
  | [] => [e]
  | x :: xs => if e.s ≤ x.s then e :: x :: xs else x :: insBySeq e xs

/-- `ORDER BY seq_num` -/
def sortBySeq (l : List SOp) : List SOp := l.foldr insBySeq []

/-- the rows of one log inside a range, ascending -/
def selectLog (store : List SOp) (a l : Nat) (r : Range) : List SOp :=
  sortBySeq (store.filter fun e => e.a = a && e.l = l && inRange r e.s)

def sumBytes (es : List SOp) : Nat := (es.map (·.bytes)).sum

/-- `get_log_size` -/
def getSize (store : List SOp) (a l : Nat) (r : Range) : Option (Nat × Nat) :=
  let es := selectLog store a l r
  some (es.length, sumBytes es)

/-- `get_log_entries` -/
def getEntries (store : List SOp) (a l : Nat) (r : Range) : Option (List SOp) :=
  let es := selectLog store a l r
  if es.isEmpty then none else some es

/-- `get_log_heights(&store, &logs)` of `log_sync.rs`: the `Have` message -/
def haveOf (r : Replica) : Heights :=
  r.scope.filterMap fun al => (getHeights r.store al.1 al.2).map fun m => (al.1, m)

/-- what `a` owes `b` -/
def needs (a b : Replica) : Ranges := compare (haveOf a) (haveOf b)

/-- operations `a` sends to `b`, in sending order (authors and logs in map order, seq ascending) -/
def sendList (a b : Replica) : List SOp :=
  (needs a b).flatMap fun ar => ar.2.flatMap fun lr => selectLog a.store ar.1 lr.1 lr.2

/-- one `get_log_size` call of `SendPreSync` added to the running totals -/
def totalsStep (store : List SOp) (acc : Nat × Nat) (t : Nat × Nat × Range) : Nat × Nat :=
  match getSize store t.1 t.2.1 t.2.2 with
  | none => acc
  | some (n, by_) => (acc.1 + n, acc.2 + by_)

/-- totals of `SendPreSync`: `(operations, bytes)` summed over `get_log_size` of every needed range -/
def preSyncTotals (a b : Replica) : Nat × Nat :=
  (flattenNeeds (needs a b)).foldl (totalsStep a.store) (0, 0)

def toOp (e : SOp) : Op := { id := e.id, bytes := e.bytes }

/-- the complete sink transcript of `a` in a session with `b` (repaired code) -/
def transcript (a b : Replica) : List Msg :=
  let t := preSyncTotals a b
  if t.2 > 0 then
    Msg.have (haveOf a) :: Msg.preSync t.1 t.2 :: ((sendList a b).map fun e => Msg.op (toOp e)) ++ [Msg.done]
  else [Msg.have (haveOf a), Msg.done]

/-- operations that actually go out (nothing when `Done` was sent instead of `PreSync`) -/
def sentOps (a b : Replica) : List SOp := if (preSyncTotals a b).2 > 0 then sendList a b else []

/-- run a de-duplication buffer over a list, keeping the accepted items -/
def dedupFilter (buf : Dedup.Buf Nat) : List SOp → List SOp
  | [] => []
  | e :: es =>
    let (buf', fresh) := buf.insert e.id
    if fresh then e :: dedupFilter buf' es else dedupFilter buf' es

/-- `OperationReceived` events on `b`'s side: what `a` sent, through `b`'s de-duplication buffer -/
def received (cap : Nat) (a b : Replica) : List SOp := dedupFilter (Dedup.new cap) (sentOps a b)

/-- final metrics of side `a` -/
def finalMetrics (a b : Replica) : Metrics :=
  let o := preSyncTotals a b
  let i := preSyncTotals b a
  let i' : Nat × Nat := if i.2 > 0 then i else (0, 0)
  { outOps := o.1, outBytes := o.2, inOps := i'.1, inBytes := i'.2,
    sentOps := (sentOps a b).length, sentBytes := sumBytes (sentOps a b),
    recvOps := (sentOps b a).length, recvBytes := sumBytes (sentOps b a) }

/-- `INSERT OR IGNORE` of every received operation (keyed by hash) -/
def ingest (store : List SOp) (ops : List SOp) : List SOp :=
  ops.foldl (fun st e => if st.any (fun x => x.id = e.id) then st else st ++ [e]) store

def unionScope (x y : List (Nat × List Nat)) : List (Nat × List Nat) :=
  (sortDedup ((x.map (·.1)) ++ (y.map (·.1)))).map fun a =>
    (a, sortDedup (((x.filter (·.1 = a)).flatMap (·.2)) ++ ((y.filter (·.1 = a)).flatMap (·.2))))

/-- heights of `a` over the union of both scopes after ingesting what it received from `b` -/
def heightsAfter (cap : Nat) (a b : Replica) : Heights :=
  haveOf { store := ingest a.store (received cap b a), scope := unionScope a.scope b.scope }

end P2.Sync
