/-
Reference model of the SQLite stores of `p2panda-store` (import-free: linked into drv_c08 / drv_c09).

Transcribes
  * `logs/sqlite/mod.rs`      get_latest_entry(_tx), get_log_heights, get_log_size, get_log_entries, prune_entries
  * `operations/sqlite.rs`    insert_operation, get_operation(_tx), has_operation(_tx), delete_operation,
                              delete_operation_payload
  * `topics/sqlite.rs`        associate, remove, resolve
  * `cursors/sqlite.rs`       set_cursor, get_cursor, delete_cursor
  * `sqlite.rs`               which methods go through the open transaction (`self.tx(..)`, error
                              `TransactionMissing` without one) and which through the pool.

Tables are lists (rows in insertion order).  The comparison operators that appear in the SQL text are
*parameters* (`SqlOps`): `specOps` is what the property's reference model needs, `P2.Extracted.C08` holds what
the source text says now, and `P2.Props.C08.c08_extracted_ops` proves they coincide.

`SqliteStore::temporary()` has a single pooled connection: while a transaction is open every pool query waits
for that connection (`Ans.blocked`); `begin` while a transaction is open waits for the semaphore (`blocked`).
-/
namespace P2.StoreRef

/-- SQL comparison operator as it appears in the query text (`seq_num <op> ?`). -/
inductive Cmp where
  | lt | le | gt | ge
deriving DecidableEq, Repr

def Cmp.eval : Cmp → Nat → Nat → Bool
  | .lt, a, b => decide (a < b)
  | .le, a, b => decide (a ≤ b)
  | .gt, a, b => decide (a > b)
  | .ge, a, b => decide (a ≥ b)

def Cmp.parse (s : String) : Option Cmp :=
  if s = "<" then some .lt else if s = "<=" then some .le
  else if s = ">" then some .gt else if s = ">=" then some .ge else none

/-- Everything the reference model takes from the SQL text. -/
structure SqlOps where
  sizeAfterNone : Cmp   -- get_log_size, `after = None` (bound value 0)
  sizeAfterSome : Cmp   -- get_log_size, `after = Some a`
  sizeUntil : Cmp       -- get_log_size, `seq_num <op> until`
  entAfterNone : Cmp    -- get_log_entries …
  entAfterSome : Cmp
  entUntil : Cmp
  prune : Cmp           -- prune_entries, `seq_num <op> until`
  latestDesc : Bool     -- GET_LATEST_ENTRY: `ORDER BY seq_num DESC LIMIT 1`
  heightsMax : Bool     -- get_log_heights: `MAX(seq_num) … GROUP BY log_id`
  entriesAsc : Bool     -- get_log_entries: `ORDER BY seq_num` (ascending)
deriving DecidableEq, Repr

/-- The operators of the reference model: `after` exclusive (`None` = from 0 inclusive), `until` inclusive,
    prune strictly below, latest = maximal seq, heights = maximum per log, entries ascending. -/
def specOps : SqlOps :=
  { sizeAfterNone := .ge, sizeAfterSome := .gt, sizeUntil := .le,
    entAfterNone := .ge, entAfterSome := .gt, entUntil := .le,
    prune := .lt, latestDesc := true, heightsMax := true, entriesAsc := true }

def SqlOps.ofStrings (sn ss su en es eu pr latest agg order : String) : Option SqlOps :=
  match Cmp.parse sn, Cmp.parse ss, Cmp.parse su, Cmp.parse en, Cmp.parse es, Cmp.parse eu, Cmp.parse pr with
  | some sn, some ss, some su, some en, some es, some eu, some pr =>
    some { sizeAfterNone := sn, sizeAfterSome := ss, sizeUntil := su,
           entAfterNone := en, entAfterSome := es, entUntil := eu, prune := pr,
           latestDesc := decide (latest = "DESC LIMIT 1"),
           heightsMax := decide (agg = "MAX"),
           entriesAsc := decide (order = "seq_num") }
  | _, _, _, _, _, _, _ => none

/-- `SeqNum::MAX` (`u32`). -/
def seqMax : Nat := 4294967295

/-- One row of `operations_v1` (the columns the queries look at). `id` stands for the hash (primary key),
    `hsize` = `header_size`, `psize` = `payload_size` (the header field: survives payload deletion),
    `body` = the body column is non-NULL. -/
structure Row where
  id : Nat
  author : Nat
  log : Nat
  seq : Nat
  hsize : Nat
  psize : Nat
  body : Bool
deriving DecidableEq, Repr

/-- The three tables. -/
structure DB where
  ops : List Row
  topics : List (Nat × Nat × Nat)  -- (topic, author, data_id), UNIQUE
  cursors : List (Nat × Nat)       -- name ↦ cursor value, name PRIMARY KEY
deriving Repr

def DB.empty : DB := { ops := [], topics := [], cursors := [] }

/-! ### operations_v1 -/

def hasId (t : List Row) (id : Nat) : Bool := t.any (fun r => r.id == id)

def getId (t : List Row) (id : Nat) : Option Row := t.find? (fun r => r.id == id)

/-- `INSERT OR IGNORE … ; rows_affected() > 0`. -/
def insertOp (t : List Row) (r : Row) : List Row × Bool :=
  if hasId t r.id then (t, false) else (t ++ [r], true)

/-- `DELETE FROM operations_v1 WHERE hash = ?`. -/
def deleteOp (t : List Row) (id : Nat) : List Row × Bool :=
  (t.filter (fun r => r.id != id), hasId t id)

/-- `UPDATE operations_v1 SET body = NULL WHERE hash = ?` (a row that is already NULL still counts). -/
def deletePayload (t : List Row) (id : Nat) : List Row × Bool :=
  (t.map (fun r => if r.id == id then { r with body := false } else r), hasId t id)

/-- Rows of one author's log (`verifying_key = ? AND log_id = ?`). -/
def sel (t : List Row) (a l : Nat) : List Row := t.filter (fun r => r.author == a && r.log == l)

/-- `DELETE … WHERE verifying_key = ? AND log_id = ? AND seq_num <prune> ?`; returns `rows_affected`. -/
def pruneLog (o : SqlOps) (t : List Row) (a l u : Nat) : List Row × Nat :=
  let hit := fun (r : Row) => r.author == a && r.log == l && o.prune.eval r.seq u
  (t.filter (fun r => !hit r), (t.filter hit).length)

/-- Best row under a "better" relation, first one wins among equals. -/
def best (better : Row → Row → Bool) : List Row → Option Row
  | [] => none
  | r :: rs =>
    match best better rs with
    | none => some r
    | some b => if better b r then some b else some r

/-- `ORDER BY seq_num DESC LIMIT 1` (or ASC when the text says otherwise). -/
def latest (o : SqlOps) (t : List Row) (a l : Nat) : Option Row :=
  best (fun b r => if o.latestDesc then decide (b.seq > r.seq) else decide (b.seq < r.seq)) (sel t a l)

/-- Number of rows that share the extreme `seq` with the chosen row (> 1: SQL leaves the choice open). -/
def tiesOf (t : List Row) (a l : Nat) (r : Row) : Nat := ((sel t a l).filter (fun x => x.seq == r.seq)).length

def maxSeq : List Row → Option Nat
  | [] => none
  | r :: rs => match maxSeq rs with
    | none => some r.seq
    | some m => some (if m < r.seq then r.seq else m)

def minSeq : List Row → Option Nat
  | [] => none
  | r :: rs => match minSeq rs with
    | none => some r.seq
    | some m => some (if r.seq < m then r.seq else m)

/-- Insert into a strictly ascending list, dropping duplicates (`BTreeMap` key order). -/
def insertAsc (x : Nat) : List Nat → List Nat
  | [] => [x]
  | y :: ys => if x < y then x :: y :: ys else if x = y then y :: ys else y :: insertAsc x ys

def sortDedup (xs : List Nat) : List Nat := xs.foldr insertAsc []

/-- `get_log_heights` after the repair: `None` when no requested log has a row — including `logs = []`. -/
def heights (o : SqlOps) (t : List Row) (a : Nat) (logs : List Nat) : Option (List (Nat × Nat)) :=
  let agg := fun rs => if o.heightsMax then maxSeq rs else minSeq rs
  let hs := (sortDedup logs).filterMap (fun l => (agg (sel t a l)).map (fun h => (l, h)))
  if hs.isEmpty then none else some hs

def inRange (cNone cSome cUntil : Cmp) (after upto : Option Nat) (s : Nat) : Bool :=
  (match after with
   | none => cNone.eval s 0
   | some a => cSome.eval s a) && cUntil.eval s (upto.getD seqMax)

/-- `(count, header bytes + payload bytes)`; SQL `SUM` over no rows is NULL, decoded as 0. -/
def logSize (o : SqlOps) (t : List Row) (a l : Nat) (after upto : Option Nat) : Nat × Nat :=
  let rs := (sel t a l).filter (fun r => inRange o.sizeAfterNone o.sizeAfterSome o.sizeUntil after upto r.seq)
  (rs.length, (rs.map (fun r => r.hsize + r.psize)).sum)

/-- Order of `ORDER BY seq_num`; rows with equal `seq` (SQL: unspecified) are listed by id. -/
def rowLe (asc : Bool) (x y : Row) : Bool :=
  if x.seq = y.seq then decide (x.id ≤ y.id) else if asc then decide (x.seq < y.seq) else decide (y.seq < x.seq)

/-- insertion sort (structural recursion, so that concrete instances reduce by `decide`) -/
def insertRow (asc : Bool) (x : Row) : List Row → List Row
  | [] => [x]
  | y :: ys => if rowLe asc x y then x :: y :: ys else y :: insertRow asc x ys

def sortRows (asc : Bool) (rs : List Row) : List Row := rs.foldr (insertRow asc) []

def logEntries (o : SqlOps) (t : List Row) (a l : Nat) (after upto : Option Nat) : Option (List Row) :=
  let rs := (sel t a l).filter (fun r => inRange o.entAfterNone o.entAfterSome o.entUntil after upto r.seq)
  if rs.isEmpty then none else some (sortRows o.entriesAsc rs)

/-! ### topics_v1 -/

abbrev Triple := Nat × Nat × Nat

/-- `INSERT OR IGNORE` under `UNIQUE (topic, author, data_id)`. -/
def associate (t : List Triple) (x : Triple) : List Triple × Bool :=
  if t.contains x then (t, false) else (t ++ [x], true)

def unassociate (t : List Triple) (x : Triple) : List Triple × Bool :=
  (t.filter (fun y => y != x), t.contains x)

def insertPairAsc (x : Nat × Nat) : List (Nat × Nat) → List (Nat × Nat)
  | [] => [x]
  | y :: ys =>
    if x.1 < y.1 ∨ (x.1 = y.1 ∧ x.2 < y.2) then x :: y :: ys
    else if x = y then y :: ys else y :: insertPairAsc x ys

/-- `resolve`: all `(author, log)` pairs of the topic, in canonical (sorted) order. -/
def resolve (t : List Triple) (topic : Nat) : List (Nat × Nat) :=
  ((t.filter (fun y => y.1 == topic)).map (fun y => y.2)).foldr insertPairAsc []

/-! ### cursors_v1 -/

def cursorGet (t : List (Nat × Nat)) (n : Nat) : Option Nat := (t.find? (fun p => p.1 == n)).map (·.2)

/-- `INSERT … ON CONFLICT(name) DO UPDATE SET cursor = EXCLUDED.cursor`. -/
def cursorSet (t : List (Nat × Nat)) (n v : Nat) : List (Nat × Nat) :=
  if t.any (fun p => p.1 == n) then t.map (fun p => if p.1 == n then (n, v) else p) else t ++ [(n, v)]

def cursorDel (t : List (Nat × Nat)) (n : Nat) : List (Nat × Nat) := t.filter (fun p => p.1 != n)

/-! ### commands -/

inductive Cmd where
  | begin | commit | rollback | drop
  | ins (r : Row) | del (id : Nat) | delp (id : Nat)
  | get (id : Nat) | has (id : Nat) | getTx (id : Nat) | hasTx (id : Nat)
  | prune (a l u : Nat)
  | latest (a l : Nat) | latestTx (a l : Nat)
  | heights (a : Nat) (logs : List Nat)
  | size (a l : Nat) (after upto : Option Nat)
  | entries (a l : Nat) (after upto : Option Nat)
  | assoc (t a l : Nat) | unassoc (t a l : Nat) | resolve (t : Nat)
  | cset (n v : Nat) | cget (n : Nat) | cdel (n : Nat)
deriving Repr

inductive Ans where
  | ok
  | bool (b : Bool)
  | num (n : Nat)
  | notx                 -- SqliteError::TransactionMissing
  | blocked              -- waits for the single pooled connection / the semaphore
  | misuse               -- commit/rollback/drop without a permit: not expressible through the API
  | panic
  | op (r : Option (Nat × Bool))                  -- get: id, body present
  | latest (r : Option (Nat × Nat × Bool × Bool)) -- seq, id, body present, tie
  | heights (h : Option (List (Nat × Nat)))
  | size (c b : Nat)
  | entries (e : Option (List (Nat × Nat × Bool)))   -- seq, id, body present
  | pairs (ps : List (Nat × Nat))
  | cursor (v : Option Nat)
deriving DecidableEq, Repr

/-- Store state: the committed database and, while a transaction is open, its working copy. -/
structure St where
  db : DB
  work : Option DB
deriving Repr

def St.init : St := { db := DB.empty, work := none }

def latestAns (o : SqlOps) (t : List Row) (a l : Nat) : Ans :=
  match latest o t a l with
  | none => .latest none
  | some r => .latest (some (r.seq, r.id, r.body, decide (tiesOf t a l r > 1)))

/-- A method that runs inside the open transaction (`self.tx(..)`). -/
def inTx (s : St) (f : DB → DB × Ans) : St × Ans :=
  match s.work with
  | none => (s, .notx)
  | some w => let (w', a) := f w; ({ s with work := some w' }, a)

/-- A method that runs on the pool. -/
def onPool (s : St) (f : DB → DB × Ans) : St × Ans :=
  match s.work with
  | some _ => (s, .blocked)
  | none => let (d', a) := f s.db; ({ s with db := d' }, a)

/-- `heightsEmptyPanics = true` is the pinned code (`", ?".repeat(len - 1)` underflows for `logs = []`). -/
def exec (o : SqlOps) (heightsEmptyPanics : Bool) (s : St) : Cmd → St × Ans
  | .begin => match s.work with
    | some _ => (s, .blocked)
    | none => ({ s with work := some s.db }, .ok)
  | .commit => match s.work with
    | none => (s, .misuse)
    | some w => ({ db := w, work := none }, .ok)
  | .rollback => match s.work with
    | none => (s, .misuse)
    | some _ => ({ s with work := none }, .ok)
  | .drop => match s.work with
    | none => (s, .misuse)
    | some _ => ({ s with work := none }, .ok)
  | .ins r => inTx s (fun d => let (t, b) := insertOp d.ops r; ({ d with ops := t }, .bool b))
  | .del id => inTx s (fun d => let (t, b) := deleteOp d.ops id; ({ d with ops := t }, .bool b))
  | .delp id => onPool s (fun d => let (t, b) := deletePayload d.ops id; ({ d with ops := t }, .bool b))
  | .get id => onPool s (fun d => (d, .op ((getId d.ops id).map (fun r => (r.id, r.body)))))
  | .has id => onPool s (fun d => (d, .bool (hasId d.ops id)))
  | .getTx id => inTx s (fun d => (d, .op ((getId d.ops id).map (fun r => (r.id, r.body)))))
  | .hasTx id => inTx s (fun d => (d, .bool (hasId d.ops id)))
  | .prune a l u => onPool s (fun d => let (t, n) := pruneLog o d.ops a l u; ({ d with ops := t }, .num n))
  | .latest a l => onPool s (fun d => (d, latestAns o d.ops a l))
  | .latestTx a l => inTx s (fun d => (d, latestAns o d.ops a l))
  | .heights a logs =>
    -- the empty list never reaches the pool: pinned code panics while building the placeholder list,
    -- the repaired code returns `Ok(None)` before any query
    if logs.isEmpty then (s, if heightsEmptyPanics then .panic else .heights none)
    else onPool s (fun d => (d, .heights (heights o d.ops a logs)))
  | .size a l af un => onPool s (fun d => let (c, b) := logSize o d.ops a l af un; (d, .size c b))
  | .entries a l af un => onPool s (fun d =>
      (d, .entries ((logEntries o d.ops a l af un).map (fun rs => rs.map (fun r => (r.seq, r.id, r.body))))))
  | .assoc t a l => inTx s (fun d => let (ts, b) := associate d.topics (t, a, l); ({ d with topics := ts }, .bool b))
  | .unassoc t a l => inTx s (fun d => let (ts, b) := unassociate d.topics (t, a, l); ({ d with topics := ts }, .bool b))
  | .resolve t => onPool s (fun d => (d, .pairs (resolve d.topics t)))
  | .cset n v => inTx s (fun d => ({ d with cursors := cursorSet d.cursors n v }, .ok))
  | .cget n => onPool s (fun d => (d, .cursor (cursorGet d.cursors n)))
  | .cdel n => inTx s (fun d => ({ d with cursors := cursorDel d.cursors n }, .ok))

/-- Run a command sequence from a state, collecting the answers. -/
def runFrom (o : SqlOps) (p : Bool) (s : St) : List Cmd → St × List Ans
  | [] => (s, [])
  | c :: cs =>
    let (s', a) := exec o p s c
    let (s'', as) := runFrom o p s' cs
    (s'', a :: as)

/-- The repaired store (what the tree contains after `fix: get_log_heights on an empty list`). -/
def run (cs : List Cmd) : St × List Ans := runFrom specOps false St.init cs

/-- The pinned (pre-fix) store. -/
def runOrig (cs : List Cmd) : St × List Ans := runFrom specOps true St.init cs

end P2.StoreRef
