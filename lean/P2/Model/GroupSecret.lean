/-
Model of `p2panda-encryption/src/data_scheme/group_secret.rs`
(`find_latest`, `SecretBundle::{init, from_secrets, generate, insert, remove, extend}`,
`SecretBundleState::latest`).

A secret is `(id, ts)`: `id` stands for the SHA-256 digest of the key (a 32-byte string compared
lexicographically = a natural number; `[0; 32]` is `0`), `ts` for the `u64` UNIX timestamp.
The `HashMap<GroupSecretId, GroupSecret>` is a list in *iteration order*, which is arbitrary:
the theorems hold for every order. No imports: linked into the driver executable.
-/
namespace P2.GroupSecret

structure Sec where
  id : Nat
  ts : Nat
deriving Repr, DecidableEq

/-- One iteration of the loop in `find_latest`; state = (`latest_timestamp`, `latest_secret_id`). -/
def step (st : Nat × Option Nat) (s : Sec) : Nat × Option Nat :=
  if st.1 < s.ts ∨ (st.1 = s.ts ∧ s.id > st.2.getD 0) then (s.ts, some s.id) else st

/-- `find_latest(&secrets)` for the map's iteration order `l`. -/
def findLatest (l : List Sec) : Option Nat := (l.foldl step (0, none)).2

/-- `SecretBundleState`. -/
structure Bundle where
  secrets : List Sec
  latest  : Option Nat
deriving Repr

/-- `SecretBundle::init`. -/
def Bundle.init : Bundle := { secrets := [], latest := none }

/-- `HashMap::insert`: an existing entry with the same id is overwritten. -/
def mapInsert (l : List Sec) (s : Sec) : List Sec := l.filter (·.id ≠ s.id) ++ [s]

/-- `SecretBundle::insert`. -/
def Bundle.insert (y : Bundle) (s : Sec) : Bundle :=
  let m := mapInsert y.secrets s
  { secrets := m, latest := findLatest m }

/-- `SecretBundle::from_secrets` (`HashMap::from_iter`: later duplicates win). -/
def Bundle.fromSecrets (l : List Sec) : Bundle :=
  let m := l.foldl mapInsert []
  { secrets := m, latest := findLatest m }

/-- `SecretBundle::remove`. -/
def Bundle.remove (y : Bundle) (id : Nat) : Bundle × Option Sec :=
  let m := y.secrets.filter (·.id ≠ id)
  ({ secrets := m, latest := findLatest m }, y.secrets.find? (·.id = id))

/-- `SecretBundle::extend` (`HashMap::extend`: the other bundle's entries win). -/
def Bundle.extend (y o : Bundle) : Bundle :=
  let m := o.secrets.foldl mapInsert y.secrets
  { secrets := m, latest := findLatest m }

/-- `SecretBundleState::latest`. -/
def Bundle.latestSecret (y : Bundle) : Option Sec :=
  y.latest.bind (fun id => y.secrets.find? (·.id = id))

/-- `SecretBundle::generate` with the wall clock reading `now` (seconds) and the fresh key's id
    `id` as explicit inputs. The real code computes `latest_timestamp + 1` in `u64` (overflow at
    `u64::MAX`; see `c36_generate_newer`). -/
def Bundle.generate (y : Bundle) (now id : Nat) : Sec :=
  let lt := (y.latestSecret.map (·.ts)).getD 0
  { id := id, ts := if now ≤ lt then lt + 1 else now }

end P2.GroupSecret
