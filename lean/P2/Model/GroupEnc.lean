/-
Model of `p2panda-encryption/src/data_scheme/group.rs` (`EncryptionGroup::{create, add, remove,
update, send, receive, process_local, process_ready, process_remote}`) on top of
`data_scheme/dcgka.rs` (`Dcgka::{create, add, remove, update, process_*, send_group_secret,
process_welcome}`) and the secret bundle of `P2.Model.GroupSecret`.

Symbolic level (DESIGN.md §6 C35): a direct message to `r` is readable by `r` only and always
decrypts there (2SM, justified by C37); application data encrypted under secret `s` decrypts
exactly for holders of `s`. The DGM is the naive member *set* of the crate's test utilities with a
welcome that includes the welcomed member; the orderer is modelled for deliveries that respect
causality (what the harness produces): a delivered message is ready at once; a member that is not
yet welcomed only buffers, and drains its buffer (control messages first, then application
messages) when its `create` / `add` arrives.
No imports outside P2.Model: linked into the driver executable.
-/
import P2.Model.GroupSecret

namespace P2.GroupEnc
open P2.GroupSecret

/-- `ControlMessage` or application payload. -/
inductive Kind where
  | create (ms : List Nat)
  | add (x : Nat)
  | remove (x : Nat)
  | update
  | app (secret : Nat) (plain : Nat)     -- encrypted under the secret with this id
deriving DecidableEq, Repr

/-- `DirectMessageContent`. -/
inductive Payload where
  | secret (s : Sec)                                     -- `TwoParty { ciphertext }` carrying one group secret
  | welcome (bundle : List Sec) (history : List Nat)     -- `Welcome { ciphertext, history }`
deriving DecidableEq, Repr

structure Msg where
  sender : Nat
  kind   : Kind
  dms    : List (Nat × Payload)       -- (recipient, content)
  /-- ghost (not on the wire): the secret the operation generated, the issuer's member view before it -/
  gen    : Option Sec := none
  view   : List Nat := []
deriving DecidableEq, Repr

/-- `GroupState`: `view` = DGM members, `queue` = buffered message numbers while not welcomed. -/
structure MState where
  welcomed : Bool
  view     : List Nat
  bundle   : Bundle
  queue    : List Nat

def MState.init : MState := { welcomed := false, view := [], bundle := Bundle.init, queue := [] }

inductive Err where
  | established | notYet | addSelf | noSecret | unknownSecret | dcgka
deriving DecidableEq, Repr

def setInsert (l : List Nat) (x : Nat) : List Nat := if x ∈ l then l else l ++ [x]
def setRemove (l : List Nat) (x : Nat) : List Nat := l.filter (· ≠ x)
def dedup (l : List Nat) : List Nat := l.foldl setInsert []

/-- The secret-carrying direct messages of `send_group_secret`. -/
def secretDms (recipients : List Nat) (s : Sec) : List (Nat × Payload) :=
  recipients.map (fun r => (r, Payload.secret s))

/-! ### Local operations (`create` / `add` / `remove` / `update` / `send` + `process_local`) -/

/-- `EncryptionGroup::create`; `now`, `sid`: clock reading and id of the generated secret. -/
def opCreate (me : Nat) (y : MState) (ms : List Nat) (now sid : Nat) : Except Err (MState × Msg) :=
  if y.welcomed then .error .established
  else
    let s := y.bundle.generate now sid
    let ms' := setInsert (dedup ms) me
    .ok ({ y with welcomed := true, view := ms', bundle := y.bundle.insert s },
         { sender := me, kind := .create ms', dms := secretDms (ms'.filter (· ≠ me)) s, gen := some s, view := ms' })

/-- `EncryptionGroup::add`. -/
def opAdd (me : Nat) (y : MState) (x : Nat) : Except Err (MState × Msg) :=
  if !y.welcomed then .error .notYet
  else if me = x then .error .addSelf
  else
    .ok ({ y with view := setInsert y.view x },
         { sender := me, kind := .add x, dms := [(x, Payload.welcome y.bundle.secrets y.view)], view := y.view })

/-- `EncryptionGroup::remove`. -/
def opRemove (me : Nat) (y : MState) (x : Nat) (now sid : Nat) : Except Err (MState × Msg) :=
  if !y.welcomed then .error .notYet
  else
    let s := y.bundle.generate now sid
    .ok ({ y with view := setRemove y.view x, bundle := y.bundle.insert s },
         { sender := me, kind := .remove x, dms := secretDms (y.view.filter (fun m => m ≠ me ∧ m ≠ x)) s,
           gen := some s, view := y.view })

/-- `EncryptionGroup::update`. -/
def opUpdate (me : Nat) (y : MState) (now sid : Nat) : Except Err (MState × Msg) :=
  if !y.welcomed then .error .notYet
  else
    let s := y.bundle.generate now sid
    .ok ({ y with bundle := y.bundle.insert s },
         { sender := me, kind := .update, dms := secretDms (y.view.filter (· ≠ me)) s, gen := some s, view := y.view })

/-- `EncryptionGroup::send`. -/
def opSend (me : Nat) (y : MState) (plain : Nat) : Except Err (MState × Msg) :=
  if !y.welcomed then .error .notYet
  else match y.bundle.latestSecret with
    | none => .error .noSecret
    | some s => .ok (y, { sender := me, kind := .app s.id plain, dms := [], view := y.view })

/-! ### Remote messages -/

/-- Output of `process_ready`. -/
inductive Out where
  | plain (n : Nat)
  | removed
deriving DecidableEq, Repr

/-- The direct message addressed to `me` (`direct_messages().find(|dm| dm.recipient == my_id)`). -/
def dmFor (me : Nat) (m : Msg) : Option Payload := (m.dms.find? (·.1 = me)).map (·.2)

/-- `Dcgka::process` + the bundle bookkeeping of `process_remote` for a control message. -/
def applyControl (me : Nat) (y : MState) (k : Kind) (dm : Option Payload) : Except Err MState :=
  match k with
  | .create ms =>
    match dm with
    | some (Payload.secret s) => .ok { y with view := ms, bundle := y.bundle.insert s }
    | some (Payload.welcome _ _) => .error .dcgka
    | none => .ok { y with view := ms }
  | .update =>
    match dm with
    | some (Payload.secret s) => .ok { y with bundle := y.bundle.insert s }
    | some (Payload.welcome _ _) => .error .dcgka
    | none => .ok y
  | .remove x =>
    match dm with
    | some (Payload.secret s) => .ok { y with view := setRemove y.view x, bundle := y.bundle.insert s }
    | some (Payload.welcome _ _) => .error .dcgka
    | none => .ok { y with view := setRemove y.view x }
  | .add x =>
    if x = me then
      match dm with
      | some (Payload.welcome b h) =>
        .ok { y with view := setInsert h me, bundle := y.bundle.extend (Bundle.fromSecrets b) }
      | _ => .error .dcgka
    else .ok { y with view := setInsert y.view x }
  | .app _ _ => .ok y

/-- The membership flags of `process_ready` after a control message. -/
def finishControl (me : Nat) (y1 : MState) : MState × Option Out :=
  let member := decide (me ∈ y1.view)
  let y2 := { y1 with welcomed := y1.welcomed || member }
  (y2, if y2.welcomed && !member then some .removed else none)

/-- `process_ready` for one message at member `me`. -/
def processReady (me : Nat) (y : MState) (m : Msg) : Except Err (MState × Option Out) :=
  match m.kind with
  | .app sid plain =>
    if y.bundle.secrets.any (·.id = sid) then .ok (y, some (.plain plain)) else .error .unknownSecret
  | k =>
    match applyControl me y k (dmFor me m) with
    | .error e => .error e
    | .ok y1 => .ok (finishControl me y1)

/-- Process a list of messages in order, collecting outputs. -/
def processAll (me : Nat) (y : MState) : List Msg → Except Err (MState × List Out)
  | [] => .ok (y, [])
  | m :: ms =>
    match processReady me y m with
    | .error e => .error e
    | .ok (y1, o) =>
      match processAll me y1 ms with
      | .error e => .error e
      | .ok (y2, os) => .ok (y2, o.toList ++ os)

def Kind.isApp : Kind → Bool
  | .app _ _ => true
  | _ => false

/-- Does this message let a not yet welcomed member join (its `create` or the `add` of itself)? -/
def welcomeish (me : Nat) (welcomed : Bool) : Kind → Bool
  | .create ms => decide (me ∈ ms)
  | .add x => !welcomed && decide (x = me)
  | _ => false

/-- `EncryptionGroup::receive` of message number `k` (= `m`) at member `me`; `log` resolves the
    buffered message numbers. -/
def receive (me : Nat) (y : MState) (log : List Msg) (k : Nat) (m : Msg) : Except Err (MState × List Out) :=
  match m.kind, y.welcomed with
  | .create _, true => .error .established
  | _, _ =>
    if y.welcomed then processAll me y [m]
    else
      let y1 := { y with queue := y.queue ++ [k] }
      if !welcomeish me y.welcomed m.kind then .ok (y1, [])
      else
        let msgs := y1.queue.filterMap (fun i => log[i]?)
        let ctl := msgs.filter (fun x => !x.kind.isApp)
        let apps := msgs.filter (fun x => x.kind.isApp)
        processAll me { y1 with queue := [] } (ctl ++ apps)

/-! ### The network -/

structure Net where
  mem     : Nat → MState
  log     : List Msg
  plainNo : Nat

def Net.init : Net := { mem := fun _ => MState.init, log := [], plainNo := 0 }

inductive Step where
  | create (m : Nat) (ms : List Nat) (sid : Nat)
  | add (m x : Nat)
  | remove (m x : Nat) (sid : Nat)
  | update (m : Nat) (sid : Nat)
  | send (m : Nat)
  | deliver (k j : Nat)
deriving DecidableEq, Repr

inductive Obs where
  | issued (k : Nat)
  | delivered (outs : List Out)
  | err (e : Err)
  | idle
deriving DecidableEq, Repr

def upd (f : Nat → MState) (k : Nat) (v : MState) : Nat → MState := fun x => if x = k then v else f x

/-- One schedule step with clock reading `now`. A failing call leaves the network unchanged. -/
def Net.step (n : Net) (now : Nat) : Step → Net × Obs
  | .deliver k j =>
    match n.log[k]? with
    | none => (n, .idle)
    | some m =>
      if m.sender = j then (n, .idle)
      else match receive j (n.mem j) n.log k m with
        | .ok (y, outs) => ({ n with mem := upd n.mem j y }, .delivered outs)
        | .error e => (n, .err e)
  | st =>
    let (me, r) : Nat × Except Err (MState × Msg) :=
      match st with
      | .create m ms sid => (m, opCreate m (n.mem m) ms now sid)
      | .add m x => (m, opAdd m (n.mem m) x)
      | .remove m x sid => (m, opRemove m (n.mem m) x now sid)
      | .update m sid => (m, opUpdate m (n.mem m) now sid)
      | .send m => (m, opSend m (n.mem m) n.plainNo)
      | .deliver _ _ => (0, .error .dcgka)
    match r with
    | .error e => (n, .err e)
    | .ok (y, msg) =>
      ({ mem := upd n.mem me y, log := n.log ++ [msg],
         plainNo := if msg.kind.isApp then n.plainNo + 1 else n.plainNo }, .issued n.log.length)

def Net.run (n : Net) (now : Nat) : List Step → Net × List Obs
  | [] => (n, [])
  | s :: ss =>
    let (n1, o) := n.step now s
    let (n2, os) := n1.run now ss
    (n2, o :: os)

end P2.GroupEnc
