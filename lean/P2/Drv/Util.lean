/-
Line-protocol plumbing shared by all model drivers (no imports outside core).
One request per input line, one answer per output line; every line is self-contained.
-/
namespace P2.Drv

/-- Split a request line into whitespace-separated tokens (empty tokens dropped). -/
def tokens (line : String) : List String :=
  (line.trimAscii.toString.splitOn " ").filter (· ≠ "")

/-- Split on a separator token, e.g. `;` or `|`. -/
def splitTok (sep : String) (ts : List String) : List (List String) :=
  let rec go (cur : List String) (acc : List (List String)) : List String → List (List String)
    | [] => (cur.reverse :: acc).reverse
    | t :: rest => if t = sep then go [] (cur.reverse :: acc) rest else go (t :: cur) acc rest
  go [] [] ts

def boolStr (b : Bool) : String := if b then "t" else "f"

def natList? (ts : List String) : Option (List Nat) := ts.mapM String.toNat?

def optNatStr : Option Nat → String
  | none => "-"
  | some n => toString n

/-- parse `-` as none, number as some -/
def optNat? (s : String) : Option (Option Nat) :=
  if s = "-" then some none else s.toNat?.map some

partial def loop (h : IO.FS.Stream) (out : IO.FS.Stream) (f : String → String) : IO Unit := do
  let line ← h.getLine
  if line.isEmpty then return ()
  out.putStrLn (f line)
  loop h out f

/-- Standard `main`: answer every stdin line with `f`. Unparsable requests answer `bad-op`
    (never a default value), so that a protocol slip shows up as a disagreement. -/
def runMain (f : String → String) : IO Unit := do
  let stdin ← IO.getStdin
  let stdout ← IO.getStdout
  loop stdin stdout f
  stdout.flush

end P2.Drv
