import P2.Model.GroupState
import P2.Model.GroupCrdt
import P2.Drv.Util
/-
Line protocol shared by the C31 and C33 model drivers (auth groups).

Syntax
  member   `i<n>` (individual) | `g<n>` (group)
  access   `<lvl>:<cond>`              lvl 0..3, cond `-` (None) or a number (`()` is sent as 0)
  mstate   `_` | entries `<member>:<mc>:<ac>:<lvl>:<cond>` joined by `,`
  gstates  `_` | `<gid>=<mstate>` joined by `/`
  ids      `_` | numbers joined by `,`
  action   two tokens: `create <_|member:lvl:cond,...>` | `add <member:lvl:cond>` | `remove <member>`
           | `promote <member:lvl:cond>` | `demote <member:lvl:cond>`

Requests
  `st <action 2 tokens> <actor member> <mstate>`      one `state::` call
        -> `ok <mstate>` | `E:<Variant>:<member>`
  `dec <known 0|1> <rb 0|1> <id> <author> <group> <action 2 tokens> <ignore ids> <gstates>*`
        validate (+ the state stored by process when rb = 0) relative to the listed head states
        -> `ok [<gstates>]` | `E:dup` | `E:mgr:<g>` | `E:cycle` | `E:st:<Variant>:<member>` | `PANIC`
  `mrg <gstates>*`                                    merge_states over the listed states -> `<gstates>`
  `mem <group> <gstates>*`                            members / groups / root_members on the merged state
        -> `m=<i:lvl:cond,..|_|H> g=<..> r=<member:lvl:cond,..|_>`  (H: order-dependent, see `hazard`)
  `uns <group> <member> <gstates>`                    apply_remove_unsafe -> `<gstates>` | `PANIC`
-/
namespace P2.Drv.GroupCmd
open P2 P2.GroupState P2.GroupCrdt P2.Drv

def natCmp (x y : Nat) : Option Ordering := some (compare x y)

abbrev Acc := Access Nat

def ltFix : Acc → Acc → Bool := accessLtFix natCmp
def ltO : Acc → Acc → Bool := accessLtOrig natCmp
def leO : Acc → Acc → Bool := accessLeOrig natCmp

def parseMember (t : String) : Option Member :=
  match t.toList with
  | 'i' :: r => (String.ofList r).toNat?.map Member.individual
  | 'g' :: r => (String.ofList r).toNat?.map Member.group
  | _ => none

def parseAccessParts (l c : String) : Option Acc :=
  match l.toNat?, optNat? c with
  | some l, some c => if l < 4 then some { cond := c, level := l } else none
  | _, _ => none

def parseMemberAccess (t : String) : Option (Member × Acc) :=
  match t.splitOn ":" with
  | [m, l, c] =>
    match parseMember m, parseAccessParts l c with
    | some m, some a => some (m, a)
    | _, _ => none
  | _ => none

def parseEntry (t : String) : Option (Member × MemberState Nat) :=
  match t.splitOn ":" with
  | [m, mc, ac, l, c] =>
    match parseMember m, mc.toNat?, ac.toNat?, parseAccessParts l c with
    | some m, some mc, some ac, some a => some (m, { mc := mc, access := a, ac := ac })
    | _, _, _, _ => none
  | _ => none

def parseMState (t : String) : Option (MState Nat) :=
  if t = "_" then some []
  else
    match (t.splitOn ",").mapM parseEntry with
    | some es => if (es.map (·.1)).Nodup then some es else none
    | none => none

def parseGroup (t : String) : Option (Nat × MState Nat) :=
  match t.splitOn "=" with
  | [g, s] =>
    match g.toNat?, parseMState s with
    | some g, some s => some (g, s)
    | _, _ => none
  | _ => none

def parseGStates (t : String) : Option (GroupStates Nat) :=
  if t = "_" then some []
  else
    match (t.splitOn "/").mapM parseGroup with
    | some gs => if (gs.map (·.1)).Nodup then some gs else none
    | none => none

def parseIds (t : String) : Option (List Nat) :=
  if t = "_" then some [] else (t.splitOn ",").mapM String.toNat?

def parseAction (kind arg : String) : Option (Action Nat) :=
  match kind with
  | "create" =>
    if arg = "_" then some (.create [])
    else ((arg.splitOn ",").mapM parseMemberAccess).map Action.create
  | "add" => (parseMemberAccess arg).map (fun p => .add p.1 p.2)
  | "remove" => (parseMember arg).map Action.remove
  | "promote" => (parseMemberAccess arg).map (fun p => .promote p.1 p.2)
  | "demote" => (parseMemberAccess arg).map (fun p => .demote p.1 p.2)
  | _ => none

/-! ### printing (canonical: sorted) -/

def memberKey : Member → Nat × Nat
  | .individual i => (0, i)
  | .group i => (1, i)

def keyLe (a b : Nat × Nat) : Bool := a.1 < b.1 || (a.1 == b.1 && a.2 ≤ b.2)

def insertBy {α : Type} (le : α → α → Bool) (x : α) : List α → List α
  | [] => [x]
  | y :: r => if le x y then x :: y :: r else y :: insertBy le x r

def sortBy {α : Type} (le : α → α → Bool) (l : List α) : List α := l.foldl (fun acc x => insertBy le x acc) []

def showMember : Member → String
  | .individual i => s!"i{i}"
  | .group i => s!"g{i}"

def showAccess (a : Acc) : String := s!"{a.level}:{optNatStr a.cond}"

def orUnderscore (l : List String) (sep : String) : String :=
  if l.isEmpty then "_" else sep.intercalate l

def showMState (s : MState Nat) : String :=
  orUnderscore ((sortBy (fun a b => keyLe (memberKey a.1) (memberKey b.1)) s).map (fun p =>
    s!"{showMember p.1}:{p.2.mc}:{p.2.ac}:{showAccess p.2.access}")) ","

def showGStates (gs : GroupStates Nat) : String :=
  orUnderscore ((sortBy (fun a b => decide (a.1 ≤ b.1)) gs).map (fun p => s!"{p.1}={showMState p.2}")) "/"

def showMemberAccessList (l : List (Member × Acc)) : String :=
  orUnderscore ((sortBy (fun a b => keyLe (memberKey a.1) (memberKey b.1)) l).map (fun p =>
    s!"{showMember p.1}:{showAccess p.2}")) ","

def showIdAccessList (l : List (Nat × Acc)) : String :=
  orUnderscore ((sortBy (fun a b => decide (a.1 ≤ b.1)) l).map (fun p => s!"{p.1}:{showAccess p.2}")) ","

def showErr : Err Member → String
  | .alreadyAdded k => "AlreadyAdded:" ++ showMember k
  | .alreadyRemoved k => "AlreadyRemoved:" ++ showMember k
  | .insufficientAccess k => "InsufficientAccess:" ++ showMember k
  | .inactiveActor k => "InactiveActor:" ++ showMember k
  | .inactiveMember k => "InactiveMember:" ++ showMember k
  | .unrecognisedActor k => "UnrecognisedActor:" ++ showMember k
  | .unrecognisedMember k => "UnrecognisedMember:" ++ showMember k

/-! ### handlers -/

def stCall (action : Action Nat) (actor : Member) (s : MState Nat) : Except (Err Member) (MState Nat) :=
  match action with
  | .add m a => GroupState.add s actor m a
  | .remove m => GroupState.remove s actor m
  | .promote m a => GroupState.promote s actor m a
  | .demote m a => GroupState.demote s actor m a
  | .create initial => .ok (GroupState.create initial)

def handle (line : String) : String :=
  match tokens line with
  | ["st", kind, arg, actor, s] =>
    match parseAction kind arg, parseMember actor, parseMState s with
    | some action, some actor, some s =>
      match stCall action actor s with
      | .ok s' => "ok " ++ showMState s'
      | .error e => "E:" ++ showErr e
    | _, _, _ => "bad-op"
  | "dec" :: known :: rb :: id :: author :: group :: kind :: arg :: ign :: heads =>
    match known.toNat?, rb.toNat?, id.toNat?, author.toNat?, group.toNat?, parseAction kind arg,
        parseIds ign, heads.mapM parseGStates with
    | some known, some rb, some id, some author, some group, some action, some ign, some heads =>
      if known > 1 || rb > 1 then "bad-op" else
      let op : Op Nat := { id := id, author := author, deps := [], group := group, action := action }
      match GroupCrdt.decide (known == 1) op (mergeAll ltFix heads) ign with
      | .accept gs => if rb == 1 then "ok" else "ok " ++ showGStates gs
      | .dup => "E:dup"
      | .managerGroup g => s!"E:mgr:{g}"
      | .cycle => "E:cycle"
      | .stateError e => "E:st:" ++ showErr e
      | .panic => "PANIC"
    | _, _, _, _, _, _, _, _ => "bad-op"
  | "mrg" :: heads =>
    match heads.mapM parseGStates with
    | some heads => showGStates (mergeAll ltFix heads)
    | none => "bad-op"
  | "mem" :: group :: heads =>
    match group.toNat?, heads.mapM parseGStates with
    | some g, some heads =>
      let cur := mergeAll ltFix heads
      let r := "r=" ++ showMemberAccessList (rootMembers cur g)
      if hazard leO ltO cur g then "m=H g=H " ++ r
      else
        "m=" ++ showIdAccessList (members leO ltO cur g) ++ " g=" ++ showIdAccessList (groups leO ltO cur g)
          ++ " " ++ r
    | _, _ => "bad-op"
  | ["uns", group, member, gs] =>
    match group.toNat?, parseMember member, parseGStates gs with
    | some g, some m, some gs =>
      match applyRemoveUnsafe gs g m with
      | some gs' => showGStates gs'
      | none => "PANIC"
    | _, _, _ => "bad-op"
  | _ => "bad-op"

end P2.Drv.GroupCmd
