import P2.Model.StoreRef
import P2.Drv.Util
/-
Line protocol shared by drv_c08 and drv_c09 (one request line = one whole command sequence on a fresh store).

Request:  cmd ( ";" cmd )*      with
  begin | commit | rollback | drop
  ins ID AUTHOR LOG SEQ HSIZE PSIZE BODY(0|1) | del ID | delp ID | get ID | has ID | gettx ID | hastx ID
  prune A L UNTIL | latest A L | latesttx A L | heights A LOG* | size A L AFTER UNTIL | entries A L AFTER UNTIL
  assoc T A L | unassoc T A L | resolve T | cset NAME V | cget NAME | cdel NAME          (`-` = None)
Answer:   one answer per command, joined by " ; ".
-/
namespace P2.Drv.StoreCmd
open P2.StoreRef P2.Drv

def nat1 (ts : List String) (f : Nat → Cmd) : Option Cmd :=
  match ts with
  | [a] => a.toNat?.map f
  | _ => none

def nat2 (ts : List String) (f : Nat → Nat → Cmd) : Option Cmd :=
  match ts with
  | [a, b] => do let a ← a.toNat?; let b ← b.toNat?; pure (f a b)
  | _ => none

def nat3 (ts : List String) (f : Nat → Nat → Nat → Cmd) : Option Cmd :=
  match ts with
  | [a, b, c] => do let a ← a.toNat?; let b ← b.toNat?; let c ← c.toNat?; pure (f a b c)
  | _ => none

def range (ts : List String) (f : Nat → Nat → Option Nat → Option Nat → Cmd) : Option Cmd :=
  match ts with
  | [a, l, af, un] => do
    let a ← a.toNat?; let l ← l.toNat?; let af ← optNat? af; let un ← optNat? un
    pure (f a l af un)
  | _ => none

def parseCmd : List String → Option Cmd
  | ["begin"] => some .begin
  | ["commit"] => some .commit
  | ["rollback"] => some .rollback
  | ["drop"] => some .drop
  | ["ins", id, a, l, s, h, p, b] => do
    let id ← id.toNat?; let a ← a.toNat?; let l ← l.toNat?; let s ← s.toNat?
    let h ← h.toNat?; let p ← p.toNat?
    let b ← (if b = "1" then some true else if b = "0" then some false else none)
    pure (.ins { id := id, author := a, log := l, seq := s, hsize := h, psize := p, body := b })
  | "del" :: r => nat1 r .del
  | "delp" :: r => nat1 r .delp
  | "get" :: r => nat1 r .get
  | "has" :: r => nat1 r .has
  | "gettx" :: r => nat1 r .getTx
  | "hastx" :: r => nat1 r .hasTx
  | "prune" :: r => nat3 r .prune
  | "latest" :: r => nat2 r .latest
  | "latesttx" :: r => nat2 r .latestTx
  | "heights" :: a :: logs => do
    let a ← a.toNat?; let ls ← natList? logs
    pure (.heights a ls)
  | "size" :: r => range r .size
  | "entries" :: r => range r .entries
  | "assoc" :: r => nat3 r .assoc
  | "unassoc" :: r => nat3 r .unassoc
  | "resolve" :: r => nat1 r .resolve
  | "cset" :: r => nat2 r .cset
  | "cget" :: r => nat1 r .cget
  | "cdel" :: r => nat1 r .cdel
  | _ => none

def bodyStr (b : Bool) : String := if b then "b" else "n"

def render : Ans → String
  | .ok => "ok"
  | .bool b => boolStr b
  | .num n => toString n
  | .notx => "E:notx"
  | .blocked => "BLOCKED"
  | .misuse => "MISUSE"
  | .panic => "PANIC"
  | .op none => "none"
  | .op (some (id, b)) => s!"op:{id}:{bodyStr b}"
  | .latest none => "none"
  | .latest (some (seq, id, b, tie)) => if tie then s!"{seq}:tie" else s!"{seq}:{id}:{bodyStr b}"
  | .heights none => "none"
  | .heights (some hs) => ",".intercalate (hs.map (fun p => s!"{p.1}={p.2}"))
  | .size c b => s!"{c}/{b}"
  | .entries none => "none"
  | .entries (some es) => ",".intercalate (es.map (fun e => s!"{e.1}:{e.2.1}:{bodyStr e.2.2}"))
  | .pairs [] => "-"
  | .pairs ps => ",".intercalate (ps.map (fun p => s!"{p.1}.{p.2}"))
  | .cursor none => "none"
  | .cursor (some v) => toString v

def handle (line : String) : String :=
  match (splitTok ";" (tokens line)).mapM parseCmd with
  | none => "bad-op"
  | some cmds => " ; ".intercalate ((run cmds).2.map render)

end P2.Drv.StoreCmd
