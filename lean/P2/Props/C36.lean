/-
C36 — Latest group secret is chosen deterministically and new secrets are newer.

`findLatest` is the code's loop over the hash map in its (arbitrary) iteration order. The theorems
show that under the guard `Guard l` (no secret has timestamp 0 *and* the all-zero id — unreachable
without a SHA-256 preimage of zero, and shown to be necessary) the result is the maximum by
`(timestamp, id)` and hence a function of the *set* of secrets only, for every order.
-/
import P2.Extracted.C36
import P2.Model.GroupSecret

namespace P2.C36
open P2.GroupSecret

/-- `a` is at most `b` in the `(timestamp, id)` order. -/
def le (a b : Sec) : Prop := a.ts < b.ts ∨ (a.ts = b.ts ∧ a.id ≤ b.id)

/-- The guard of DESIGN.md: no secret with timestamp 0 and all-zero id. -/
def Guard (l : List Sec) : Prop := ∀ s ∈ l, s.ts > 0 ∨ s.id ≠ 0

/-- `m` is a maximum of `l` by `(timestamp, id)`. -/
def IsMax (l : List Sec) (m : Sec) : Prop := m ∈ l ∧ ∀ s ∈ l, le s m

/-- Loop invariant of `find_latest` after the prefix `p`. -/
private def LoopInv (p : List Sec) (st : Nat × Option Nat) : Prop :=
  (p = [] ∧ st = (0, none)) ∨ (∃ m, IsMax p m ∧ st = (m.ts, some m.id))

private theorem loop_step (p : List Sec) (st : Nat × Option Nat) (s : Sec)
    (hs : s.ts > 0 ∨ s.id ≠ 0) (h : LoopInv p st) : LoopInv (p ++ [s]) (step st s) := by
  rcases h with ⟨hp, hst⟩ | ⟨m, ⟨hm, hmax⟩, hst⟩
  · subst hp; subst hst
    right
    refine ⟨s, ⟨by simp, by intro x hx; simp at hx; subst hx; exact Or.inr ⟨rfl, Nat.le_refl _⟩⟩, ?_⟩
    have : ((0, none) : Nat × Option Nat).1 < s.ts
        ∨ (((0, none) : Nat × Option Nat).1 = s.ts ∧ s.id > ((0, none) : Nat × Option Nat).2.getD 0) := by
      simp only [Option.getD_none]; omega
    unfold step
    rw [if_pos this]
  · subst hst
    right
    unfold step
    simp only [Option.getD_some]
    by_cases hc : m.ts < s.ts ∨ (m.ts = s.ts ∧ s.id > m.id)
    · simp only [hc, if_true]
      refine ⟨s, ⟨by simp, ?_⟩, rfl⟩
      intro x hx
      rcases List.mem_append.1 hx with hx | hx
      · have := hmax x hx
        unfold le at *
        omega
      · simp at hx; subst hx; exact Or.inr ⟨rfl, Nat.le_refl _⟩
    · simp only [hc, if_false]
      refine ⟨m, ⟨by simp [hm], ?_⟩, rfl⟩
      intro x hx
      rcases List.mem_append.1 hx with hx | hx
      · exact hmax x hx
      · simp at hx; subst hx
        unfold le
        omega

private theorem loop_inv (p l : List Sec) (st : Nat × Option Nat) (hg : Guard l)
    (h : LoopInv p st) : LoopInv (p ++ l) (l.foldl step st) := by
  induction l generalizing p st with
  | nil => simpa using h
  | cons s l ih =>
    have hs := hg s List.mem_cons_self
    have := ih (p ++ [s]) (step st s) (fun x hx => hg x (List.mem_cons_of_mem _ hx))
      (loop_step p st s hs h)
    simpa using this

/-! ## Property theorems -/

/-- **Latest is the maximum.** For every iteration order `l` of the map: the empty bundle has no
    latest secret, otherwise `find_latest` returns the id of a maximum by `(timestamp, id)`. -/
theorem c36_latest_is_max (l : List Sec) (hg : Guard l) :
    (l = [] ∧ findLatest l = none) ∨ (∃ m, IsMax l m ∧ findLatest l = some m.id) := by
  have := loop_inv [] l (0, none) hg (Or.inl ⟨rfl, rfl⟩)
  simp only [List.nil_append] at this
  unfold findLatest
  rcases this with ⟨h1, h2⟩ | ⟨m, h1, h2⟩
  · exact Or.inl ⟨h1, by rw [h2]⟩
  · exact Or.inr ⟨m, h1, by rw [h2]⟩

/-- Two maxima of the same set have the same id (and timestamp). -/
theorem isMax_unique (l l' : List Sec) (hmem : ∀ x, x ∈ l ↔ x ∈ l') (m m' : Sec)
    (h : IsMax l m) (h' : IsMax l' m') : m.id = m'.id ∧ m.ts = m'.ts := by
  have a := h'.2 m ((hmem m).1 h.1)
  have b := h.2 m' ((hmem m').2 h'.1)
  unfold le at a b
  omega

/-- **Deterministic choice.** `find_latest` depends only on the *set* of secrets: any two
    iteration orders (indeed any two lists with the same members) give the same answer. -/
theorem c36_latest_set (l l' : List Sec) (hg : Guard l) (hmem : ∀ x, x ∈ l ↔ x ∈ l') :
    findLatest l = findLatest l' := by
  have hg' : Guard l' := fun s hs => hg s ((hmem s).2 hs)
  rcases c36_latest_is_max l hg with ⟨h1, h2⟩ | ⟨m, h1, h2⟩
  · subst h1
    have : l' = [] := by
      cases l' with
      | nil => rfl
      | cons a t => exact absurd ((hmem a).2 List.mem_cons_self) (by simp)
    subst this; rfl
  · rcases c36_latest_is_max l' hg' with ⟨h1', _⟩ | ⟨m', h1', h2'⟩
    · subst h1'
      exact absurd ((hmem m).1 h1.1) (by simp)
    · rw [h2, h2', (isMax_unique l l' hmem m m' h1 h1').1]

/-- The guard is tight: a bundle whose only secret has timestamp 0 and the all-zero id has no
    latest secret although it is not empty. -/
theorem c36_guard_needed : findLatest [{ id := 0, ts := 0 }] = none ∧ ¬ Guard [{ id := 0, ts := 0 }] := by
  refine ⟨by decide, ?_⟩
  intro h
  have := h { id := 0, ts := 0 } (by simp)
  simp at this

/-! ### Order independence of insert / extend / from_secrets -/

/-- Every id carries one timestamp (a secret's timestamp is fixed when it is generated). -/
def Consistent (l : List Sec) : Prop := ∀ a ∈ l, ∀ b ∈ l, a.id = b.id → a = b

private theorem mem_mapInsert (l : List Sec) (s x : Sec) :
    x ∈ mapInsert l s ↔ (x = s ∨ (x ∈ l ∧ x.id ≠ s.id)) := by
  unfold mapInsert
  simp only [List.mem_append, List.mem_filter, List.mem_singleton, decide_eq_true_eq, ne_eq]
  constructor
  · rintro (h | h)
    · exact Or.inr h
    · exact Or.inl h
  · rintro (h | h)
    · exact Or.inr h
    · exact Or.inl h

private theorem mem_foldl_mapInsert (xs l : List Sec) (x : Sec)
    (hc : Consistent (l ++ xs)) :
    x ∈ xs.foldl mapInsert l ↔ (x ∈ l ∨ x ∈ xs) := by
  induction xs generalizing l with
  | nil => simp
  | cons s xs ih =>
    have hc' : Consistent (mapInsert l s ++ xs) := by
      intro a ha b hb hab
      apply hc a _ b _ hab
      · rcases List.mem_append.1 ha with ha | ha
        · rcases (mem_mapInsert l s a).1 ha with ha | ha
          · subst ha; simp
          · simp [ha.1]
        · simp [ha]
      · rcases List.mem_append.1 hb with hb | hb
        · rcases (mem_mapInsert l s b).1 hb with hb | hb
          · subst hb; simp
          · simp [hb.1]
        · simp [hb]
    simp only [List.foldl_cons]
    rw [ih (mapInsert l s) hc', mem_mapInsert]
    simp only [List.mem_cons]
    constructor
    · rintro ((h | h) | h)
      · exact Or.inr (Or.inl h)
      · exact Or.inl h.1
      · exact Or.inr (Or.inr h)
    · rintro (h | h | h)
      · by_cases hid : x.id = s.id
        · have : x = s := hc x (by simp [h]) s (by simp) hid
          exact Or.inl (Or.inl this)
        · exact Or.inl (Or.inr ⟨h, hid⟩)
      · exact Or.inl (Or.inl h)
      · exact Or.inr h

/-- State after inserting a list of secrets one by one. -/
def insertAll (y : Bundle) (xs : List Sec) : Bundle := xs.foldl Bundle.insert y

private theorem insertAll_secrets (y : Bundle) (xs : List Sec) :
    (insertAll y xs).secrets = xs.foldl mapInsert y.secrets := by
  induction xs generalizing y with
  | nil => rfl
  | cons s xs ih => simp only [insertAll, List.foldl_cons] at ih ⊢; rw [ih]; rfl

private theorem insertAll_latest (y : Bundle) (xs : List Sec) (hy : y.latest = findLatest y.secrets) :
    (insertAll y xs).latest = findLatest (insertAll y xs).secrets := by
  induction xs generalizing y with
  | nil => exact hy
  | cons s xs ih => simp only [insertAll, List.foldl_cons] at ih ⊢; exact ih _ rfl

/-- **Order independent (insert).** Inserting the same secrets in any two orders (any two
    sequences with the same members, duplicates allowed) yields the same `latest`, namely the
    `(timestamp, id)`-maximum of the set. -/
theorem c36_order_independent (xs ys : List Sec) (hg : Guard xs) (hc : Consistent xs)
    (hmem : ∀ x, x ∈ xs ↔ x ∈ ys) :
    (insertAll Bundle.init xs).latest = (insertAll Bundle.init ys).latest
    ∧ (insertAll Bundle.init xs).latest = findLatest xs := by
  have hcy : Consistent ys := fun a ha b hb => hc a ((hmem a).2 ha) b ((hmem b).2 hb)
  have e1 : ∀ x, x ∈ (insertAll Bundle.init xs).secrets ↔ x ∈ xs := by
    intro x; rw [insertAll_secrets, mem_foldl_mapInsert xs _ x (by simpa [Bundle.init] using hc)]
    simp [Bundle.init]
  have e2 : ∀ x, x ∈ (insertAll Bundle.init ys).secrets ↔ x ∈ ys := by
    intro x; rw [insertAll_secrets, mem_foldl_mapInsert ys _ x (by simpa [Bundle.init] using hcy)]
    simp [Bundle.init]
  rw [insertAll_latest _ xs rfl, insertAll_latest _ ys rfl]
  have hx : findLatest xs = findLatest (insertAll Bundle.init xs).secrets :=
    c36_latest_set _ _ hg (fun x => (e1 x).symm)
  refine ⟨?_, hx.symm⟩
  rw [← hx]
  exact c36_latest_set _ _ hg (fun x => by rw [e2 x]; exact hmem x)

/-- **Order independent (merge).** `extend` is commutative and associative as far as `latest`
    is concerned, and agrees with building one bundle from all secrets. -/
theorem c36_extend_comm (a b : Bundle) (hg : Guard (a.secrets ++ b.secrets))
    (hc : Consistent (a.secrets ++ b.secrets)) :
    (a.extend b).latest = (b.extend a).latest
    ∧ (a.extend b).latest = findLatest (a.secrets ++ b.secrets) := by
  have hc' : Consistent (b.secrets ++ a.secrets) := by
    intro x hx y hy
    exact hc x (by rcases List.mem_append.1 hx with h | h <;> simp [h]) y
      (by rcases List.mem_append.1 hy with h | h <;> simp [h])
  have e1 : ∀ x, x ∈ (a.extend b).secrets ↔ x ∈ a.secrets ++ b.secrets := by
    intro x
    show x ∈ b.secrets.foldl mapInsert a.secrets ↔ _
    rw [mem_foldl_mapInsert _ _ x hc]; simp
  have e2 : ∀ x, x ∈ (b.extend a).secrets ↔ x ∈ a.secrets ++ b.secrets := by
    intro x
    show x ∈ a.secrets.foldl mapInsert b.secrets ↔ _
    rw [mem_foldl_mapInsert _ _ x hc']; simp only [List.mem_append]; exact Or.comm
  have h1 : (a.extend b).latest = findLatest (a.secrets ++ b.secrets) :=
    (c36_latest_set _ _ hg (fun x => (e1 x).symm)).symm
  have h2 : (b.extend a).latest = findLatest (a.secrets ++ b.secrets) :=
    (c36_latest_set _ _ hg (fun x => (e2 x).symm)).symm
  exact ⟨h1.trans h2.symm, h1⟩

theorem c36_extend_assoc (a b c : Bundle)
    (hg : Guard (a.secrets ++ b.secrets ++ c.secrets))
    (hc : Consistent (a.secrets ++ b.secrets ++ c.secrets)) :
    ((a.extend b).extend c).latest = (a.extend (b.extend c)).latest := by
  have hab : Consistent (a.secrets ++ b.secrets) :=
    fun x hx y hy => hc x (by simp only [List.mem_append] at hx ⊢; exact Or.inl hx) y
      (by simp only [List.mem_append] at hy ⊢; exact Or.inl hy)
  have hbc : Consistent (b.secrets ++ c.secrets) :=
    fun x hx y hy => hc x (by rcases List.mem_append.1 hx with h | h <;> simp [h]) y
      (by rcases List.mem_append.1 hy with h | h <;> simp [h])
  have mab : ∀ x, x ∈ (a.extend b).secrets ↔ x ∈ a.secrets ∨ x ∈ b.secrets := fun x => by
    show x ∈ b.secrets.foldl mapInsert a.secrets ↔ _
    exact mem_foldl_mapInsert _ _ x hab
  have mbc : ∀ x, x ∈ (b.extend c).secrets ↔ x ∈ b.secrets ∨ x ∈ c.secrets := fun x => by
    show x ∈ c.secrets.foldl mapInsert b.secrets ↔ _
    exact mem_foldl_mapInsert _ _ x hbc
  have c1 : Consistent ((a.extend b).secrets ++ c.secrets) := by
    intro x hx y hy
    apply hc x _ y _
    · simp only [List.mem_append, mab] at hx ⊢; exact hx
    · simp only [List.mem_append, mab] at hy ⊢; exact hy
  have c2 : Consistent (a.secrets ++ (b.extend c).secrets) := by
    intro x hx y hy
    apply hc x _ y _
    · simp only [List.mem_append, mbc] at hx ⊢; rcases hx with h | h | h <;> simp [h]
    · simp only [List.mem_append, mbc] at hy ⊢; rcases hy with h | h | h <;> simp [h]
  have m1 : ∀ x, x ∈ ((a.extend b).extend c).secrets ↔ x ∈ a.secrets ++ b.secrets ++ c.secrets := by
    intro x
    show x ∈ c.secrets.foldl mapInsert (a.extend b).secrets ↔ _
    rw [mem_foldl_mapInsert _ _ x c1, mab]; simp only [List.mem_append]
  have m2 : ∀ x, x ∈ (a.extend (b.extend c)).secrets ↔ x ∈ a.secrets ++ b.secrets ++ c.secrets := by
    intro x
    show x ∈ (b.extend c).secrets.foldl mapInsert a.secrets ↔ _
    rw [mem_foldl_mapInsert _ _ x c2, mbc]; simp only [List.mem_append]
    constructor
    · rintro (h | h | h) <;> simp [h]
    · rintro ((h | h) | h) <;> simp [h]
  have h1 := c36_latest_set _ _ hg (fun x => (m1 x).symm)
  have h2 := c36_latest_set _ _ hg (fun x => (m2 x).symm)
  exact h1.symm.trans h2

/-- `latest` is recomputed by every mutator (`insert`, `remove`, `extend`, `from_secrets`). -/
theorem c36_latest_recomputed (y o : Bundle) (s : Sec) (id : Nat) (l : List Sec) :
    (y.insert s).latest = findLatest (y.insert s).secrets
    ∧ (y.remove id).1.latest = findLatest (y.remove id).1.secrets
    ∧ (y.extend o).latest = findLatest (y.extend o).secrets
    ∧ (Bundle.fromSecrets l).latest = findLatest (Bundle.fromSecrets l).secrets :=
  ⟨rfl, rfl, rfl, rfl⟩

/-! ### `generate` -/

/-- Well-formed bundle state: `latest` is what `find_latest` says, ids are unique. -/
structure WF (y : Bundle) : Prop where
  latest : y.latest = findLatest y.secrets
  guard  : Guard y.secrets
  cons   : Consistent y.secrets

private theorem find_id (l : List Sec) (m : Sec) (hm : m ∈ l) (hc : Consistent l) :
    l.find? (·.id = m.id) = some m := by
  induction l with
  | nil => cases hm
  | cons a t ih =>
    simp only [List.find?_cons]
    by_cases h : a.id = m.id
    · have : a = m := hc a (by simp) m hm h
      simp [this]
    · simp only [h, decide_false]
      have hm' : m ∈ t := by
        rcases List.mem_cons.1 hm with h' | h'
        · subst h'; exact absurd rfl h
        · exact h'
      exact ih hm' (fun x hx y hy => hc x (List.mem_cons_of_mem _ hx) y (List.mem_cons_of_mem _ hy))

/-- In a well-formed bundle `latest()` returns a `(timestamp, id)`-maximum. -/
theorem latestSecret_max (y : Bundle) (h : WF y) :
    (y.secrets = [] ∧ y.latestSecret = none) ∨ (∃ m, IsMax y.secrets m ∧ y.latestSecret = some m) := by
  rcases c36_latest_is_max y.secrets h.guard with ⟨h1, h2⟩ | ⟨m, h1, h2⟩
  · left; refine ⟨h1, ?_⟩
    simp [Bundle.latestSecret, h.latest, h2]
  · right; refine ⟨m, h1, ?_⟩
    simp only [Bundle.latestSecret, h.latest, h2, Option.bind_some]
    exact find_id _ m h1.1 h.cons

/-- **New secrets are newer.** For every clock reading `now` (behind, at, or ahead of the latest
    timestamp) the generated secret's timestamp is strictly larger than that of *every* secret in
    the bundle, in particular of the current latest; it stays inside `u64` unless the latest
    timestamp is `u64::MAX` (where the code overflows and no strictly later value exists). -/
theorem c36_generate_newer (y : Bundle) (h : WF y) (now id : Nat) :
    (∀ s ∈ y.secrets, s.ts < (y.generate now id).ts)
    ∧ (∀ m, y.latestSecret = some m → m.ts < (y.generate now id).ts)
    ∧ now ≤ (y.generate now id).ts
    ∧ (now < 2 ^ 64 → (∀ m, y.latestSecret = some m → m.ts + 1 < 2 ^ 64) →
        (y.generate now id).ts < 2 ^ 64) := by
  unfold Bundle.generate
  rcases latestSecret_max y h with ⟨h1, h2⟩ | ⟨m, h1, h2⟩
  · simp only [h2, Option.map_none, Option.getD_none]
    refine ⟨by simp [h1], by simp, by split <;> omega, ?_⟩
    intro hn _; split <;> omega
  · simp only [h2, Option.map_some, Option.getD_some]
    refine ⟨?_, ?_, by split <;> omega, ?_⟩
    · intro s hs
      have := h1.2 s hs
      unfold le at this
      split <;> omega
    · intro m' hm'
      simp only [Option.some.injEq] at hm'
      subst hm'
      split <;> omega
    · intro hn hm
      have := hm m rfl
      split <;> omega

/-- After inserting a freshly generated secret (fresh id) it *is* the latest. -/
theorem c36_generated_becomes_latest (y : Bundle) (h : WF y) (now id : Nat)
    (hfresh : ∀ s ∈ y.secrets, s.id ≠ id) :
    (y.insert (y.generate now id)).latest = some id := by
  have hnew := (c36_generate_newer y h now id).1
  have hts : (y.generate now id).ts > 0 ∨ (y.generate now id).id ≠ 0 := by
    left
    unfold Bundle.generate
    by_cases hn : now ≤ ((y.latestSecret.map (·.ts)).getD 0)
    · simp [hn]
    · simp only [hn, if_false]; omega
  have hid : (y.generate now id).id = id := rfl
  have hmem : ∀ x, x ∈ (y.insert (y.generate now id)).secrets ↔ (x = y.generate now id ∨ x ∈ y.secrets) := by
    intro x
    show x ∈ mapInsert y.secrets _ ↔ _
    rw [mem_mapInsert]
    constructor
    · rintro (hx | hx)
      · exact Or.inl hx
      · exact Or.inr hx.1
    · rintro (hx | hx)
      · exact Or.inl hx
      · exact Or.inr ⟨hx, by rw [hid]; exact hfresh x hx⟩
  have hg : Guard (y.insert (y.generate now id)).secrets := by
    intro s hs
    rcases (hmem s).1 hs with hs | hs
    · subst hs; exact hts
    · exact h.guard s hs
  rcases c36_latest_is_max _ hg with ⟨h1, _⟩ | ⟨m, h1, h2⟩
  · have : y.generate now id ∈ (y.insert (y.generate now id)).secrets := (hmem _).2 (Or.inl rfl)
    rw [h1] at this; cases this
  · have h2' : (y.insert (y.generate now id)).latest = some m.id := h2
    rw [h2']
    rcases (hmem m).1 h1.1 with hm | hm
    · rw [hm, hid]
    · exfalso
      have a := hnew m hm
      have b := h1.2 (y.generate now id) ((hmem _).2 (Or.inl rfl))
      unfold le at b
      omega

/-! ## Non-vacuity -/
example : findLatest [⟨3, 5⟩, ⟨7, 5⟩, ⟨9, 4⟩, ⟨1, 0⟩] = some 7 := by decide
example : findLatest [⟨9, 4⟩, ⟨7, 5⟩, ⟨1, 0⟩, ⟨3, 5⟩] = some 7 := by decide
example : Guard [⟨3, 5⟩, ⟨7, 5⟩, ⟨9, 4⟩, ⟨1, 0⟩] := by
  intro s hs; simp at hs; rcases hs with h | h | h | h <;> subst h <;> simp
example : ((insertAll Bundle.init [⟨3, 5⟩, ⟨7, 5⟩]).generate 2 8) = ⟨8, 6⟩ := by decide
example : ((insertAll Bundle.init [⟨3, 5⟩, ⟨7, 5⟩]).generate 9 8) = ⟨8, 9⟩ := by decide
/-- Outside `Consistent` (same key announced with two timestamps) the last writer wins and the
    order of insertion shows: why `c36_order_independent` carries that hypothesis. -/
example : (insertAll Bundle.init [⟨3, 5⟩, ⟨4, 7⟩, ⟨3, 9⟩]).latest = some 3
    ∧ (insertAll Bundle.init [⟨3, 9⟩, ⟨4, 7⟩, ⟨3, 5⟩]).latest = some 4 := by decide

/-! ## Tie to the current source text (DESIGN.md §4.2) -/

/-- **The model is the source.** `./check` re-extracts these fragments from /repo on every run
    (regular expressions anchored on the surrounding statements; a fragment that no longer matches is
    itself a failure of the proof stage). They are the comparisons of `find_latest` (strictly later timestamp, or equal timestamp and strictly larger id, default id all-zero, initial timestamp 0 — `P2.GroupSecret.step`), `generate`'s `<=` bump to `latest + 1` with default 0 (`Bundle.generate`), and that `insert` / `remove` / `extend` recompute `latest` with `find_latest` (`Bundle.insert/remove/extend`), `latest()` looks the id up in the map (`Bundle.latestSecret`). Any edit of one of these
    operators / operands / call shapes changes the extracted text and this theorem stops checking —
    before a single input is generated. -/
theorem c36_source_ops :
    P2.Extracted.C36.findLatestCond = "latest_timestamp < timestamp || (latest_timestamp == timestamp && *id > latest_secret_id.unwrap_or([0; SHA256_DIGEST_SIZE]))"
    ∧ P2.Extracted.C36.findLatestInitTs = 0
    ∧ P2.Extracted.C36.findLatestInitId = "None"
    ∧ P2.Extracted.C36.generateDefault = 0
    ∧ P2.Extracted.C36.generateCond = "secret.timestamp() <= latest_timestamp"
    ∧ P2.Extracted.C36.generateBump = "latest_timestamp + 1"
    ∧ P2.Extracted.C36.insertBody = "y.secrets.insert(secret.id(), secret); y.latest = find_latest(&y.secrets); y"
    ∧ P2.Extracted.C36.removeBody = "let result = y.secrets.remove(id); y.latest = find_latest(&y.secrets); (y, result)"
    ∧ P2.Extracted.C36.extendBody = "y.secrets.extend(other.secrets); y.latest = find_latest(&y.secrets); y"
    ∧ P2.Extracted.C36.latestAccessor = "self.latest.as_ref().and_then(|id| self.secrets.get(id))" :=
  ⟨rfl, rfl, rfl, rfl, rfl, rfl, rfl, rfl, rfl, rfl⟩

end P2.C36
