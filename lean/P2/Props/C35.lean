/-
C35 — Group data encryption: members agree, removed members are cut off.

Symbolic model `P2/Model/GroupEnc.lean` (direct messages readable by their recipient only; data
encrypted under a secret decrypts exactly for its holders).

* `c35_cut_off` (+ `c35_secret_recipients`, `c35_view_*`): on the fine-grained network model, for
  **every** schedule: a member holds a secret only if it generated it, received it in a direct
  message addressed to it, or received it inside the welcome bundle of an `add` of itself; and
  secret-carrying direct messages go only to members of the issuer's view other than the issuer
  and (for `remove x`) other than `x`; a member that processed `remove x` has `x` outside its view
  until it processes an `add x` / `create` / its own welcome.
* `c35_agree_partial`: for every *sequential* history (each operation delivered to everybody before
  the next one) of any length: all current members share the view, hold the same secrets, choose
  the same latest secret, and every member's application message decrypts at every other member.
* `c35_agree_statement` is the full statement; `c35_concurrent_violates` refutes it with the
  confirmed witness `create{0,1}; 0 adds 2 ∥ 1 updates` (known finding
  `add-concurrent-with-secret-rotation`).
-/
import P2.Extracted.C35
import P2.Model.GroupEnc
import P2.Props.C36

namespace P2.C35
open P2.GroupEnc P2.GroupSecret

/-! ## The concurrent witness (full statement is false on the pinned design) -/

/-- `create{0,1}` delivered; then member 0 adds 2 while, concurrently, member 1 rotates the secret;
    everything is delivered to everybody; finally 1 sends an application message. -/
def witness : List Step :=
  [.create 0 [0, 1] 1, .deliver 0 1, .deliver 0 2,
   .add 0 2, .update 1 2,
   .deliver 1 1, .deliver 1 2, .deliver 2 0, .deliver 2 2,
   .send 1, .deliver 3 0, .deliver 3 2]

def Current (n : Net) (m : Nat) : Prop := (n.mem m).welcomed = true ∧ m ∈ (n.mem m).view

def Holds (n : Net) (m : Nat) (sid : Nat) : Prop := ∃ s ∈ (n.mem m).bundle.secrets, s.id = sid

/-- Every message in the log has been handed to each of the first `N` identities (except its
    sender) at some point of the schedule. -/
def Complete (N : Nat) (steps : List Step) (n : Net) : Prop :=
  ((List.range n.log.length).all fun k => (List.range N).all fun j =>
    ((n.log[k]?).map (·.sender) == some j) || steps.contains (Step.deliver k j)) = true

/-- **Full statement of the agreement half** (false, see `c35_concurrent_violates`): after all
    messages of any history are delivered, every current member holds every current member's
    latest secret. -/
def c35_agree_statement : Prop :=
  ∀ (N now : Nat) (steps : List Step),
    let n := (Net.init.run now steps).1
    Complete N steps n →
    ∀ a b, a < N → b < N → Current n a → Current n b →
      ∀ s, (n.mem a).bundle.latestSecret = some s → Holds n b s.id

private def wnet : Net := (Net.init.run 1000 witness).1

private theorem w_complete : Complete 3 witness wnet := by unfold Complete; decide
private theorem w_cur2 : (wnet.mem 2).welcomed = true ∧ (wnet.mem 2).view = [0, 1, 2] := by decide
private theorem w_cur1 : (wnet.mem 1).welcomed = true ∧ (wnet.mem 1).view = [0, 1, 2] := by decide
private theorem w_latest1 : (wnet.mem 1).bundle.latestSecret = some ⟨2, 1001⟩ := by decide
private theorem w_bundle2 : (wnet.mem 2).bundle.secrets = [⟨1, 1000⟩] := by decide
private theorem w_obs : (Net.init.run 1000 witness).2.getLast? = some (.err .unknownSecret) := by decide

/-- **Concurrent add ∥ rotation violates agreement.** In the witness history everything is
    delivered, 1 and 2 are current members in every view, 1's latest secret is the one it generated
    concurrently with the add — and 2 does not hold it; 1's application message is rejected by 2
    with `UnknownGroupSecret`. -/
theorem c35_concurrent_violates :
    ¬ c35_agree_statement
    ∧ (Net.init.run 1000 witness).2.getLast? = some (.err .unknownSecret) := by
  refine ⟨?_, w_obs⟩
  intro h
  have h1 : Current wnet 1 := ⟨w_cur1.1, by rw [w_cur1.2]; decide⟩
  have h2 : Current wnet 2 := ⟨w_cur2.1, by rw [w_cur2.2]; decide⟩
  obtain ⟨s, hs, hid⟩ := h 3 1000 witness w_complete 1 2 (by decide) (by decide) h1 h2 _ w_latest1
  have : s ∈ (wnet.mem 2).bundle.secrets := hs
  rw [w_bundle2] at this
  simp at this
  subst this
  simp at hid

/-! ## Cut-off: where a member's secrets can come from (fine-grained model, every schedule) -/

/-- The direct-message content carries secret `s`. -/
def carries (p : Payload) (s : Sec) : Prop :=
  match p with
  | .secret s' => s' = s
  | .welcome b _ => s ∈ b

private theorem mem_mapInsert_imp (l : List Sec) (s x : Sec) (h : x ∈ mapInsert l s) : x = s ∨ x ∈ l := by
  unfold mapInsert at h
  simp only [List.mem_append, List.mem_filter, List.mem_singleton] at h
  rcases h with h | h
  · exact Or.inr h.1
  · exact Or.inl h

private theorem mem_foldl_mapInsert_imp (xs l : List Sec) (x : Sec) (h : x ∈ xs.foldl mapInsert l) :
    x ∈ l ∨ x ∈ xs := by
  induction xs generalizing l with
  | nil => exact Or.inl h
  | cons a xs ih =>
    rcases ih (mapInsert l a) h with h1 | h1
    · rcases mem_mapInsert_imp l a x h1 with h2 | h2
      · exact Or.inr (by simp [h2])
      · exact Or.inl h2
    · exact Or.inr (List.mem_cons_of_mem _ h1)

theorem mem_insert_imp (y : Bundle) (s x : Sec) (h : x ∈ (y.insert s).secrets) : x = s ∨ x ∈ y.secrets :=
  mem_mapInsert_imp _ _ _ h

theorem mem_extend_imp (y : Bundle) (b : List Sec) (x : Sec)
    (h : x ∈ (y.extend (Bundle.fromSecrets b)).secrets) : x ∈ y.secrets ∨ x ∈ b := by
  have h' : x ∈ (Bundle.fromSecrets b).secrets.foldl mapInsert y.secrets := h
  rcases mem_foldl_mapInsert_imp _ _ _ h' with h1 | h1
  · exact Or.inl h1
  · have h2 : x ∈ b.foldl mapInsert [] := h1
    rcases mem_foldl_mapInsert_imp _ _ _ h2 with h3 | h3
    · cases h3
    · exact Or.inr h3

theorem dmFor_mem (me : Nat) (m : Msg) (p : Payload) (h : dmFor me m = some p) : (me, p) ∈ m.dms := by
  unfold dmFor at h
  cases hf : m.dms.find? (fun d => decide (d.1 = me)) with
  | none => rw [hf] at h; cases h
  | some d =>
    rw [hf] at h
    simp only [Option.map_some, Option.some.injEq] at h
    have h1 := List.mem_of_find?_eq_some hf
    have h2 := List.find?_some hf
    simp only [decide_eq_true_eq] at h2
    obtain ⟨r, q⟩ := d
    simp only at h h2
    subst h; subst h2
    exact h1

/-- A control message changes the bundle only through the direct message addressed to `me`. -/
theorem applyControl_prov (me : Nat) (y y1 : MState) (k : Kind) (dm : Option Payload)
    (h : applyControl me y k dm = .ok y1) :
    ∀ s ∈ y1.bundle.secrets, s ∈ y.bundle.secrets ∨ ∃ p, dm = some p ∧ carries p s := by
  intro s hs
  unfold applyControl at h
  cases k with
  | create ms =>
    cases dm with
    | none => simp only at h; cases h; exact Or.inl hs
    | some p =>
      cases p with
      | secret s' =>
        simp only at h; cases h
        rcases mem_insert_imp _ _ _ hs with h1 | h1
        · exact Or.inr ⟨_, rfl, h1.symm⟩
        · exact Or.inl h1
      | welcome b hh => simp at h
  | update =>
    cases dm with
    | none => simp only at h; cases h; exact Or.inl hs
    | some p =>
      cases p with
      | secret s' =>
        simp only at h; cases h
        rcases mem_insert_imp _ _ _ hs with h1 | h1
        · exact Or.inr ⟨_, rfl, h1.symm⟩
        · exact Or.inl h1
      | welcome b hh => simp at h
  | remove x =>
    cases dm with
    | none => simp only at h; cases h; exact Or.inl hs
    | some p =>
      cases p with
      | secret s' =>
        simp only at h; cases h
        rcases mem_insert_imp _ _ _ hs with h1 | h1
        · exact Or.inr ⟨_, rfl, h1.symm⟩
        · exact Or.inl h1
      | welcome b hh => simp at h
  | add x =>
    simp only at h
    by_cases hx : x = me
    · simp only [hx, if_true] at h
      cases dm with
      | none => simp at h
      | some p =>
        cases p with
        | secret s' => simp at h
        | welcome b hh =>
          simp only at h; cases h
          rcases mem_extend_imp _ _ _ hs with h1 | h1
          · exact Or.inl h1
          · exact Or.inr ⟨_, rfl, h1⟩
    · simp only [hx, if_false] at h; cases h; exact Or.inl hs
  | app a b => simp only at h; cases h; exact Or.inl hs

theorem processReady_prov (me : Nat) (y y' : MState) (m : Msg) (o : Option Out)
    (h : processReady me y m = .ok (y', o)) :
    ∀ s ∈ y'.bundle.secrets, s ∈ y.bundle.secrets ∨ ∃ p, (me, p) ∈ m.dms ∧ carries p s := by
  intro s hs
  unfold processReady at h
  cases hk : m.kind with
  | app sid pl =>
    simp only [hk] at h
    split at h
    · cases h; exact Or.inl hs
    · cases h
  | create ms =>
    simp only [hk] at h
    cases ha : applyControl me y (.create ms) (dmFor me m) with
    | error e => rw [ha] at h; cases h
    | ok y1 =>
      rw [ha] at h; simp only [finishControl, Except.ok.injEq, Prod.mk.injEq] at h
      have hb : y'.bundle = y1.bundle := by rw [← h.1]
      rw [hb] at hs
      rcases applyControl_prov me y y1 _ _ ha s hs with h1 | ⟨p, hp, hc⟩
      · exact Or.inl h1
      · exact Or.inr ⟨p, dmFor_mem me m p hp, hc⟩
  | add x =>
    simp only [hk] at h
    cases ha : applyControl me y (.add x) (dmFor me m) with
    | error e => rw [ha] at h; cases h
    | ok y1 =>
      rw [ha] at h; simp only [finishControl, Except.ok.injEq, Prod.mk.injEq] at h
      have hb : y'.bundle = y1.bundle := by rw [← h.1]
      rw [hb] at hs
      rcases applyControl_prov me y y1 _ _ ha s hs with h1 | ⟨p, hp, hc⟩
      · exact Or.inl h1
      · exact Or.inr ⟨p, dmFor_mem me m p hp, hc⟩
  | remove x =>
    simp only [hk] at h
    cases ha : applyControl me y (.remove x) (dmFor me m) with
    | error e => rw [ha] at h; cases h
    | ok y1 =>
      rw [ha] at h; simp only [finishControl, Except.ok.injEq, Prod.mk.injEq] at h
      have hb : y'.bundle = y1.bundle := by rw [← h.1]
      rw [hb] at hs
      rcases applyControl_prov me y y1 _ _ ha s hs with h1 | ⟨p, hp, hc⟩
      · exact Or.inl h1
      · exact Or.inr ⟨p, dmFor_mem me m p hp, hc⟩
  | update =>
    simp only [hk] at h
    cases ha : applyControl me y .update (dmFor me m) with
    | error e => rw [ha] at h; cases h
    | ok y1 =>
      rw [ha] at h; simp only [finishControl, Except.ok.injEq, Prod.mk.injEq] at h
      have hb : y'.bundle = y1.bundle := by rw [← h.1]
      rw [hb] at hs
      rcases applyControl_prov me y y1 _ _ ha s hs with h1 | ⟨p, hp, hc⟩
      · exact Or.inl h1
      · exact Or.inr ⟨p, dmFor_mem me m p hp, hc⟩

theorem processAll_prov (me : Nat) (y y' : MState) (ms : List Msg) (os : List Out)
    (h : processAll me y ms = .ok (y', os)) :
    ∀ s ∈ y'.bundle.secrets, s ∈ y.bundle.secrets ∨ ∃ m ∈ ms, ∃ p, (me, p) ∈ m.dms ∧ carries p s := by
  induction ms generalizing y os with
  | nil => intro s hs; simp only [processAll, Except.ok.injEq, Prod.mk.injEq] at h; rw [← h.1] at hs; exact Or.inl hs
  | cons m ms ih =>
    intro s hs
    simp only [processAll] at h
    cases h1 : processReady me y m with
    | error e => rw [h1] at h; cases h
    | ok r =>
      obtain ⟨y1, o⟩ := r
      rw [h1] at h
      simp only at h
      cases h2 : processAll me y1 ms with
      | error e => rw [h2] at h; cases h
      | ok r2 =>
        obtain ⟨y2, os2⟩ := r2
        rw [h2] at h
        simp only [Except.ok.injEq, Prod.mk.injEq] at h
        obtain ⟨e1, _⟩ := h
        subst e1
        rcases ih y1 os2 h2 s hs with h3 | ⟨m', hm', p, hp, hc⟩
        · rcases processReady_prov me y y1 m o h1 s h3 with h4 | ⟨p, hp, hc⟩
          · exact Or.inl h4
          · exact Or.inr ⟨m, by simp, p, hp, hc⟩
        · exact Or.inr ⟨m', by simp [hm'], p, hp, hc⟩

/-- A member's secrets after a `receive` come from before or from direct messages addressed to it
    in messages of the log. -/
theorem receive_prov (me : Nat) (y y' : MState) (log : List Msg) (k : Nat) (m : Msg) (os : List Out)
    (hm : log[k]? = some m) (h : receive me y log k m = .ok (y', os)) :
    ∀ s ∈ y'.bundle.secrets, s ∈ y.bundle.secrets ∨ ∃ m' ∈ log, ∃ p, (me, p) ∈ m'.dms ∧ carries p s := by
  intro s hs
  have hmem : m ∈ log := List.mem_of_getElem? hm
  unfold receive at h
  simp only at h
  split at h
  · cases h
  · cases hw : y.welcomed with
    | true =>
      simp only [hw, if_true] at h
      rcases processAll_prov me y y' [m] os h s hs with h1 | ⟨m', hm', p, hp, hc⟩
      · exact Or.inl h1
      · simp at hm'; subst hm'; exact Or.inr ⟨m', hmem, p, hp, hc⟩
    | false =>
      simp only [hw, Bool.false_eq_true, if_false] at h
      cases hwel : welcomeish me false m.kind with
      | false =>
        simp only [hwel, Bool.not_false, if_true, Except.ok.injEq, Prod.mk.injEq] at h
        rw [← h.1] at hs; exact Or.inl hs
      | true =>
        simp only [hwel, Bool.not_true, Bool.false_eq_true, if_false] at h
        rcases processAll_prov me _ y' _ os h s hs with h1 | ⟨m', hm', p, hp, hc⟩
        · exact Or.inl h1
        · refine Or.inr ⟨m', ?_, p, hp, hc⟩
          simp only [List.mem_append, List.mem_filter, List.mem_filterMap] at hm'
          rcases hm' with ⟨⟨i, _, hi⟩, _⟩ | ⟨⟨i, _, hi⟩, _⟩ <;> exact List.mem_of_getElem? hi

/-- Provenance invariant of the whole network. -/
def Prov (n : Net) : Prop :=
  ∀ j s, s ∈ (n.mem j).bundle.secrets →
    (∃ m ∈ n.log, m.sender = j ∧ m.gen = some s) ∨ (∃ m ∈ n.log, ∃ p, (j, p) ∈ m.dms ∧ carries p s)

theorem prov_init : Prov Net.init := by
  intro j s hs; simp [Net.init, MState.init, Bundle.init] at hs

private theorem prov_op (n : Net) (me : Nat) (y : MState) (msg : Msg) (hP : Prov n)
    (hsender : msg.sender = me)
    (hb : ∀ s ∈ y.bundle.secrets, s ∈ (n.mem me).bundle.secrets ∨ msg.gen = some s) (pn : Nat) :
    Prov { mem := upd n.mem me y, log := n.log ++ [msg], plainNo := pn } := by
  intro j s hs
  simp only [upd] at hs
  by_cases hj : j = me
  · simp only [hj, if_true] at hs
    rcases hb s hs with h1 | h1
    · rcases hP me s h1 with ⟨m, hm, h2⟩ | ⟨m, hm, h2⟩
      · exact Or.inl ⟨m, by simp [hm], by rw [hj]; exact h2⟩
      · exact Or.inr ⟨m, by simp [hm], by rw [hj]; exact h2⟩
    · exact Or.inl ⟨msg, by simp, by rw [hj]; exact hsender, h1⟩
  · simp only [hj, if_false] at hs
    rcases hP j s hs with ⟨m, hm, h2⟩ | ⟨m, hm, h2⟩
    · exact Or.inl ⟨m, by simp [hm], h2⟩
    · exact Or.inr ⟨m, by simp [hm], h2⟩

theorem prov_step (n : Net) (now : Nat) (st : Step) (hP : Prov n) : Prov (n.step now st).1 := by
  cases st with
  | deliver k j =>
    simp only [Net.step]
    cases hm : n.log[k]? with
    | none => exact hP
    | some m =>
      simp only
      by_cases hs : m.sender = j
      · simp only [hs, if_true]; exact hP
      · simp only [hs, if_false]
        cases hr : receive j (n.mem j) n.log k m with
        | error e => exact hP
        | ok r =>
          obtain ⟨y, outs⟩ := r
          simp only
          intro i s hsec
          simp only [upd] at hsec
          by_cases hi : i = j
          · simp only [hi, if_true] at hsec
            rcases receive_prov j (n.mem j) y n.log k m outs hm hr s hsec with h1 | h1
            · rw [hi]; exact hP j s h1
            · rw [hi]; exact Or.inr h1
          · simp only [hi, if_false] at hsec
            exact hP i s hsec
  | create m ms sid =>
    simp only [Net.step]
    unfold opCreate
    by_cases hw : (n.mem m).welcomed = true
    · simp only [hw, if_true]; exact hP
    · simp only [hw, if_false]
      apply prov_op n m _ _ hP rfl
      intro s hs
      rcases mem_insert_imp _ _ _ hs with h1 | h1
      · exact Or.inr (by rw [h1])
      · exact Or.inl h1
  | add m x =>
    simp only [Net.step]
    unfold opAdd
    by_cases hw : (n.mem m).welcomed = true
    · simp only [hw, Bool.not_true, Bool.false_eq_true, if_false]
      by_cases hx : m = x
      · simp only [hx, if_true]; exact hP
      · simp only [hx, if_false]
        apply prov_op n m _ _ hP rfl
        intro s hs; exact Or.inl hs
    · simp only [hw, Bool.not_false, if_true]; exact hP
  | remove m x sid =>
    simp only [Net.step]
    unfold opRemove
    by_cases hw : (n.mem m).welcomed = true
    · simp only [hw, Bool.not_true, Bool.false_eq_true, if_false]
      apply prov_op n m _ _ hP rfl
      intro s hs
      rcases mem_insert_imp _ _ _ hs with h1 | h1
      · exact Or.inr (by rw [h1])
      · exact Or.inl h1
    · simp only [hw, Bool.not_false, if_true]; exact hP
  | update m sid =>
    simp only [Net.step]
    unfold opUpdate
    by_cases hw : (n.mem m).welcomed = true
    · simp only [hw, Bool.not_true, Bool.false_eq_true, if_false]
      apply prov_op n m _ _ hP rfl
      intro s hs
      rcases mem_insert_imp _ _ _ hs with h1 | h1
      · exact Or.inr (by rw [h1])
      · exact Or.inl h1
    · simp only [hw, Bool.not_false, if_true]; exact hP
  | send m =>
    simp only [Net.step]
    unfold opSend
    by_cases hw : (n.mem m).welcomed = true
    · simp only [hw, Bool.not_true, Bool.false_eq_true, if_false]
      cases hl : (n.mem m).bundle.latestSecret with
      | none => exact hP
      | some s0 =>
        simp only
        apply prov_op n m _ _ hP rfl
        intro s hs; exact Or.inl hs
    · simp only [hw, Bool.not_false, if_true]; exact hP

theorem prov_run (n : Net) (now : Nat) (steps : List Step) (hP : Prov n) : Prov (n.run now steps).1 := by
  induction steps generalizing n with
  | nil => exact hP
  | cons st steps ih =>
    have := ih (n.step now st).1 (prov_step n now st hP)
    simpa [Net.run] using this

/-- **Cut off (1): provenance.** For every schedule (any operations, any delivery order, any clock):
    a member holds a secret only if it generated it itself or some message carries a direct message
    *addressed to that member* with the secret in it (alone, or inside a welcome bundle). A member
    that is not a recipient of a rotation and is not (re-)added afterwards therefore never holds the
    rotated secret. -/
theorem c35_cut_off (now : Nat) (steps : List Step) (x : Nat) (s : Sec)
    (h : s ∈ ((Net.init.run now steps).1.mem x).bundle.secrets) :
    (∃ m ∈ (Net.init.run now steps).1.log, m.sender = x ∧ m.gen = some s)
    ∨ (∃ m ∈ (Net.init.run now steps).1.log, ∃ p, (x, p) ∈ m.dms ∧ carries p s) :=
  prov_run Net.init now steps prov_init x s h

/-- Well-formedness of the direct messages of one message. -/
def DmsOk (m : Msg) : Prop :=
  ∀ r p, (r, p) ∈ m.dms →
    match p with
    | .secret s => m.gen = some s ∧ r ∈ m.view ∧ r ≠ m.sender ∧ m.kind ≠ .remove r
    | .welcome _ h => m.kind = .add r ∧ h = m.view

private theorem secretDms_mem (rs : List Nat) (s : Sec) (r : Nat) (p : Payload)
    (h : (r, p) ∈ secretDms rs s) : p = .secret s ∧ r ∈ rs := by
  unfold secretDms at h
  simp only [List.mem_map, Prod.mk.injEq] at h
  obtain ⟨a, ha, h1, h2⟩ := h
  exact ⟨h2.symm, h1 ▸ ha⟩

private theorem mem_setInsert (l : List Nat) (x z : Nat) : z ∈ setInsert l x ↔ (z ∈ l ∨ z = x) := by
  unfold setInsert
  by_cases h : x ∈ l
  · simp only [h, if_true]
    constructor
    · intro hz; exact Or.inl hz
    · rintro (hz | hz)
      · exact hz
      · rw [hz]; exact h
  · simp [h]

private theorem mem_setRemove (l : List Nat) (x z : Nat) : z ∈ setRemove l x ↔ (z ∈ l ∧ z ≠ x) := by
  unfold setRemove; simp

theorem logOk_step (n : Net) (now : Nat) (st : Step) (h : ∀ m ∈ n.log, DmsOk m) :
    ∀ m ∈ (n.step now st).1.log, DmsOk m := by
  have key : ∀ (msg : Msg), DmsOk msg → ∀ m ∈ n.log ++ [msg], DmsOk m := by
    intro msg hmsg m hm
    simp only [List.mem_append, List.mem_singleton] at hm
    rcases hm with hm | hm
    · exact h m hm
    · rw [hm]; exact hmsg
  cases st with
  | deliver k j =>
    simp only [Net.step]
    cases hm : n.log[k]? with
    | none => exact h
    | some m =>
      simp only
      by_cases hs : m.sender = j
      · simp only [hs, if_true]; exact h
      · simp only [hs, if_false]
        cases hr : receive j (n.mem j) n.log k m with
        | error e => exact h
        | ok r => exact h
  | create m ms sid =>
    simp only [Net.step]
    unfold opCreate
    by_cases hw : (n.mem m).welcomed = true
    · simp only [hw, if_true]; exact h
    · simp only [hw]
      refine key _ ?_
      intro r p hrp
      obtain ⟨hp, hr⟩ := secretDms_mem _ _ _ _ hrp
      subst hp
      simp only [List.mem_filter, decide_eq_true_eq] at hr
      exact ⟨rfl, hr.1, hr.2, by simp⟩
  | add m x =>
    simp only [Net.step]
    unfold opAdd
    by_cases hw : (n.mem m).welcomed = true
    · simp only [hw, Bool.not_true, Bool.false_eq_true, if_false]
      by_cases hx : m = x
      · simp only [hx, if_true]; exact h
      · simp only [hx, if_false]
        refine key _ ?_
        intro r p hrp
        simp only [List.mem_singleton, Prod.mk.injEq] at hrp
        obtain ⟨h1, h2⟩ := hrp
        subst h1; subst h2
        exact ⟨rfl, rfl⟩
    · simp only [hw, Bool.not_false, if_true]; exact h
  | remove m x sid =>
    simp only [Net.step]
    unfold opRemove
    by_cases hw : (n.mem m).welcomed = true
    · simp only [hw, Bool.not_true, Bool.false_eq_true, if_false]
      refine key _ ?_
      intro r p hrp
      obtain ⟨hp, hr⟩ := secretDms_mem _ _ _ _ hrp
      subst hp
      simp only [List.mem_filter, decide_eq_true_eq] at hr
      refine ⟨rfl, hr.1, hr.2.1, ?_⟩
      intro hk
      simp only [Kind.remove.injEq] at hk
      exact hr.2.2 hk.symm
    · simp only [hw, Bool.not_false, if_true]; exact h
  | update m sid =>
    simp only [Net.step]
    unfold opUpdate
    by_cases hw : (n.mem m).welcomed = true
    · simp only [hw, Bool.not_true, Bool.false_eq_true, if_false]
      refine key _ ?_
      intro r p hrp
      obtain ⟨hp, hr⟩ := secretDms_mem _ _ _ _ hrp
      subst hp
      simp only [List.mem_filter, decide_eq_true_eq] at hr
      exact ⟨rfl, hr.1, hr.2, by simp⟩
    · simp only [hw, Bool.not_false, if_true]; exact h
  | send m =>
    simp only [Net.step]
    unfold opSend
    by_cases hw : (n.mem m).welcomed = true
    · simp only [hw, Bool.not_true, Bool.false_eq_true, if_false]
      cases hl : (n.mem m).bundle.latestSecret with
      | none => exact h
      | some s0 =>
        simp only
        refine key _ ?_
        intro r p hrp
        simp at hrp
    · simp only [hw, Bool.not_false, if_true]; exact h

/-- **Cut off (2): recipients.** In every reachable log: a direct message carrying a single
    secret is the secret its operation generated and is addressed to a member of the issuer's view
    (as it was when the operation was issued), never to the issuer and never to the member a
    `remove` removes; a welcome bundle is addressed only to the member its `add` adds. -/
theorem c35_secret_recipients (now : Nat) (steps : List Step) :
    ∀ m ∈ (Net.init.run now steps).1.log, DmsOk m := by
  suffices H : ∀ n : Net, (∀ m ∈ n.log, DmsOk m) → ∀ m ∈ (n.run now steps).1.log, DmsOk m from
    H Net.init (by intro m hm; simp [Net.init] at hm)
  induction steps with
  | nil => intro n h; exact h
  | cons st steps ih =>
    intro n h
    have := ih (n.step now st).1 (logOk_step n now st h)
    simpa [Net.run] using this

/-- **Cut off (3): the view.** Processing `remove x` puts `x` outside the member's view; `update`,
    application messages and the `add` of somebody else keep it outside; the issuer of `remove x`
    has `x` outside its view at once. (It can only come back through an `add x`, a `create`, or the
    member's own welcome — all decided by the DGM, a trait parameter.) -/
theorem c35_view_after_remove (me : Nat) (y y1 : MState) (x : Nat) (dm : Option Payload) :
    (applyControl me y (.remove x) dm = .ok y1 → x ∉ y1.view)
    ∧ (applyControl me y .update dm = .ok y1 → y1.view = y.view)
    ∧ (∀ z, z ≠ me → z ≠ x → applyControl me y (.add z) dm = .ok y1 → x ∉ y.view → x ∉ y1.view)
    ∧ (∀ now sid y' msg, opRemove me y x now sid = .ok (y', msg) → x ∉ y'.view) := by
  refine ⟨?_, ?_, ?_, ?_⟩
  · intro h
    unfold applyControl at h
    cases dm with
    | none => simp only at h; cases h; simp [mem_setRemove]
    | some p =>
      cases p with
      | secret s => simp only at h; cases h; simp [mem_setRemove]
      | welcome b hh => simp at h
  · intro h
    unfold applyControl at h
    cases dm with
    | none => simp only at h; cases h; rfl
    | some p =>
      cases p with
      | secret s => simp only at h; cases h; rfl
      | welcome b hh => simp at h
  · intro z hz hzx h hx
    unfold applyControl at h
    simp only [hz, if_false] at h
    cases h
    simp only [mem_setInsert]
    rintro (h1 | h1)
    · exact hx h1
    · exact hzx h1.symm
  · intro now sid y' msg h
    unfold opRemove at h
    cases hw : y.welcomed with
    | false => simp [hw] at h
    | true =>
      simp only [hw, Bool.not_true, Bool.false_eq_true, if_false, Except.ok.injEq, Prod.mk.injEq] at h
      rw [← h.1]; simp [mem_setRemove]

/-! ## Agreement for sequential histories -/

/-- Atomic broadcast of a control message issued by `me`: every other identity that is welcomed,
    or that the message welcomes, processes it (`process_ready`); identities that are not welcomed
    are untouched (their buffering of old messages is abstracted away here; the network model and
    the harness' "sequential" family exercise it). -/
def bcast (st : Nat → MState) (me : Nat) (msg : Msg) : Nat → MState := fun j =>
  if j = me then st j
  else if (st j).welcomed || welcomeish j (st j).welcomed msg.kind then
    match processReady j (st j) msg with
    | .ok (y, _) => y
    | .error _ => st j
  else st j

/-- Membership operations after the `create`. -/
inductive SOp where
  | add (m x : Nat)
  | remove (m x sid : Nat)
  | update (m sid : Nat)

/-- One sequential step: the operation, then its atomic broadcast. -/
def seqStep (now : Nat) (st : Nat → MState) : SOp → (Nat → MState)
  | .add m x => match opAdd m (st m) x with
    | .ok (y, msg) => bcast (P2.GroupEnc.upd st m y) m msg
    | .error _ => st
  | .remove m x sid => match opRemove m (st m) x now sid with
    | .ok (y, msg) => bcast (P2.GroupEnc.upd st m y) m msg
    | .error _ => st
  | .update m sid => match opUpdate m (st m) now sid with
    | .ok (y, msg) => bcast (P2.GroupEnc.upd st m y) m msg
    | .error _ => st

/-- The state after `create` by `c` with initial members `ms`. -/
def seqCreate (now c : Nat) (ms : List Nat) (sid : Nat) : Nat → MState :=
  match opCreate c MState.init ms now sid with
  | .ok (y, msg) => bcast (P2.GroupEnc.upd (fun _ => MState.init) c y) c msg
  | .error _ => fun _ => MState.init

def Cur (st : Nat → MState) (m : Nat) : Prop := (st m).welcomed = true ∧ m ∈ (st m).view

/-- Preconditions of a sequential operation, stated on the issuer's own state: the issuer is a
    current member, adds a non-member / removes a member of its view, and generated secret ids
    are fresh. -/
def LegalOp (st : Nat → MState) : SOp → Prop
  | .add m x => Cur st m ∧ x ∉ (st m).view
  | .remove m x sid => Cur st m ∧ x ∈ (st m).view ∧ ∀ s ∈ (st m).bundle.secrets, s.id ≠ sid
  | .update m sid => Cur st m ∧ ∀ s ∈ (st m).bundle.secrets, s.id ≠ sid

def LegalSeq (now : Nat) (st : Nat → MState) : List SOp → Prop
  | [] => True
  | op :: ops => LegalOp st op ∧ LegalSeq now (seqStep now st op) ops

instance decLegalOp (st : Nat → MState) (op : SOp) : Decidable (LegalOp st op) := by
  cases op <;> unfold LegalOp Cur <;> infer_instance

def decLegalSeq (now : Nat) : (st : Nat → MState) → (ops : List SOp) → Decidable (LegalSeq now st ops)
  | _, [] => isTrue trivial
  | st, op :: ops => by
    unfold LegalSeq
    exact @instDecidableAnd _ _ (decLegalOp st op) (decLegalSeq now _ ops)

instance (now : Nat) (st : Nat → MState) (ops : List SOp) : Decidable (LegalSeq now st ops) :=
  decLegalSeq now st ops

/-- The agreement invariant: `V` = the group, `B` = the group's secrets. -/
structure Agree (st : Nat → MState) (V : List Nat) (B : List Sec) : Prop where
  welc   : ∀ j ∈ V, (st j).welcomed = true
  view   : ∀ j, (st j).welcomed = true → ∀ z, z ∈ (st j).view ↔ z ∈ V
  full   : ∀ j ∈ V, ∀ s, s ∈ B → s ∈ (st j).bundle.secrets
  sub    : ∀ j, ∀ s ∈ (st j).bundle.secrets, s ∈ B
  latest : ∀ j, (st j).bundle.latest = findLatest (st j).bundle.secrets
  cons   : P2.C36.Consistent B
  pos    : ∀ s ∈ B, s.ts > 0

/-! ### Small facts about the building blocks -/

private theorem mem_mapInsert_iff (l : List Sec) (s x : Sec) :
    x ∈ mapInsert l s ↔ (x = s ∨ (x ∈ l ∧ x.id ≠ s.id)) := by
  unfold mapInsert
  simp only [List.mem_append, List.mem_filter, List.mem_singleton, decide_eq_true_eq, ne_eq]
  constructor
  · rintro (h | h)
    · exact Or.inr h
    · exact Or.inl h
  · rintro (h | h)
    · exact Or.inr h
    · exact Or.inl h

private theorem mem_foldl_mapInsert_iff (xs l : List Sec) (x : Sec)
    (hc : P2.C36.Consistent (l ++ xs)) :
    x ∈ xs.foldl mapInsert l ↔ (x ∈ l ∨ x ∈ xs) := by
  induction xs generalizing l with
  | nil => simp
  | cons s xs ih =>
    have hc' : P2.C36.Consistent (mapInsert l s ++ xs) := by
      intro a ha b hb hab
      apply hc a _ b _ hab
      · rcases List.mem_append.1 ha with ha | ha
        · rcases (mem_mapInsert_iff l s a).1 ha with ha | ha
          · subst ha; simp
          · simp [ha.1]
        · simp [ha]
      · rcases List.mem_append.1 hb with hb | hb
        · rcases (mem_mapInsert_iff l s b).1 hb with hb | hb
          · subst hb; simp
          · simp [hb.1]
        · simp [hb]
    simp only [List.foldl_cons]
    rw [ih (mapInsert l s) hc', mem_mapInsert_iff]
    simp only [List.mem_cons]
    constructor
    · rintro ((h | h) | h)
      · exact Or.inr (Or.inl h)
      · exact Or.inl h.1
      · exact Or.inr (Or.inr h)
    · rintro (h | h | h)
      · by_cases hid : x.id = s.id
        · have : x = s := hc x (by simp [h]) s (by simp) hid
          exact Or.inl (Or.inl this)
        · exact Or.inl (Or.inr ⟨h, hid⟩)
      · exact Or.inl (Or.inl h)
      · exact Or.inr h

private theorem generate_pos (y : Bundle) (now sid : Nat) : (y.generate now sid).ts > 0 ∧ (y.generate now sid).id = sid := by
  unfold Bundle.generate
  refine ⟨?_, rfl⟩
  simp only
  split <;> omega

private theorem dmFor_secretDms (j : Nat) (rs : List Nat) (s : Sec) (m : Msg) (hm : m.dms = secretDms rs s) :
    dmFor j m = if j ∈ rs then some (.secret s) else none := by
  unfold dmFor
  rw [hm]
  clear hm
  unfold secretDms
  induction rs with
  | nil => simp
  | cons r rs ih =>
    simp only [List.map_cons, List.find?_cons]
    by_cases hr : r = j
    · subst hr; simp
    · have : ¬ j = r := fun h => hr h.symm
      simp only [hr, decide_false, List.mem_cons, this, false_or]
      exact ih

private theorem fin_fields (j : Nat) (y1 : MState) :
    (finishControl j y1).1.view = y1.view ∧ (finishControl j y1).1.bundle = y1.bundle
    ∧ (finishControl j y1).1.welcomed = (y1.welcomed || decide (j ∈ y1.view)) := ⟨rfl, rfl, rfl⟩

/-- Fields of a processed secret-carrying control message (`update` / `remove x`). -/
private theorem pr_rotation (j : Nat) (y : MState) (msg : Msg) (s : Sec) (rs : List Nat)
    (hk : msg.kind = .update ∨ ∃ x, msg.kind = .remove x) (hd : msg.dms = secretDms rs s) :
    ∃ y' o, processReady j y msg = .ok (y', o)
      ∧ y'.view = (match msg.kind with | .remove x => setRemove y.view x | _ => y.view)
      ∧ y'.bundle = (if j ∈ rs then y.bundle.insert s else y.bundle)
      ∧ y'.welcomed = (y.welcomed || decide (j ∈ y'.view)) := by
  have hdm := dmFor_secretDms j rs s msg hd
  unfold processReady
  rcases hk with hk | ⟨x, hk⟩
  · simp only [hk, applyControl, hdm]
    by_cases hj : j ∈ rs
    · simp only [hj, if_true]; exact ⟨_, _, rfl, rfl, rfl, rfl⟩
    · simp only [hj, if_false]; exact ⟨_, _, rfl, rfl, rfl, rfl⟩
  · simp only [hk, applyControl, hdm]
    by_cases hj : j ∈ rs
    · simp only [hj, if_true]; exact ⟨_, _, rfl, rfl, rfl, rfl⟩
    · simp only [hj, if_false]; exact ⟨_, _, rfl, rfl, rfl, rfl⟩

private theorem cur_in (st : Nat → MState) (V : List Nat) (B : List Sec) (h : Agree st V B) (m : Nat)
    (hc : Cur st m) : m ∈ V ∧ (st m).welcomed = true ∧ (∀ z, z ∈ (st m).view ↔ z ∈ V)
      ∧ (∀ s, s ∈ (st m).bundle.secrets ↔ s ∈ B) := by
  have hv := h.view m hc.1
  have hm : m ∈ V := (hv m).1 hc.2
  exact ⟨hm, hc.1, hv, fun s => ⟨h.sub m s, h.full m hm s⟩⟩

private theorem insert_fresh_mem (y : Bundle) (s x : Sec) (hf : ∀ t ∈ y.secrets, t.id ≠ s.id) :
    x ∈ (y.insert s).secrets ↔ (x = s ∨ x ∈ y.secrets) := by
  show x ∈ mapInsert y.secrets s ↔ _
  rw [mem_mapInsert_iff]
  constructor
  · rintro (h | h)
    · exact Or.inl h
    · exact Or.inr h.1
  · rintro (h | h)
    · exact Or.inl h
    · exact Or.inr ⟨h, hf x h⟩

private theorem cons_fresh (B : List Sec) (s : Sec) (hc : P2.C36.Consistent B) (hf : ∀ t ∈ B, t.id ≠ s.id) :
    P2.C36.Consistent (B ++ [s]) := by
  intro a ha b hb hab
  simp only [List.mem_append, List.mem_singleton] at ha hb
  rcases ha with ha | ha <;> rcases hb with hb | hb
  · exact hc a ha b hb hab
  · subst hb; exact absurd hab (hf a ha)
  · subst ha; exact absurd hab.symm (hf b hb)
  · rw [ha, hb]

/-- `update` / `remove x` by a current member keep the agreement invariant
    (`V` without `x` for a removal, `B` plus the fresh secret). -/
private theorem agree_rotation (now : Nat) (st : Nat → MState) (V : List Nat) (B : List Sec)
    (h : Agree st V B) (m sid : Nat) (rm : Option Nat)
    (hc : Cur st m) (hfresh : ∀ s ∈ (st m).bundle.secrets, s.id ≠ sid) :
    let op : SOp := match rm with | some x => .remove m x sid | none => .update m sid
    let s := (st m).bundle.generate now sid
    Agree (seqStep now st op) (match rm with | some x => V.filter (· ≠ x) | none => V) (B ++ [s]) := by
  intro op s
  obtain ⟨hmV, hw, hview, hbun⟩ := cur_in st V B h m hc
  have hsid : s.id = sid := (generate_pos _ now sid).2
  have hspos : s.ts > 0 := (generate_pos _ now sid).1
  have hfB : ∀ t ∈ B, t.id ≠ s.id := by
    intro t ht; rw [hsid]; exact hfresh t ((hbun t).2 ht)
  -- recipients and the issued message
  let rs : List Nat := match rm with
    | some x => (st m).view.filter (fun z => z ≠ m ∧ z ≠ x)
    | none => (st m).view.filter (· ≠ m)
  let y : MState := match rm with
    | some x => { st m with view := setRemove (st m).view x, bundle := (st m).bundle.insert s }
    | none => { st m with bundle := (st m).bundle.insert s }
  let msg : Msg := match rm with
    | some x => { sender := m, kind := .remove x, dms := secretDms rs s, gen := some s, view := (st m).view }
    | none => { sender := m, kind := .update, dms := secretDms rs s, gen := some s, view := (st m).view }
  have hnw : (!(st m).welcomed) = false := by rw [hw]; rfl
  have hstep : seqStep now st op = bcast (P2.GroupEnc.upd st m y) m msg := by
    cases rm with
    | none => simp only [op, seqStep, opUpdate, hnw, Bool.false_eq_true, if_false]; rfl
    | some x => simp only [op, seqStep, opRemove, hnw, Bool.false_eq_true, if_false]; rfl
  have hkind : msg.kind = .update ∨ ∃ x, msg.kind = .remove x := by
    cases rm with
    | none => exact Or.inl rfl
    | some x => exact Or.inr ⟨x, rfl⟩
  have hdms : msg.dms = secretDms rs s := by cases rm <;> rfl
  have hwel : ∀ j w, welcomeish j w msg.kind = false := by
    intro j w; cases rm <;> rfl
  -- the new state at every identity
  have hm' : (seqStep now st op) m = y := by
    rw [hstep]; simp [bcast, P2.GroupEnc.upd]
  have hj' : ∀ j, j ≠ m → (st j).welcomed = false → (seqStep now st op) j = st j := by
    intro j hj hwj
    rw [hstep]; simp [bcast, P2.GroupEnc.upd, hj, hwj, hwel]
  have hjw : ∀ j, j ≠ m → (st j).welcomed = true →
      ((seqStep now st op) j).welcomed = true
      ∧ ((seqStep now st op) j).view = (match rm with | some x => setRemove (st j).view x | none => (st j).view)
      ∧ ((seqStep now st op) j).bundle = (if j ∈ rs then (st j).bundle.insert s else (st j).bundle) := by
    intro j hj hwj
    obtain ⟨y', o, hpr, h1, h2, h3⟩ := pr_rotation j (st j) msg s rs hkind hdms
    have : (seqStep now st op) j = y' := by
      rw [hstep]; simp [bcast, P2.GroupEnc.upd, hj, hwj, hpr]
    rw [this]
    refine ⟨by rw [h3, hwj]; rfl, ?_, h2⟩
    rw [h1]; cases rm <;> rfl
  have hrs : ∀ j, j ∈ rs ↔ (j ∈ V ∧ j ≠ m ∧ (∀ x, rm = some x → j ≠ x)) := by
    intro j
    cases rm with
    | none => simp [rs, hview j]
    | some x => simp [rs, hview j]
  have hV' : ∀ z, z ∈ (match rm with | some x => V.filter (· ≠ x) | none => V)
      ↔ (z ∈ V ∧ ∀ x, rm = some x → z ≠ x) := by
    intro z; cases rm with
    | none => simp
    | some x => simp
  refine ⟨?_, ?_, ?_, ?_, ?_, cons_fresh B s h.cons hfB, ?_⟩
  · -- welc
    intro j hj
    have hjV := ((hV' j).1 hj).1
    by_cases hjm : j = m
    · rw [hjm, hm']; cases rm <;> exact hw
    · exact (hjw j hjm (h.welc j hjV)).1
  · -- view
    intro j hwj' z
    by_cases hjm : j = m
    · rw [hjm, hm']
      cases rm with
      | none => exact hview z
      | some x =>
        show z ∈ setRemove (st m).view x ↔ _
        rw [mem_setRemove, hview z, hV' z]
        constructor
        · rintro ⟨a, b⟩; exact ⟨a, fun x' hx' => by cases hx'; exact b⟩
        · rintro ⟨a, b⟩; exact ⟨a, b x rfl⟩
    · cases hwj : (st j).welcomed with
      | false => rw [hj' j hjm hwj] at hwj'; rw [hwj] at hwj'; cases hwj'
      | true =>
        rw [(hjw j hjm hwj).2.1]
        have hvj := h.view j hwj
        cases rm with
        | none => exact hvj z
        | some x =>
          show z ∈ setRemove (st j).view x ↔ _
          rw [mem_setRemove, hvj z, hV' z]
          constructor
          · rintro ⟨a, b⟩; exact ⟨a, fun x' hx' => by cases hx'; exact b⟩
          · rintro ⟨a, b⟩; exact ⟨a, b x rfl⟩
  · -- full
    intro j hj t ht
    obtain ⟨hjV, hjx⟩ := (hV' j).1 hj
    have hfj : ∀ u ∈ (st j).bundle.secrets, u.id ≠ s.id := fun u hu => hfB u (h.sub j u hu)
    have htB : t = s ∨ t ∈ B := by
      simp only [List.mem_append, List.mem_singleton] at ht
      rcases ht with ht | ht
      · exact Or.inr ht
      · exact Or.inl ht
    by_cases hjm : j = m
    · rw [hjm, hm']
      have : t ∈ ((st m).bundle.insert s).secrets := by
        rw [insert_fresh_mem _ _ _ (fun u hu => hfB u ((hbun u).1 hu))]
        rcases htB with h1 | h1
        · exact Or.inl h1
        · exact Or.inr ((hbun t).2 h1)
      cases rm <;> exact this
    · rw [(hjw j hjm (h.welc j hjV)).2.2]
      have hjrs : j ∈ rs := (hrs j).2 ⟨hjV, hjm, hjx⟩
      simp only [hjrs, if_true]
      rw [insert_fresh_mem _ _ _ hfj]
      rcases htB with h1 | h1
      · exact Or.inl h1
      · exact Or.inr (h.full j hjV t h1)
  · -- sub
    intro j t ht
    simp only [List.mem_append, List.mem_singleton]
    by_cases hjm : j = m
    · rw [hjm, hm'] at ht
      have ht' : t ∈ ((st m).bundle.insert s).secrets := by cases rm <;> exact ht
      rcases mem_insert_imp _ _ _ ht' with h1 | h1
      · exact Or.inr h1
      · exact Or.inl (h.sub m t h1)
    · cases hwj : (st j).welcomed with
      | false => rw [hj' j hjm hwj] at ht; exact Or.inl (h.sub j t ht)
      | true =>
        rw [(hjw j hjm hwj).2.2] at ht
        split at ht
        · rcases mem_insert_imp _ _ _ ht with h1 | h1
          · exact Or.inr h1
          · exact Or.inl (h.sub j t h1)
        · exact Or.inl (h.sub j t ht)
  · -- latest
    intro j
    by_cases hjm : j = m
    · rw [hjm, hm']; cases rm <;> rfl
    · cases hwj : (st j).welcomed with
      | false => rw [hj' j hjm hwj]; exact h.latest j
      | true =>
        rw [(hjw j hjm hwj).2.2]
        split
        · rfl
        · exact h.latest j
  · -- pos
    intro t ht
    simp only [List.mem_append, List.mem_singleton] at ht
    rcases ht with ht | ht
    · exact h.pos t ht
    · rw [ht]; exact hspos

private theorem fromSecrets_mem (b : List Sec) (hc : P2.C36.Consistent b) (t : Sec) :
    t ∈ (Bundle.fromSecrets b).secrets ↔ t ∈ b := by
  show t ∈ b.foldl mapInsert [] ↔ _
  rw [mem_foldl_mapInsert_iff b [] t (by simpa using hc)]
  simp

private theorem extend_mem (y : Bundle) (b : List Sec) (hc : P2.C36.Consistent (y.secrets ++ b)) (t : Sec) :
    t ∈ (y.extend (Bundle.fromSecrets b)).secrets ↔ (t ∈ y.secrets ∨ t ∈ b) := by
  have hcb : P2.C36.Consistent b := fun a ha c hc' => hc a (by simp [ha]) c (by simp [hc'])
  show t ∈ (Bundle.fromSecrets b).secrets.foldl mapInsert y.secrets ↔ _
  have hc2 : P2.C36.Consistent (y.secrets ++ (Bundle.fromSecrets b).secrets) := by
    intro a ha c hc' hac
    apply hc a _ c _ hac
    · rcases List.mem_append.1 ha with h1 | h1
      · simp [h1]
      · simp [(fromSecrets_mem b hcb a).1 h1]
    · rcases List.mem_append.1 hc' with h1 | h1
      · simp [h1]
      · simp [(fromSecrets_mem b hcb c).1 h1]
  rw [mem_foldl_mapInsert_iff _ _ t hc2, fromSecrets_mem b hcb]

private theorem cons_sub (B l : List Sec) (hc : P2.C36.Consistent B) (hl : ∀ t ∈ l, t ∈ B) :
    P2.C36.Consistent l := fun a ha b hb => hc a (hl a ha) b (hl b hb)

/-- `add x` by a current member keeps the agreement invariant with `V ∪ {x}`. -/
private theorem agree_add (now : Nat) (st : Nat → MState) (V : List Nat) (B : List Sec)
    (h : Agree st V B) (m x : Nat) (hc : Cur st m) (hx : x ∉ (st m).view) :
    Agree (seqStep now st (.add m x)) (V ++ [x]) B := by
  obtain ⟨hmV, hw, hview, hbun⟩ := cur_in st V B h m hc
  have hxV : x ∉ V := fun hh => hx ((hview x).2 hh)
  have hmx : m ≠ x := fun hh => hx (hh ▸ hc.2)
  have hnw : (!(st m).welcomed) = false := by rw [hw]; rfl
  let y : MState := { st m with view := setInsert (st m).view x }
  let msg : Msg := { sender := m, kind := .add x, dms := [(x, Payload.welcome (st m).bundle.secrets (st m).view)],
                     view := (st m).view }
  have hstep : seqStep now st (.add m x) = bcast (P2.GroupEnc.upd st m y) m msg := by
    simp only [seqStep, opAdd, hnw, Bool.false_eq_true, if_false, hmx]; rfl
  have hm' : (seqStep now st (.add m x)) m = y := by
    rw [hstep]; simp [bcast, P2.GroupEnc.upd]
  have hxm : x ≠ m := fun hh => hmx hh.symm
  -- the added member
  have hdmx : dmFor x msg = some (Payload.welcome (st m).bundle.secrets (st m).view) := by
    simp [dmFor, msg]
  let yx : MState := { st x with view := setInsert (st m).view x, bundle := (st x).bundle.extend (Bundle.fromSecrets (st m).bundle.secrets) }
  have hx' : (seqStep now st (.add m x)) x = (finishControl x yx).1 := by
    rw [hstep]
    have hcond : ((st x).welcomed || welcomeish x (st x).welcomed msg.kind) = true := by
      cases (st x).welcomed <;> simp [welcomeish, msg]
    have hpr : processReady x (st x) msg = .ok (finishControl x yx) := by
      unfold processReady
      simp only [msg, applyControl, hdmx, if_true]
      rfl
    simp only [bcast, P2.GroupEnc.upd, hxm, if_false, hcond, if_true, hpr]
  -- everybody else
  have hjw : ∀ j, j ≠ m → j ≠ x → (st j).welcomed = true →
      (seqStep now st (.add m x)) j = (finishControl j { st j with view := setInsert (st j).view x }).1 := by
    intro j hjm hjx hwj
    rw [hstep]
    have hpr : processReady j (st j) msg = .ok (finishControl j { st j with view := setInsert (st j).view x }) := by
      unfold processReady
      have : ¬ x = j := fun hh => hjx hh.symm
      simp only [msg, applyControl, this, if_false]
    simp only [bcast, P2.GroupEnc.upd, hjm, if_false, hwj, Bool.true_or, if_true, hpr]
  have hjn : ∀ j, j ≠ m → j ≠ x → (st j).welcomed = false → (seqStep now st (.add m x)) j = st j := by
    intro j hjm hjx hwj
    rw [hstep]
    have : ¬ x = j := fun hh => hjx hh.symm
    simp [bcast, P2.GroupEnc.upd, hjm, hwj, welcomeish, msg, this]
  have hxsub : ∀ t ∈ (st x).bundle.secrets ++ (st m).bundle.secrets, t ∈ B := by
    intro t ht
    rcases List.mem_append.1 ht with h1 | h1
    · exact h.sub x t h1
    · exact h.sub m t h1
  have hxmem := extend_mem (st x).bundle (st m).bundle.secrets (cons_sub B _ h.cons hxsub)
  refine ⟨?_, ?_, ?_, ?_, ?_, h.cons, h.pos⟩
  · -- welc
    intro j hj
    simp only [List.mem_append, List.mem_singleton] at hj
    by_cases hjm : j = m
    · rw [hjm, hm']; exact hw
    · by_cases hjx : j = x
      · rw [hjx, hx']
        have : x ∈ yx.view := (mem_setInsert _ _ _).2 (Or.inr rfl)
        simp [finishControl, this]
      · rcases hj with hj | hj
        · rw [hjw j hjm hjx (h.welc j hj)]
          simp [finishControl, h.welc j hj]
        · exact absurd hj hjx
  · -- view
    intro j hwj' z
    simp only [List.mem_append, List.mem_singleton]
    by_cases hjm : j = m
    · rw [hjm, hm']
      show z ∈ setInsert (st m).view x ↔ _
      rw [mem_setInsert, hview z]
    · by_cases hjx : j = x
      · rw [hjx, hx']
        show z ∈ setInsert (st m).view x ↔ _
        rw [mem_setInsert, hview z]
      · cases hwj : (st j).welcomed with
        | false => rw [hjn j hjm hjx hwj] at hwj'; rw [hwj] at hwj'; cases hwj'
        | true =>
          rw [hjw j hjm hjx hwj]
          show z ∈ setInsert (st j).view x ↔ _
          rw [mem_setInsert, h.view j hwj z]
  · -- full
    intro j hj t ht
    simp only [List.mem_append, List.mem_singleton] at hj
    by_cases hjm : j = m
    · rw [hjm, hm']; exact (hbun t).2 ht
    · by_cases hjx : j = x
      · rw [hjx, hx']
        show t ∈ ((st x).bundle.extend (Bundle.fromSecrets (st m).bundle.secrets)).secrets
        rw [hxmem t]; exact Or.inr ((hbun t).2 ht)
      · rcases hj with hj | hj
        · rw [hjw j hjm hjx (h.welc j hj)]
          exact h.full j hj t ht
        · exact absurd hj hjx
  · -- sub
    intro j t ht
    by_cases hjm : j = m
    · rw [hjm, hm'] at ht; exact h.sub m t ht
    · by_cases hjx : j = x
      · rw [hjx, hx'] at ht
        have ht' : t ∈ ((st x).bundle.extend (Bundle.fromSecrets (st m).bundle.secrets)).secrets := ht
        rcases (hxmem t).1 ht' with h1 | h1
        · exact h.sub x t h1
        · exact h.sub m t h1
      · cases hwj : (st j).welcomed with
        | false => rw [hjn j hjm hjx hwj] at ht; exact h.sub j t ht
        | true => rw [hjw j hjm hjx hwj] at ht; exact h.sub j t ht
  · -- latest
    intro j
    by_cases hjm : j = m
    · rw [hjm, hm']; exact h.latest m
    · by_cases hjx : j = x
      · rw [hjx, hx']; rfl
      · cases hwj : (st j).welcomed with
        | false => rw [hjn j hjm hjx hwj]; exact h.latest j
        | true => rw [hjw j hjm hjx hwj]; exact h.latest j

/-- The state right after `create` satisfies the agreement invariant. -/
private theorem agree_create (now c : Nat) (ms : List Nat) (sid : Nat) :
    Agree (seqCreate now c ms sid) (setInsert (dedup ms) c) [Bundle.init.generate now sid] := by
  let s := Bundle.init.generate now sid
  let V := setInsert (dedup ms) c
  let y : MState := { MState.init with welcomed := true, view := V, bundle := Bundle.init.insert s }
  let msg : Msg := { sender := c, kind := .create V, dms := secretDms (V.filter (· ≠ c)) s, gen := some s, view := V }
  have hstep : seqCreate now c ms sid = bcast (P2.GroupEnc.upd (fun _ => MState.init) c y) c msg := by
    simp only [seqCreate, opCreate, MState.init, Bool.false_eq_true, if_false]; rfl
  have hcV : c ∈ V := (mem_setInsert _ _ _).2 (Or.inr rfl)
  have hc' : (seqCreate now c ms sid) c = y := by
    rw [hstep]; simp [bcast, P2.GroupEnc.upd]
  have hin : ∀ j, j ≠ c → j ∈ V →
      (seqCreate now c ms sid) j = (finishControl j { MState.init with view := V, bundle := Bundle.init.insert s }).1 := by
    intro j hjc hjV
    rw [hstep]
    have hdm : dmFor j msg = some (.secret s) := by
      rw [dmFor_secretDms j (V.filter (· ≠ c)) s msg rfl]
      simp [hjV, hjc]
    have hpr : processReady j MState.init msg
        = .ok (finishControl j { MState.init with view := V, bundle := Bundle.init.insert s }) := by
      unfold processReady
      simp only [msg, applyControl, hdm]
      rfl
    have hcond : (MState.init.welcomed || welcomeish j MState.init.welcomed msg.kind) = true := by
      simp [MState.init, welcomeish, msg, hjV]
    simp only [bcast, P2.GroupEnc.upd, hjc, if_false, hcond, if_true, hpr]
  have hout : ∀ j, j ≠ c → j ∉ V → (seqCreate now c ms sid) j = MState.init := by
    intro j hjc hjV
    rw [hstep]
    simp [bcast, P2.GroupEnc.upd, hjc, MState.init, welcomeish, msg, hjV]
  have hsec : (Bundle.init.insert s).secrets = [s] := rfl
  refine ⟨?_, ?_, ?_, ?_, ?_, ?_, ?_⟩
  · intro j hj
    by_cases hjc : j = c
    · rw [hjc, hc']
    · rw [hin j hjc hj]
      show (MState.init.welcomed || decide (j ∈ V)) = true
      simp [show j ∈ V from hj]
  · intro j hwj z
    by_cases hjc : j = c
    · rw [hjc, hc']
    · by_cases hjV : j ∈ V
      · rw [hin j hjc hjV]; exact Iff.rfl
      · rw [hout j hjc hjV] at hwj; simp [MState.init] at hwj
  · intro j hj t ht
    by_cases hjc : j = c
    · rw [hjc, hc']; show t ∈ (Bundle.init.insert s).secrets; rw [hsec]; exact ht
    · rw [hin j hjc hj]; show t ∈ (Bundle.init.insert s).secrets; rw [hsec]; exact ht
  · intro j t ht
    by_cases hjc : j = c
    · rw [hjc, hc'] at ht; exact ht
    · by_cases hjV : j ∈ V
      · rw [hin j hjc hjV] at ht; exact ht
      · rw [hout j hjc hjV] at ht; simp [MState.init, Bundle.init] at ht
  · intro j
    by_cases hjc : j = c
    · rw [hjc, hc']; rfl
    · by_cases hjV : j ∈ V
      · rw [hin j hjc hjV]; rfl
      · rw [hout j hjc hjV]; rfl
  · intro a ha b hb _
    simp only [List.mem_singleton] at ha hb
    rw [ha, hb]
  · intro t ht
    simp only [List.mem_singleton] at ht
    rw [ht]; exact (generate_pos _ now sid).1

/-- One legal sequential step keeps the invariant (for a suitable new group and secret set). -/
private theorem agree_step (now : Nat) (st : Nat → MState) (V : List Nat) (B : List Sec)
    (h : Agree st V B) (op : SOp) (hl : LegalOp st op) :
    ∃ V' B', Agree (seqStep now st op) V' B' := by
  cases op with
  | add m x => exact ⟨_, _, agree_add now st V B h m x hl.1 hl.2⟩
  | remove m x sid => exact ⟨_, _, agree_rotation now st V B h m sid (some x) hl.1 hl.2.2⟩
  | update m sid => exact ⟨_, _, agree_rotation now st V B h m sid none hl.1 hl.2⟩

def seqRun (now : Nat) (st : Nat → MState) (ops : List SOp) : Nat → MState := ops.foldl (seqStep now) st

private theorem agree_run (now : Nat) (st : Nat → MState) (V : List Nat) (B : List Sec)
    (h : Agree st V B) (ops : List SOp) (hl : LegalSeq now st ops) :
    ∃ V' B', Agree (seqRun now st ops) V' B' := by
  induction ops generalizing st V B with
  | nil => exact ⟨V, B, h⟩
  | cons op ops ih =>
    obtain ⟨V1, B1, h1⟩ := agree_step now st V B h op hl.1
    exact ih _ V1 B1 h1 hl.2

/-- What agreement means for two members `a`, `b` of a state. -/
def AgreePair (st : Nat → MState) (a b : Nat) : Prop :=
  (∀ z, z ∈ (st a).view ↔ z ∈ (st b).view)
  ∧ (∀ s, s ∈ (st a).bundle.secrets ↔ s ∈ (st b).bundle.secrets)
  ∧ (st a).bundle.latest = (st b).bundle.latest
  ∧ (∀ s, (st a).bundle.latestSecret = some s → s ∈ (st b).bundle.secrets)
  ∧ (∀ pl ya msg, opSend a (st a) pl = .ok (ya, msg) →
      ∃ yb, processReady b (st b) msg = .ok (yb, some (.plain pl)))

private theorem agree_pair (st : Nat → MState) (V : List Nat) (B : List Sec) (h : Agree st V B)
    (a b : Nat) (ha : Cur st a) (hb : Cur st b) : AgreePair st a b := by
  obtain ⟨_, _, hva, hba⟩ := cur_in st V B h a ha
  obtain ⟨_, _, hvb, hbb⟩ := cur_in st V B h b hb
  have hsame : ∀ s, s ∈ (st a).bundle.secrets ↔ s ∈ (st b).bundle.secrets := fun s => by rw [hba s, hbb s]
  have hguard : P2.C36.Guard (st a).bundle.secrets := by
    intro s hs; exact Or.inl (h.pos s ((hba s).1 hs))
  have hlat : (st a).bundle.latest = (st b).bundle.latest := by
    rw [h.latest a, h.latest b]
    exact P2.C36.c36_latest_set _ _ hguard hsame
  have hls : ∀ s, (st a).bundle.latestSecret = some s → s ∈ (st b).bundle.secrets := by
    intro s hs
    unfold Bundle.latestSecret at hs
    cases hl : (st a).bundle.latest with
    | none => rw [hl] at hs; cases hs
    | some id =>
      rw [hl] at hs
      simp only [Option.bind_some] at hs
      exact (hsame s).1 (List.mem_of_find?_eq_some hs)
  refine ⟨fun z => by rw [hva z, hvb z], hsame, hlat, hls, ?_⟩
  intro pl ya msg hsend
  unfold opSend at hsend
  rw [ha.1] at hsend
  simp only [Bool.not_true, Bool.false_eq_true, if_false] at hsend
  cases hl : (st a).bundle.latestSecret with
  | none => rw [hl] at hsend; cases hsend
  | some s =>
    rw [hl] at hsend
    simp only [Except.ok.injEq, Prod.mk.injEq] at hsend
    have hmem := hls s hl
    have hany : (st b).bundle.secrets.any (fun t => decide (t.id = s.id)) = true := by
      rw [List.any_eq_true]; exact ⟨s, hmem, by simp⟩
    refine ⟨st b, ?_⟩
    rw [← hsend.2]
    unfold processReady
    simp only [hany, if_true]

/-- **Agreement for sequential histories (partial).** For every group creation and every sequence
    of `add` / `remove` / `update` operations of any length issued by current members, each operation
    being delivered to everybody before the next one is issued: any two current members have the
    same member view, hold exactly the same secrets, choose the same latest secret (C36), hold each
    other's latest secret, and an application message of one decrypts at the other to its plaintext.
    (Histories with concurrent operations are outside this theorem: with an `add` concurrent to a
    rotation the statement is false, `c35_concurrent_violates`; concurrent rotations / removals
    without a racing `add` are covered by the differential runs only.) -/
theorem c35_agree_partial (now c : Nat) (ms : List Nat) (sid : Nat) (ops : List SOp)
    (hl : LegalSeq now (seqCreate now c ms sid) ops) (a b : Nat)
    (ha : Cur (seqRun now (seqCreate now c ms sid) ops) a)
    (hb : Cur (seqRun now (seqCreate now c ms sid) ops) b) :
    AgreePair (seqRun now (seqCreate now c ms sid) ops) a b := by
  obtain ⟨V, B, h⟩ := agree_run now _ _ _ (agree_create now c ms sid) ops hl
  exact agree_pair _ V B h a b ha hb

/-- **Cut off, sequential form.** In a sequential history, a rotation (`update` / `remove`) issued by
    a current member leaves the bundle of every identity outside the issuer's view untouched — in
    particular of the member being removed and of every member removed earlier: they never obtain
    the new secret (until an `add` hands them a bundle again). -/
theorem c35_seq_cut_off (now : Nat) (st : Nat → MState) (V : List Nat) (B : List Sec) (h : Agree st V B)
    (m sid : Nat) (rm : Option Nat) (hc : Cur st m) (x : Nat)
    (hx : x ∉ (st m).view ∨ rm = some x) (hxm : x ≠ m) :
    ((seqStep now st (match rm with | some r => .remove m r sid | none => .update m sid)) x).bundle
      = (st x).bundle := by
  obtain ⟨hmV, hw, hview, hbun⟩ := cur_in st V B h m hc
  have hnw : (!(st m).welcomed) = false := by rw [hw]; rfl
  let s := (st m).bundle.generate now sid
  have key : ∀ (msg : Msg) (y : MState) (rs : List Nat),
      (msg.kind = .update ∨ ∃ r, msg.kind = .remove r) → msg.dms = secretDms rs s → x ∉ rs →
      (bcast (P2.GroupEnc.upd st m y) m msg x).bundle = (st x).bundle := by
    intro msg y rs hk hd hxrs
    obtain ⟨y', o, hpr, _, h2, _⟩ := pr_rotation x (st x) msg s rs hk hd
    simp only [bcast, P2.GroupEnc.upd, hxm, if_false]
    split
    · rw [hpr]; simp only; rw [h2]; simp [hxrs]
    · rfl
  cases rm with
  | none =>
    simp only [seqStep, opUpdate, hnw, Bool.false_eq_true, if_false]
    refine key _ _ _ (Or.inl rfl) rfl ?_
    rcases hx with hx | hx
    · simp [hx]
    · cases hx
  | some r =>
    simp only [seqStep, opRemove, hnw, Bool.false_eq_true, if_false]
    refine key _ _ _ (Or.inr ⟨r, rfl⟩) rfl ?_
    rcases hx with hx | hx
    · simp [hx]
    · cases hx; simp

/-! ## Non-vacuity -/
private def demoOps : List SOp := [.add 0 2, .update 1 2, .remove 2 0 3, .update 1 4, .add 2 0]

example : LegalSeq 1000 (seqCreate 1000 0 [0, 1] 1) demoOps := by decide
example : ((seqRun 1000 (seqCreate 1000 0 [0, 1] 1) demoOps) 0).bundle.secrets.map (·.id) = [1, 2, 3, 4]
    ∧ ((seqRun 1000 (seqCreate 1000 0 [0, 1] 1) demoOps) 2).bundle.latest = some 4
    ∧ ((seqRun 1000 (seqCreate 1000 0 [0, 1] 1) (demoOps.take 4)) 0).bundle.secrets.map (·.id) = [1, 2] := by
  decide

/-! ## Tie to the current source text (DESIGN.md §4.2) -/

/-- **The model is the source.** `./check` re-extracts these fragments from /repo on every run
    (regular expressions anchored on the surrounding statements; a fragment that no longer matches is
    itself a failure of the proof stage). They are who gets which secret in `Dcgka` / `EncryptionGroup` as transcribed in `P2.GroupEnc.op*` / `applyControl`: update → members except self, remove → members except self and the removed, create → the initial members (self skipped in `send_group_secret`), add → one welcome to the added member carrying the adder's whole bundle (`&y.secrets`) and its DGM state; issuer inserts its own generated secret; remote `Secret` → insert, `Bundle` → extend; welcomed iff member; decryption looks the secret id up in the bundle. Any edit of one of these
    operators / operands / call shapes changes the extracted text and this theorem stops checking —
    before a single input is generated. -/
theorem c35_source_ops :
    P2.Extracted.C35.updateRecipients = "member != &y.my_id"
    ∧ P2.Extracted.C35.removeRecipients = "member != &y.my_id && member != &removed"
    ∧ P2.Extracted.C35.createRecipients = "&initial_members"
    ∧ P2.Extracted.C35.skipSelf = "recipient == &y_loop.my_id"
    ∧ P2.Extracted.C35.welcomeBundle = "bundle.to_bytes()?"
    ∧ P2.Extracted.C35.welcomeHistory = "y_i.dgm.clone()"
    ∧ P2.Extracted.C35.welcomeRecipient = "added"
    ∧ P2.Extracted.C35.groupAddBundle = "&y.secrets"
    ∧ P2.Extracted.C35.removeInsertsOwn = "Self::process_local(y, pre, Some(group_secret))"
    ∧ P2.Extracted.C35.updateInsertsOwn = "Self::process_local(y, pre, Some(group_secret))"
    ∧ P2.Extracted.C35.remoteSecret = "SecretBundle::insert(y.secrets, group_secret)"
    ∧ P2.Extracted.C35.remoteBundle = "SecretBundle::extend(y.secrets, secret_bundle_state)"
    ∧ P2.Extracted.C35.welcomedCond = "!y_i.is_welcomed && we_are_members"
    ∧ P2.Extracted.C35.decryptLookup = "y.secrets.get(&group_secret_id)" :=
  ⟨rfl, rfl, rfl, rfl, rfl, rfl, rfl, rfl, rfl, rfl, rfl, rfl, rfl, rfl⟩

end P2.C35
