/-
C20 — Each sync side sends exactly one Done, even under concurrent pruning.

Model: `P2.Sync.run cfg script` (`P2/Model/SyncProto.lean`): one side of `LogSync::run` as a
function of the sequence of I/O outcomes it consumes — arbitrary store views (= a concurrently
pruned / mutated store), arbitrary remote items, arbitrary sink outcomes and every `select!`
schedule.  `cfg.fixDone = true` is the repaired code (`fix:` commit in /repo), `false` the pinned
code.  Grammar (`Shape`, `Closed`, …) is defined next to the model; invariants and helper lemmas
are in `P2/Lemmas/C20.lean`.  This file holds the property theorems only.
-/
import P2.Model.SyncProto
import P2.Model.SyncText
import P2.Lemmas.C20
import P2.Extracted.C20

namespace P2.C20
open P2.Sync

set_option linter.unusedSimpArgs false

/-! ## Property theorems (repaired code: `cfg.fixDone = true`; any scope, dedup capacity, event
receiver, any script = any store views, remote items, sink outcomes, `select!` schedule) -/

/-- The messages handed to the sink always form a prefix of `Have · (Done | PreSync · Operation* · Done)`. -/
theorem c20_shape (cfg : Cfg) (hf : cfg.fixDone = true) (script : List In) :
    Shape (run cfg script).sent :=
  inv_shape _ (inv_run cfg hf script)

private theorem count_done_ops (ops : List Op) : (List.map Msg.op ops).count Msg.done = 0 := by
  induction ops with
  | nil => rfl
  | cons o os ih => simp [ih]

/-- At most one `Done` is ever sent. -/
theorem c20_done_once (cfg : Cfg) (hf : cfg.fixDone = true) (script : List In) :
    (run cfg script).sent.count Msg.done ≤ 1 := by
  rcases c20_shape cfg hf script with h | h | h
  · rcases h with h | ⟨_, h⟩ <;> simp [h]
  · obtain ⟨_, _, _, ops, h⟩ := h
    simp [h, count_done_ops]
  · rcases h with ⟨_, h⟩ | ⟨_, _, _, ops, h⟩
    · simp [h]
    · simp [h, List.count_append, count_done_ops]

private theorem done_split_ops (ops : List Op) (pre post : List Msg)
    (h : List.map Msg.op ops = pre ++ Msg.done :: post) : False := by
  have : Msg.done ∈ List.map Msg.op ops := by rw [h]; simp
  simp at this

/-- Nothing is sent after `Done`. -/
theorem c20_nothing_after_done (cfg : Cfg) (hf : cfg.fixDone = true) (script : List In)
    (pre post : List Msg) (h : (run cfg script).sent = pre ++ Msg.done :: post) : post = [] := by
  have hc := c20_done_once cfg hf script
  rw [h] at hc
  simp only [List.count_append, List.count_cons, beq_self_eq_true, if_true] at hc
  have hp : post.count Msg.done = 0 := by omega
  have hpre : pre.count Msg.done = 0 := by omega
  rcases c20_shape cfg hf script with hs | hs | hs
  · rcases hs with hs | ⟨_, hs⟩
    · rw [hs] at h; simp at h
    · rw [hs] at h
      cases pre with
      | nil => simp at h
      | cons x xs => simp at h
  · obtain ⟨hh, n, b, ops, hs⟩ := hs
    rw [hs] at h
    cases pre with
    | nil => simp at h
    | cons x xs =>
      cases xs with
      | nil => simp at h
      | cons y ys =>
        simp only [List.cons_append, List.cons.injEq] at h
        exact absurd h.2.2 (fun h' => done_split_ops ops ys post h')
  · rcases hs with ⟨hh, hs⟩ | ⟨hh, n, b, ops, hs⟩
    · rw [hs] at h
      cases pre with
      | nil => simp at h
      | cons x xs =>
        cases xs with
        | nil => simp at h; exact h.2
        | cons y ys => simp at h
    · rw [hs] at h
      cases pre with
      | nil => simp at h
      | cons x xs =>
        cases xs with
        | nil => simp at h
        | cons y ys =>
          simp only [List.cons_append, List.cons.injEq] at h
          have h3 := h.2.2
          -- `ops.map op ++ [done] = ys ++ done :: post`, `done ∉ ys`: compare lengths of the done-free parts
          have hys : ∀ (l : List Msg), l.count Msg.done = 0 → ∀ (os : List Op) (p : List Msg),
              List.map Msg.op os ++ [Msg.done] = l ++ Msg.done :: p → p = [] := by
            intro l
            induction l with
            | nil =>
              intro _ os p hp
              cases os with
              | nil => simpa using hp.symm
              | cons o os => simp at hp
            | cons z zs ih =>
              intro hz os p hp
              cases os with
              | nil =>
                simp only [List.map_nil, List.nil_append, List.cons_append, List.cons.injEq] at hp
                obtain ⟨hz1, _⟩ := hp
                subst hz1
                simp at hz
              | cons o os =>
                simp only [List.map_cons, List.cons_append, List.cons.injEq] at hp
                have hz' : zs.count Msg.done = 0 := by
                  rw [List.count_cons] at hz; omega
                exact ih hz' os p hp.2
          have hy : ys.count Msg.done = 0 := by
            simp only [List.count_cons] at hpre; omega
          exact hys ys hy ops post h3

/-- A session that returns `Ok` has sent a complete transcript ending with its only `Done`. -/
theorem c20_finished_complete (cfg : Cfg) (hf : cfg.fixDone = true) (script : List In)
    (h : (run cfg script).pc = .fin none) : Closed (run cfg script).sent := by
  have hi := inv_run cfg hf script
  unfold Inv at hi
  rw [h] at hi
  exact hi

/-- Once the transcript is complete, no continuation of the session (whatever the store, the
    remote or the sink do afterwards) adds a message. -/
theorem c20_closed_final (cfg : Cfg) (hf : cfg.fixDone = true) (script more : List In)
    (hc : Closed (run cfg script).sent) :
    (run cfg (script ++ more)).sent = (run cfg script).sent := by
  obtain ⟨rest, hrest⟩ := run_sent_prefix cfg script more
  obtain ⟨pre, hpre⟩ := closed_ends_done hc
  have := c20_nothing_after_done cfg hf (script ++ more) pre rest (by rw [← hrest, hpre]; simp)
  rw [← hrest, this]; simp

/-- **No stray sync message for live mode.**  Side B (any version of the code) completes its sync
    phase having read a FIFO prefix of what side A (repaired code) has handed to its sink so far:
    then B has read *everything* A sent, A's transcript is complete — by `c20_closed_final` A will
    never add to it — so the first message B's live mode reads is not a sync message. -/
theorem c20_live_clean (cfgA cfgB : Cfg) (hfA : cfgA.fixDone = true) (sA sB : List In)
    (hB : (run cfgB sB).pc = .fin none) (k : Nat)
    (hfifo : (run cfgB sB).recvd = ((run cfgA sA).sent.take k).map RecvItem.msg) :
    (run cfgB sB).recvd = (run cfgA sA).sent.map RecvItem.msg ∧ Closed (run cfgA sA).sent := by
  have hr := rinv_run cfgB sB
  have hlast := (hr.1 (hr.2 hB)).1
  rw [hfifo, List.getLast?_map] at hlast
  have hl : ((run cfgA sA).sent.take k).getLast? = some Msg.done := by
    cases h : ((run cfgA sA).sent.take k).getLast? with
    | none => rw [h] at hlast; simp at hlast
    | some x => rw [h] at hlast; simp at hlast; rw [hlast]
  obtain ⟨pre, hpre⟩ : ∃ pre, (run cfgA sA).sent.take k = pre ++ [Msg.done] := by
    have := List.getLast?_eq_some_iff.mp hl
    obtain ⟨ys, hys⟩ := this
    exact ⟨ys, hys⟩
  have hsplit : (run cfgA sA).sent = pre ++ Msg.done :: (run cfgA sA).sent.drop k := by
    conv => lhs; rw [← List.take_append_drop k (run cfgA sA).sent, hpre]
    simp
  have hdrop := c20_nothing_after_done cfgA hfA sA pre _ hsplit
  have htake : (run cfgA sA).sent.take k = (run cfgA sA).sent := by
    conv => rhs; rw [← List.take_append_drop k (run cfgA sA).sent, hdrop]
    simp
  refine ⟨by rw [hfifo, htake], ?_⟩
  have hmem : Msg.done ∈ (run cfgA sA).sent := by rw [hsplit]; simp
  rcases c20_shape cfgA hfA sA with h | h | h
  · rcases h with h | ⟨_, h⟩ <;> rw [h] at hmem <;> simp at hmem
  · obtain ⟨_, _, _, ops, h⟩ := h
    rw [h] at hmem; simp at hmem
  · exact h

/-! ## The pinned code violates the property (`fixDone = false`) -/

/-- heights = {0 ↦ {0 ↦ 3}}, the remote has nothing, the log is pruned away before
    `get_log_size` (view `(0, 0)`), `get_log_entries` finds nothing: `Have, Done, Done`. -/
theorem c20_orig_violates :
    (run (origCfg [(0, [0])] 1024 true)
      [.heights (some (some [(0, 3)])), .send true, .recv (.msg (.have [])),
       .size (some (some (0, 0))), .send true, .recv (.msg .done),
       .entries (some none), .send true]).sent
      = [Msg.have [(0, [(0, 3)])], Msg.done, Msg.done] := by decide

/-- … and when the log is re-inserted before `get_log_entries`: operations after `Done`. -/
theorem c20_orig_ops_after_done :
    (run (origCfg [(0, [0])] 1024 true)
      [.heights (some (some [(0, 3)])), .send true, .recv (.msg (.have [])),
       .size (some (some (0, 0))), .send true, .recv (.msg .done),
       .entries (some (some [⟨7, 100⟩])), .send true, .send true]).sent
      = [Msg.have [(0, [(0, 3)])], Msg.done, Msg.op ⟨7, 100⟩, Msg.done] := by decide

/-- The same scripts on the repaired code: the model refuses the store call (the send arm is
    never entered) and the transcript stays `Have, Done`. -/
example :
    (run (curCfg [(0, [0])] 1024 true)
      [.heights (some (some [(0, 3)])), .send true, .recv (.msg (.have [])),
       .size (some (some (0, 0))), .send true, .recv (.msg .done)]).sent
      = [Msg.have [(0, [(0, 3)])], Msg.done] := by decide

/-! ## Non-vacuity: a complete repaired session with data in both directions -/

private def demo : List In :=
  [.heights (some (some [(0, 1)])), .send true, .recv (.msg (.have [])),
   .size (some (some (2, 300))), .send true, .recv (.msg (.preSync 1 90)),
   .recv (.msg (.op ⟨9, 90⟩)), .entries (some (some [⟨1, 150⟩, ⟨2, 150⟩])), .send true, .send true,
   .send true, .recv (.msg .done)]

example : (run (curCfg [(0, [0])] 8 true) demo).sent
    = [Msg.have [(0, [(0, 1)])], Msg.preSync 2 300, Msg.op ⟨1, 150⟩, Msg.op ⟨2, 150⟩, Msg.done] := by decide
example : Text.showRes (run (curCfg [(0, [0])] 8 true) demo) = "ok(2,300,1,90,2,300,1,90)" := by decide
example : (curCfg [(0, [0])] 8 true).fixDone = true := rfl
/-- the receiving side of `c20_live_clean`: it has read exactly the four messages a peer sent -/
example : (run (curCfg [(0, [0])] 8 true) demo).recvd
    = [RecvItem.msg (Msg.have []), .msg (Msg.preSync 1 90), .msg (Msg.op ⟨9, 90⟩), .msg Msg.done] := by decide

/-! ## Tie to the current source text (regenerated into `P2/Extracted/C20.lean` on every run) -/

/-- The `Done` logic of `log_sync.rs` as it reads *now*, clause by clause of `P2.Sync.step`:
    `SendPreSync` sends `PreSync` iff `outbound_bytes > 0` and otherwise sets `sync_done_sent` and
    sends `Done` (`.sendPre`); entering `Sync`, `remote_needs` is replaced by the empty map exactly
    under the guard `sync_done_sent` (`enterSync`, `fixDone`); the final `Done` goes out when the
    last of `remote_needs.len()` authors is finished and then sets `sync_done_sent` (`.sendDone`).
    Weakening the guard (e.g. `sync_done_sent && sync_done_received`) breaks this theorem. -/
theorem c20_extracted_done_logic :
    P2.Extracted.C20.preSyncCond = "outbound_bytes > 0" ∧
    P2.Extracted.C20.doneBranch = "sync_done_sent = true; LogSyncMessage::Done" ∧
    P2.Extracted.C20.fixCond = "sync_done_sent" ∧
    P2.Extracted.C20.fixValue = "LogRanges::default()" ∧
    P2.Extracted.C20.sendLogsLen = "remote_needs.len()" ∧
    P2.Extracted.C20.lastBatchCond = "send_logs_len == 0" ∧
    P2.Extracted.C20.afterFinalDone = "sync_done_sent = true;" :=
  ⟨rfl, rfl, rfl, rfl, rfl, rfl, rfl⟩

end P2.C20
