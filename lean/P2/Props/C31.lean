/-
C31 — Replicas of a group converge to the same membership and access.

What is proved here is about the resolver-independent part of `crdt/mod.rs` as transcribed in
`P2/Model/GroupCrdt.lean`: `merge_states` (a fold of `state::merge` over the head states in
`HashSet` iteration order) and the nested traversal `members_inner` (over `HashMap` iteration
order). The strong-remove resolver is a parameter (`c31_converge` is stated under the hypothesis
that its output depends only on the operation set; the harness tests that hypothesis
differentially on every run).
-/
import P2.Model.GroupState
import P2.Model.GroupCrdt
import P2.Lemmas.GroupState
import P2.Lemmas.GroupCrdt
import P2.Props.C32
import P2.Extracted.C31
import Mathlib.Data.List.Perm.Basic

namespace P2.C31
open P2.GroupState P2.GroupCrdt P2.C32

set_option linter.unusedSectionVars false
variable {C : Type}

/-- The tie-break of `state::merge` is a strict total order on all accesses (true for the repaired
    `merge_tie_break_less` whenever the conditions type is linearly ordered: `c32_repaired_lt_total`). -/
abbrev Total (lt : Access C → Access C → Bool) : Prop := StrictTotalOn (fun _ => True) lt

/-! ## `merge_states` does not depend on the order (or multiplicity) of the heads -/

private theorem mo_comm {lt : Access C → Access C → Bool} (h : Total lt) (x y : Option (MemberState C)) :
    mergeOpt lt x y = mergeOpt lt y x :=
  mergeOpt_comm h x y (fun _ _ => trivial) (fun _ _ => trivial)

private theorem mo_assoc {lt : Access C → Access C → Bool} (h : Total lt) (x y z : Option (MemberState C)) :
    mergeOpt lt (mergeOpt lt x y) z = mergeOpt lt x (mergeOpt lt y z) :=
  mergeOpt_assoc h x y z (fun _ _ => trivial) (fun _ _ => trivial) (fun _ _ => trivial)

private theorem mo_idem (lt : Access C → Access C → Bool) (x : Option (MemberState C)) :
    mergeOpt lt x x = x := by
  cases x with
  | none => rfl
  | some a => simp [mergeOpt, mergeMember_idem]

private theorem mo_none_right (lt : Access C → Access C → Bool) (x : Option (MemberState C)) :
    mergeOpt lt x none = x := by
  cases x <;> rfl

/-- Join of a list of optional member states. -/
def joinOpt (lt : Access C → Access C → Bool) (l : List (Option (MemberState C))) :
    Option (MemberState C) := l.foldr (mergeOpt lt) none

private theorem foldl_eq_join {lt : Access C → Access C → Bool} (h : Total lt)
    (l : List (Option (MemberState C))) (z : Option (MemberState C)) :
    l.foldl (fun acc x => mergeOpt lt x acc) z = mergeOpt lt (joinOpt lt l) z := by
  induction l generalizing z with
  | nil => rfl
  | cons x l ih =>
    simp only [List.foldl_cons, joinOpt, List.foldr_cons]
    rw [ih]
    show mergeOpt lt (joinOpt lt l) (mergeOpt lt x z) = mergeOpt lt (mergeOpt lt x (joinOpt lt l)) z
    rw [← mo_assoc h, mo_comm h (joinOpt lt l) x]

private theorem join_absorb {lt : Access C → Access C → Bool} (h : Total lt)
    (l : List (Option (MemberState C))) (x : Option (MemberState C)) (hx : x ∈ l) :
    mergeOpt lt x (joinOpt lt l) = joinOpt lt l := by
  induction l with
  | nil => simp at hx
  | cons y r ih =>
    simp only [joinOpt, List.foldr_cons]
    rcases List.mem_cons.1 hx with e | e
    · subst e
      rw [← mo_assoc h, mo_idem]
    · have := ih e
      simp only [joinOpt] at this
      rw [← mo_assoc h, mo_comm h x y, mo_assoc h, this]

private theorem join_subset {lt : Access C → Access C → Bool} (h : Total lt)
    (l₁ l₂ : List (Option (MemberState C))) (hs : ∀ x, x ∈ l₁ → x ∈ l₂) :
    mergeOpt lt (joinOpt lt l₁) (joinOpt lt l₂) = joinOpt lt l₂ := by
  induction l₁ with
  | nil => rfl
  | cons x r ih =>
    simp only [joinOpt, List.foldr_cons]
    have := ih (fun y hy => hs y (List.mem_cons_of_mem _ hy))
    simp only [joinOpt] at this
    rw [mo_assoc h, this]
    exact join_absorb h l₂ x (hs x List.mem_cons_self)

private theorem join_same_set {lt : Access C → Access C → Bool} (h : Total lt)
    (l₁ l₂ : List (Option (MemberState C))) (hs : ∀ x, x ∈ l₁ ↔ x ∈ l₂) :
    joinOpt lt l₁ = joinOpt lt l₂ := by
  have a := join_subset h l₁ l₂ (fun x hx => (hs x).1 hx)
  have b := join_subset h l₂ l₁ (fun x hx => (hs x).2 hx)
  rw [← a, mo_comm h, b]

/-- Head states are well-formed maps at both levels (what `HashMap`s are). -/
def HeadsWF (hs : List (GroupStates C)) : Prop := ∀ h, h ∈ hs → GWF h ∧ AllWF h

private theorem look_foldl (lt : Access C → Access C → Bool) (hs : List (GroupStates C))
    (hw : HeadsWF hs) (cur : GroupStates C) (g : Nat) (k : Member) :
    look (hs.foldl (mergeGroupStates lt) cur) g k =
      (hs.map (fun h => look h g k)).foldl (fun acc x => mergeOpt lt x acc) (look cur g k) := by
  induction hs generalizing cur with
  | nil => rfl
  | cons h hs ih =>
    simp only [List.foldl_cons, List.map_cons]
    rw [ih (fun x hx => hw x (List.mem_cons_of_mem _ hx))]
    rw [look_mergeGroupStates lt cur h (hw h List.mem_cons_self).1 (hw h List.mem_cons_self).2]

/-- The entry of a member in the merged state is the join of its entries in the head states. -/
theorem look_mergeAll {lt : Access C → Access C → Bool} (ht : Total lt) (hs : List (GroupStates C))
    (hw : HeadsWF hs) (g : Nat) (k : Member) :
    look (mergeAll lt hs) g k = joinOpt lt (hs.map (fun h => look h g k)) := by
  unfold mergeAll
  rw [look_foldl lt hs hw [] g k, foldl_eq_join ht]
  exact mo_none_right lt _

/-- Two stored group-state maps are the same finite map (whatever their storage order). -/
def LookEq (h₁ h₂ : GroupStates C) : Prop := ∀ g k, look h₁ g k = look h₂ g k

/-- Two collections of head states denote the same *set* of finite maps. -/
def SameHeads (hs₁ hs₂ : List (GroupStates C)) : Prop :=
  (∀ h₁, h₁ ∈ hs₁ → ∃ h₂, h₂ ∈ hs₂ ∧ LookEq h₁ h₂) ∧ (∀ h₂, h₂ ∈ hs₂ → ∃ h₁, h₁ ∈ hs₁ ∧ LookEq h₁ h₂)

/-- **`merge_states` is a function of the *set* of head states**: any permutation, any duplication
    and any re-ordering of the stored maps of the same heads gives the same merged map — a fresh
    `HashSet` of heads per query cannot change `current_state()` once the tie-break is total. -/
theorem c31_merge_states_deterministic {lt : Access C → Access C → Bool} (ht : Total lt)
    (hs₁ hs₂ : List (GroupStates C)) (w₁ : HeadsWF hs₁) (w₂ : HeadsWF hs₂)
    (hset : SameHeads hs₁ hs₂) (g : Nat) (k : Member) :
    look (mergeAll lt hs₁) g k = look (mergeAll lt hs₂) g k := by
  rw [look_mergeAll ht hs₁ w₁, look_mergeAll ht hs₂ w₂]
  apply join_same_set ht
  intro x
  simp only [List.mem_map]
  constructor
  · rintro ⟨h, hh, e⟩
    obtain ⟨h₂, hm, he⟩ := hset.1 h hh
    exact ⟨h₂, hm, by rw [← he g k]; exact e⟩
  · rintro ⟨h, hh, e⟩
    obtain ⟨h₁, hm, he⟩ := hset.2 h hh
    exact ⟨h₁, hm, by rw [he g k]; exact e⟩

/-- Permutations and duplications of literally the same head states, as a special case. -/
theorem sameHeads_of_same_elements (hs₁ hs₂ : List (GroupStates C)) (h : ∀ x, x ∈ hs₁ ↔ x ∈ hs₂) :
    SameHeads hs₁ hs₂ :=
  ⟨fun x hx => ⟨x, (h x).1 hx, fun _ _ => rfl⟩, fun x hx => ⟨x, (h x).2 hx, fun _ _ => rfl⟩⟩

/-- `merge_states(ids)` with found states is `mergeAll` of the looked-up states in `ids` order. -/
theorem mergeStates_eq_mergeAll (lt : Access C → Access C → Bool) (states : List (Nat × GroupStates C))
    (ids : List Nat) (hs : List (GroupStates C))
    (hfound : ids.map (statesGet? states) = hs.map some) :
    mergeStates lt states ids = some (mergeAll lt hs) := by
  unfold mergeStates mergeAll
  suffices ∀ cur, ids.foldlM (fun cur id => (statesGet? states id).map (mergeGroupStates lt cur)) cur
      = some (hs.foldl (mergeGroupStates lt) cur) from this []
  induction ids generalizing hs with
  | nil =>
    intro cur
    cases hs with
    | nil => rfl
    | cons _ _ => simp at hfound
  | cons id ids ih =>
    intro cur
    cases hs with
    | nil => simp at hfound
    | cons h hs =>
      simp only [List.map_cons, List.cons.injEq] at hfound
      simp only [List.foldlM_cons, hfound.1, Option.map_some, List.foldl_cons]
      exact ih hs hfound.2 _

/-! ## `members_inner` does not depend on the iteration order of the maps -/

/-- The traversal is the left fold of `combine` over the list of all path visits. -/
theorem membersInner_eq_fold (le lt : Access C → Access C → Bool) (cur : GroupStates C) (fuel g : Nat)
    (root : Option (Access C)) (acc : List (Member × Access C)) :
    membersInner le lt cur fuel g root acc =
      (paths le cur fuel g root).foldl (fun acc p => combine lt acc p.1 p.2) acc := by
  induction fuel generalizing g root acc with
  | zero => rfl
  | succ fuel ih =>
    unfold membersInner paths
    cases hg : gget? cur g with
    | none => rfl
    | some st =>
      simp only
      rw [List.foldl_flatMap]
      generalize accessLevels st = l
      induction l generalizing acc with
      | nil => rfl
      | cons p l ihl =>
        simp only [List.foldl_cons]
        rw [ihl]
        congr 1
        cases hp : p.1 with
        | individual i => simp
        | group i => simp [ih]

/-- The combined access of member `m` after folding the visits `ps` into `acc`. -/
private theorem accGet?_fold (lt : Access C → Access C → Bool) (ps : List (Member × Access C))
    (acc : List (Member × Access C)) (m : Member) :
    accGet? (ps.foldl (fun acc p => combine lt acc p.1 p.2) acc) m =
      ((ps.filter (fun p => p.1 = m)).map (·.2)).foldl (maxStep lt) (accGet? acc m) := by
  induction ps generalizing acc with
  | nil => rfl
  | cons p ps ih =>
    simp only [List.foldl_cons]
    rw [ih, accGet?_combine]
    by_cases e : p.1 = m
    · simp [e]
    · simp [e]

/-- Under a strict total order the running maximum commutes. -/
private theorem maxStep_comm {lt : Access C → Access C → Bool} (ht : Total lt) (o : Option (Access C))
    (a b : Access C) : maxStep lt (maxStep lt o a) b = maxStep lt (maxStep lt o b) a := by
  have asym : ∀ x y, lt x y = true → lt y x = false := by
    intro x y h1
    cases h2 : lt y x with
    | false => rfl
    | true =>
      have := ht.trans x y x trivial trivial trivial h1 h2
      rw [ht.irrefl x trivial] at this
      exact absurd this (by simp)
  have tot : ∀ x y, lt x y = false → lt y x = false → x = y := by
    intro x y h1 h2
    by_cases e : x = y
    · exact e
    · rcases ht.total x y trivial trivial e with h | h
      · rw [h1] at h; exact absurd h (by simp)
      · rw [h2] at h; exact absurd h (by simp)
  have tr := fun x y z => ht.trans x y z trivial trivial trivial
  cases o with
  | none =>
    simp only [maxStep]
    cases hab : lt a b <;> cases hba : lt b a <;> simp
    all_goals first
      | exact tot a b hab hba
      | exact (tot a b hab hba).symm
      | (exfalso; have h1 := asym a b hab; rw [hba] at h1; exact Bool.noConfusion h1)
  | some c =>
    simp only [maxStep]
    cases hca : lt c a <;> cases hcb : lt c b <;> cases hab : lt a b <;> cases hba : lt b a <;>
      simp [hca, hcb, hab, hba]
    all_goals first
      | exact tot a b hab hba
      | exact (tot a b hab hba).symm
      | (exfalso; have h1 := asym a b hab; rw [hba] at h1; exact Bool.noConfusion h1)
      | (exfalso; have h1 := tr c b a hcb hba; rw [hca] at h1; exact Bool.noConfusion h1)
      | (exfalso; have h1 := tr c a b hca hab; rw [hcb] at h1; exact Bool.noConfusion h1)

/-- Two well-formed member maps with the same entries are permutations of each other. -/
private theorem perm_of_mapEq {K : Type} [DecidableEq K] (s₁ s₂ : State K C) (w₁ : WF s₁) (w₂ : WF s₂)
    (h : MapEq s₁ s₂) : s₁.Perm s₂ := by
  have nd : ∀ s : State K C, WF s → s.Nodup := by
    intro s
    induction s with
    | nil => intro _; exact List.nodup_nil
    | cons p s ih =>
      intro hw
      simp only [WF, keys, List.map_cons, List.nodup_cons] at hw
      rw [List.nodup_cons]
      refine ⟨fun hp => hw.1 (List.mem_map.2 ⟨p, hp, rfl⟩), ih hw.2⟩
  rw [List.perm_ext_iff_of_nodup (nd s₁ w₁) (nd s₂ w₂)]
  rintro ⟨k, v⟩
  constructor
  · intro hm
    have := get?_of_mem s₁ w₁ k v hm
    rw [h k] at this
    exact mem_of_get? s₂ k v this
  · intro hm
    have := get?_of_mem s₂ w₂ k v hm
    rw [← h k] at this
    exact mem_of_get? s₁ k v this

/-- The member map of a group, empty if the group is unknown. -/
def stOf (cur : GroupStates C) (g : Nat) : MState C := (gget? cur g).getD []

/-- Same finite maps at both levels (possibly stored in different orders). -/
structure SameMaps (cur₁ cur₂ : GroupStates C) : Prop where
  wf₁ : AllWF cur₁
  wf₂ : AllWF cur₂
  same : ∀ g k, look cur₁ g k = look cur₂ g k

private theorem paths_stOf (le : Access C → Access C → Bool) (cur : GroupStates C) (fuel g : Nat)
    (root : Option (Access C)) :
    paths le cur (fuel + 1) g root =
      (accessLevels (stOf cur g)).flatMap (fun p =>
        (p.1, nextAccess le root p.2) :: (match p.1 with
          | .group i => paths le cur fuel i (some (nextAccess le root p.2))
          | .individual _ => [])) := by
  rw [paths]
  unfold stOf
  cases gget? cur g with
  | none => simp [accessLevels]
  | some st => rfl

private theorem stOf_perm (cur₁ cur₂ : GroupStates C) (h : SameMaps cur₁ cur₂) (g : Nat) :
    (stOf cur₁ g).Perm (stOf cur₂ g) := by
  apply perm_of_mapEq
  · unfold stOf
    cases hg : gget? cur₁ g with
    | none => simp [WF, keys]
    | some s => exact h.wf₁ g s hg
  · unfold stOf
    cases hg : gget? cur₂ g with
    | none => simp [WF, keys]
    | some s => exact h.wf₂ g s hg
  · intro k
    have := h.same g k
    unfold look at this
    unfold stOf
    cases h1 : gget? cur₁ g <;> cases h2 : gget? cur₂ g <;> simp_all [get?]

/-- The multiset of path visits does not depend on the storage order of the maps. -/
theorem paths_perm (le : Access C → Access C → Bool) (cur₁ cur₂ : GroupStates C)
    (h : SameMaps cur₁ cur₂) (fuel g : Nat) (root : Option (Access C)) :
    (paths le cur₁ fuel g root).Perm (paths le cur₂ fuel g root) := by
  induction fuel generalizing g root with
  | zero => simp [paths]
  | succ fuel ih =>
    rw [paths_stOf, paths_stOf]
    apply List.Perm.flatMap
    · unfold accessLevels
      exact ((stOf_perm cur₁ cur₂ h g).filter _).map _
    · intro p _
      apply List.Perm.cons
      cases p.1 with
      | individual i => exact List.Perm.refl _
      | group i => exact ih i _

/-- **`members_inner` is independent of map iteration order when the access comparison used to
    combine paths is a strict total order**: the same finite maps, stored in any order, give every
    member the same combined access (for every starting depth). -/
theorem c31_members_order_irrelevant {lt : Access C → Access C → Bool} (ht : Total lt)
    (le : Access C → Access C → Bool) (cur₁ cur₂ : GroupStates C) (h : SameMaps cur₁ cur₂)
    (g depth : Nat) (m : Member) :
    accGet? (traverseMembers le lt cur₁ g depth) m = accGet? (traverseMembers le lt cur₂ g depth) m := by
  unfold traverseMembers
  rw [membersInner_eq_fold, membersInner_eq_fold, accGet?_fold, accGet?_fold]
  apply List.Perm.foldl_eq'
  · exact ((paths_perm le cur₁ cur₂ h _ g none).filter _).map _
  · intro x _ y _ z
    exact maxStep_comm ht z x y

/-- `root_members` as a set does not depend on storage order either. -/
theorem c31_root_members_order_irrelevant (cur₁ cur₂ : GroupStates C) (h : SameMaps cur₁ cur₂) (g : Nat) :
    (accessLevels (stOf cur₁ g)).Perm (accessLevels (stOf cur₂ g)) := by
  unfold accessLevels
  exact ((stOf_perm cur₁ cur₂ h g).filter _).map _

theorem rootMembers_eq_stOf (cur : GroupStates C) (g : Nat) :
    rootMembers cur g = accessLevels (stOf cur g) := by
  unfold rootMembers stOf
  cases gget? cur g <;> rfl

/-! ## Queries are deterministic; replicas with the same heads agree -/

theorem allWF_mergeAll (lt : Access C → Access C → Bool) (hs : List (GroupStates C)) (hw : HeadsWF hs) :
    AllWF (mergeAll lt hs) := by
  unfold mergeAll
  suffices ∀ cur : GroupStates C, AllWF cur → AllWF (hs.foldl (mergeGroupStates lt) cur) from
    this [] (by intro g s h; simp [gget?] at h)
  induction hs with
  | nil => intro cur h; exact h
  | cons h hs ih =>
    intro cur hc
    simp only [List.foldl_cons]
    exact ih (fun x hx => hw x (List.mem_cons_of_mem _ hx)) _
      (allWF_mergeGroupStates lt cur h (hw h List.mem_cons_self).1 hc (hw h List.mem_cons_self).2)

theorem sameMaps_mergeAll {lt : Access C → Access C → Bool} (ht : Total lt)
    (hs₁ hs₂ : List (GroupStates C)) (w₁ : HeadsWF hs₁) (w₂ : HeadsWF hs₂) (hset : SameHeads hs₁ hs₂) :
    SameMaps (mergeAll lt hs₁) (mergeAll lt hs₂) :=
  ⟨allWF_mergeAll lt hs₁ w₁, allWF_mergeAll lt hs₂ w₂,
   fun g k => c31_merge_states_deterministic ht hs₁ hs₂ w₁ w₂ hset g k⟩

/-- `c31_query_deterministic`: with a total merge tie-break `ltM` and a total order `ltQ` for
    combining the accesses of several paths, `members` / `groups` (the map built by
    `traverse_members`) and `root_members` are functions of the *set* of head states: neither the
    iteration order of the fresh `HashSet` of heads, nor a head listed twice, nor the iteration order
    of any `HashMap` involved can change an answer. -/
theorem c31_query_deterministic {ltM ltQ : Access C → Access C → Bool} (hM : Total ltM) (hQ : Total ltQ)
    (le : Access C → Access C → Bool) (hs₁ hs₂ : List (GroupStates C)) (w₁ : HeadsWF hs₁)
    (w₂ : HeadsWF hs₂) (hset : SameHeads hs₁ hs₂) (g depth : Nat) :
    (∀ m, accGet? (traverseMembers le ltQ (mergeAll ltM hs₁) g depth) m
        = accGet? (traverseMembers le ltQ (mergeAll ltM hs₂) g depth) m)
    ∧ (rootMembers (mergeAll ltM hs₁) g).Perm (rootMembers (mergeAll ltM hs₂) g) := by
  have sm := sameMaps_mergeAll hM hs₁ hs₂ w₁ w₂ hset
  refine ⟨fun m => c31_members_order_irrelevant hQ le _ _ sm g depth m, ?_⟩
  rw [rootMembers_eq_stOf, rootMembers_eq_stOf]
  exact c31_root_members_order_irrelevant _ _ sm g

/-- What a replica keeps for answering queries: the head ids of its operation graph and the map
    `operation id ↦ resolved group states`. -/
structure View (C : Type) where
  heads : List Nat
  states : List (Nat × GroupStates C)

/-- The states stored for the heads (in the order the `HashSet` of heads happens to iterate). -/
def View.headStates (v : View C) : List (GroupStates C) := v.heads.filterMap (statesGet? v.states)

/-- `c31_converge_partial`: two replicas whose heads carry the same resolved states (as finite maps,
    stored in whatever order) return identical `members`, `groups`, `root_members` — access levels
    and conditions included — for every group, and every repetition of a query on one replica
    returns the same answer. (`ltM`: merge tie-break, total after the C32 fix; `ltQ`: the order used
    to combine several paths — total is a hypothesis here; the pinned tree uses `Access::<`, see
    `c31_orig_query_nondeterministic`.) -/
theorem c31_converge_partial {ltM ltQ : Access C → Access C → Bool} (hM : Total ltM) (hQ : Total ltQ)
    (le : Access C → Access C → Bool) (v₁ v₂ : View C)
    (w₁ : HeadsWF v₁.headStates) (w₂ : HeadsWF v₂.headStates)
    (hsame : SameHeads v₁.headStates v₂.headStates) (g depth : Nat) :
    (∀ m, accGet? (traverseMembers le ltQ (mergeAll ltM v₁.headStates) g depth) m
        = accGet? (traverseMembers le ltQ (mergeAll ltM v₂.headStates) g depth) m)
    ∧ (rootMembers (mergeAll ltM v₁.headStates) g).Perm (rootMembers (mergeAll ltM v₂.headStates) g) :=
  c31_query_deterministic hM hQ le _ _ w₁ w₂ hsame g depth

/-- The hypothesis under which full convergence follows — and which the harness tests on every run
    by processing the same operation set in different causal orders on different replicas: the
    resolved states at the heads depend only on the *set* of processed operations. `replica` is the
    whole of `GroupCrdt::process` folded over a delivery order (resolver included), left opaque. -/
def ResolverOrderInsensitive (replica : List (Op C) → View C) (Causal : List (Op C) → Prop) : Prop :=
  ∀ o₁ o₂, Causal o₁ → Causal o₂ → o₁.Perm o₂ →
    HeadsWF (replica o₁).headStates ∧ HeadsWF (replica o₂).headStates
      ∧ SameHeads (replica o₁).headStates (replica o₂).headStates

/-- `c31_converge`: if the resolver's output depends only on the operation set, two replicas that
    processed the same set of operations in two causal orders give identical answers. -/
theorem c31_converge {ltM ltQ : Access C → Access C → Bool} (hM : Total ltM) (hQ : Total ltQ)
    (le : Access C → Access C → Bool) (replica : List (Op C) → View C) (Causal : List (Op C) → Prop)
    (hres : ResolverOrderInsensitive replica Causal) (o₁ o₂ : List (Op C)) (c₁ : Causal o₁)
    (c₂ : Causal o₂) (hp : o₁.Perm o₂) (g depth : Nat) :
    (∀ m, accGet? (traverseMembers le ltQ (mergeAll ltM (replica o₁).headStates) g depth) m
        = accGet? (traverseMembers le ltQ (mergeAll ltM (replica o₂).headStates) g depth) m)
    ∧ (rootMembers (mergeAll ltM (replica o₁).headStates) g).Perm
        (rootMembers (mergeAll ltM (replica o₂).headStates) g) := by
  obtain ⟨w₁, w₂, hs⟩ := hres o₁ o₂ c₁ c₂ hp
  exact c31_converge_partial hM hQ le _ _ w₁ w₂ hs g depth

/-! ## Tie to the current source text (regenerated into `P2/Extracted/C31.lean` on every run) -/

section Source
open P2.Extracted.C31

/-- The model's `accessPcmp` *is* `impl PartialOrd for Access<C>::partial_cmp` as written in `access.rs`
    now (its nested `match` translated arm by arm, or-patterns expanded, arms in source order). -/
theorem c31_partial_cmp_is_source (cmpC : C → C → Option Ordering) (a b : Access C) :
    accessPcmp cmpC a b = partialCmpT cmpC a.cond b.cond a.level b.level := by
  unfold accessPcmp partialCmpT
  cases a.cond <;> cases b.cond <;> simp only
  · cases compare a.level b.level <;> rfl
  · rename_i x y
    cases cmpC x y with
    | none => rfl
    | some o => cases o <;> simp only <;> cases compare a.level b.level <;> rfl

/-- The per-path access (`next_access`, the `<=` against the root access) and the combination of two
    paths (`if *current < next`) of the model are the expressions in `members_inner` now. -/
theorem c31_traversal_ops_are_source (le lt : Access C → Access C → Bool) (root : Option (Access C))
    (a cur next : Access C) :
    nextAccess le root a = nextAccessT le root a
    ∧ (combineT lt cur next).1 = (if lt cur next then next else cur) := by
  constructor
  · unfold nextAccess nextAccessT
    cases root <;> rfl
  · unfold combineT
    cases lt cur next <;> simp

/-- The frame of `members_inner` / `traverse_members` / `merge_states` / `heads` transcribed in the model:
    depth guard `==` against `MAX_NESTED_DEPTH` (= the model's bound), state re-read per level, iteration
    over `access_levels()`, recursion into `Group` members with `Some(next_access)`, new members inserted
    with `next_access`; `merge_states` folds `state::merge(state, current)` over `ids` and inserts absent
    groups; heads are the `Outgoing` externals; `Ord::cmp` falls back to `Less`. -/
theorem c31_traversal_frame_is_source :
    maxNestedDepth = maxNestedDepthSrc
    ∧ depthGuard = "depth == MAX_NESTED_DEPTH"
    ∧ traversalState = "self.current_state()"
    ∧ traversalLoop = "(member, access) in group_state.access_levels()"
    ∧ recursionGuard = "GroupMember::Group(id) = member"
    ∧ recursionArgs = "id, members, Some(next_access), depth"
    ∧ combineAbsent = "|| next_access.clone()"
    ∧ traverseStart = "self.members_inner(group_id, &mut members, None, depth)"
    ∧ mergeStatesCall = "state::merge(state.clone(), current_state.clone())"
    ∧ mergeStatesAbsent = "or_insert(state)"
    ∧ mergeStatesLoop = "id in ids"
    ∧ mergeStatesMissing = "GroupCrdtInnerError::StatesNotFound"
    ∧ headsDirection = "petgraph::Direction::Outgoing"
    ∧ ordCmpBody = "self.partial_cmp(other).unwrap_or(Ordering::Less)" := by
  exact ⟨rfl, rfl, rfl, rfl, rfl, rfl, rfl, rfl, rfl, rfl, rfl, rfl, rfl, rfl⟩

end Source

/-! ## The pinned tree: order-dependent answers -/

def natCmp (x y : Nat) : Option Ordering := some (compare x y)
private def ltO : Access Nat → Access Nat → Bool := accessLtOrig natCmp
private def leO : Access Nat → Access Nat → Bool := accessLeOrig natCmp
private def ltF : Access Nat → Access Nat → Bool := accessLtFix natCmp

private def i0 : Member := .individual 0
private def i1 : Member := .individual 1
private def headA : GroupStates Nat := [(10, [(i0, ⟨1, ⟨none, lvlRead⟩, 0⟩)])]
private def headB : GroupStates Nat := [(10, [(i0, ⟨1, ⟨some 0, lvlRead⟩, 0⟩)])]

/-- group 10 = {g11 : (Some 5, Read), g12 : (Some 3, Write)}, groups 11 and 12 = {i1 : Manage}. -/
private def nested (first second : Member × MemberState Nat) : GroupStates Nat :=
  [(10, [first, second]), (11, [(i1, ⟨1, ⟨none, lvlManage⟩, 0⟩)]), (12, [(i1, ⟨1, ⟨none, lvlManage⟩, 0⟩)])]
private def e11 : Member × MemberState Nat := (.group 11, ⟨1, ⟨some 5, lvlRead⟩, 0⟩)
private def e12 : Member × MemberState Nat := (.group 12, ⟨1, ⟨some 3, lvlWrite⟩, 0⟩)

/-- `c31_orig_query_nondeterministic`: (1) with the original tie-break (`Access::<`) the two fold
    orders over the heads `(None, Read)` / `(Some c, Read)` give different merged states (repaired by
    the C32 fix: the repaired tie-break gives the same state); (2) with `Access::<` / `<=` in
    `members_inner` — unchanged on the current tree, known finding — a member reachable through two
    sub-groups with accesses `(Some 5, Read)` and `(Some 3, Write)` gets an access that depends on
    which sub-group the map iterates first; the model flags exactly this as `hazard`. -/
theorem c31_orig_query_nondeterministic :
    look (mergeAll ltO [headA, headB]) 10 i0 ≠ look (mergeAll ltO [headB, headA]) 10 i0
    ∧ look (mergeAll ltF [headA, headB]) 10 i0 = look (mergeAll ltF [headB, headA]) 10 i0
    ∧ accGet? (membersInner leO ltO (nested e11 e12) 3 10 none []) i1 = some ⟨some 3, lvlWrite⟩
    ∧ accGet? (membersInner leO ltO (nested e12 e11) 3 10 none []) i1 = some ⟨some 5, lvlRead⟩
    ∧ hazard leO ltO (nested e11 e12) 10 = true := by
  refine ⟨by decide, by decide, by decide, by decide, ?_⟩
  decide

/-! ### Non-vacuity -/

/-- The repaired tie-break satisfies `Total` for `u8`-like conditions. -/
example : Total ltF := c32_repaired_lt_total natCmp_linear

/-- Concrete heads meeting `HeadsWF` and `SameHeads` (a permutation plus a duplicate). -/
example : HeadsWF [headA, headB] ∧ SameHeads [headA, headB] [headB, headA, headB] := by
  refine ⟨?_, sameHeads_of_same_elements _ _ ?_⟩
  · intro h hh
    simp only [List.mem_cons, List.mem_nil_iff, or_false] at hh
    rcases hh with e | e <;> subst e
    · refine ⟨by simp [GWF, gkeys, headA], ?_⟩
      intro g s hs
      simp only [headA, gget?] at hs
      split at hs
      · injection hs with hs; subst hs; simp [WF, keys]
      · cases hs
    · refine ⟨by simp [GWF, gkeys, headB], ?_⟩
      intro g s hs
      simp only [headB, gget?] at hs
      split at hs
      · injection hs with hs; subst hs; simp [WF, keys]
      · cases hs
  · intro x
    simp only [List.mem_cons, List.mem_nil_iff, or_false]
    constructor
    · rintro (h | h)
      · exact Or.inr (Or.inl h)
      · exact Or.inl h
    · rintro (h | h | h)
      · exact Or.inr h
      · exact Or.inl h
      · exact Or.inr h

end P2.C31
