/-
C01 — Only authentic, well-formed operations are ingested or delivered.
Property theorems (DESIGN.md §6 C01) about `validateHeader` / `validateOperation` / `verify`
(`P2/Model/Header.lean`) and `ingest` (`P2/Model/LogStore.lean`).  Signatures are ideal: a
table of honestly produced signatures; `verify` is membership in that table.
-/
import P2.Model.Header
import P2.Model.LogStore
import P2.Lemmas.Header
import P2.Props.C02
import P2.Props.C04
import P2.Extracted.C01

namespace P2.C01
open P2.Header P2.LogStore P2.HeaderLemmas P2.LogStoreLemmas

/-- What `validate_header` establishes. -/
theorem validateHeader_ok {E : Type} (c : ExtCodec E) (tbl : SigTable) (h : Header E)
    (hv : validateHeader c tbl h = .ok ()) :
    verify c tbl h = true ∧ h.version = 1 ∧
    (h.payloadHash.isSome ↔ 0 < h.payloadSize) ∧ (h.backlink.isSome ↔ 0 < h.seq) := by
  unfold validateHeader at hv
  split at hv
  · simp at hv
  · rename_i h1
    split at hv
    · simp at hv
    · rename_i h2
      split at hv
      · simp at hv
      · rename_i h3
        split at hv
        · simp at hv
        · rename_i h4
          split at hv
          · simp at hv
          · rename_i h5
            refine ⟨by simpa using h1, by simpa using h2, ?_, ?_⟩
            · cases hp : h.payloadHash <;> simp [hp] at h3 ⊢ <;> omega
            · cases hb : h.backlink <;> simp [hb] at h4 h5 ⊢ <;> omega

/-- What `validate_operation` establishes on top of `validate_header`. -/
theorem validateOperation_ok {E : Type} (c : ExtCodec E) (tbl : SigTable) (op : Operation E)
    (hv : validateOperation c tbl op = .ok ()) :
    validateHeader c tbl op.header = .ok () ∧
    (∀ b, op.body = some b → op.header.payloadHash = some b.hash ∧ op.header.payloadSize = b.size) := by
  unfold validateOperation at hv
  split at hv
  · simp at hv
  · rename_i hh
    refine ⟨hh, ?_⟩
    intro b hb
    rw [hb] at hv
    have hk := (validateHeader_ok c tbl op.header hh).2.2.1
    by_cases hz : op.header.payloadSize = 0
    · -- size 0: claimed hash is none, a body never matches `some b.hash`
      simp [hz] at hv
    · cases hp : op.header.payloadHash with
      | none => simp [hz, hp] at hv
      | some ph =>
        simp only [hz, hp, if_false] at hv
        split at hv
        · simp at hv
        · rename_i hne
          simp only [Bool.not_eq_true, Bool.or_eq_false_iff, decide_eq_false_iff_not, ne_eq,
            Decidable.not_not] at hne
          exact ⟨hne.1, hne.2⟩

/-- **Accept ⇒ authentic and well-formed.** Whatever `ingest` accepts (inserted *or* answered
    "already exists") carries a signature that honest signing of exactly its unsigned encoding
    by the claimed author produced, has the supported version, consistent payload hash/size and
    backlink/seq fields, and an attached body matches the claimed hash and size. -/
theorem c01_accept_sound {E : Type} (c : ExtCodec E) (tbl : SigTable) (s s' : Store) (o : Op E)
    (log topic : Nat) (pf ins : Bool)
    (h : ingest c tbl s o log topic pf = .ok (s', ins)) :
    (∃ sig, o.op.header.signature = some sig ∧
        (o.op.header.key, encode c (unsign o.op.header), sig) ∈ tbl) ∧
    o.op.header.version = 1 ∧
    (o.op.header.payloadHash.isSome ↔ 0 < o.op.header.payloadSize) ∧
    (o.op.header.backlink.isSome ↔ 0 < o.op.header.seq) ∧
    (∀ b, o.op.body = some b →
        o.op.header.payloadHash = some b.hash ∧ o.op.header.payloadSize = b.size) := by
  unfold ingest ingestWith at h
  split at h
  · simp at h
  · rename_i hv
    obtain ⟨hh, hb⟩ := validateOperation_ok c tbl o.op hv
    obtain ⟨hver, h1, h2, h3⟩ := validateHeader_ok c tbl o.op.header hh
    refine ⟨?_, h1, h2, h3, hb⟩
    unfold verify at hver
    cases hs : o.op.header.signature with
    | none => simp [hs] at hver
    | some sg =>
      simp only [hs] at hver
      exact ⟨sg, rfl, by simpa [List.contains_iff_mem] using hver⟩

/-- **Reject ⇒ no trace.** A failed ingest, and an ingest answered "already exists", leave the
    store (rows and topic associations) exactly as it was; the store changes only with the
    outcome `inserted`. -/
theorem c01_reject_unchanged {E : Type} (c : ExtCodec E) (tbl : SigTable) (s : Store) (o : Op E)
    (log topic : Nat) (pf : Bool) :
    (ingestStep c tbl s o log topic pf).2 ≠ .inserted → (ingestStep c tbl s o log topic pf).1 = s := by
  unfold ingestStep ingestStepWith
  cases hi : ingestWith validatePrunableBacklink c tbl s o log topic pf with
  | error e => cases e; simp
  | ok r =>
    obtain ⟨s', ins⟩ := r
    cases ins with
    | true => simp
    | false =>
      simp only [ne_eq, reduceCtorEq, not_false_eq_true, forall_const]
      unfold ingestWith at hi
      split at hi
      · simp at hi
      · split at hi
        · simp at hi; exact hi.symm
        · split at hi <;> simp at hi

/-- An inserted operation passed `validate_operation` (nothing is written before validation). -/
theorem c01_insert_only_if_valid {E : Type} (c : ExtCodec E) (tbl : SigTable) (s : Store) (o : Op E)
    (log topic : Nat) (pf : Bool)
    (h : (ingestStep c tbl s o log topic pf).1 ≠ s) :
    validateOperation c tbl o.op = .ok () := by
  by_cases hv : validateOperation c tbl o.op = .ok ()
  · exact hv
  · exfalso
    apply h
    unfold ingestStep ingestStepWith ingestWith
    cases hvv : validateOperation c tbl o.op with
    | ok u => cases u; exact absurd hvv hv
    | error e => simp

/-! ### Tie to the source text -/

/-- The model's `validateHeader` is, check for check and in the same order, the Lean term that
    `rs2lean` regenerates from the current body of `validate_header` in
    p2panda-core/src/operation.rs on every run (dropping, reordering or changing a check there
    breaks this proof before any input is generated). -/
theorem c01_validate_header_is_source {E : Type} (c : ExtCodec E) (tbl : SigTable) (h : Header E) :
    (match validateHeader c tbl h with
      | .ok () => (.ok () : Except Nat Unit)
      | .error e => .error (errCode e))
    = P2.Extracted.C01.validateHeaderT (verify c tbl h) h.version h.payloadSize h.seq
        h.payloadHash.isSome h.backlink.isSome := by
  unfold validateHeader P2.Extracted.C01.validateHeaderT
  cases hv : verify c tbl h <;> simp only [Bool.not_false, Bool.not_true, if_true, Bool.false_eq_true, if_false, not_true_eq_false, not_false_eq_true, errCode]
  by_cases h1 : h.version = 1
  · cases hp : h.payloadHash <;> cases hb : h.backlink <;>
      by_cases hz : h.payloadSize = 0 <;> by_cases hq : h.seq = 0 <;>
      simp [h1, hz, hq, errCode, Nat.pos_of_ne_zero] <;> omega
  · simp [h1, errCode]

/-- Step order of `ingest_operation`, read from the current source: `validate_operation(operation)?`
    comes first — **no call at all** (no store lookup such as `has_operation` / `get_operation`,
    no `begin()`, no other validation that could short-cut it) precedes it except the `borrow()` of
    the argument — before anything is looked up or written; de-duplication is keyed on
    `operation.hash` and answers `Ok(false)`; the operation that is inserted is the validated one. -/
theorem c01_extracted_ingest_order :
    P2.Extracted.C01.ingestCalls = ["validate_operation", "begin", "has_operation_tx", "rollback",
      "get_latest_entry_tx", "validate_prunable_backlink", "insert_operation", "associate", "commit"] ∧
    P2.Extracted.C01.pastHeaderExpr = "store .get_latest_entry_tx(&operation.header.verifying_key, log_id) .await .map_err(STORE)? .map(|operation| operation.header)" ∧
    P2.Extracted.C01.vpbArgs = "past_header.as_ref(), &operation.header, prune_flag" ∧
    P2.Extracted.C01.dedupKey = "&operation.hash" ∧
    P2.Extracted.C01.dedupReturn = "Ok(false)" ∧
    P2.Extracted.C01.insertArgs = "&id, operation, log_id" ∧
    P2.Extracted.C01.callsBeforeValidate = ["borrow"] ∧
    P2.Extracted.C01.validateCall = "operation ?" := by
  refine ⟨rfl, rfl, rfl, rfl, rfl, rfl, rfl, rfl⟩

/-! ### Tampering -/

/-- The table holds only signatures made by honest signing of the headers in `Hs`
    (unforgeability: there is no other way to obtain a verifying triple). -/
def HonestTable {E : Type} (c : ExtCodec E) (tbl : SigTable) (Hs : Header E → Prop) : Prop :=
  ∀ k m sg, (k, m, sg) ∈ tbl →
    ∃ h, Hs h ∧ h.key = k ∧ h.signature = some sg ∧ m = encode c (unsign h)

/-- The signed encoding is determined by the unsigned encoding and the signature. -/
theorem encode_signed {E : Type} (c : ExtCodec E) (h : Header E) (sg : Nat)
    (hs : h.signature = some sg) :
    encode c h = .arr (fieldCount c (unsign h) + 1) :: .uint h.version :: .bytes 32 h.key ::
      .bytes 64 sg :: (encode c (unsign h)).drop 3 := by
  obtain ⟨version, key, sig, size, ph, seq, bl, ext⟩ := h
  simp only at hs
  subst hs
  simp [encode, unsign, fieldCount, fieldCountWith, optCount, optBytes]
  omega

theorem encode_unsigned_head {E : Type} (c : ExtCodec E) (h : Header E) :
    (encode c (unsign h)).take 3 = [.arr (fieldCount c (unsign h)), .uint h.version, .bytes 32 h.key] := by
  simp [encode, unsign]

/-- Equal unsigned encodings and equal signatures give equal signed encodings. -/
theorem encode_eq_of_unsigned_eq {E : Type} (c : ExtCodec E) (h₁ h₂ : Header E) (sg : Nat)
    (s₁ : h₁.signature = some sg) (s₂ : h₂.signature = some sg)
    (he : encode c (unsign h₁) = encode c (unsign h₂)) : encode c h₁ = encode c h₂ := by
  have t₁ := encode_unsigned_head c h₁
  have t₂ := encode_unsigned_head c h₂
  rw [he] at t₁
  rw [t₁] at t₂
  simp only [List.cons.injEq, Tok.arr.injEq, Tok.uint.injEq, Tok.bytes.injEq, true_and, and_true] at t₂
  rw [encode_signed c h₁ sg s₁, encode_signed c h₂ sg s₂, he, t₂.1, t₂.2.1, t₂.2.2]

/-- **Tampering is rejected.** Let `Hs` be the set of headers that were honestly signed (each a
    validated header) and let the signature table contain nothing else. Then every operation
    that passes `validate_operation` carries a header *from* `Hs`, field for field including the
    signature — so any operation whose header differs from every honestly signed header in a
    single field, in the signature, or (through the payload hash) in the body is rejected.
    Goes through `c02_encode_injective`: a changed field changes the signed bytes. -/
theorem c01_tamper_rejected {E : Type} (c : ExtCodec E) (keyOk : Nat → Bool) (wfE : E → Prop)
    (hc : Lawful c wfE) (tbl : SigTable) (Hs : Header E → Prop)
    (hHs : ∀ h, Hs h → WF keyOk wfE h) (htbl : HonestTable c tbl Hs)
    (op' : Operation E)
    (hrange : op'.header.version < 2 ^ 16 ∧ op'.header.payloadSize < 2 ^ 32 ∧
      op'.header.seq < 2 ^ 32 ∧ keyOk op'.header.key = true ∧ wfE op'.header.ext)
    (hv : validateOperation c tbl op' = .ok ()) :
    Hs op'.header ∧
    (∀ b, op'.body = some b → op'.header.payloadHash = some b.hash ∧ op'.header.payloadSize = b.size) := by
  obtain ⟨hh, hb⟩ := validateOperation_ok c tbl op' hv
  refine ⟨?_, hb⟩
  obtain ⟨hver, _, h2, h3⟩ := validateHeader_ok c tbl op'.header hh
  unfold verify at hver
  cases hs : op'.header.signature with
  | none => simp [hs] at hver
  | some sg =>
    simp only [hs] at hver
    have hmem : (op'.header.key, encode c (unsign op'.header), sg) ∈ tbl := by
      simpa [List.contains_iff_mem] using hver
    obtain ⟨h, hH, _, hsig, hm⟩ := htbl _ _ _ hmem
    have hw' : WF keyOk wfE op'.header :=
      ⟨by simp [hs], h2, h3, hrange.1, hrange.2.1, hrange.2.2.1, hrange.2.2.2.1, hrange.2.2.2.2⟩
    have henc : encode c op'.header = encode c h :=
      encode_eq_of_unsigned_eq c op'.header h sg hs hsig hm
    have : op'.header = h := P2.C02.c02_encode_injective c keyOk wfE hc _ _ hw' (hHs h hH) henc
    rw [this]; exact hH

/-- Corollary in the property's words: a header that is not one of the honestly signed ones
    (a valid operation with one field, the signature or the key changed) fails validation,
    hence ingest fails and — `c01_reject_unchanged` — the store is untouched. -/
theorem c01_tampered_ingest_fails {E : Type} (c : ExtCodec E) (keyOk : Nat → Bool) (wfE : E → Prop)
    (hc : Lawful c wfE) (tbl : SigTable) (Hs : Header E → Prop)
    (hHs : ∀ h, Hs h → WF keyOk wfE h) (htbl : HonestTable c tbl Hs)
    (s : Store) (o : Op E) (log topic : Nat) (pf : Bool)
    (hrange : o.op.header.version < 2 ^ 16 ∧ o.op.header.payloadSize < 2 ^ 32 ∧
      o.op.header.seq < 2 ^ 32 ∧ keyOk o.op.header.key = true ∧ wfE o.op.header.ext)
    (hnot : ¬ Hs o.op.header) :
    (∃ e, (ingestStep c tbl s o log topic pf).2 = .failed e) ∧
    (ingestStep c tbl s o log topic pf).1 = s := by
  have hv : validateOperation c tbl o.op ≠ .ok () := fun hv =>
    hnot (c01_tamper_rejected c keyOk wfE hc tbl Hs hHs htbl o.op hrange hv).1
  unfold ingestStep ingestStepWith ingestWith
  cases hvv : validateOperation c tbl o.op with
  | ok u => cases u; exact absurd hvv hv
  | error e => exact ⟨⟨e, rfl⟩, rfl⟩

/-- **Delivered only if accepted** (stream layer, `process_operation`): the application receives
    `StreamEvent::Processed` only for an event whose ingest completed — and what ingest completes
    for is authentic and well-formed by `c01_accept_sound`. A failed event becomes
    `ProcessingFailed`, never `Processed`. -/
theorem c01_delivered_only_if_accepted (out : Outcome) (hasBody decodes autoAck ackOk : Bool)
    (h : P2.Pipeline.processOperation out hasBody decodes autoAck ackOk = .processed) :
    out = .inserted ∨ out = .already :=
  (P2.C04.c04_processed_only_if_completed out hasBody decodes autoAck ackOk h).1

/-- **A tampered re-delivery fails** (stores that already hold the authentic operation): if the
    store already contains a row under the announced id — the authentic operation was ingested
    before — a delivery whose header is not an honestly signed one (a field or the signature
    changed, also when it is announced under the stored id, since ingest never compares the id
    with the header hash) is still *rejected*: never answered "already exists", store untouched. -/
theorem c01_tampered_replay_fails {E : Type} (c : ExtCodec E) (keyOk : Nat → Bool) (wfE : E → Prop)
    (hc : Lawful c wfE) (tbl : SigTable) (Hs : Header E → Prop)
    (hHs : ∀ h, Hs h → WF keyOk wfE h) (htbl : HonestTable c tbl Hs)
    (s : Store) (o : Op E) (log topic : Nat) (pf : Bool)
    (_hstored : hasOp s o.op.id = true)
    (hrange : o.op.header.version < 2 ^ 16 ∧ o.op.header.payloadSize < 2 ^ 32 ∧
      o.op.header.seq < 2 ^ 32 ∧ keyOk o.op.header.key = true ∧ wfE o.op.header.ext)
    (hnot : ¬ Hs o.op.header) :
    (ingestStep c tbl s o log topic pf).2 ≠ .already ∧
    (∃ e, (ingestStep c tbl s o log topic pf).2 = .failed e) ∧
    (ingestStep c tbl s o log topic pf).1 = s := by
  obtain ⟨⟨e, he⟩, hs⟩ := c01_tampered_ingest_fails c keyOk wfE hc tbl Hs hHs htbl s o log topic pf hrange hnot
  exact ⟨(by rw [he]; intro h; cases h), ⟨e, he⟩, hs⟩

/-- **A swapped body on a re-delivery fails**: the authentic header of an already stored operation
    arriving again with a body that does not have the committed hash / size is rejected with
    `PayloadMismatch` (not "already exists"), whatever the store contains. -/
theorem c01_body_swap_replay_fails {E : Type} (c : ExtCodec E) (tbl : SigTable) (s : Store) (o : Op E)
    (log topic : Nat) (pf : Bool) (b : Body) (hb : o.op.body = some b)
    (hbad : o.op.header.payloadHash ≠ some b.hash ∨ o.op.header.payloadSize ≠ b.size) :
    (∃ e, (ingestStep c tbl s o log topic pf).2 = .failed e) ∧ (ingestStep c tbl s o log topic pf).1 = s := by
  have hv : validateOperation c tbl o.op ≠ .ok () := by
    intro hv
    have := (validateOperation_ok c tbl o.op hv).2 b hb
    rcases hbad with h | h
    · exact h this.1
    · exact h this.2
  unfold ingestStep ingestStepWith ingestWith
  cases hvv : validateOperation c tbl o.op with
  | ok u => cases u; exact absurd hvv hv
  | error e => exact ⟨⟨e, rfl⟩, rfl⟩

/-! ### Non-vacuity -/

/-- an honestly signed operation with a body, extending an empty log -/
def exHdr : Header Custom :=
  { version := 1, key := 3, signature := some 40, payloadSize := 12, payloadHash := some 11,
    seq := 0, backlink := none, ext := { a := 7, flag := false } }

def exOp : Op Custom :=
  { op := { id := 50, header := exHdr, body := some { hash := 11, size := 12 } }, hid := 50 }

/-- the same operation with one byte of the body changed (another hash id) -/
def exOpBody : Op Custom :=
  { op := { id := 50, header := exHdr, body := some { hash := 12, size := 12 } }, hid := 50 }

/-- … with the `seq_num` field changed (and a backlink added), signature kept -/
def exOpSeq : Op Custom :=
  { op := { id := 51, header := { exHdr with seq := 1, backlink := some 9 },
            body := some { hash := 11, size := 12 } }, hid := 51 }

def exTbl : SigTable := [(3, encode customCodec (unsign exHdr), 40)]

example : ingestStep customCodec exTbl Store.empty exOp 1 2 false
    = ({ rows := [rowOf exOp 1 false], assoc := [(2, 3, 1)] }, .inserted) := by rfl

example : ingestStep customCodec exTbl Store.empty exOpBody 1 2 false
    = (Store.empty, .failed .payloadMismatch) := by rfl

example : ingestStep customCodec exTbl Store.empty exOpSeq 1 2 false
    = (Store.empty, .failed .signatureMismatch) := by rfl

-- the authentic operation is stored; the same header with a swapped body is rejected, not "already exists"
example : ingestStep customCodec exTbl { rows := [rowOf exOp 1 false], assoc := [(2, 3, 1)] } exOpBody 1 2 false
    = ({ rows := [rowOf exOp 1 false], assoc := [(2, 3, 1)] }, .failed .payloadMismatch) := by rfl

example : HonestTable customCodec exTbl (fun h => h = exHdr) := by
  intro k m sg hm
  simp only [exTbl, List.mem_singleton, Prod.mk.injEq] at hm
  exact ⟨exHdr, rfl, hm.1.symm, by rw [hm.2.2]; rfl, hm.2.1⟩

end P2.C01
