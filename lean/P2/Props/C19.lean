/-
C19 — Log sync delivers exactly the missing operations.

Model: `P2/Model/SyncPair.lean` (two replicas = operation tables + session scopes; the three
log-store queries, `compare`, send lists, de-duplication, ingest).  Helper lemmas:
`P2/Lemmas/C19.lean`.  This file: the property theorems.
-/
import P2.Model.SyncPair
import P2.Lemmas.C19
import P2.Extracted.C19

namespace P2.C19
open P2.Sync

set_option linter.unusedSimpArgs false

/-- log `(a, l)` is covered by the session's `logs` argument of replica `r` -/
def InScope (r : Replica) (a l : Nat) : Prop := ∃ logs, (a, logs) ∈ r.scope ∧ l ∈ logs

/-- the height `r` announces for log `(a, l)` in its `Have` message (`none`: not announced) -/
def heightOf (r : Replica) (a l : Nat) : Option Nat := ((haveOf r).lookup a).bind fun m => m.lookup l

/-- `h <ₒ s`: an unannounced log is below every sequence number -/
def Above : Option Nat → Nat → Prop
  | none, _ => True
  | some h, s => h < s

/-- **Exactly the missing operations** (no hypothesis on either replica): `a` sends `e` iff it
    stores `e`, `e`'s log is in `a`'s scope and `e` lies above the height `b` announced. -/
theorem c19_exact (a b : Replica) (e : SOp) :
    e ∈ sendList a b ↔ e ∈ a.store ∧ InScope a e.a e.l ∧ Above (heightOf b e.a e.l) e.s := by
  rw [mem_sendList]
  constructor
  · rintro ⟨au, rs, hneeds, l, r, hlr, hsel⟩
    rw [mem_selectLog] at hsel
    obtain ⟨hstore, rfl, rfl, hrange⟩ := hsel
    obtain ⟨m, hm, hc⟩ := (mem_compare _ _ _ _).mp hneeds
    obtain ⟨logs, hscope, hget⟩ := (mem_haveOf a _ _).mp hm
    refine ⟨hstore, ?_⟩
    rcases hc with ⟨hlk, rfl⟩ | ⟨rl, hlk, _, rfl, _⟩
    · simp only [List.mem_map, Prod.mk.injEq, Prod.exists] at hlr
      obtain ⟨l', h, hmem, rfl, rfl⟩ := hlr
      exact ⟨⟨logs, hscope, ((mem_getHeights hget _ _).mp hmem).1⟩, by simp [heightOf, hlk, Above]⟩
    · obtain ⟨h, hmem, hc⟩ := (mem_needsOfAuthor _ _ _ _).mp hlr
      refine ⟨⟨logs, hscope, ((mem_getHeights hget _ _).mp hmem).1⟩, ?_⟩
      rcases hc with ⟨hl, rfl⟩ | ⟨rh, hl, _, rfl⟩
      · simp [heightOf, hlk, hl, Above]
      · simp only [heightOf, hlk, Option.bind_some, hl, Above]
        simp only [inRange, Bool.and_eq_true, decide_eq_true_eq] at hrange
        exact hrange.1
  · rintro ⟨hstore, ⟨logs, hscope, hl⟩, habove⟩
    -- `a` announces a height `hA ≥ e.s` for the log
    obtain ⟨hA, hhA⟩ : ∃ hA, maxSeq a.store e.a e.l = some hA := by
      cases h : maxSeq a.store e.a e.l with
      | none => exact ((maxSeq_none _ _ _).mp h e hstore ⟨rfl, rfl⟩).elim
      | some x => exact ⟨x, rfl⟩
    have hle : e.s ≤ hA := ((maxSeq_some _ _ _ _).mp hhA).2 e hstore rfl rfl
    obtain ⟨m, hget⟩ := getHeights_isSome hl hhA
    have hmem : (e.l, hA) ∈ m := (mem_getHeights hget _ _).mpr ⟨hl, hhA⟩
    have hhave : (e.a, m) ∈ haveOf a := (mem_haveOf a _ _).mpr ⟨logs, hscope, hget⟩
    cases hlk : (haveOf b).lookup e.a with
    | none =>
      refine ⟨e.a, _, (mem_compare _ _ _ _).mpr ⟨m, hhave, Or.inl ⟨hlk, rfl⟩⟩, e.l, (none, some hA), ?_, ?_⟩
      · exact List.mem_map.mpr ⟨(e.l, hA), hmem, rfl⟩
      · rw [mem_selectLog]; exact ⟨hstore, rfl, rfl, by simp [inRange, hle]⟩
    | some rl =>
      simp only [heightOf, hlk, Option.bind_some] at habove
      cases hrl : rl.lookup e.l with
      | none =>
        have hin : (e.l, ((none : Option Nat), some hA)) ∈ needsOfAuthor m rl :=
          (mem_needsOfAuthor _ _ _ _).mpr ⟨hA, hmem, Or.inl ⟨hrl, rfl⟩⟩
        have hne : m ≠ rl := by
          intro h; subst h; exact lookup_none_not_mem _ _ hrl _ hmem
        refine ⟨e.a, _, (mem_compare _ _ _ _).mpr ⟨m, hhave, Or.inr ⟨rl, hlk, hne, rfl, ?_⟩⟩, e.l, _, hin, ?_⟩
        · intro h; rw [h] at hin; simp at hin
        · rw [mem_selectLog]; exact ⟨hstore, rfl, rfl, by simp [inRange, hle]⟩
      | some rh =>
        rw [hrl] at habove
        have hlt : rh < e.s := habove
        have hin : (e.l, (some rh, some hA)) ∈ needsOfAuthor m rl :=
          (mem_needsOfAuthor _ _ _ _).mpr ⟨hA, hmem, Or.inr ⟨rh, hrl, by omega, rfl⟩⟩
        have hne : m ≠ rl := by
          intro h; subst h
          have := lookup_some_mem _ _ _ hrl
          have := ((mem_getHeights hget _ _).mp this).2
          rw [hhA] at this; simp at this; omega
        refine ⟨e.a, _, (mem_compare _ _ _ _).mpr ⟨m, hhave, Or.inr ⟨rl, hlk, hne, rfl, ?_⟩⟩, e.l, _, hin, ?_⟩
        · intro h; rw [h] at hin; simp at hin
        · rw [mem_selectLog]; exact ⟨hstore, rfl, rfl, by simp [inRange, hle, hlt]⟩

/-- `BTreeMap` keys of the `logs` argument are distinct -/
def ScopeOk (r : Replica) : Prop := (r.scope.map (·.1)).Nodup

/-- What `heightOf` means: for a log in the replica's scope it is the largest stored sequence
    number (`none` when nothing of the log is stored); a log outside the scope is not announced. -/
theorem c19_height_spec (r : Replica) (hs : ScopeOk r) (a l : Nat) :
    (InScope r a l → heightOf r a l = maxSeq r.store a l) ∧ (¬InScope r a l → heightOf r a l = none) := by
  have hlk := lookup_haveOf_aux r.store r.scope a hs
  constructor
  · rintro ⟨logs, hmem, hl⟩
    rw [lookup_scope_of_mem _ hs _ _ hmem] at hlk
    simp only at hlk
    unfold heightOf haveOf
    rw [hlk]
    cases hg : getHeights r.store a logs with
    | none => rw [getHeights_none hg l hl]; rfl
    | some m => simp only [Option.bind_some]; rw [lookup_getHeights hg]; simp [hl]
  · intro hns
    unfold heightOf haveOf
    rw [hlk]
    cases hsc : r.scope.lookup a with
    | none => rfl
    | some logs =>
      have hmem := lookup_some_mem _ _ _ hsc
      simp only
      cases hg : getHeights r.store a logs with
      | none => rfl
      | some m =>
        have hl : l ∉ logs := fun hl => hns ⟨logs, hmem, hl⟩
        simp only [Option.bind_some]; rw [lookup_getHeights hg]; simp [hl]

/-- **PreSync announces exactly what is sent**: number of operations and total bytes. -/
theorem c19_metrics (a b : Replica) :
    preSyncTotals a b = ((sendList a b).length, sumBytes (sendList a b)) := by
  unfold preSyncTotals
  rw [foldl_totals, sendList_eq_flat]
  simp

/-- **Nothing else**: every operation an `OperationReceived` event of `b` carries is stored by `a`. -/
theorem c19_nothing_else (cap : Nat) (a b : Replica) (e : SOp) (h : e ∈ received cap a b) :
    e ∈ a.store := by
  have hsub : ∀ (buf : Dedup.Buf Nat) (l : List SOp), e ∈ dedupFilter buf l → e ∈ l := by
    intro buf l
    induction l generalizing buf with
    | nil => simp [dedupFilter]
    | cons x xs ih =>
      simp only [dedupFilter]
      split
      · intro h
        rcases List.mem_cons.mp h with h | h
        · simp [h]
        · exact List.mem_cons_of_mem _ (ih _ h)
      · intro h; exact List.mem_cons_of_mem _ (ih _ h)
  have h1 := hsub _ _ h
  unfold sentOps at h1
  split at h1
  · exact ((c19_exact a b e).mp h1).1
  · simp at h1

/-- **Once and in log order**: the operations `a` sends are pairwise different, and two
    operations of the same log appear in ascending sequence-number order. -/
theorem c19_once_in_order (a b : Replica) (hs : ScopeOk a) (hv : ValidStore a.store) :
    (sendList a b).Pairwise Before := by
  unfold sendList
  have hneeds : (needs a b).Pairwise (fun p q => p.1 ≠ q.1) := compare_keys _ _ (haveOf_keys a hs)
  rw [List.pairwise_flatMap]
  constructor
  · intro ar har
    obtain ⟨au, rs⟩ := ar
    rw [List.pairwise_flatMap]
    constructor
    · intro lr _; exact selectLog_before a.store hv _ _ _
    · -- ranges of one author are for pairwise different logs
      have hkeys : rs.Pairwise (fun p q => p.1 ≠ q.1) := by
        obtain ⟨m, hm, hc⟩ := (mem_compare _ _ _ _).mp har
        obtain ⟨logs, _, hget⟩ := (mem_haveOf a _ _).mp hm
        have hmk := getHeights_keys hget
        rcases hc with ⟨_, rfl⟩ | ⟨rl, _, _, rfl, _⟩
        · exact List.pairwise_map.mpr hmk
        · exact needsOfAuthor_keys m rl hmk
      refine hkeys.imp ?_
      intro p q hpq x hx y hy
      have hx' := (mem_selectLog _ _ _ _ x).mp hx
      have hy' := (mem_selectLog _ _ _ _ y).mp hy
      have hl : x.l ≠ y.l := by rw [hx'.2.2.1, hy'.2.2.1]; exact hpq
      exact ⟨fun h => hl (by rw [h]), fun _ h => absurd h hl⟩
  · refine hneeds.imp ?_
    intro p q hpq x hx y hy
    simp only [List.mem_flatMap] at hx hy
    obtain ⟨lr, _, hx⟩ := hx
    obtain ⟨lr', _, hy⟩ := hy
    have hx' := (mem_selectLog _ _ _ _ x).mp hx
    have hy' := (mem_selectLog _ _ _ _ y).mp hy
    have ha : x.a ≠ y.a := by rw [hx'.2.1, hy'.2.1]; exact hpq
    exact ⟨fun h => ha (by rw [h]), fun h _ => absurd h ha⟩

/-- consequence: no operation is sent twice -/
theorem c19_sent_nodup (a b : Replica) (hs : ScopeOk a) (hv : ValidStore a.store) :
    (sendList a b).Nodup :=
  List.nodup_iff_pairwise_ne.mpr ((c19_once_in_order a b hs hv).imp fun h => h.1)

/-- the hash identifies the operation; every operation has a non-empty header -/
def IdsOk (st : List SOp) : Prop :=
  (∀ x ∈ st, ∀ y ∈ st, x.id = y.id → x = y) ∧ ∀ x ∈ st, 0 < x.bytes

/-- **The receiver's events are exactly the send list**: with distinct hashes the
    de-duplication buffer (any capacity) drops nothing, and `PreSync` (not `Done`) is sent
    whenever there is something to send. -/
theorem c19_received (cap : Nat) (a b : Replica) (hs : ScopeOk a) (hv : ValidStore a.store)
    (hid : IdsOk a.store) : received cap a b = sendList a b := by
  have hsent : sentOps a b = sendList a b := by
    unfold sentOps
    split
    · rfl
    · rename_i hz
      rw [c19_metrics] at hz
      simp only [gt_iff_lt, Nat.not_lt, Nat.le_zero_eq] at hz
      cases hl : sendList a b with
      | nil => rfl
      | cons e es =>
        have he : e ∈ a.store := ((c19_exact a b e).mp (by rw [hl]; simp)).1
        have := hid.2 e he
        rw [hl] at hz
        simp only [sumBytes, List.map_cons, List.sum_cons] at hz
        omega
  unfold received
  rw [hsent]
  apply dedupFilter_fresh
  · have hnd := List.nodup_iff_pairwise_ne.mp (c19_sent_nodup a b hs hv)
    rw [List.nodup_iff_pairwise_ne, List.pairwise_map]
    refine List.Pairwise.imp_of_mem ?_ hnd
    intro x y hx hy hne hxy
    exact hne (hid.1 x ((c19_exact a b x).mp hx).1 y ((c19_exact a b y).mp hy).1 hxy)
  · intro e _; simp [Dedup.new]

/-- larger of two optional heights -/
def omax : Option Nat → Option Nat → Option Nat
  | none, y => y
  | x, none => x
  | some x, some y => some (max x y)

/-- Height of a shared log after one side ingested what the other sent: the larger of the two. -/
theorem height_after (a b : Replica) (hsa : ScopeOk a) (au l : Nat)
    (hA : InScope a au l) (hB : InScope b au l) (st : List SOp)
    (hst : ∀ x, x ∈ st ↔ x ∈ a.store ∨ x ∈ sendList b a) :
    maxSeq st au l = omax (maxSeq a.store au l) (maxSeq b.store au l) := by
  have hhA : heightOf a au l = maxSeq a.store au l := (c19_height_spec a hsa au l).1 hA
  -- members of the log in `st`
  have hmem : ∀ x, x.a = au → x.l = l →
      (x ∈ st ↔ x ∈ a.store ∨ (x ∈ b.store ∧ Above (maxSeq a.store au l) x.s)) := by
    intro x hxa hxl
    rw [hst x, c19_exact b a x, hxa, hxl, hhA]
    constructor
    · rintro (h | ⟨h1, _, h3⟩)
      · exact Or.inl h
      · exact Or.inr ⟨h1, h3⟩
    · rintro (h | ⟨h1, h3⟩)
      · exact Or.inl h
      · exact Or.inr ⟨h1, hB, h3⟩
  cases hb : maxSeq b.store au l with
  | none =>
    have hnb := (maxSeq_none _ _ _).mp hb
    have : omax (maxSeq a.store au l) none = maxSeq a.store au l := by
      cases maxSeq a.store au l <;> rfl
    rw [this]
    apply maxSeq_congr
    intro x hxa hxl
    rw [hmem x hxa hxl]
    constructor
    · rintro (h | ⟨h, _⟩)
      · exact h
      · exact absurd ⟨hxa, hxl⟩ (hnb x h)
    · exact Or.inl
  | some vb =>
    obtain ⟨⟨eb, heb, heba, hebl, hebs⟩, hbmax⟩ := (maxSeq_some _ _ _ _).mp hb
    cases ha : maxSeq a.store au l with
    | none =>
      have hna := (maxSeq_none _ _ _).mp ha
      show maxSeq st au l = some vb
      rw [maxSeq_some]
      rw [ha] at hmem
      refine ⟨⟨eb, (hmem eb heba hebl).mpr (Or.inr ⟨heb, trivial⟩), heba, hebl, hebs⟩, ?_⟩
      intro x hx hxa hxl
      rcases (hmem x hxa hxl).mp hx with h | ⟨h, _⟩
      · exact absurd ⟨hxa, hxl⟩ (hna x h)
      · exact hbmax x h hxa hxl
    | some va =>
      obtain ⟨⟨ea, hea, heaa, heal, heas⟩, hamax⟩ := (maxSeq_some _ _ _ _).mp ha
      show maxSeq st au l = some (max va vb)
      rw [maxSeq_some]
      rw [ha] at hmem
      by_cases hlt : va < vb
      · have : max va vb = vb := by omega
        rw [this]
        refine ⟨⟨eb, (hmem eb heba hebl).mpr (Or.inr ⟨heb, by show va < eb.s; omega⟩), heba, hebl, hebs⟩, ?_⟩
        intro x hx hxa hxl
        rcases (hmem x hxa hxl).mp hx with h | ⟨h, _⟩
        · have := hamax x h hxa hxl; omega
        · exact hbmax x h hxa hxl
      · have : max va vb = va := by omega
        rw [this]
        refine ⟨⟨ea, (hmem ea heaa heal).mpr (Or.inl hea), heaa, heal, heas⟩, ?_⟩
        intro x hx hxa hxl
        rcases (hmem x hxa hxl).mp hx with h | ⟨h, h2⟩
        · exact hamax x h hxa hxl
        · have := hbmax x h hxa hxl
          have h2' : va < x.s := h2
          omega

theorem omax_comm (x y : Option Nat) : omax x y = omax y x := by
  cases x <;> cases y <;> simp [omax, Nat.max_comm]

/-- **Convergence**: after both sides ingest (`INSERT OR IGNORE` by hash) what they received,
    they hold the same height for every log that is in the scope of both. -/
theorem c19_converge (cap : Nat) (a b : Replica) (hsa : ScopeOk a) (hsb : ScopeOk b)
    (hva : ValidStore a.store) (hvb : ValidStore b.store)
    (hid : IdsOk (a.store ++ b.store)) (au l : Nat) (hA : InScope a au l) (hB : InScope b au l) :
    maxSeq (ingest a.store (received cap b a)) au l = maxSeq (ingest b.store (received cap a b)) au l := by
  have hida : IdsOk a.store :=
    ⟨fun x hx y hy => hid.1 x (List.mem_append_left _ hx) y (List.mem_append_left _ hy),
     fun x hx => hid.2 x (List.mem_append_left _ hx)⟩
  have hidb : IdsOk b.store :=
    ⟨fun x hx y hy => hid.1 x (List.mem_append_right _ hx) y (List.mem_append_right _ hy),
     fun x hx => hid.2 x (List.mem_append_right _ hx)⟩
  rw [c19_received cap b a hsb hvb hidb, c19_received cap a b hsa hva hida]
  have hin : ∀ (p q : Replica) (x : SOp), x ∈ sendList p q → x ∈ p.store :=
    fun p q x hx => ((c19_exact p q x).mp hx).1
  have h1 := height_after a b hsa au l hA hB (ingest a.store (sendList b a)) (by
    intro x
    apply mem_ingest
    intro p hp q hq
    apply hid.1
    · rcases hp with hp | hp
      · exact List.mem_append_left _ hp
      · exact List.mem_append_right _ (hin b a p hp)
    · rcases hq with hq | hq
      · exact List.mem_append_left _ hq
      · exact List.mem_append_right _ (hin b a q hq))
  have h2 := height_after b a hsb au l hB hA (ingest b.store (sendList a b)) (by
    intro x
    apply mem_ingest
    intro p hp q hq
    apply hid.1
    · rcases hp with hp | hp
      · exact List.mem_append_right _ hp
      · exact List.mem_append_left _ (hin a b p hp)
    · rcases hq with hq | hq
      · exact List.mem_append_right _ hq
      · exact List.mem_append_left _ (hin a b q hq))
  rw [h1, h2, omax_comm]

/-- the message-level transcript is a complete one in the sense of C20's grammar -/
theorem c19_transcript_closed (a b : Replica) : Closed (transcript a b) := by
  unfold transcript
  simp only
  split
  · refine Or.inr ⟨haveOf a, (preSyncTotals a b).1, (preSyncTotals a b).2, (sendList a b).map toOp, ?_⟩
    simp [List.map_map, Function.comp_def]
  · exact Or.inl ⟨haveOf a, rfl⟩

/-! ## Non-vacuity: two concrete replicas (each ahead on one log, one log only on `a`, one outside `b`'s scope) -/

private def ra : Replica :=
  { store := [⟨0, 0, 0, 1, 100⟩, ⟨0, 0, 1, 2, 110⟩, ⟨0, 0, 2, 3, 120⟩, ⟨1, 0, 0, 4, 100⟩, ⟨1, 5, 0, 6, 90⟩, ⟨2, 0, 3, 9, 80⟩],
    scope := [(0, [0]), (1, [0, 5]), (2, [0])] }
private def rb : Replica :=
  { store := [⟨0, 0, 0, 1, 100⟩, ⟨1, 0, 0, 4, 100⟩, ⟨1, 0, 1, 5, 130⟩, ⟨2, 0, 3, 9, 80⟩, ⟨2, 0, 4, 10, 70⟩],
    scope := [(0, [0]), (1, [0, 5])] }

example : ScopeOk ra ∧ ScopeOk rb := by unfold ScopeOk; decide
example : (sendList ra rb).map (·.id) = [2, 3, 6, 9] := by decide
example : (sendList rb ra).map (·.id) = [5] := by decide
example : (received 2 ra rb).map (·.id) = [2, 3, 6, 9] := by decide
example : transcript rb ra = [Msg.have [(0, [(0, 0)]), (1, [(0, 1)])], Msg.preSync 1 130, Msg.op ⟨5, 130⟩, Msg.done] := by decide
example : heightsAfter 2 ra rb = [(0, [(0, 2)]), (1, [(0, 1), (5, 0)]), (2, [(0, 3)])] := by decide
example : heightsAfter 2 rb ra = [(0, [(0, 2)]), (1, [(0, 1), (5, 0)]), (2, [(0, 4)])] := by decide
example : InScope ra 1 0 ∧ InScope rb 1 0 := ⟨⟨[0, 5], by decide, by decide⟩, ⟨[0, 5], by decide, by decide⟩⟩

/-! ## Tie to the current source text (regenerated into `P2/Extracted/C19.lean` on every run) -/

/-- The decisions of `LogSync::run` the C19 model transcribes, as they read in `log_sync.rs` *now*:
    `ReceiveHave` does nothing between reading the remote `Have` and `compare(&local, &remote)`
    (local first: `needs a b = compare (haveOf a) (haveOf b)`), the `Have` message carries the
    unmodified local heights, received operations pass `!dedup.insert(header.hash())`, and the three
    store queries get author / log / range in the transcribed positions.  Swapping the `compare`
    arguments, filtering either height map first, or changing a range argument breaks this theorem. -/
theorem c19_extracted_decisions :
    P2.Extracted.C19.recvHaveDecision = "let remote_needs = compare(&local, &remote);" ∧
    P2.Extracted.C19.haveSent = "local.clone()" ∧
    P2.Extracted.C19.dedupGuard = "!dedup.insert(header.hash())" ∧
    P2.Extracted.C19.heightsArgs = "verifying_key, log_ids" ∧
    P2.Extracted.C19.sizeArgs = "verifying_key, log_id, *after, *until" ∧
    P2.Extracted.C19.entriesArgs = "&author, &log_id, after, until" :=
  ⟨rfl, rfl, rfl, rfl, rfl, rfl⟩

end P2.C19
