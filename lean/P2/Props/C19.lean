/-
C19 — Log sync delivers exactly the missing operations.

Model: `P2/Model/SyncPair.lean` (two replicas = operation tables + session scopes; the three
log-store queries, `compare`, send lists, de-duplication, ingest).  Helper lemmas:
`P2/Lemmas/C19.lean`.  This file: the property theorems.
-/
import P2.Model.SyncPair
import P2.Lemmas.C19

namespace P2.C19
open P2.Sync

set_option linter.unusedSimpArgs false

/-- log `(a, l)` is covered by the session's `logs` argument of replica `r` -/
def InScope (r : Replica) (a l : Nat) : Prop := ∃ logs, (a, logs) ∈ r.scope ∧ l ∈ logs

/-- the height `r` announces for log `(a, l)` in its `Have` message (`none`: not announced) -/
def heightOf (r : Replica) (a l : Nat) : Option Nat := ((haveOf r).lookup a).bind fun m => m.lookup l

/-- `h <ₒ s`: an unannounced log is below every sequence number -/
def Above : Option Nat → Nat → Prop
  | none, _ => True
  | some h, s => h < s

/-- **Exactly the missing operations** (no hypothesis on either replica): `a` sends `e` iff it
    stores `e`, `e`'s log is in `a`'s scope and `e` lies above the height `b` announced. -/
theorem c19_exact (a b : Replica) (e : SOp) :
    e ∈ sendList a b ↔ e ∈ a.store ∧ InScope a e.a e.l ∧ Above (heightOf b e.a e.l) e.s := by
  rw [mem_sendList]
  constructor
  · rintro ⟨au, rs, hneeds, l, r, hlr, hsel⟩
    rw [mem_selectLog] at hsel
    obtain ⟨hstore, rfl, rfl, hrange⟩ := hsel
    obtain ⟨m, hm, hc⟩ := (mem_compare _ _ _ _).mp hneeds
    obtain ⟨logs, hscope, hget⟩ := (mem_haveOf a _ _).mp hm
    refine ⟨hstore, ?_⟩
    rcases hc with ⟨hlk, rfl⟩ | ⟨rl, hlk, _, rfl, _⟩
    · simp only [List.mem_map, Prod.mk.injEq, Prod.exists] at hlr
      obtain ⟨l', h, hmem, rfl, rfl⟩ := hlr
      exact ⟨⟨logs, hscope, ((mem_getHeights hget _ _).mp hmem).1⟩, by simp [heightOf, hlk, Above]⟩
    · obtain ⟨h, hmem, hc⟩ := (mem_needsOfAuthor _ _ _ _).mp hlr
      refine ⟨⟨logs, hscope, ((mem_getHeights hget _ _).mp hmem).1⟩, ?_⟩
      rcases hc with ⟨hl, rfl⟩ | ⟨rh, hl, _, rfl⟩
      · simp [heightOf, hlk, hl, Above]
      · simp only [heightOf, hlk, Option.bind_some, hl, Above]
        simp only [inRange, Bool.and_eq_true, decide_eq_true_eq] at hrange
        exact hrange.1
  · rintro ⟨hstore, ⟨logs, hscope, hl⟩, habove⟩
    -- `a` announces a height `hA ≥ e.s` for the log
    obtain ⟨hA, hhA⟩ : ∃ hA, maxSeq a.store e.a e.l = some hA := by
      cases h : maxSeq a.store e.a e.l with
      | none => exact ((maxSeq_none _ _ _).mp h e hstore ⟨rfl, rfl⟩).elim
      | some x => exact ⟨x, rfl⟩
    have hle : e.s ≤ hA := ((maxSeq_some _ _ _ _).mp hhA).2 e hstore rfl rfl
    obtain ⟨m, hget⟩ := getHeights_isSome hl hhA
    have hmem : (e.l, hA) ∈ m := (mem_getHeights hget _ _).mpr ⟨hl, hhA⟩
    have hhave : (e.a, m) ∈ haveOf a := (mem_haveOf a _ _).mpr ⟨logs, hscope, hget⟩
    cases hlk : (haveOf b).lookup e.a with
    | none =>
      refine ⟨e.a, _, (mem_compare _ _ _ _).mpr ⟨m, hhave, Or.inl ⟨hlk, rfl⟩⟩, e.l, (none, some hA), ?_, ?_⟩
      · exact List.mem_map.mpr ⟨(e.l, hA), hmem, rfl⟩
      · rw [mem_selectLog]; exact ⟨hstore, rfl, rfl, by simp [inRange, hle]⟩
    | some rl =>
      simp only [heightOf, hlk, Option.bind_some] at habove
      cases hrl : rl.lookup e.l with
      | none =>
        have hin : (e.l, ((none : Option Nat), some hA)) ∈ needsOfAuthor m rl :=
          (mem_needsOfAuthor _ _ _ _).mpr ⟨hA, hmem, Or.inl ⟨hrl, rfl⟩⟩
        have hne : m ≠ rl := by
          intro h; subst h; exact lookup_none_not_mem _ _ hrl _ hmem
        refine ⟨e.a, _, (mem_compare _ _ _ _).mpr ⟨m, hhave, Or.inr ⟨rl, hlk, hne, rfl, ?_⟩⟩, e.l, _, hin, ?_⟩
        · intro h; rw [h] at hin; simp at hin
        · rw [mem_selectLog]; exact ⟨hstore, rfl, rfl, by simp [inRange, hle]⟩
      | some rh =>
        rw [hrl] at habove
        have hlt : rh < e.s := habove
        have hin : (e.l, (some rh, some hA)) ∈ needsOfAuthor m rl :=
          (mem_needsOfAuthor _ _ _ _).mpr ⟨hA, hmem, Or.inr ⟨rh, hrl, by omega, rfl⟩⟩
        have hne : m ≠ rl := by
          intro h; subst h
          have := lookup_some_mem _ _ _ hrl
          have := ((mem_getHeights hget _ _).mp this).2
          rw [hhA] at this; simp at this; omega
        refine ⟨e.a, _, (mem_compare _ _ _ _).mpr ⟨m, hhave, Or.inr ⟨rl, hlk, hne, rfl, ?_⟩⟩, e.l, _, hin, ?_⟩
        · intro h; rw [h] at hin; simp at hin
        · rw [mem_selectLog]; exact ⟨hstore, rfl, rfl, by simp [inRange, hle, hlt]⟩

end P2.C19
