import P2.Model.StoreRef
import P2.Extracted.C08
/-
C08 — Log store queries agree with a reference model and never panic.

The *agreement* of the SQLite store with `P2.StoreRef` is what `./check C08` establishes by running both on
the same command sequences.  The theorems here make "reference model" mean what the property says — for every
table content and every argument, not only the sampled ones — and tie the comparison operators used by the
model to the SQL text of `logs/sqlite/mod.rs` as extracted on this run.
-/
namespace P2.C08
open P2.StoreRef

/-- The comparison operators, aggregate and orderings found in the SQL text of `logs/sqlite/mod.rs` *now* are
    the ones of the reference model (`after` exclusive / `None` from 0 inclusive, `until` inclusive, prune
    strictly below, latest = `DESC LIMIT 1`, heights = `MAX`, entries ascending).  `seq_num <= ?` in
    `prune_entries`, `>`/`>=` swapped, `MIN`, a dropped `DESC` … make this theorem fail. -/
theorem c08_extracted_ops :
    SqlOps.ofStrings P2.Extracted.C08.sizeAfterNone P2.Extracted.C08.sizeAfterSome P2.Extracted.C08.sizeUntil
      P2.Extracted.C08.entAfterNone P2.Extracted.C08.entAfterSome P2.Extracted.C08.entUntil
      P2.Extracted.C08.pruneOp P2.Extracted.C08.latestOrder P2.Extracted.C08.heightsAgg
      P2.Extracted.C08.entriesOrder = some specOps := by
  decide

/-! ### helper lemmas -/

private theorem mem_sel {t : List Row} {a l : Nat} {r : Row} :
    r ∈ sel t a l ↔ r ∈ t ∧ r.author = a ∧ r.log = l := by
  simp [sel, List.mem_filter]

private theorem best_none {better : Row → Row → Bool} {rs : List Row} : best better rs = none ↔ rs = [] := by
  cases rs with
  | nil => simp [best]
  | cons r rs =>
    simp only [best]
    cases h : best better rs with
    | none => simp
    | some b => by_cases hb : better b r = true <;> simp [hb]

private theorem best_desc_spec {rs : List Row} {r : Row}
    (h : best (fun b r => decide (b.seq > r.seq)) rs = some r) : r ∈ rs ∧ ∀ x ∈ rs, x.seq ≤ r.seq := by
  induction rs generalizing r with
  | nil => simp [best] at h
  | cons y ys ih =>
    simp only [best] at h
    cases hb : best (fun b r => decide (b.seq > r.seq)) ys with
    | none =>
      rw [hb] at h
      have hy : ys = [] := best_none.mp hb
      simp at h
      subst hy; subst h; simp
    | some b =>
      rw [hb] at h
      have ⟨hbm, hbmax⟩ := ih hb
      by_cases hgt : b.seq > y.seq
      · simp [hgt] at h
        subst h
        refine ⟨List.mem_cons_of_mem _ hbm, ?_⟩
        intro x hx
        rcases List.mem_cons.mp hx with rfl | hx
        · omega
        · exact hbmax x hx
      · simp [hgt] at h
        subst h
        refine ⟨List.mem_cons_self, ?_⟩
        intro x hx
        rcases List.mem_cons.mp hx with rfl | hx
        · omega
        · have := hbmax x hx; omega

private theorem maxSeq_none {rs : List Row} : maxSeq rs = none ↔ rs = [] := by
  cases rs with
  | nil => simp [maxSeq]
  | cons r rs =>
    simp only [maxSeq]
    cases maxSeq rs <;> simp

private theorem maxSeq_spec {rs : List Row} {h : Nat} :
    maxSeq rs = some h ↔ (∃ r ∈ rs, r.seq = h) ∧ ∀ r ∈ rs, r.seq ≤ h := by
  induction rs generalizing h with
  | nil => simp [maxSeq]
  | cons y ys ih =>
    simp only [maxSeq]
    cases hm : maxSeq ys with
    | none =>
      have hy : ys = [] := maxSeq_none.mp hm
      subst hy
      simp
      intro e; omega
    | some m =>
      have ⟨⟨w, hw, hws⟩, hmax⟩ := ih.mp hm
      simp only [Option.some.injEq]
      constructor
      · intro e
        by_cases hlt : m < y.seq
        · simp [hlt] at e
          subst e
          refine ⟨⟨y, List.mem_cons_self, rfl⟩, ?_⟩
          intro r hr
          rcases List.mem_cons.mp hr with rfl | hr
          · omega
          · have := hmax r hr; omega
        · simp [hlt] at e
          subst e
          refine ⟨⟨w, List.mem_cons_of_mem _ hw, hws⟩, ?_⟩
          intro r hr
          rcases List.mem_cons.mp hr with rfl | hr
          · omega
          · exact hmax r hr
      · intro ⟨⟨r, hr, hrs⟩, hall⟩
        have hy := hall y List.mem_cons_self
        have hw' := hall w (List.mem_cons_of_mem _ hw)
        by_cases hlt : m < y.seq
        · simp [hlt]
          rcases List.mem_cons.mp hr with rfl | hr
          · exact hrs
          · have := hmax r hr; omega
        · simp [hlt]
          rcases List.mem_cons.mp hr with rfl | hr
          · omega
          · have := hmax r hr; omega

private theorem mem_insertAsc {x y : Nat} {ys : List Nat} : y ∈ insertAsc x ys ↔ y = x ∨ y ∈ ys := by
  induction ys with
  | nil => simp [insertAsc]
  | cons z zs ih =>
    simp only [insertAsc]
    by_cases h1 : x < z
    · simp [h1]
    · by_cases h2 : x = z
      · subst h2; simp
      · simp [h1, h2, ih]
        constructor
        · rintro (h | h | h) <;> simp [h]
        · rintro (h | h | h) <;> simp [h]

private theorem insertAsc_sorted {x : Nat} {ys : List Nat} (h : ys.Pairwise (· < ·)) :
    (insertAsc x ys).Pairwise (· < ·) := by
  induction ys with
  | nil => simp [insertAsc]
  | cons z zs ih =>
    have ⟨hz, hzs⟩ := List.pairwise_cons.mp h
    simp only [insertAsc]
    by_cases h1 : x < z
    · simp only [h1, if_true]
      refine List.pairwise_cons.mpr ⟨?_, h⟩
      intro a ha
      rcases List.mem_cons.mp ha with rfl | ha
      · exact h1
      · have := hz a ha; omega
    · by_cases h2 : x = z
      · simp [h2, h]
      · simp only [h1, h2, if_false]
        refine List.pairwise_cons.mpr ⟨?_, ih hzs⟩
        intro a ha
        rcases mem_insertAsc.mp ha with rfl | ha
        · omega
        · exact hz a ha

private theorem mem_sortDedup {x : Nat} {xs : List Nat} : x ∈ sortDedup xs ↔ x ∈ xs := by
  induction xs with
  | nil => simp [sortDedup]
  | cons y ys ih =>
    have : sortDedup (y :: ys) = insertAsc y (sortDedup ys) := rfl
    rw [this, mem_insertAsc, ih]
    simp

private theorem sortDedup_sorted (xs : List Nat) : (sortDedup xs).Pairwise (· < ·) := by
  induction xs with
  | nil => simp [sortDedup]
  | cons y ys ih =>
    have : sortDedup (y :: ys) = insertAsc y (sortDedup ys) := rfl
    rw [this]
    exact insertAsc_sorted ih

/-- keys of a `filterMap (fun l => (f l).map (l, ·))` over a strictly ascending list stay strictly ascending -/
private theorem keys_sorted (f : Nat → Option Nat) {ls : List Nat} (h : ls.Pairwise (· < ·)) :
    ((ls.filterMap (fun l => (f l).map (fun v => (l, v)))).map Prod.fst).Pairwise (· < ·) := by
  induction ls with
  | nil => simp
  | cons l ls ih =>
    have ⟨hl, hls⟩ := List.pairwise_cons.mp h
    simp only [List.filterMap_cons]
    have hkeys : ∀ k ∈ ((ls.filterMap (fun l => (f l).map (fun v => (l, v)))).map Prod.fst), k ∈ ls := by
      intro k hk
      simp only [List.mem_map, List.mem_filterMap] at hk
      obtain ⟨p, ⟨l', hl', hp⟩, rfl⟩ := hk
      cases hf : f l' with
      | none => simp [hf] at hp
      | some v => simp [hf] at hp; subst hp; exact hl'
    cases hf : f l with
    | none => simpa [hf] using ih hls
    | some v =>
      simp only [Option.map_some, List.map_cons]
      exact List.pairwise_cons.mpr ⟨fun k hk => hl k (hkeys k hk), ih hls⟩

/-- The reference range predicate: `after` exclusive (`None`: from the start), `until` inclusive
    (`None`: up to `SeqNum::MAX`). -/
def InRange (after upto : Option Nat) (s : Nat) : Prop :=
  (match after with
   | none => True
   | some a => a < s) ∧ s ≤ upto.getD seqMax

private theorem inRange_spec (af un : Option Nat) (s : Nat) :
    inRange .ge .gt .le af un s = true ↔ InRange af un s := by
  cases af <;> simp [inRange, InRange, Cmp.eval]

instance (af un : Option Nat) (s : Nat) : Decidable (InRange af un s) := by
  unfold InRange; cases af <;> exact inferInstance

/-! ### the properties of the reference model -/

/-- `get_latest_entry`: `None` exactly when the log has no row; otherwise a stored row of that log whose
    `seq_num` is maximal in it. -/
theorem c08_latest_is_max (t : List Row) (a l : Nat) :
    (latest specOps t a l = none ↔ ∀ r ∈ t, ¬ (r.author = a ∧ r.log = l)) ∧
    ∀ r, latest specOps t a l = some r →
      r ∈ t ∧ r.author = a ∧ r.log = l ∧ ∀ r' ∈ t, r'.author = a → r'.log = l → r'.seq ≤ r.seq := by
  constructor
  · simp only [latest, best_none]
    constructor
    · intro h r hr hal
      have : r ∈ sel t a l := mem_sel.mpr ⟨hr, hal.1, hal.2⟩
      rw [h] at this; cases this
    · intro h
      apply List.eq_nil_iff_forall_not_mem.mpr
      intro r hr
      have := mem_sel.mp hr
      exact h r this.1 this.2
  · intro r h
    simp only [latest, specOps, if_true] at h
    have ⟨hm, hmax⟩ := best_desc_spec h
    have ⟨h1, h2, h3⟩ := mem_sel.mp hm
    exact ⟨h1, h2, h3, fun r' hr' ha hl => hmax r' (mem_sel.mpr ⟨hr', ha, hl⟩)⟩

/-- `get_log_heights`: `None` exactly when none of the requested logs has a row (so always for the empty
    list); otherwise the map has an entry `(l, h)` exactly for the requested logs that have rows, `h` being the
    maximal `seq_num` stored for `l`, and its keys are strictly ascending (a map: each log once). -/
theorem c08_heights_is_max_per_log (t : List Row) (a : Nat) (logs : List Nat) :
    (heights specOps t a logs = none ↔ ∀ l ∈ logs, ∀ r ∈ t, ¬ (r.author = a ∧ r.log = l)) ∧
    ∀ hs, heights specOps t a logs = some hs →
      (∀ l h, (l, h) ∈ hs ↔
        l ∈ logs ∧ (∃ r ∈ t, r.author = a ∧ r.log = l ∧ r.seq = h) ∧
          ∀ r ∈ t, r.author = a → r.log = l → r.seq ≤ h) ∧
      (hs.map Prod.fst).Pairwise (· < ·) := by
  have hmem : ∀ l h, (l, h) ∈ (sortDedup logs).filterMap (fun l => (maxSeq (sel t a l)).map (fun h => (l, h))) ↔
      l ∈ logs ∧ (∃ r ∈ t, r.author = a ∧ r.log = l ∧ r.seq = h) ∧
          ∀ r ∈ t, r.author = a → r.log = l → r.seq ≤ h := by
    intro l h
    simp only [List.mem_filterMap, mem_sortDedup]
    constructor
    · rintro ⟨l', hl', hp⟩
      cases hm : maxSeq (sel t a l') with
      | none => simp [hm] at hp
      | some m =>
        simp [hm] at hp
        obtain ⟨rfl, rfl⟩ := hp
        have ⟨⟨r, hr, hrs⟩, hmax⟩ := maxSeq_spec.mp hm
        have ⟨h1, h2, h3⟩ := mem_sel.mp hr
        exact ⟨hl', ⟨r, h1, h2, h3, hrs⟩, fun r' hr' ha hl => hmax r' (mem_sel.mpr ⟨hr', ha, hl⟩)⟩
    · rintro ⟨hl, ⟨r, hr, ha, hlg, hs⟩, hmax⟩
      refine ⟨l, hl, ?_⟩
      have : maxSeq (sel t a l) = some h :=
        maxSeq_spec.mpr ⟨⟨r, mem_sel.mpr ⟨hr, ha, hlg⟩, hs⟩, fun r' hr' => by
          have ⟨h1, h2, h3⟩ := mem_sel.mp hr'
          exact hmax r' h1 h2 h3⟩
      simp [this]
  constructor
  · simp only [heights, specOps, if_true]
    constructor
    · intro h l hl r hr hal
      by_cases he : ((sortDedup logs).filterMap (fun l => (maxSeq (sel t a l)).map (fun h => (l, h)))).isEmpty
      · cases hm : maxSeq (sel t a l) with
        | none =>
          have := maxSeq_none.mp hm
          have hin : r ∈ sel t a l := mem_sel.mpr ⟨hr, hal.1, hal.2⟩
          rw [this] at hin; cases hin
        | some m =>
          have ⟨⟨w, hw, hws⟩, hmax⟩ := maxSeq_spec.mp hm
          have ⟨h1, h2, h3⟩ := mem_sel.mp hw
          have hin := (hmem l m).mpr ⟨hl, ⟨w, h1, h2, h3, hws⟩,
            fun r' hr' ha hlg => hmax r' (mem_sel.mpr ⟨hr', ha, hlg⟩)⟩
          rw [List.isEmpty_iff.mp he] at hin; cases hin
      · simp [he] at h
    · intro h
      have : ((sortDedup logs).filterMap (fun l => (maxSeq (sel t a l)).map (fun h => (l, h)))) = [] := by
        apply List.eq_nil_iff_forall_not_mem.mpr
        intro ⟨l, m⟩ hin
        have ⟨hl, ⟨r, hr, ha, hlg, _⟩, _⟩ := (hmem l m).mp hin
        exact h l hl r hr ⟨ha, hlg⟩
      simp [this]
  · intro hs h
    simp only [heights, specOps, if_true] at h
    by_cases he : ((sortDedup logs).filterMap (fun l => (maxSeq (sel t a l)).map (fun h => (l, h)))).isEmpty
    · simp [he] at h
    · simp [he] at h
      subst h
      exact ⟨hmem, keys_sorted (fun l => maxSeq (sel t a l)) (sortDedup_sorted logs)⟩

private theorem rowLe_trans (a b c : Row) : rowLe true a b = true → rowLe true b c = true → rowLe true a c = true := by
  simp only [rowLe, if_true]
  intro h1 h2
  split at h1 <;> split at h2 <;> split <;> simp at * <;> omega

private theorem rowLe_total (a b : Row) : rowLe true a b = true ∨ rowLe true b a = true := by
  simp only [rowLe, if_true]
  split <;> split <;> simp at * <;> omega

private theorem rowLe_seq {a b : Row} (h : rowLe true a b = true) : a.seq ≤ b.seq := by
  simp only [rowLe, if_true] at h
  split at h <;> simp at * <;> omega

private theorem insertRow_perm (x : Row) (ys : List Row) : (insertRow true x ys).Perm (x :: ys) := by
  induction ys with
  | nil => simp [insertRow]
  | cons y ys ih =>
    simp only [insertRow]
    split
    · exact List.Perm.refl _
    · exact (List.Perm.cons y ih).trans (List.Perm.swap x y ys)

private theorem sortRows_perm (rs : List Row) : (sortRows true rs).Perm rs := by
  induction rs with
  | nil => simp [sortRows]
  | cons r rs ih =>
    have : sortRows true (r :: rs) = insertRow true r (sortRows true rs) := rfl
    rw [this]
    exact (insertRow_perm r _).trans (List.Perm.cons r ih)

private theorem insertRow_sorted (x : Row) {ys : List Row} (h : ys.Pairwise (fun a b => rowLe true a b = true)) :
    (insertRow true x ys).Pairwise (fun a b => rowLe true a b = true) := by
  induction ys with
  | nil => simp [insertRow]
  | cons y ys ih =>
    have ⟨hy, hys⟩ := List.pairwise_cons.mp h
    simp only [insertRow]
    split
    next hle =>
      refine List.pairwise_cons.mpr ⟨?_, h⟩
      intro z hz
      rcases List.mem_cons.mp hz with rfl | hz
      · exact hle
      · exact rowLe_trans x y z hle (hy z hz)
    next hnle =>
      refine List.pairwise_cons.mpr ⟨?_, ih hys⟩
      intro z hz
      have := (insertRow_perm x ys).mem_iff.mp hz
      rcases List.mem_cons.mp this with rfl | hz
      · rcases rowLe_total z y with h | h
        · exact absurd h hnle
        · exact h
      · exact hy z hz

private theorem sortRows_sorted (rs : List Row) : (sortRows true rs).Pairwise (fun a b => rowLe true a b = true) := by
  induction rs with
  | nil => simp [sortRows]
  | cons r rs ih =>
    have : sortRows true (r :: rs) = insertRow true r (sortRows true rs) := rfl
    rw [this]
    exact insertRow_sorted r ih

private theorem filter_split_length (p : Row → Bool) (t : List Row) :
    (t.filter p).length + (t.filter (fun r => !p r)).length = t.length := by
  induction t with
  | nil => simp
  | cons x xs ih =>
    simp only [List.filter_cons]
    cases p x <;> simp <;> omega

/-- The rows a ranged query is about: the log's rows with `after < seq_num ≤ until`. -/
def rangeRows (t : List Row) (a l : Nat) (after upto : Option Nat) : List Row :=
  t.filter (fun r => r.author == a && r.log == l && decide (InRange after upto r.seq))

private theorem range_filter_eq (t : List Row) (a l : Nat) (af un : Option Nat) :
    (sel t a l).filter (fun r => inRange .ge .gt .le af un r.seq) = rangeRows t a l af un := by
  simp only [sel, rangeRows, List.filter_filter]
  apply List.filter_congr
  intro r _
  have := inRange_spec af un r.seq
  by_cases h : InRange af un r.seq
  · simp [h, this.mpr h, Bool.and_comm]
  · have h' : inRange .ge .gt .le af un r.seq = false := by
      cases hb : inRange .ge .gt .le af un r.seq
      · rfl
      · exact absurd (this.mp hb) h
    simp [h, h']

/-- `get_log_entries`: `None` exactly when no row of the log lies in `(after, until]`; otherwise exactly those
    rows (a permutation of them: nothing lost, nothing duplicated, nothing foreign) in ascending `seq_num`
    order. Inverted ranges (`after ≥ until`), `until = 0` with `after = Some _` and `after = 2³²−1` give `None`. -/
theorem c08_entries_sorted_in_range (t : List Row) (a l : Nat) (after upto : Option Nat) :
    (logEntries specOps t a l after upto = none ↔ rangeRows t a l after upto = []) ∧
    ∀ rs, logEntries specOps t a l after upto = some rs →
      rs.Perm (rangeRows t a l after upto) ∧ rs.Pairwise (fun x y => x.seq ≤ y.seq) := by
  simp only [logEntries, specOps, range_filter_eq]
  constructor
  · cases h : rangeRows t a l after upto <;> simp
  · intro rs h
    cases hr : rangeRows t a l after upto with
    | nil => simp [hr] at h
    | cons x xs =>
      simp [hr] at h
      subst h
      refine ⟨sortRows_perm _, ?_⟩
      exact (sortRows_sorted (x :: xs)).imp rowLe_seq

/-- `get_log_size` = number of rows and sum of `header_size + payload_size` over exactly the rows
    `get_log_entries` returns for the same arguments (`(0, 0)` when that is `None`). -/
theorem c08_size_is_sum_of_entries (t : List Row) (a l : Nat) (after upto : Option Nat) :
    logSize specOps t a l after upto =
      (((logEntries specOps t a l after upto).getD []).length,
       (((logEntries specOps t a l after upto).getD []).map (fun r => r.hsize + r.psize)).sum) := by
  simp only [logSize, logEntries, specOps, range_filter_eq]
  cases hr : rangeRows t a l after upto with
  | nil => simp
  | cons x xs =>
    have hp := sortRows_perm (x :: xs)
    simp only [List.isEmpty_cons, Bool.false_eq_true, if_false, Option.getD_some]
    rw [hp.length_eq, (hp.map _).sum_nat]

/-- `prune_entries` removes exactly the log's rows with `seq_num < until`, keeps every other row (other logs,
    other authors, `seq_num ≥ until`) in place, and reports how many it removed. -/
theorem c08_prune_exact (t : List Row) (a l u : Nat) :
    (∀ r, r ∈ (pruneLog specOps t a l u).1 ↔ r ∈ t ∧ ¬ (r.author = a ∧ r.log = l ∧ r.seq < u)) ∧
    (pruneLog specOps t a l u).2 + (pruneLog specOps t a l u).1.length = t.length := by
  constructor
  · intro r
    simp only [pruneLog, specOps, Cmp.eval, List.mem_filter]
    by_cases hA : r.author = a <;> by_cases hB : r.log = l <;> by_cases hC : r.seq < u <;> simp [hA, hB, hC]
  · simp only [pruneLog]
    have := filter_split_length (fun r => r.author == a && r.log == l && specOps.prune.eval r.seq u) t
    omega

/-- Totality: on the repaired store no command answers with a panic, from any state — in particular
    `get_log_heights(author, &[])` is `None`. -/
theorem c08_total (o : SqlOps) (s : St) (c : Cmd) : (exec o false s c).2 ≠ Ans.panic := by
  cases c <;> simp only [exec, inTx, onPool, latestAns] <;> (try cases s.work) <;> simp <;>
    (try split) <;> simp

theorem c08_heights_empty (o : SqlOps) (t : List Row) (a : Nat) : heights o t a [] = none := by
  simp [heights, sortDedup]

/-- No answer of any command sequence on the repaired store is a panic. -/
theorem c08_total_run (cs : List Cmd) : Ans.panic ∉ (run cs).2 := by
  have h : ∀ (cs : List Cmd) (s : St), Ans.panic ∉ (runFrom specOps false s cs).2 := by
    intro cs
    induction cs with
    | nil => intro s; simp [runFrom]
    | cons c cs ih =>
      intro s
      simp only [runFrom, List.mem_cons, not_or]
      exact ⟨fun h => c08_total specOps s c h.symm, ih _⟩
  exact h cs St.init

/-- The pinned tree (before `fix: get_log_heights on an empty list`) violates the property: the very first
    query of an empty log list panics. -/
theorem c08_orig_violates : (runOrig [Cmd.heights 0 []]).2 = [Ans.panic] := by
  decide

/-! ### non-vacuity -/

private def r0 : Row := { id := 0, author := 0, log := 0, seq := 0, hsize := 100, psize := 5, body := true }
private def r1 : Row := { id := 1, author := 0, log := 0, seq := 1, hsize := 101, psize := 0, body := false }
private def r2 : Row := { id := 2, author := 0, log := 1, seq := 7, hsize := 102, psize := 9, body := true }
private def r3 : Row := { id := 3, author := 0, log := 0, seq := 4294967295, hsize := 110, psize := 1, body := true }

example : latest specOps [r0, r1, r2, r3] 0 0 = some r3 := by decide
example : heights specOps [r0, r1, r2, r3] 0 [1, 9, 0, 1] = some [(0, 4294967295), (1, 7)] := by decide
example : heights specOps [r0, r1, r2, r3] 0 [] = none := by decide
example : heights specOps [r0, r1, r2, r3] 0 [9] = none := by decide
example : logEntries specOps [r3, r1, r2, r0] 0 0 none (some 1) = some [r0, r1] := by decide
example : logEntries specOps [r3, r1, r2, r0] 0 0 (some 0) none = some [r1, r3] := by decide
example : logEntries specOps [r3, r1, r2, r0] 0 0 (some 1) (some 1) = none := by decide
example : logSize specOps [r3, r1, r2, r0] 0 0 none (some 1) = (2, 206) := by decide
example : logSize specOps [r3, r1, r2, r0] 0 0 (some 4294967295) none = (0, 0) := by decide
example : (pruneLog specOps [r0, r1, r2, r3] 0 0 1) = ([r1, r2, r3], 1) := by decide
example : (run [.begin, .ins r0, .ins r1, .commit, .heights 0 [], .heights 0 [0], .size 0 0 none none]).2 =
    [.ok, .bool true, .bool true, .ok, .heights none, .heights (some [(0, 1)]), .size 2 206] := by decide

end P2.C08
