/-
C18 — Hybrid timestamps strictly increase on every increment.
Property theorems (namespace `P2.C18`). `increment` is the repaired code, `incrementOrig` the
pinned tree's code; the order is the derived lexicographic `Ord` of `HybridTimestamp`.
-/
import P2.Model.HybridTs
import P2.Model.AddrBook
import P2.Lemmas.HybridTs
import P2.Extracted.C18

namespace P2.C18
open P2.HybridTs P2.AddrBook

/-! ### the order is a strict total order (what "strictly greater" means);
    the single facts are in `P2/Lemmas/HybridTs.lean` -/

theorem c18_order_strict_total :
    (∀ a : HTs, ¬ a < a) ∧ (∀ a b c : HTs, a < b → b < c → a < c) ∧
    (∀ a b : HTs, a < b ∨ a = b ∨ b < a) :=
  ⟨lt_irrefl, fun _ _ _ h1 h2 => lt_trans h1 h2, lt_trichotomy⟩

/-! ### C18, first sentence -/

/-- **C18 (repaired code)**: incrementing always returns a strictly greater timestamp, whatever the
    wall clock reads (earlier, equal, later). -/
theorem c18_strict (t : HTs) (now : Nat) : t < increment t now := by
  rw [lt_iff]
  by_cases h : now ≤ t.wall
  · simp [increment, h]
  · simp only [increment, h, if_false]; omega

/-- The full-strength statement for an arbitrary increment function. -/
def StrictStatement (inc : HTs → Nat → HTs) : Prop := ∀ t now, t < inc t now

theorem c18_statement_holds : StrictStatement increment := c18_strict

/-- Exact characterisation of when the pinned tree's `increment` fails: iff the clock reads
    *earlier* than the timestamp's wall-clock part. -/
theorem c18_orig_fails_iff (t : HTs) (now : Nat) :
    ¬ (t < incrementOrig t now) ↔ now < t.wall := by
  rw [lt_iff]
  by_cases h : now = t.wall
  · simp [incrementOrig, h]
  · simp only [incrementOrig, h, if_false]; omega

/-- **The pinned tree violates C18**: concrete witness `10000000/1 → 5000000/0` (DESIGN §5). -/
theorem c18_orig_violates : ¬ StrictStatement incrementOrig := by
  intro h
  have := h ⟨10000000, 1⟩ 5000000
  exact absurd this (by decide)

/-- On the pinned tree two different increments can even return the *same* timestamp
    (clock back and forth): the source of the C16 uniqueness failure. -/
theorem c18_orig_repeats :
    chainOrig ⟨7, 0⟩ [7, 6, 7, 6, 7] = [⟨7, 1⟩, ⟨6, 0⟩, ⟨7, 0⟩, ⟨6, 0⟩, ⟨7, 0⟩] := by decide

/-- The repaired increment agrees with the original whenever the clock did not go backwards:
    the fix changes behaviour only on the defect's domain. -/
theorem c18_fix_conservative (t : HTs) (now : Nat) (h : t.wall ≤ now) :
    increment t now = incrementOrig t now := by
  unfold increment incrementOrig
  by_cases e : now = t.wall
  · subst e; simp
  · have : ¬ now ≤ t.wall := by omega
    simp [e, this]

/-- The repaired increment never falls behind the clock either. -/
theorem c18_wall_ge_now (t : HTs) (now : Nat) : now ≤ (increment t now).wall := by
  by_cases h : now ≤ t.wall
  · simp only [increment, h, if_true]
  · simp only [increment, h, if_false]; omega

/-- Tie to the source text: the model's `increment` is the Lean term that `rs2lean` regenerates from
    the current body of `HybridTimestamp::increment` on every run (an edit of the Rust function
    changes the generated term and breaks this obligation before any input is generated). -/
theorem c18_model_is_source (t : HTs) (now : Nat) :
    ((increment t now).wall, (increment t now).logical)
      = P2.Extracted.C18.hybridIncrement t.wall t.logical now := by
  unfold increment P2.Extracted.C18.hybridIncrement
  by_cases h : now ≤ t.wall <;> simp [h]

/-! ### C18 over histories: chains of increments -/

/-- Every element of a chain is strictly greater than the chain's start. -/
theorem chain_all_gt (t : HTs) (nows : List Nat) : ∀ x ∈ chain t nows, t < x := by
  induction nows generalizing t with
  | nil => intro x hx; simp [chain, chainWith] at hx
  | cons n ns ih =>
    intro x hx
    simp only [chain, chainWith, List.mem_cons] at hx
    rcases hx with rfl | hx
    · exact c18_strict t n
    · exact lt_trans (c18_strict t n) (ih _ x hx)

/-- **C18 (histories)**: along *any* list of clock readings the produced timestamps are strictly
    increasing (every earlier one is below every later one). -/
theorem c18_chain (t : HTs) (nows : List Nat) :
    (chain t nows).Pairwise (· < ·) := by
  induction nows generalizing t with
  | nil => simp [chain, chainWith]
  | cons n ns ih =>
    simp only [chain, chainWith, List.pairwise_cons]
    exact ⟨fun x hx => chain_all_gt _ ns x hx, ih _⟩

/-- … hence pairwise distinct. -/
theorem c18_chain_nodup (t : HTs) (nows : List Nat) : (chain t nows).Nodup := by
  have h := c18_chain t nows
  unfold List.Nodup
  exact h.imp (fun hlt => ne_of_lt hlt)

/-- … and every one of them is greater than the starting point. -/
theorem c18_chain_above_start (t : HTs) (nows : List Nat) :
    ∀ x ∈ chain t nows, t < x := chain_all_gt t nows

theorem chain_length (t : HTs) (nows : List Nat) : (chain t nows).length = nows.length := by
  induction nows generalizing t with
  | nil => rfl
  | cons n ns ih => simp [chain, chainWith] at *; exact ih _

/-! ### C18, second sentence: a node's own successive transport records are accepted -/

/-- **C18 (transport records)**: whatever is stored for a node with timestamp `prev.ts`, the node's
    own next record — timestamp obtained by `increment_timestamp(Some(prev))` under any clock
    reading, signed with the node's key — is accepted by `update_transports` as newer and
    becomes the stored record. -/
theorem c18_transport_newer (node : Nat) (prev : Rec) (now payload : Nat) (ids : List Nat) :
    update node (some prev) (ownNext node prev.ts now payload ids)
      = (some (ownNext node prev.ts now payload ids), .ok true) := by
  have hv : verify node (ownNext node prev.ts now payload ids) = none := by
    simp [verify, ownNext]
  have hlt : prev.ts < (ownNext node prev.ts now payload ids).ts := c18_strict prev.ts now
  simp only [update, hv, hlt, if_true]

/-- Registers reached by a node publishing its own records one after the other (each built from
    the previous stored one) — every step is accepted. -/
def ownRun (node : Nat) (prev : Rec) : List (Nat × Nat × List Nat) → List Res
  | [] => []
  | (now, payload, ids) :: rest =>
    let r := ownNext node prev.ts now payload ids
    (update node (some prev) r).2 :: ownRun node r rest

theorem c18_transport_chain (node : Nat) (prev : Rec) (steps : List (Nat × Nat × List Nat)) :
    ∀ res ∈ ownRun node prev steps, res = .ok true := by
  induction steps generalizing prev with
  | nil => intro res h; simp [ownRun] at h
  | cons s rest ih =>
    obtain ⟨now, payload, ids⟩ := s
    intro res h
    simp only [ownRun, List.mem_cons] at h
    rcases h with rfl | h
    · rw [c18_transport_newer]
    · exact ih _ res h

/-- On the pinned tree the node's own next record is *rejected* when its clock went backwards. -/
theorem c18_orig_transport_rejected :
    let prev : Rec := ownNextOrig 1 ⟨10, 0⟩ 10 0 [1]
    (update 1 (some prev) (ownNextOrig 1 prev.ts 5 1 [1])).2 = .ok false := by decide

/-! ### non-vacuity -/

example : chain ⟨7, 0⟩ [7, 6, 7, 6, 9, 9, 3] =
    [⟨7, 1⟩, ⟨7, 2⟩, ⟨7, 3⟩, ⟨7, 4⟩, ⟨9, 0⟩, ⟨9, 1⟩, ⟨9, 2⟩] := by decide
example : (⟨10000000, 1⟩ : HTs) < increment ⟨10000000, 1⟩ 5000000 := by decide
example : increment ⟨10000000, 1⟩ 5000000 = ⟨10000000, 2⟩ := by decide
example : incrementOrig ⟨10000000, 1⟩ 5000000 = ⟨5000000, 0⟩ := by decide
example : ownRun 1 (ownNext 1 ⟨10, 0⟩ 10 0 [1]) [(5, 1, [1]), (5, 2, [1]), (11, 3, [1])]
    = [.ok true, .ok true, .ok true] := by decide

end P2.C18
