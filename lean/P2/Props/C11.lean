/-
C11 — Causal orderer releases items only after, and always after, their dependencies.

Model: `P2/Model/Orderer.lean` (SQLite `OrdererStore` + `CausalOrderer`), lemmas: `P2/Lemmas/C11.lean`.
All theorems quantify over
  * an arbitrary dependency function `deps : Nat → List Nat` (repetitions, self loops, cycles and ids
    that are never delivered included),
  * an arbitrary history `ops` of `process` and `next` calls in any interleaving, with any number of
    re-deliveries (`WF deps ops`: every delivery of `k` carries `deps k`),
  * an arbitrary iteration order `ord` of the `HashSet` returned by `get_next_pending`.
`run … = some (s, out)` excludes only histories on which the model's recursion bound ran out; by
`c11_fuel_suffices` there are none.
-/
import P2.Lemmas.C11
import P2.Lemmas.C11Fuel
import P2.Extracted.C11

namespace P2.C11
open P2.Orderer

/-- The `HashSet` iteration order may be anything that keeps the elements. -/
def OrdOk (ord : Ord) : Prop := ∀ l x, x ∈ ord l ↔ x ∈ l

/-- The code under verification (current source text) uses the repaired comparison in
    `OrdererStore::ready`; re-extracted from `sqlite.rs` on every run. -/
theorem c11_code_counts_distinct : P2.Extracted.C11.readyCountsDistinct = true := by decide

/-- **Source tie for the decision logic the model transcribes** (re-extracted from the SQL / Rust text of
    `sqlite.rs` on every run; the theorems below are about a model that hard-codes exactly these choices):
    `take_next_ready` takes `WHERE in_queue = TRUE ORDER BY queue_index ASC LIMIT 1` and sets
    `in_queue = FALSE` (`minInq`, `takeNextReady`); `mark_ready` inserts at `MAX(queue_index) + 1` with
    `INSERT OR IGNORE`, returns without change when `was_in_queue`, otherwise re-queues by updating
    `queue_index, in_queue` (`markReady`); `remove_pending` deletes by `id` (`removePending`);
    `get_next_pending` selects the sets by `id` and the parents by `(child_id, set_digest)` over all ids
    (`getNextPending`). `ORDER BY … DESC`, `MAX + 0`, a dropped or inverted re-queue guard, deleting by
    `child_id` … make this theorem fail before any input is generated. -/
theorem c11_extracted_sql :
    P2.Extracted.C11.takeOrder = "ASC" ∧ P2.Extracted.C11.takeFilter = "in_queue = TRUE" ∧
    P2.Extracted.C11.takeUpdate = "in_queue = FALSE" ∧ P2.Extracted.C11.markReadyIndexStep = 1 ∧
    P2.Extracted.C11.markReadyInsert = "INSERT OR IGNORE" ∧ P2.Extracted.C11.requeueGuard = "was_in_queue.0" ∧
    P2.Extracted.C11.requeueUpdate = "queue_index = ?, in_queue = ?" ∧ P2.Extracted.C11.removePendingKey = "id" ∧
    P2.Extracted.C11.nextPendingKey = "id" ∧
    P2.Extracted.C11.nextPendingParents = "child_id = ? AND set_digest = ?" := by
  refine ⟨?_, ?_, ?_, ?_, ?_, ?_, ?_, ?_, ?_, ?_⟩ <;> decide

/-- **Safety.** If `x` is released at position `i`, each of its dependencies was released at some
    position `j < i`. -/
theorem c11_safety (deps : Nat → List Nat) (ord : Ord) (hord : OrdOk ord) (ops : List Op) (hwf : WF deps ops)
    (s : St) (out : List Nat) (hrun : run readyChk ord Orderer.empty [] ops = some (s, out))
    (i : Nat) (hi : i < out.length) (d : Nat) (hd : d ∈ deps out[i]) :
    ∃ j, ∃ (hj : j < out.length), j < i ∧ out[j] = d := by
  obtain ⟨P', hI, _, _⟩ := run_spec deps readyChk ord readyChk_ok hord ops [] _ [] s out (inv_empty deps) hwf hrun
  have := hI.safe i hi d hd
  obtain ⟨j, hj, hjd⟩ := List.mem_iff_getElem.1 this
  rw [List.length_take] at hj
  refine ⟨j, by omega, by omega, ?_⟩
  rw [List.getElem_take] at hjd
  exact hjd

/-- The ready table holds exactly the delivered items whose whole dependency closure was delivered
    (least fixpoint `Avail`) — independently of delivery order, duplicates, `next` calls and `ord`. -/
theorem c11_ready_iff_avail (deps : Nat → List Nat) (ord : Ord) (hord : OrdOk ord) (ops : List Op) (hwf : WF deps ops)
    (s : St) (out : List Nat) (hrun : run readyChk ord Orderer.empty [] ops = some (s, out)) (x : Nat) :
    x ∈ readyIds s ↔ Avail deps (delivered ops) x := by
  obtain ⟨P', hI, hP', _⟩ := run_spec deps readyChk ord readyChk_ok hord ops [] _ [] s out (inv_empty deps) hwf hrun
  have hPP : ∀ y, y ∈ P' ↔ y ∈ delivered ops := by intro y; rw [hP' y]; simp
  constructor
  · intro hx
    exact (hI.core.r.avail x hx).mono (fun y hy => (hPP y).1 hy)
  · intro hx
    have hx' : Avail deps P' x := hx.mono (fun y hy => (hPP y).2 hy)
    clear hx
    induction hx' with
    | mk x hxP _ ih =>
      apply Classical.byContradiction
      intro hnr
      exact hI.live x ⟨hxP, hnr, ih⟩

/-- **Liveness.** After any history, every delivered item all of whose dependencies are ready is ready
    itself, and a ready item has either been returned by `next` already or is waiting in the queue. -/
theorem c11_liveness (deps : Nat → List Nat) (ord : Ord) (hord : OrdOk ord) (ops : List Op) (hwf : WF deps ops)
    (s : St) (out : List Nat) (hrun : run readyChk ord Orderer.empty [] ops = some (s, out)) (x : Nat)
    (hx : x ∈ delivered ops) (hdeps : ∀ d ∈ deps x, d ∈ readyIds s) :
    x ∈ out ∨ ∃ r ∈ s.ready, r.id = x ∧ r.inq = true := by
  obtain ⟨P', hI, hP', _⟩ := run_spec deps readyChk ord readyChk_ok hord ops [] _ [] s out (inv_empty deps) hwf hrun
  have hxP : x ∈ P' := (hP' x).2 (Or.inr hx)
  have hr : x ∈ readyIds s := by
    apply Classical.byContradiction
    intro hnr
    exact hI.live x ⟨hxP, hnr, hdeps⟩
  obtain ⟨r, hrm, hrid⟩ := (mem_readyIds s x).1 hr
  cases hq : r.inq with
  | true => exact Or.inr ⟨r, hrm, hrid, hq⟩
  | false => exact Or.inl (hrid ▸ hI.core.r.taken r hrm hq)

/-- Liveness in closure form: every item whose dependency closure is contained in the delivered set
    is released or queued. -/
theorem c11_liveness_closure (deps : Nat → List Nat) (ord : Ord) (hord : OrdOk ord) (ops : List Op) (hwf : WF deps ops)
    (s : St) (out : List Nat) (hrun : run readyChk ord Orderer.empty [] ops = some (s, out)) (x : Nat)
    (hx : Avail deps (delivered ops) x) :
    x ∈ out ∨ ∃ r ∈ s.ready, r.id = x ∧ r.inq = true := by
  cases hx with
  | mk x hxP hd =>
    exact c11_liveness deps ord hord ops hwf s out hrun x hxP
      (fun d hdd => (c11_ready_iff_avail deps ord hord ops hwf s out hrun d).2 (hd d hdd))

/-- Draining: `next` until `None` returns every queued item, so "queued" means "released after
    finitely many `next` calls". -/
theorem c11_drain_releases (s : St) (n : Nat) (hn : queueLen s ≤ n) (r : RRow) (hr : r ∈ s.ready)
    (hq : r.inq = true) : r.id ∈ (drain n s).2 ∧ queueLen (drain n s).1 = 0 :=
  drain_spec s n hn r hr hq

/-- **Blocked stay blocked.** Only items whose dependency closure has been delivered are ever released;
    in particular an item with a dependency that was never delivered is never released. -/
theorem c11_blocked_stay_blocked (deps : Nat → List Nat) (ord : Ord) (hord : OrdOk ord) (ops : List Op) (hwf : WF deps ops)
    (s : St) (out : List Nat) (hrun : run readyChk ord Orderer.empty [] ops = some (s, out)) (x : Nat)
    (hx : x ∈ out) :
    Avail deps (delivered ops) x ∧ ∀ d ∈ deps x, d ∈ delivered ops := by
  obtain ⟨P', hI, _, _⟩ := run_spec deps readyChk ord readyChk_ok hord ops [] _ [] s out (inv_empty deps) hwf hrun
  have hav := (c11_ready_iff_avail deps ord hord ops hwf s out hrun x).1 (hI.core.r.outReady x hx)
  refine ⟨hav, ?_⟩
  cases hav with
  | mk _ _ hd => intro d hdd; cases hd d hdd with | mk _ h _ => exact h

/-- **Dependencies are a set.** Two dependency functions that agree as sets (repetitions, order)
    lead to the same ready set for the same delivery history — under any two iteration orders. -/
theorem c11_deps_as_set (deps deps' : Nat → List Nat) (hsame : ∀ x d, d ∈ deps x ↔ d ∈ deps' x)
    (ord ord' : Ord) (hord : OrdOk ord) (hord' : OrdOk ord')
    (ops ops' : List Op) (hwf : WF deps ops) (hwf' : WF deps' ops') (hdel : delivered ops = delivered ops')
    (s s' : St) (out out' : List Nat)
    (hrun : run readyChk ord Orderer.empty [] ops = some (s, out))
    (hrun' : run readyChk ord' Orderer.empty [] ops' = some (s', out')) (x : Nat) :
    x ∈ readyIds s ↔ x ∈ readyIds s' := by
  rw [c11_ready_iff_avail deps ord hord ops hwf s out hrun x,
    c11_ready_iff_avail deps' ord' hord' ops' hwf' s' out' hrun' x, hdel]
  exact ⟨fun h => h.congr hsame, fun h => h.congr (fun x d => (hsame x d).symm)⟩

/-- **Re-queue rule.** Re-processing an item that is already in the ready table does exactly
    `mark_ready` (nothing if it is still queued; back into the queue at `MAX+1` if it had been taken)
    and leaves the pending table and every other row untouched. -/
theorem c11_requeue_idempotent (deps : Nat → List Nat) (ord : Ord) (hord : OrdOk ord) (ops : List Op) (hwf : WF deps ops)
    (s : St) (out : List Nat) (hrun : run readyChk ord Orderer.empty [] ops = some (s, out)) (x : Nat)
    (hx : x ∈ readyIds s) :
    process readyChk ord s x (deps x) = some (markReady s x) ∧ (markReady s x).pending = s.pending ∧
    ((∃ r ∈ s.ready, r.id = x ∧ r.inq = true ∧ markReady s x = s) ∨
     (∃ r ∈ s.ready, r.id = x ∧ r.inq = false ∧ (markReady s x).ready =
        s.ready.map (fun r => if r.id == x then RRow.mk x (maxIdx s.ready + 1) true else r))) := by
  obtain ⟨P', hI, _, _⟩ := run_spec deps readyChk ord readyChk_ok hord ops [] _ [] s out (inv_empty deps) hwf hrun
  obtain ⟨r, hrm, hrid⟩ := (mem_readyIds s x).1 hx
  have hdeps : ∀ d ∈ deps x, d ∈ readyIds s := by
    intro d hd
    obtain ⟨rd, hrd, h1, _⟩ := hI.core.r.depsOk r hrm d (hrid ▸ hd)
    exact (mem_readyIds s d).2 ⟨rd, hrd, h1⟩
  have hck : readyChk s (deps x) = true := (readyChk_ok s (deps x) hI.core.r.nodup).2 hdeps
  refine ⟨?_, markReady_pending s x, ?_⟩
  · unfold process
    simp only [hck, if_true]
    have hnone : getNextPending (markReady s x) x = none := by
      rw [getNextPending_none_iff, markReady_pending]
      intro row hrow hid
      exact hI.clean row hrow (hid ▸ hx)
    simp [fuelFor, processPending, hnone]
  · rcases markReady_cases s x with ⟨hn, _⟩ | ⟨r, h1, h2, h3, h4⟩ | ⟨r, h1, h2, h3, h4⟩
    · exact absurd hx hn
    · exact Or.inl ⟨r, h1, h2, h3, h4⟩
    · exact Or.inr ⟨r, h1, h2, h3, by rw [h4]⟩

/-- **The recursion of `process_pending` terminates**: the depth bound `pending.length + 1` used by the
    model is never exhausted, for any history. -/
theorem c11_fuel_suffices (deps : Nat → List Nat) (ord : Ord) (hord : OrdOk ord) (ops : List Op) (hwf : WF deps ops) :
    ∃ s out, run readyChk ord Orderer.empty [] ops = some (s, out) :=
  run_total deps ord hord ops hwf

/-! ## The pinned code (`COUNT(..) == dependencies.len()`) violates the property -/

/-- Full statement instantiated for a `ready` query `chk`: liveness on every history. -/
def LivenessStatement (chk : Chk) : Prop :=
  ∀ (deps : Nat → List Nat) (ops : List Op), WF deps ops → ∀ s out,
    run chk id Orderer.empty [] ops = some (s, out) →
    ∀ x ∈ delivered ops, (∀ d ∈ deps x, d ∈ readyIds s) → x ∈ readyIds s

/-- `process("A", []); process("X", ["A","A"])`: `X` has all its dependencies ready, is not ready, and no
    pending row is left that could ever release it. -/
theorem c11_orig_violates :
    ∃ s out, run readyChkOrig id Orderer.empty [] [Op.proc 0 [], Op.proc 1 [0, 0], Op.next, Op.next] = some (s, out)
      ∧ out = [0] ∧ readyIds s = [0] ∧ s.pending = [] := by
  refine ⟨_, _, rfl, ?_, ?_, ?_⟩ <;> decide

/-- Second shape of the same defect, without any repeated entry in the input: `X` depends on `P` and
    `Q`, `Q` on `P`, delivered `X, Q, P` — the parent lists of X's two groups are concatenated by
    `get_next_pending`, the count comparison fails, both groups are deleted. -/
theorem c11_orig_violates_merged_groups :
    ∃ s out, run readyChkOrig id Orderer.empty [] [Op.proc 2 [0, 1], Op.proc 1 [0], Op.proc 0 [], Op.next, Op.next, Op.next]
        = some (s, out)
      ∧ out = [0, 1] ∧ readyIds s = [0, 1] ∧ s.pending = [] := by
  refine ⟨_, _, rfl, ?_, ?_, ?_⟩ <;> decide

theorem c11_orig_not_live : ¬ LivenessStatement readyChkOrig := by
  intro h
  have := h (fun x => if x = 1 then [0, 0] else []) [Op.proc 0 [], Op.proc 1 [0, 0]]
    (by intro k ds hm; simp at hm; rcases hm with ⟨rfl, rfl⟩ | ⟨rfl, rfl⟩ <;> simp) _ _ rfl 1 (by decide) (by decide)
  revert this; decide

/-- … and the repaired query satisfies it. -/
theorem c11_fixed_live : LivenessStatement readyChk := by
  intro deps ops hwf s out hrun x hx hd
  have := c11_liveness deps id (fun _ _ => Iff.rfl) ops hwf s out hrun x hx hd
  obtain ⟨P', hI, _, _⟩ := run_spec deps readyChk id readyChk_ok (fun _ _ => Iff.rfl) ops [] _ [] s out (inv_empty deps) hwf hrun
  rcases this with h | ⟨r, hr, hid, _⟩
  · exact hI.core.r.outReady x h
  · exact (mem_readyIds s x).2 ⟨r, hr, hid⟩

/-! ## Non-vacuity: concrete histories satisfying the hypotheses, with diamond, repeated dependency
    whose target is already ready, missing dependency, duplicate delivery and re-queue. -/

private def exDeps : Nat → List Nat
  | 1 => [0, 0]
  | 2 => [0]
  | 3 => [2, 1, 2]
  | 4 => [3, 9]
  | _ => []

private def exOps : List Op :=
  [Op.proc 3 (exDeps 3), Op.proc 4 (exDeps 4), Op.proc 2 (exDeps 2), Op.next, Op.proc 0 (exDeps 0), Op.proc 1 (exDeps 1),
   Op.proc 1 (exDeps 1), Op.next, Op.next, Op.next, Op.next, Op.next, Op.proc 0 (exDeps 0), Op.next]

example : WF exDeps exOps := wf_of_all exDeps exOps (by decide)

example : (run readyChk id Orderer.empty [] exOps).map (·.2) = some [0, 2, 1, 3, 0] := by decide
example : (run readyChkOrig id Orderer.empty [] exOps).map (·.2) = some [0, 2, 0] := by decide
example : OrdOk id := fun _ _ => Iff.rfl
example : OrdOk List.reverse := fun _ _ => List.mem_reverse

end P2.C11
