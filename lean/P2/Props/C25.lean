/-
C25 — Topic handshake transfers the initiator's topic or fails cleanly.
Model: `P2/Model/Handshake.lean`.  `T` is an arbitrary topic type.
-/
import P2.Model.Handshake
import P2.Extracted.C25

namespace P2.C25
open P2.Handshake

set_option linter.unusedSectionVars false
set_option linter.unusedVariables false
set_option linter.unusedSimpArgs false

variable {T : Type}

/-! ## Each side alone, against an arbitrary finite transcript and arbitrary faults -/

/-- The acceptor succeeds **iff** the transcript starts with `Topic t, Done` (whatever follows is
    not read), the event channel is open and neither of its two sink operations fails;
    and then it returns exactly that `t`. -/
theorem c25_acceptor_ok_iff (f : Faults) (inc : List (Item T)) (t : T) :
    (runT f (acceptor (T := T)) inc 0).res = .ok t ↔
      (∃ rest, inc = .msg (.topic t) :: .msg .done :: rest) ∧ f.evClosed = false
        ∧ sinkFails f 0 = false ∧ sinkFails f 1 = false := by
  unfold acceptor
  cases hev : f.evClosed
  case true => simp [runT, hev]
  case false =>
    cases inc with
    | nil => simp [runT, hev]
    | cons i inc =>
      cases i with
      | err => simp [runT, hev]
      | msg m =>
        cases m with
        | done => simp [runT, hev]
        | topic t' =>
          cases h0 : sinkFails f 0
          case true => simp [runT, hev, h0]
          case false =>
            cases inc with
            | nil => simp [runT, hev, h0]
            | cons j inc =>
              cases j with
              | err => simp [runT, hev, h0]
              | msg m2 =>
                cases m2 with
                | topic t2 => simp [runT, hev, h0]
                | done =>
                  cases h1 : sinkFails f 1
                  case true => simp [runT, hev, h0, h1]
                  case false =>
                    simp [runT, hev, h0, h1]

/-- **Never a wrong topic.** -/
theorem c25_acceptor_sound (f : Faults) (inc : List (Item T)) (t : T)
    (h : (runT f (acceptor (T := T)) inc 0).res = .ok t) :
    ∃ rest, inc = .msg (.topic t) :: .msg .done :: rest :=
  ((c25_acceptor_ok_iff f inc t).1 h).1

/-- The initiator succeeds **iff** the first incoming item is `Done`, the event channel is open
    and none of its three sink operations (send Topic, send Done, flush) fails. -/
theorem c25_initiator_ok_iff (f : Faults) (t : T) (inc : List (Item T)) :
    (runT f (initiator t) inc 0).res = .ok () ↔
      (∃ rest, inc = .msg .done :: rest) ∧ f.evClosed = false
        ∧ sinkFails f 0 = false ∧ sinkFails f 1 = false ∧ sinkFails f 2 = false := by
  unfold initiator
  cases hev : f.evClosed
  case true => simp [runT, hev]
  case false =>
    cases h0 : sinkFails f 0
    case true => simp [runT, hev, h0]
    case false =>
      cases inc with
      | nil => simp [runT, hev, h0]
      | cons i inc =>
        cases i with
        | err => simp [runT, hev, h0]
        | msg m =>
          cases m with
          | topic t' => simp [runT, hev, h0]
          | done =>
            cases h1 : sinkFails f 1
            case true => simp [runT, hev, h0, h1]
            case false =>
              cases h2 : sinkFails f 2
              case true => simp [runT, hev, h0, h1, h2]
              case false => simp [runT, hev, h0, h1, h2]

/-- **Events and transcript on success** (acceptor): exactly `Accept · TopicReceived t · Done t`
    and exactly one `Done` sent. -/
theorem c25_events_acceptor (f : Faults) (inc : List (Item T)) (t : T)
    (h : (runT f (acceptor (T := T)) inc 0).res = .ok t) :
    (runT f (acceptor (T := T)) inc 0).events = [.accept, .topicReceived t, .done t]
    ∧ (runT f (acceptor (T := T)) inc 0).sent = [.done] := by
  obtain ⟨⟨rest, hinc⟩, hev, h0, h1⟩ := (c25_acceptor_ok_iff f inc t).1 h
  subst hinc
  simp [acceptor, runT, hev, h0, h1]

/-- **Events and transcript on success** (initiator): exactly `Initiate t · Done t` and exactly
    `Topic t, Done` sent. -/
theorem c25_events_initiator (f : Faults) (t : T) (inc : List (Item T))
    (h : (runT f (initiator t) inc 0).res = .ok ()) :
    (runT f (initiator t) inc 0).events = [.initiate t, .done t]
    ∧ (runT f (initiator t) inc 0).sent = [.topic t, .done] := by
  obtain ⟨⟨rest, hinc⟩, hev, h0, h1, h2⟩ := (c25_initiator_ok_iff f t inc).1 h
  subst hinc
  simp [initiator, runT, hev, h0, h1, h2]

/-- An outcome is a success or an error — the model is total over finite transcripts, so with
    the peer's stream closed "hang" is not an outcome. -/
theorem res_ok_or_error {R : Type} (o : Outcome T R) : (∃ r, o.res = .ok r) ∨ (∃ e, o.res = .error e) := by
  cases h : o.res with
  | ok r => exact Or.inl ⟨r, rfl⟩
  | error e => exact Or.inr ⟨e, rfl⟩

/-- **Fail clean** (acceptor): any truncation, any substitution of one of the two expected
    messages by another message or by a decode error, any failing sink operation, a closed
    event channel — i.e. anything but the honest prefix under a healthy environment — ends in
    an error. -/
theorem c25_fail_clean_acceptor (f : Faults) (inc : List (Item T))
    (hbad : (¬ ∃ t rest, inc = .msg (.topic t) :: .msg .done :: rest) ∨ f.evClosed = true
      ∨ sinkFails f 0 = true ∨ sinkFails f 1 = true) :
    ∃ e, (runT f (acceptor (T := T)) inc 0).res = .error e := by
  rcases res_ok_or_error (runT f (acceptor (T := T)) inc 0) with ⟨t, h⟩ | h
  · obtain ⟨⟨rest, hinc⟩, hev, h0, h1⟩ := (c25_acceptor_ok_iff f inc t).1 h
    rcases hbad with hb | hb | hb | hb
    · exact absurd ⟨t, rest, hinc⟩ hb
    · rw [hev] at hb; cases hb
    · rw [h0] at hb; cases hb
    · rw [h1] at hb; cases hb
  · exact h

/-- **Fail clean** (initiator). -/
theorem c25_fail_clean_initiator (f : Faults) (t : T) (inc : List (Item T))
    (hbad : (¬ ∃ rest, inc = .msg .done :: rest) ∨ f.evClosed = true
      ∨ sinkFails f 0 = true ∨ sinkFails f 1 = true ∨ sinkFails f 2 = true) :
    ∃ e, (runT f (initiator t) inc 0).res = .error e := by
  rcases res_ok_or_error (runT f (initiator t) inc 0) with ⟨u, h⟩ | h
  · obtain ⟨⟨rest, hinc⟩, hev, h0, h1, h2⟩ := (c25_initiator_ok_iff f t inc).1 h
    rcases hbad with hb | hb | hb | hb | hb
    · exact absurd ⟨rest, hinc⟩ hb
    · rw [hev] at hb; cases hb
    · rw [h0] at hb; cases hb
    · rw [h1] at hb; cases hb
    · rw [h2] at hb; cases hb
  · exact h

/-- Which error: every truncation of the honest transcript is `UnexpectedStreamClosure`. -/
theorem c25_truncation_closed (t : T) :
    (runT noFaults (acceptor (T := T)) [] 0).res = .error .closed
    ∧ (runT noFaults (acceptor (T := T)) [.msg (.topic t)] 0).res = .error .closed
    ∧ (runT noFaults (initiator t) [] 0).res = .error .closed := by
  simp [acceptor, initiator, runT, noFaults, sinkFails]

/-- Which error: a message of the wrong kind is `UnexpectedMessage(that message)`, a stream
    item error is reported (as `MessageSink`, the variant the code uses). -/
theorem c25_substitution_errors (t t' : T) (rest : List (Item T)) :
    (runT noFaults (acceptor (T := T)) (.msg .done :: rest) 0).res = .error (.unexpected .done)
    ∧ (runT noFaults (acceptor (T := T)) (.err :: rest) 0).res = .error .sink
    ∧ (runT noFaults (acceptor (T := T)) (.msg (.topic t) :: .msg (.topic t') :: rest) 0).res
        = .error (.unexpected (.topic t'))
    ∧ (runT noFaults (acceptor (T := T)) (.msg (.topic t) :: .err :: rest) 0).res = .error .sink
    ∧ (runT noFaults (initiator t) (.msg (.topic t') :: rest) 0).res = .error (.unexpected (.topic t'))
    ∧ (runT noFaults (initiator t) (.err :: rest) 0).res = .error .sink := by
  simp [acceptor, initiator, runT, noFaults, sinkFails]

/-! ## Both sides together, every schedule -/

/-- The seven states of the honest composition, named by a schedule that reaches them. -/
def st (t : T) (n : Nat) : Sys T :=
  match n with
  | 0 => Sys.init t
  | 1 => (Sys.init t).run [.ini]
  | 2 => (Sys.init t).run [.acc]
  | 3 => (Sys.init t).run [.ini, .acc]
  | 4 => (Sys.init t).run [.ini, .acc, .acc]
  | 5 => (Sys.init t).run [.ini, .acc, .acc, .ini]
  | _ => (Sys.init t).run [.ini, .acc, .acc, .ini, .acc]

/-- successor state table: `next n w = some m` iff `w` can move in state `n`, leading to `m` -/
def next : Nat → Who → Option Nat
  | 0, .ini => some 1
  | 0, .acc => some 2
  | 1, .acc => some 3
  | 2, .ini => some 3
  | 3, .acc => some 4
  | 4, .ini => some 5
  | 5, .acc => some 6
  | _, _ => none

theorem step_table (t : T) (n : Nat) (hn : n ≤ 6) (w : Who) :
    (st t n).step w = (next n w).map (st t) := by
  have : n = 0 ∨ n = 1 ∨ n = 2 ∨ n = 3 ∨ n = 4 ∨ n = 5 ∨ n = 6 := by omega
  rcases this with rfl | rfl | rfl | rfl | rfl | rfl | rfl <;> cases w <;> rfl

theorem next_le (n : Nat) (w : Who) (m : Nat) (h : next n w = some m) (hn : n ≤ 6) :
    m ≤ 6 ∧ n < m := by
  have : n = 0 ∨ n = 1 ∨ n = 2 ∨ n = 3 ∨ n = 4 ∨ n = 5 ∨ n = 6 := by omega
  rcases this with rfl | rfl | rfl | rfl | rfl | rfl | rfl <;> cases w <;> simp [next] at h <;> omega

/-- Every schedule stays inside the seven honest states. -/
theorem run_reach (t : T) : ∀ (sched : List Who) (n : Nat), n ≤ 6 →
    ∃ m, n ≤ m ∧ m ≤ 6 ∧ (st t n).run sched = st t m := by
  intro sched
  induction sched with
  | nil => intro n hn; exact ⟨n, Nat.le_refl _, hn, rfl⟩
  | cons w ws ih =>
    intro n hn
    simp only [Sys.run, step_table t n hn w]
    cases hnx : next n w with
    | none => simpa using ih n hn
    | some m =>
      obtain ⟨hm, hlt⟩ := next_le n w m hnx hn
      obtain ⟨k, h1, h2, h3⟩ := ih m hm
      exact ⟨k, by omega, h2, by simpa using h3⟩

/-- The final state: both sides returned, the acceptor with the initiator's topic. -/
structure Final (t : T) (s : Sys T) : Prop where
  ini_ok : ∃ h : True, (match s.ini with | .finished (.ok ()) => True | _ => False)
  acc_ok : (match s.acc with | .finished (.ok u) => u = t | _ => False)
  ini_sent : s.iniSent = [.topic t, .done]
  acc_sent : s.accSent = [.done]
  ini_ev : s.iniEv = [.initiate t, .done t]
  acc_ev : s.accEv = [.accept, .topicReceived t, .done t]
  drained : s.toAcc = [] ∧ s.toIni = []

theorem final_st6 (t : T) : Final t (st t 6) :=
  ⟨⟨trivial, trivial⟩, rfl, rfl, rfl, rfl, rfl, ⟨rfl, rfl⟩⟩

/-- no side has failed and the acceptor holds no other topic -/
def Healthy (t : T) (s : Sys T) : Prop :=
  (match s.ini with | .finished (.error _) => False | _ => True)
  ∧ (match s.acc with | .finished (.error _) => False | .finished (.ok u) => u = t | _ => True)

theorem healthy_st (t : T) (n : Nat) (hn : n ≤ 6) : Healthy t (st t n) := by
  have : n = 0 ∨ n = 1 ∨ n = 2 ∨ n = 3 ∨ n = 4 ∨ n = 5 ∨ n = 6 := by omega
  rcases this with rfl | rfl | rfl | rfl | rfl | rfl | rfl <;> exact ⟨trivial, by first | trivial | rfl⟩

/-- **Agreement.** Compose the two `run` bodies over loss-free FIFO channels. For every topic
    and every schedule of the two tasks:
    * (safety) no side ever fails and the acceptor never holds another topic;
    * (no deadlock) either some side can move, or the run is complete: initiator `Ok(())`,
      acceptor `Ok(t)` with the initiator's `t`, transcripts `[Topic t, Done]` / `[Done]`,
      events `Initiate·Done` / `Accept·TopicReceived·Done`, nothing left in flight;
    * (termination) at most six steps are ever taken: the honest run cannot go on forever. -/
theorem c25_agree (t : T) (sched : List Who) :
    Healthy t ((Sys.init t).run sched)
    ∧ ((∃ w, (((Sys.init t).run sched).step w).isSome) ∨ Final t ((Sys.init t).run sched))
    ∧ (∃ m, m ≤ 6 ∧ (Sys.init t).run sched = st t m) := by
  obtain ⟨m, _, hm, hrun⟩ := run_reach t sched 0 (Nat.zero_le _)
  have h0 : st t 0 = Sys.init t := rfl
  rw [h0] at hrun
  rw [hrun]
  refine ⟨healthy_st t m hm, ?_, ⟨m, hm, rfl⟩⟩
  have : m = 0 ∨ m = 1 ∨ m = 2 ∨ m = 3 ∨ m = 4 ∨ m = 5 ∨ m = 6 := by omega
  rcases this with rfl | rfl | rfl | rfl | rfl | rfl | rfl
  · exact Or.inl ⟨.ini, by rw [step_table t 0 (by omega)]; rfl⟩
  · exact Or.inl ⟨.acc, by rw [step_table t 1 (by omega)]; rfl⟩
  · exact Or.inl ⟨.ini, by rw [step_table t 2 (by omega)]; rfl⟩
  · exact Or.inl ⟨.acc, by rw [step_table t 3 (by omega)]; rfl⟩
  · exact Or.inl ⟨.ini, by rw [step_table t 4 (by omega)]; rfl⟩
  · exact Or.inl ⟨.acc, by rw [step_table t 5 (by omega)]; rfl⟩
  · exact Or.inr (final_st6 t)

/-- Any schedule in which each side gets four turns (in any order, with anything in between)
    completes the handshake — e.g. every round-robin of length ≥ 8. Stated for the fair
    alternation; the general bound is `c25_agree`'s "at most six steps" + "no deadlock". -/
theorem c25_agree_completes (t : T) :
    Final t ((Sys.init t).run [.ini, .acc, .ini, .acc, .ini, .acc, .ini, .acc])
    ∧ Final t ((Sys.init t).run [.acc, .ini, .acc, .ini, .acc, .ini, .acc, .ini]) :=
  ⟨final_st6 t, final_st6 t⟩

/-- The composed run and the per-side transcript semantics agree: each side, fed the other's
    complete output as its transcript, produces exactly its part of the final state. -/
theorem c25_agree_transcripts (t : T) :
    (runT noFaults (initiator t) [.msg .done] 0).res = .ok ()
    ∧ (runT noFaults (initiator t) [.msg .done] 0).sent = [.topic t, .done]
    ∧ (runT noFaults (acceptor (T := T)) [.msg (.topic t), .msg .done] 0).res = .ok t
    ∧ (runT noFaults (acceptor (T := T)) [.msg (.topic t), .msg .done] 0).sent = [.done] := by
  simp [acceptor, initiator, runT, noFaults, sinkFails]

/-! ## Tie to the source text

`props/C25_extract.py` reads the two `run` bodies of `topic_handshake.rs` as they are *now* and
emits one token per top-level statement (a statement of unknown shape is an extraction
failure). `compile` gives the tokens their meaning as a program tree; `c25_model_is_source`
proves that the compiled skeletons are exactly the hand-written models `initiator` / `acceptor`.
Dropping an else-branch, changing a pattern, an error variant, the order of effects or the topic
an event carries changes the tokens and breaks the theorem. -/

inductive Var where
  | self    -- `self.topic`
  | bound   -- `topic` bound by the `Topic(topic)` pattern
deriving DecidableEq, Repr

inductive ErrK where
  | sink | stream
deriving DecidableEq, Repr

inductive Stmt where
  | evInitiate (v : Var) | evAccept | evTopicReceived (v : Var) | evDone (v : Var)
  | sendTopicSelf (e : ErrK) | sendDone (e : ErrK)
  | recv | itemErr (e : ErrK) | expectTopic | expectDone
  | flush (e : ErrK) | evFlush | retUnit | retBound
deriving DecidableEq, Repr

def parseStmt (s : String) : Option Stmt :=
  if s = "ev:Initiate:self" then some (.evInitiate .self)
  else if s = "ev:Initiate:bound" then some (.evInitiate .bound)
  else if s = "ev:Accept" then some .evAccept
  else if s = "ev:TopicReceived:self" then some (.evTopicReceived .self)
  else if s = "ev:TopicReceived:bound" then some (.evTopicReceived .bound)
  else if s = "ev:Done:self" then some (.evDone .self)
  else if s = "ev:Done:bound" then some (.evDone .bound)
  else if s = "send:Topic:self:MessageSink" then some (.sendTopicSelf .sink)
  else if s = "send:Topic:self:MessageStream" then some (.sendTopicSelf .stream)
  else if s = "send:Done:MessageSink" then some (.sendDone .sink)
  else if s = "send:Done:MessageStream" then some (.sendDone .stream)
  else if s = "recv:UnexpectedStreamClosure" then some .recv
  else if s = "itemerr:MessageSink" then some (.itemErr .sink)
  else if s = "itemerr:MessageStream" then some (.itemErr .stream)
  else if s = "expect:Topic:UnexpectedMessage" then some .expectTopic
  else if s = "expect:Done:UnexpectedMessage" then some .expectDone
  else if s = "flush:MessageSink" then some (.flush .sink)
  else if s = "flush:MessageStream" then some (.flush .stream)
  else if s = "evflush" then some .evFlush
  else if s = "ret:unit" then some .retUnit
  else if s = "ret:bound" then some .retBound
  else none

/-- what the `message` variable currently holds -/
inductive Ctx (T : Type) where
  | none
  | item (i : Item T)    -- after `let Some(message) = stream.next().await else …`
  | msg (m : Msg T)      -- after `let message = message.map_err(..)?`

def errOf {T : Type} : ErrK → Err T
  | .sink => .sink
  | .stream => .stream

def varOf {T : Type} (own bound : Option T) : Var → Option T
  | .self => own
  | .bound => bound

/-- marker for an ill-formed skeleton (no model contains it) -/
def junk {T R : Type} : Prog T R := .fail .mpsc

/-- Meaning of a statement skeleton. `own` = `self.topic` (initiator only), `ru` / `rt` = how
    `Ok(())` / `Ok(topic)` become the protocol's output type. -/
def compile {T R : Type} (own : Option T) (ru : Option R) (rt : T → Option R) :
    List Stmt → Ctx T → Option T → Prog T R
  | [], _, _ => junk
  | .evInitiate v :: r, c, b =>
    match varOf own b v with | some t => .ev (.initiate t) (compile own ru rt r c b) | none => junk
  | .evAccept :: r, c, b => .ev .accept (compile own ru rt r c b)
  | .evTopicReceived v :: r, c, b =>
    match varOf own b v with | some t => .ev (.topicReceived t) (compile own ru rt r c b) | none => junk
  | .evDone v :: r, c, b =>
    match varOf own b v with | some t => .ev (.done t) (compile own ru rt r c b) | none => junk
  | .sendTopicSelf e :: r, c, b =>
    match own with | some t => .send (.topic t) (errOf e) (compile own ru rt r c b) | none => junk
  | .sendDone e :: r, c, b => .send .done (errOf e) (compile own ru rt r c b)
  | .recv :: r, _, b =>
    .recv (fun i => match i with
      | .closed => .fail .closed
      | .item it => compile own ru rt r (.item it) b)
  | .itemErr e :: r, .item it, b =>
    (match it with
     | .err => .fail (errOf e)
     | .msg m => compile own ru rt r (.msg m) b)
  | .itemErr _ :: _, _, _ => junk
  | .expectTopic :: r, .msg m, _ =>
    (match m with
     | .topic t => compile own ru rt r .none (some t)
     | .done => .fail (.unexpected .done))
  | .expectTopic :: _, _, _ => junk
  | .expectDone :: r, .msg m, b =>
    (match m with
     | .done => compile own ru rt r .none b
     | .topic t => .fail (.unexpected (.topic t)))
  | .expectDone :: _, _, _ => junk
  | .flush .sink :: r, c, b => .flush (compile own ru rt r c b)
  | .flush .stream :: _, _, _ => junk      -- the model's flush reports MessageSink
  | .evFlush :: r, c, b => compile own ru rt r c b   -- cannot fail (see `initiator`)
  | [.retUnit], _, _ => (match ru with | some u => .ret u | none => junk)
  | [.retBound], _, b => (match b with | some t => (match rt t with | some u => .ret u | none => junk) | none => junk)
  | .retUnit :: _ :: _, _, _ => junk
  | .retBound :: _ :: _, _, _ => junk

theorem skeletons_parse :
    P2.Extracted.C25.initiatorSkeleton.mapM parseStmt = some
      [.evInitiate .self, .sendTopicSelf .sink, .recv, .itemErr .sink, .expectDone, .sendDone .sink,
       .evDone .self, .flush .sink, .evFlush, .retUnit]
    ∧ P2.Extracted.C25.acceptorSkeleton.mapM parseStmt = some
      [.evAccept, .recv, .itemErr .sink, .expectTopic, .evTopicReceived .bound, .sendDone .stream,
       .recv, .itemErr .sink, .expectDone, .evDone .bound, .flush .sink, .evFlush, .retBound] := by
  decide

/-- **The models are the source.** The program trees compiled from the statement skeletons of
    the two `run` bodies, as extracted from the current source on this run, are the hand-written
    `initiator t` and `acceptor` all theorems above are about. -/
theorem c25_model_is_source (t : T) :
    (P2.Extracted.C25.initiatorSkeleton.mapM parseStmt).map
        (fun s => compile (some t) (some ()) (fun _ => none) s .none none) = some (initiator t)
    ∧ (P2.Extracted.C25.acceptorSkeleton.mapM parseStmt).map
        (fun s => compile (T := T) (R := T) none none some s .none none) = some acceptor := by
  rw [skeletons_parse.1, skeletons_parse.2]
  constructor
  · simp only [Option.map_some, compile, varOf, errOf, initiator, Option.some.injEq]
    congr 3
    funext i
    cases i with
    | closed => rfl
    | item it =>
      cases it with
      | err => rfl
      | msg m => cases m <;> rfl
  · simp only [Option.map_some, compile, varOf, errOf, acceptor, Option.some.injEq]
    congr 2
    funext i
    cases i with
    | closed => rfl
    | item it =>
      cases it with
      | err => rfl
      | msg m =>
        cases m with
        | done => rfl
        | topic t' =>
          simp only
          congr 3
          funext j
          cases j with
          | closed => rfl
          | item jt =>
            cases jt with
            | err => rfl
            | msg m2 => cases m2 <;> rfl

/-! ## Non-vacuity -/
example : (runT noFaults (acceptor (T := Nat)) [.msg (.topic 7), .msg .done] 0).res = .ok 7 := by rfl
example : (runT noFaults (acceptor (T := Nat)) [.msg (.topic 7), .msg (.topic 8)] 0).res
    = .error (.unexpected (.topic 8)) := by rfl
example : (runT { sinkFault := some (1, false) } (initiator (7 : Nat)) [.msg .done] 0).res = .error .sink := by rfl
example : (runT { sinkFault := some (0, true) } (acceptor (T := Nat)) [.msg (.topic 7), .msg .done] 0).sent = [.done] := by rfl
example : (((Sys.init (7 : Nat)).run [.acc, .acc, .ini, .ini, .acc, .ini, .acc]).accEv) = [.accept, .topicReceived 7, .done 7] := by rfl

end P2.C25
