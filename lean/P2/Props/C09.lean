import P2.Model.StoreRef
/-
C09 — Operation, topic and cursor stores behave like their abstract collections.

`./check C09` establishes, on generated command sequences, that the SQLite stores answer like `P2.StoreRef`.
The theorems below prove — for every table content, every id / triple / name, and every history — that the
reference model *is* the abstract collection the property speaks about: a map from id to operation with
insert-once, delete and payload deletion as map updates; a set of `(topic, author, log)` triples; a map from
cursor name to the last value written.
-/
namespace P2.C09
open P2.StoreRef

/-! ### operations: a map keyed by id -/

private theorem hasId_iff {t : List Row} {id : Nat} : hasId t id = true ↔ ∃ r ∈ t, r.id = id := by
  simp [hasId]

private theorem getId_cons (x : Row) (xs : List Row) (id : Nat) :
    getId (x :: xs) id = if x.id = id then some x else getId xs id := by
  simp only [getId, List.find?_cons]
  by_cases h : x.id = id
  · simp [h]
  · have hb : (x.id == id) = false := by simpa using h
    simp [hb, h]

private theorem hasId_cons (x : Row) (xs : List Row) (id : Nat) :
    hasId (x :: xs) id = (decide (x.id = id) || hasId xs id) := by
  by_cases h : x.id = id <;> simp [hasId, h]

private theorem getId_isSome {t : List Row} {id : Nat} : (getId t id).isSome = hasId t id := by
  induction t with
  | nil => simp [getId, hasId]
  | cons x xs ih =>
    rw [getId_cons, hasId_cons]
    by_cases h : x.id = id
    · simp [h]
    · simp [h, ih]

/-- Ids stay unique: the invariant under which the table is a map. -/
def UniqueIds (t : List Row) : Prop := (t.map (·.id)).Nodup

private theorem getId_append_new {t : List Row} {r : Row} (h : hasId t r.id = false) (id : Nat) :
    getId (t ++ [r]) id = if id = r.id then some r else getId t id := by
  induction t with
  | nil =>
    rw [List.nil_append, getId_cons]
    by_cases hid : id = r.id
    · simp [hid]
    · have : ¬ r.id = id := fun h => hid h.symm
      simp [hid, this, getId]
  | cons x xs ih =>
    rw [hasId_cons] at h
    simp only [Bool.or_eq_false_iff, decide_eq_false_iff_not] at h
    rw [List.cons_append, getId_cons, getId_cons, ih h.2]
    by_cases hx : x.id = id
    · have : ¬ id = r.id := fun h' => h.1 (hx.trans h')
      simp [hx, this]
    · simp [hx]

/-- **Insert once.** `insert_operation` answers `true` iff the id was absent.  When it does, reading the id
    back gives exactly the inserted operation (same id, header fields and body); every other id reads as
    before.  When it answers `false` nothing changes — in particular a second insert of the same id (even
    with different content or under another log id) answers `false` and leaves the first one in place. -/
theorem c09_insert_once (t : List Row) (r : Row) :
    ((insertOp t r).2 = true ↔ getId t r.id = none) ∧
    ((insertOp t r).2 = true → ∀ id, getId (insertOp t r).1 id = if id = r.id then some r else getId t id) ∧
    ((insertOp t r).2 = false → (insertOp t r).1 = t) ∧
    (∀ r', r'.id = r.id → insertOp (insertOp t r).1 r' = ((insertOp t r).1, false)) ∧
    (UniqueIds t → UniqueIds (insertOp t r).1) := by
  have hsome := getId_isSome (t := t) (id := r.id)
  by_cases h : hasId t r.id = true
  · have hne : getId t r.id ≠ none := by
      intro hn; rw [hn, h] at hsome; simp at hsome
    refine ⟨by simp [insertOp, h, hne], by simp [insertOp, h], by simp [insertOp, h], ?_, by simp [insertOp, h]⟩
    intro r' hr'
    simp [insertOp, h, hr']
  · have h' : hasId t r.id = false := by simpa using h
    have hn : getId t r.id = none := by
      rw [h'] at hsome
      cases hg : getId t r.id with
      | none => rfl
      | some x => rw [hg] at hsome; simp at hsome
    refine ⟨by simp [insertOp, h', hn], ?_, by simp [insertOp, h'], ?_, ?_⟩
    · intro _ id
      simp only [insertOp, h', Bool.false_eq_true, if_false]
      exact getId_append_new h' id
    · intro r' hr'
      have : hasId (t ++ [r]) r'.id = true := by
        rw [hasId_iff]; exact ⟨r, by simp, hr'.symm⟩
      simp [insertOp, h', this]
    · intro hu
      simp only [insertOp, h', Bool.false_eq_true, if_false, UniqueIds, List.map_append, List.map_cons,
        List.map_nil]
      refine List.nodup_append.mpr ⟨hu, by simp, ?_⟩
      intro a ha b hb
      simp at hb
      subst hb
      intro hab
      subst hab
      have : hasId t r.id = true := by
        rw [hasId_iff]
        simp only [List.mem_map] at ha
        obtain ⟨x, hx, hxe⟩ := ha
        exact ⟨x, hx, hxe⟩
      rw [h'] at this; cases this

/-- **Delete is a map update.** `delete_operation` answers whether the id was present; afterwards the id is
    absent and every other id reads as before. -/
theorem c09_delete_map (t : List Row) (id : Nat) :
    (deleteOp t id).2 = (getId t id).isSome ∧
    ∀ id', getId (deleteOp t id).1 id' = if id' = id then none else getId t id' := by
  refine ⟨by simp [deleteOp, getId_isSome], ?_⟩
  intro id'
  simp only [deleteOp]
  induction t with
  | nil => simp [getId]
  | cons x xs ih =>
    simp only [List.filter_cons]
    by_cases hx : x.id = id
    · have hne : (x.id != id) = false := by simp [hx]
      simp only [hne, Bool.false_eq_true, if_false]
      rw [ih, getId_cons]
      by_cases hi : id' = id
      · simp [hi]
      · have : ¬ x.id = id' := fun h => hi (h.symm.trans hx)
        simp [hi, this]
    · have hne : (x.id != id) = true := by simp [hx]
      simp only [hne, if_true]
      rw [getId_cons, getId_cons, ih]
      by_cases hxi : x.id = id'
      · have : ¬ id' = id := fun h => hx (hxi.trans h)
        simp [hxi, this]
      · simp [hxi]

/-- **Payload deletion is a map update.** `delete_operation_payload` answers whether the id is present (also
    when its body is already gone); afterwards that operation reads back with the same id and header fields
    and *no* body; every other operation is untouched. -/
theorem c09_payload_delete (t : List Row) (id : Nat) :
    (deletePayload t id).2 = (getId t id).isSome ∧
    ∀ id', getId (deletePayload t id).1 id' =
      (getId t id').map (fun r => if id' = id then { r with body := false } else r) := by
  refine ⟨by simp [deletePayload, getId_isSome], ?_⟩
  intro id'
  simp only [deletePayload]
  induction t with
  | nil => simp [getId]
  | cons x xs ih =>
    simp only [List.map_cons]
    rw [getId_cons, getId_cons, ih]
    by_cases hx : x.id = id
    · have hb : (x.id == id) = true := by simp [hx]
      simp only [hb, if_true]
      by_cases hxi : x.id = id'
      · have : id' = id := hxi.symm.trans hx
        simp [hxi, this]
      · simp [hxi]
    · have hb : (x.id == id) = false := by simp [hx]
      simp only [hb, Bool.false_eq_true, if_false]
      by_cases hxi : x.id = id'
      · have : ¬ id' = id := fun h => hx (hxi.trans h)
        simp [hxi, this]
      · simp [hxi]

/-! ### topics: a set of triples -/

/-- **Topic associations are a set of `(topic, author, log)` triples** (the list never holds a triple twice):
    `associate` answers "new" iff the triple was absent and adds exactly it, a repeated `associate` answers
    `false` and changes nothing, `remove` answers whether it was present and removes exactly it, and `resolve`
    lists exactly the `(author, log)` pairs of that topic's triples, each once (strictly ascending). -/
theorem c09_topics_are_a_set (t : List Triple) (x : Triple) :
    ((associate t x).2 = true ↔ x ∉ t) ∧
    (∀ y, y ∈ (associate t x).1 ↔ y = x ∨ y ∈ t) ∧
    (associate (associate t x).1 x = ((associate t x).1, false)) ∧
    (t.Nodup → (associate t x).1.Nodup) ∧
    ((unassociate t x).2 = true ↔ x ∈ t) ∧
    (∀ y, y ∈ (unassociate t x).1 ↔ y ∈ t ∧ y ≠ x) ∧
    (t.Nodup → (unassociate t x).1.Nodup) := by
  by_cases h : x ∈ t
  · have ha : associate t x = (t, false) := by simp [associate, h]
    rw [ha]
    refine ⟨by simp [h], ?_, ha, fun hn => hn, by simp [unassociate, h], ?_, ?_⟩
    · intro y
      constructor
      · exact Or.inr
      · rintro (rfl | h') <;> assumption
    · intro y; simp [unassociate, List.mem_filter]
    · intro hn; exact hn.filter _
  · have ha : associate t x = (t ++ [x], true) := by simp [associate, h]
    rw [ha]
    refine ⟨by simp [h], ?_, ?_, ?_, by simp [unassociate, h], ?_, ?_⟩
    · intro y
      simp only [List.mem_append, List.mem_singleton]
      constructor
      · rintro (h' | h') <;> simp [h']
      · rintro (h' | h') <;> simp [h']
    · simp [associate]
    · intro hn
      refine List.nodup_append.mpr ⟨hn, by simp, ?_⟩
      intro a hmem b hb
      simp at hb; subst hb
      intro hab; subst hab; exact h hmem
    · intro y; simp [unassociate, List.mem_filter]
    · intro hn; exact hn.filter _

private def pairLt (x y : Nat × Nat) : Prop := x.1 < y.1 ∨ (x.1 = y.1 ∧ x.2 < y.2)

private theorem mem_insertPairAsc {x y : Nat × Nat} {ys : List (Nat × Nat)} :
    y ∈ insertPairAsc x ys ↔ y = x ∨ y ∈ ys := by
  induction ys with
  | nil => simp [insertPairAsc]
  | cons z zs ih =>
    simp only [insertPairAsc]
    split
    · simp
    · split
      next hxz => subst hxz; simp
      next hxz =>
        simp [ih]
        constructor
        · rintro (h | h | h) <;> simp [h]
        · rintro (h | h | h) <;> simp [h]

private theorem insertPairAsc_sorted {x : Nat × Nat} {ys : List (Nat × Nat)} (h : ys.Pairwise pairLt) :
    (insertPairAsc x ys).Pairwise pairLt := by
  induction ys with
  | nil => simp [insertPairAsc]
  | cons z zs ih =>
    have ⟨hz, hzs⟩ := List.pairwise_cons.mp h
    simp only [insertPairAsc]
    split
    next hlt =>
      refine List.pairwise_cons.mpr ⟨?_, h⟩
      intro a ha
      rcases List.mem_cons.mp ha with rfl | ha
      · exact hlt
      · have := hz a ha
        unfold pairLt at *
        omega
    next hnlt =>
      split
      next hxz => exact h
      next hxz =>
        refine List.pairwise_cons.mpr ⟨?_, ih hzs⟩
        intro a ha
        rcases mem_insertPairAsc.mp ha with rfl | ha
        · unfold pairLt
          have : ¬ (a.1 = z.1 ∧ a.2 = z.2) := fun h => hxz (Prod.ext h.1 h.2)
          omega
        · exact hz a ha

/-- `resolve topic` = exactly the `(author, log)` pairs associated with the topic, without repetition. -/
theorem c09_resolve_exact (t : List Triple) (topic : Nat) :
    (∀ a l, (a, l) ∈ resolve t topic ↔ (topic, a, l) ∈ t) ∧ (resolve t topic).Nodup := by
  have hmem : ∀ (ps : List (Nat × Nat)) (p : Nat × Nat), p ∈ ps.foldr insertPairAsc [] ↔ p ∈ ps := by
    intro ps p
    induction ps with
    | nil => simp
    | cons q qs ih => simp only [List.foldr_cons, mem_insertPairAsc, ih, List.mem_cons]
  have hsorted : ∀ (ps : List (Nat × Nat)), (ps.foldr insertPairAsc []).Pairwise pairLt := by
    intro ps
    induction ps with
    | nil => simp
    | cons q qs ih => exact insertPairAsc_sorted ih
  constructor
  · intro a l
    simp only [resolve, hmem, List.mem_map, List.mem_filter]
    constructor
    · rintro ⟨⟨t', a', l'⟩, ⟨hin, ht⟩, hp⟩
      simp at ht hp
      obtain ⟨rfl, rfl⟩ := hp
      subst ht
      exact hin
    · intro h
      exact ⟨(topic, a, l), ⟨h, by simp⟩, rfl⟩
  · refine (hsorted _).imp ?_
    intro x y hlt hxy
    subst hxy
    unfold pairLt at hlt
    omega

/-! ### cursors: last write wins -/

private theorem cursorGet_cons (p : Nat × Nat) (t : List (Nat × Nat)) (n : Nat) :
    cursorGet (p :: t) n = if p.1 = n then some p.2 else cursorGet t n := by
  simp only [cursorGet, List.find?_cons]
  by_cases h : p.1 = n
  · simp [h]
  · have hb : (p.1 == n) = false := by simpa using h
    simp [hb, h]

private theorem cursorGet_none_of_not_any {t : List (Nat × Nat)} {n : Nat}
    (h : t.any (fun p => p.1 == n) = false) : cursorGet t n = none := by
  induction t with
  | nil => simp [cursorGet]
  | cons p ps ih =>
    simp only [List.any_cons, Bool.or_eq_false_iff] at h
    rw [cursorGet_cons]
    have : ¬ p.1 = n := by simpa using h.1
    simp [this, ih h.2]

private theorem cursorGet_append (t : List (Nat × Nat)) (q : Nat × Nat) (n : Nat) :
    cursorGet (t ++ [q]) n = match cursorGet t n with
      | some v => some v
      | none => if q.1 = n then some q.2 else none := by
  induction t with
  | nil => simp [cursorGet_cons, cursorGet]
  | cons p ps ih =>
    simp only [List.cons_append, cursorGet_cons]
    by_cases h : p.1 = n <;> simp [h, ih]

private theorem cursorGet_isSome_of_any {t : List (Nat × Nat)} {n : Nat}
    (h : t.any (fun p => p.1 == n) = true) : ∃ v, cursorGet t n = some v := by
  induction t with
  | nil => simp at h
  | cons p ps ih =>
    rw [cursorGet_cons]
    by_cases hp : p.1 = n
    · exact ⟨p.2, by simp [hp]⟩
    · simp only [List.any_cons, Bool.or_eq_true] at h
      rcases h with h | h
      · exact absurd (by simpa using h) hp
      · simp [hp, ih h]

private theorem cursorGet_map_set (t : List (Nat × Nat)) (n v n' : Nat) :
    cursorGet (t.map (fun p => if p.1 == n then (n, v) else p)) n' =
      if n' = n then (cursorGet t n).map (fun _ => v) else cursorGet t n' := by
  induction t with
  | nil => by_cases h : n' = n <;> simp [cursorGet, h]
  | cons p ps ih =>
    simp only [List.map_cons, cursorGet_cons]
    by_cases hp : p.1 = n
    · by_cases hn : n' = n
      · simp [hp, hn]
      · have h1 : ¬ n = n' := fun h => hn h.symm
        simp [hp, hn, h1] at ih ⊢
        exact ih
    · by_cases hn : n' = n
      · subst hn
        simp [hp] at ih ⊢
        exact ih
      · by_cases hpn : p.1 = n'
        · simp [hp, hn, hpn]
        · simp [hp, hn, hpn] at ih ⊢
          exact ih

/-- One step: after `set_cursor(name, v)` the name reads `v` and every other name reads as before; after
    `delete_cursor(name)` the name reads `None` and every other name reads as before. -/
theorem c09_cursor_set_get (t : List (Nat × Nat)) (n v : Nat) :
    (∀ n', cursorGet (cursorSet t n v) n' = if n' = n then some v else cursorGet t n') ∧
    (∀ n', cursorGet (cursorDel t n) n' = if n' = n then none else cursorGet t n') := by
  constructor
  · intro n'
    simp only [cursorSet]
    by_cases hany : t.any (fun p => p.1 == n) = true
    · simp only [hany, if_true]
      rw [cursorGet_map_set]
      obtain ⟨w, hw⟩ := cursorGet_isSome_of_any hany
      by_cases hn : n' = n <;> simp [hn, hw]
    · have hany' : t.any (fun p => p.1 == n) = false := by
        cases hb : t.any (fun p => p.1 == n)
        · rfl
        · exact absurd hb hany
      simp only [hany', Bool.false_eq_true, if_false]
      rw [cursorGet_append]
      by_cases hn : n' = n
      · subst hn
        simp [cursorGet_none_of_not_any hany']
      · have : ¬ n = n' := fun h => hn h.symm
        simp [hn, this]
        cases cursorGet t n' <;> simp
  · intro n'
    simp only [cursorDel]
    induction t with
    | nil => simp [cursorGet]
    | cons p ps ih =>
      simp only [List.filter_cons]
      by_cases hp : p.1 = n
      · by_cases hn : n' = n
        · simp [hp, hn] at ih ⊢; exact ih
        · have h1 : ¬ n = n' := fun h => hn h.symm
          simp [hp, hn, cursorGet_cons, h1] at ih ⊢
          exact ih
      · have hne : (p.1 != n) = true := by simp [hp]
        simp only [hne, if_true, cursorGet_cons]
        by_cases hpn : p.1 = n'
        · have : ¬ n' = n := fun h => hp (hpn.trans h)
          simp [hpn, this]
        · simp [hpn]; exact ih

/-- A write to the cursor table. -/
inductive CurOp where
  | set (n v : Nat)
  | del (n : Nat)

def applyCur (t : List (Nat × Nat)) : CurOp → List (Nat × Nat)
  | .set n v => cursorSet t n v
  | .del n => cursorDel t n

/-- What the last write under name `n` left (`acc` = what was there before the history). -/
def lastWrite (n : Nat) (acc : Option Nat) : CurOp → Option Nat
  | .set m v => if m = n then some v else acc
  | .del m => if m = n then none else acc

/-- **Last write wins**, for every history of `set_cursor` / `delete_cursor` calls and every name: a read
    returns the value of the last `set` under that name, `None` if the last write under that name was a
    `delete` (or there was none), independent of everything written under other names. -/
theorem c09_cursor_last_write_wins (ops : List CurOp) (t : List (Nat × Nat)) (n : Nat) :
    cursorGet (ops.foldl applyCur t) n = ops.foldl (lastWrite n) (cursorGet t n) := by
  induction ops generalizing t with
  | nil => rfl
  | cons op ops ih =>
    simp only [List.foldl_cons]
    rw [ih]
    congr 1
    cases op with
    | set m v =>
      simp only [applyCur, lastWrite]
      rw [(c09_cursor_set_get t m v).1 n]
      by_cases h : n = m
      · subst h; simp
      · have : ¬ m = n := fun h' => h h'.symm
        simp [h, this]
    | del m =>
      simp only [applyCur, lastWrite]
      rw [(c09_cursor_set_get t m 0).2 n]
      by_cases h : n = m
      · subst h; simp
      · have : ¬ m = n := fun h' => h h'.symm
        simp [h, this]

/-! ### transactions as seen by these stores (the protocol itself is C10) -/

/-- A rolled-back or dropped transaction leaves the committed tables exactly as they were; a committed one
    publishes exactly its working copy. -/
theorem c09_tx_visibility (o : SqlOps) (p : Bool) (s : St) (w : DB) (h : s.work = some w) :
    (exec o p s .rollback).1.db = s.db ∧ (exec o p s .drop).1.db = s.db ∧ (exec o p s .commit).1.db = w ∧
    (exec o p s .rollback).1.work = none ∧ (exec o p s .drop).1.work = none ∧ (exec o p s .commit).1.work = none := by
  simp [exec, h]

/-! ### non-vacuity -/

private def r0 : Row := { id := 0, author := 0, log := 0, seq := 0, hsize := 100, psize := 5, body := true }
private def r0' : Row := { id := 0, author := 1, log := 3, seq := 9, hsize := 1, psize := 1, body := false }
private def r1 : Row := { id := 1, author := 0, log := 0, seq := 1, hsize := 101, psize := 0, body := false }

example : insertOp [r1] r0 = ([r1, r0], true) := by decide
example : insertOp [r1, r0] r0' = ([r1, r0], false) := by decide
example : getId (deletePayload [r1, r0] 0).1 0 = some { r0 with body := false } := by decide
example : (deleteOp [r1, r0] 1) = ([r0], true) := by decide
example : UniqueIds [r1, r0] := by unfold UniqueIds; decide
example : resolve [(0, 2, 5), (1, 0, 0), (0, 1, 7), (0, 2, 1)] 0 = [(1, 7), (2, 1), (2, 5)] := by decide
example : (associate [(0, 1, 7)] (0, 1, 7)).2 = false := by decide
example : cursorGet ([CurOp.set 1 5, .set 2 6, .set 1 7, .del 2].foldl applyCur []) 1 = some 7 := by decide
example : cursorGet ([CurOp.set 1 5, .set 2 6, .set 1 7, .del 2].foldl applyCur []) 2 = none := by decide
example : (run [.begin, .ins r0, .ins r0', .getTx 0, .rollback, .get 0, .ins r0, .begin, .ins r0, .drop,
                .begin, .ins r0, .commit, .get 0, .delp 0, .get 0]).2 =
    [.ok, .bool true, .bool false, .op (some (0, true)), .ok, .op none, .notx, .ok, .bool true, .ok,
     .ok, .bool true, .ok, .op (some (0, true)), .bool true, .op (some (0, false))] := by decide

end P2.C09
