/-
C13 — Processor streams deliver every output exactly once and in order.

Model: `P2/Model/ProcStream.lean`. Theorems hold for **every** schedule of the transition systems
(arbitrary arrival times, processing delays, polling times, any number of items).
-/
import P2.Model.ProcStream
import Batteries.Data.List.Perm

namespace P2.C13
open P2.ProcStream

/-! ## Single layer -/

private theorem perm_eraseIdx (l : List Nat) (i x : Nat) (h : l[i]? = some x) : l.Perm (x :: l.eraseIdx i) := by
  induction l generalizing i with
  | nil => simp at h
  | cons y l ih =>
    cases i with
    | zero => simp at h; subst h; simp
    | succ i =>
      simp only [List.getElem?_cons_succ] at h
      simp only [List.eraseIdx_cons_succ]
      exact ((ih i h).cons y).trans (List.Perm.swap x y _)

theorem stepS_perm (s s' : SL) (a : ActS) (h : stepS s a = some s') : (seqS s').Perm (seqS s) := by
  obtain ⟨src, inCh, busy, box, outCh, yielded⟩ := s
  cases a with
  | pull =>
    cases src <;> simp [stepS] at h
    subst h; simp [seqS]
  | recv =>
    cases busy <;> cases inCh <;> simp [stepS] at h
    subst h; simp [seqS]
  | procDone =>
    cases busy <;> simp [stepS] at h
    subst h; simp [seqS]
  | yld =>
    cases outCh <;> simp [stepS] at h
    subst h; simp [seqS]
  | nextAt i =>
    cases busy with
    | some b => simp [stepS] at h
    | none =>
      cases hx : box[i]? with
      | none => simp [stepS, hx] at h
      | some x =>
        simp [stepS, hx] at h
        subst h
        simp only [seqS, Option.toList, List.append_assoc, List.nil_append, List.singleton_append]
        refine List.Perm.append_left _ (List.Perm.append_left _ ?_)
        exact List.Perm.append_right _ (perm_eraseIdx box i x hx).symm

theorem stepS_fifo (s s' : SL) (a : ActS) (hf : ∀ i, a = ActS.nextAt i → i = 0) (h : stepS s a = some s') :
    seqS s' = seqS s := by
  obtain ⟨src, inCh, busy, box, outCh, yielded⟩ := s
  cases a with
  | pull =>
    cases src <;> simp [stepS] at h
    subst h; simp [seqS]
  | recv =>
    cases busy <;> cases inCh <;> simp [stepS] at h
    subst h; simp [seqS]
  | procDone =>
    cases busy <;> simp [stepS] at h
    subst h; simp [seqS]
  | yld =>
    cases outCh <;> simp [stepS] at h
    subst h; simp [seqS]
  | nextAt i =>
    have := hf i rfl
    subst this
    cases busy <;> cases box <;> simp [stepS] at h
    subst h; simp [seqS]

theorem runS_perm (acts : List ActS) : ∀ (s s' : SL), runS s acts = some s' → (seqS s').Perm (seqS s) := by
  induction acts with
  | nil => intro s s' h; simp only [runS, Option.some.injEq] at h; subst h; exact List.Perm.refl _
  | cons a acts ih =>
    intro s s' h
    simp only [runS] at h
    cases hs : stepS s a with
    | none => simp [hs] at h
    | some s1 => simp only [hs] at h; exact (ih s1 s' h).trans (stepS_perm s s1 a hs)

theorem runS_fifo (acts : List ActS) : ∀ (s s' : SL), fifoS acts = true → runS s acts = some s' → seqS s' = seqS s := by
  induction acts with
  | nil => intro s s' _ h; simp only [runS, Option.some.injEq] at h; subst h; rfl
  | cons a acts ih =>
    intro s s' hf h
    simp only [runS] at h
    cases hs : stepS s a with
    | none => simp [hs] at h
    | some s1 =>
      simp only [hs] at h
      have hf' : fifoS acts = true ∧ ∀ i, a = ActS.nextAt i → i = 0 := by
        cases a <;> simp_all [fifoS]
      exact (ih s1 s' hf'.1 h).trans (stepS_fifo s s1 a hf'.2 hs)

/-- **Single layer, exactly once**: in every reachable state the items in flight plus the items yielded are
    exactly the inputs (as a multiset) — nothing is lost or duplicated, whatever the processor's
    release order and whenever `next` futures are dropped. -/
theorem c13_single_layer (inputs : List Nat) (acts : List ActS) (s : SL)
    (h : runS (initS inputs) acts = some s) : (seqS s).Perm inputs := by
  have := runS_perm acts (initS inputs) s h
  simpa [seqS, initS] using this

/-- **Single layer, order**: with a FIFO processor the concatenation of all stages *is* the input
    sequence; in particular the yielded items are a prefix of the inputs, in input order. -/
theorem c13_single_layer_fifo (inputs : List Nat) (acts : List ActS) (s : SL) (hf : fifoS acts = true)
    (h : runS (initS inputs) acts = some s) : seqS s = inputs ∧ s.yielded <+: inputs := by
  have := runS_fifo acts (initS inputs) s hf h
  have h1 : seqS s = inputs := by simpa [seqS, initS] using this
  refine ⟨h1, ?_⟩
  rw [← h1]
  simp only [seqS, List.append_assoc]
  exact List.prefix_append _ _

/-- Exactly-once, spelled out: no item is yielded more often than it was put in. -/
theorem c13_single_layer_count (inputs : List Nat) (acts : List ActS) (s : SL)
    (h : runS (initS inputs) acts = some s) (x : Nat) : s.yielded.count x ≤ inputs.count x := by
  have := (c13_single_layer inputs acts s h).count_eq x
  simp only [seqS, List.count_append] at this
  omega

/-- **Every output is delivered**: a state in which no transition is enabled has yielded all inputs
    (in order for a FIFO processor). -/
theorem c13_single_layer_complete (inputs : List Nat) (acts : List ActS) (s : SL)
    (h : runS (initS inputs) acts = some s) (hstuck : ∀ a, stepS s a = none) :
    s.yielded.Perm inputs ∧ (fifoS acts = true → s.yielded = inputs) := by
  have hsrc : s.src = [] := by
    cases hs : s.src with
    | nil => rfl
    | cons x r => have := hstuck ActS.pull; simp [stepS, hs] at this
  have hout : s.outCh = [] := by
    cases hs : s.outCh with
    | nil => rfl
    | cons x r => have := hstuck ActS.yld; simp [stepS, hs] at this
  have hbusy : s.busy = none := by
    cases hs : s.busy with
    | none => rfl
    | some x => have := hstuck ActS.procDone; simp [stepS, hs] at this
  have hin : s.inCh = [] := by
    cases hs : s.inCh with
    | nil => rfl
    | cons x r => have := hstuck ActS.recv; simp [stepS, hs, hbusy] at this
  have hbox : s.box = [] := by
    cases hs : s.box with
    | nil => rfl
    | cons x r => have := hstuck (ActS.nextAt 0); simp [stepS, hs, hbusy] at this
  have hseq : seqS s = s.yielded := by simp [seqS, hsrc, hout, hbusy, hin, hbox]
  refine ⟨hseq ▸ c13_single_layer inputs acts s h, fun hf => ?_⟩
  rw [← hseq]; exact (c13_single_layer_fifo inputs acts s hf h).1

/-! ## Composed processors -/

theorem stepC_guard (s s' : CS) (a : ActC) (h : stepC true s a = some s') :
    seqC s' = seqC s ∧ s'.lost = s.lost := by
  obtain ⟨src, inCh, busy, box1, hand, box2, outCh, yielded, lost⟩ := s
  cases a with
  | pull =>
    cases src <;> simp [stepC] at h
    subst h; simp [seqC]
  | recv =>
    cases busy <;> cases inCh <;> cases hand <;> simp [stepC] at h
    subst h; simp [seqC]
  | procDone =>
    cases busy <;> simp [stepC] at h
    subst h; simp [seqC]
  | firstWins =>
    cases busy <;> cases hand <;> cases box1 <;> simp [stepC] at h
    subst h; simp [seqC]
  | handDone =>
    cases busy <;> cases hand <;> simp [stepC] at h
    subst h; simp [seqC]
  | secondWins =>
    cases busy <;> cases hand <;> cases box2 <;> simp [stepC] at h
    subst h; simp [seqC]
  | yld =>
    cases outCh <;> simp [stepC] at h
    subst h; simp [seqC]

/-- **Composition, partial**: when the second stage's `process` never yields (the hand-over cannot be
    interrupted), `ComposedProcessors` preserves the input sequence exactly: nothing lost, nothing
    duplicated, order kept, for every schedule. -/
theorem c13_composed_partial (inputs : List Nat) (acts : List ActC) (s : CS)
    (h : runC true (initC inputs) acts = some s) :
    seqC s = inputs ∧ s.lost = [] ∧ s.yielded <+: inputs := by
  have key : ∀ (acts : List ActC) (s s' : CS), runC true s acts = some s' → seqC s' = seqC s ∧ s'.lost = s.lost := by
    intro acts
    induction acts with
    | nil => intro s s' h; simp only [runC, Option.some.injEq] at h; subst h; exact ⟨rfl, rfl⟩
    | cons a acts ih =>
      intro s s' h
      simp only [runC] at h
      cases hs : stepC true s a with
      | none => simp [hs] at h
      | some s1 =>
        simp only [hs] at h
        have h1 := stepC_guard s s1 a hs
        have h2 := ih s1 s' h
        exact ⟨h2.1.trans h1.1, h2.2.trans h1.2⟩
  have := key acts (initC inputs) s h
  have h1 : seqC s = inputs := by simpa [seqC, initC] using this.1
  refine ⟨h1, by simpa [initC] using this.2, ?_⟩
  rw [← h1]; simp only [seqC, List.append_assoc]; exact List.prefix_append _ _

/-- Full statement for `ComposedProcessors` (with or without an interruptible hand-over). -/
def ComposedStatement (guard : Bool) : Prop :=
  ∀ (inputs : List Nat) (acts : List ActC) (s : CS), runC guard (initC inputs) acts = some s → seqC s = inputs

theorem c13_composed_guarded : ComposedStatement true :=
  fun inputs acts s h => (c13_composed_partial inputs acts s h).1

/-- **The pinned code loses an item**: item 0 has been taken out of the first stage and is being handed
    to the second (`second.process(0)` pending) when item 1 arrives; `Buffer` drops the `next()` future —
    0 is in neither stage, not yielded, gone. -/
theorem c13_composed_orig_violates :
    ∃ s, runC false (initC [0, 1]) [ActC.pull, ActC.recv, ActC.procDone, ActC.firstWins, ActC.pull, ActC.recv] = some s
      ∧ 0 ∉ seqC s ∧ s.lost = [0] := by
  refine ⟨_, rfl, ?_, ?_⟩ <;> decide

theorem c13_composed_not_safe : ¬ ComposedStatement false := by
  intro h
  have := h [0, 1] [ActC.pull, ActC.recv, ActC.procDone, ActC.firstWins, ActC.pull, ActC.recv] _ rfl
  revert this; decide

private theorem filter_ne_split (l a b : List Nat) (i : Nat) (hn : l.Nodup) (h : l = a ++ i :: b) :
    l.filter (fun x => x != i) = a ++ b := by
  subst h
  rw [List.nodup_append] at hn
  obtain ⟨_, hb, hab⟩ := hn
  rw [List.nodup_cons] at hb
  have ha : ∀ x ∈ a, (x != i) = true := by
    intro x hx; simp only [bne_iff_ne, ne_eq]; intro hh; exact hab x hx i (by simp) hh
  have hb' : ∀ x ∈ b, (x != i) = true := by
    intro x hx; simp only [bne_iff_ne, ne_eq]; intro hh; subst hh; exact hb.1 hx
  simp [List.filter_append, List.filter_cons, List.filter_eq_self.2 ha, List.filter_eq_self.2 hb']

/-- One step of the unguarded system either keeps the sequence, or cancels a hand-over. -/
theorem stepC_cases (s s1 : CS) (a : ActC) (hnd : (seqC s).Nodup) (hs : stepC false s a = some s1) :
    (seqC s1 = seqC s ∧ s1.lost = s.lost) ∨
    (∃ i, s.hand = some i ∧ a = ActC.recv ∧ s1.lost = s.lost ++ [i] ∧
      seqC s1 = (seqC s).filter (fun x => x != i)) := by
  obtain ⟨src, inCh, busy, box1, hand, box2, outCh, yielded, lost⟩ := s
  cases a with
  | pull =>
    cases src <;> simp [stepC] at hs
    subst hs; left; simp [seqC]
  | recv =>
    cases busy <;> cases inCh <;> simp [stepC] at hs
    rename_i x r
    subst hs
    cases hand with
    | none => left; simp [seqC]
    | some i =>
      right
      refine ⟨i, rfl, rfl, by simp, ?_⟩
      have := filter_ne_split _ (yielded ++ outCh ++ box2) (box1 ++ (x :: r) ++ src) i hnd
        (by simp [seqC, List.append_assoc])
      rw [this]; simp [seqC]
  | procDone =>
    cases busy <;> simp [stepC] at hs
    subst hs; left; simp [seqC]
  | firstWins =>
    cases busy <;> cases hand <;> cases box1 <;> simp [stepC] at hs
    subst hs; left; simp [seqC]
  | handDone =>
    cases busy <;> cases hand <;> simp [stepC] at hs
    subst hs; left; simp [seqC]
  | secondWins =>
    cases busy <;> cases hand <;> cases box2 <;> simp [stepC] at hs
    subst hs; left; simp [seqC]
  | yld =>
    cases outCh <;> simp [stepC] at hs
    subst hs; left; simp [seqC]

/-- **Accounting for the pinned code** (what the harness' prediction rests on): with distinct inputs, in
    every reachable state the stages hold, in input order, exactly the inputs whose hand-over was not
    cancelled — an item is missing from the output iff `next()` was dropped while it was handed over. -/
theorem c13_composed_accounting (inputs : List Nat) (hn : inputs.Nodup) (acts : List ActC) (s : CS)
    (h : runC false (initC inputs) acts = some s) : seqC s = expected inputs s.lost := by
  have key : ∀ (acts : List ActC) (s s' : CS), seqC s = expected inputs s.lost → runC false s acts = some s' →
      seqC s' = expected inputs s'.lost := by
    intro acts
    induction acts with
    | nil => intro s s' hinv h; simp only [runC, Option.some.injEq] at h; subst h; exact hinv
    | cons a acts ih =>
      intro s s' hinv h
      simp only [runC] at h
      cases hs : stepC false s a with
      | none => simp [hs] at h
      | some s1 =>
        simp only [hs] at h
        have hnd : (seqC s).Nodup := by rw [hinv]; exact hn.filter _
        refine ih s1 s' ?_ h
        rcases stepC_cases s s1 a hnd hs with ⟨h1, h2⟩ | ⟨i, _, _, h2, h1⟩
        · rw [h1, h2]; exact hinv
        · rw [h1, h2, hinv]
          unfold expected
          rw [List.filter_filter]
          congr 1
          funext x
          simp only [List.contains_append, List.contains_cons, List.contains_nil, Bool.or_false, Bool.not_or]
          simp only [bne]
          cases s.lost.contains x <;> cases (x == i) <;> rfl
  exact key acts (initC inputs) s (by simp only [seqC, initC, expected, List.nil_append, Option.toList, List.append_nil, List.contains_nil, Bool.not_false]; exact (List.filter_eq_self.2 (fun _ _ => rfl)).symm) h

/-- Every output that was not lost in a hand-over is delivered: a stuck state has yielded exactly
    `expected inputs lost`. -/
theorem c13_composed_complete (inputs : List Nat) (hn : inputs.Nodup) (acts : List ActC) (s : CS)
    (h : runC false (initC inputs) acts = some s) (hstuck : ∀ a, stepC false s a = none) :
    s.yielded = expected inputs s.lost := by
  have hsrc : s.src = [] := by
    cases hs : s.src with
    | nil => rfl
    | cons x r => have := hstuck ActC.pull; simp [stepC, hs] at this
  have hout : s.outCh = [] := by
    cases hs : s.outCh with
    | nil => rfl
    | cons x r => have := hstuck ActC.yld; simp [stepC, hs] at this
  have hbusy : s.busy = none := by
    cases hs : s.busy with
    | none => rfl
    | some x => have := hstuck ActC.procDone; simp [stepC, hs] at this
  have hin : s.inCh = [] := by
    cases hs : s.inCh with
    | nil => rfl
    | cons x r => have := hstuck ActC.recv; simp [stepC, hs, hbusy] at this
  have hhand : s.hand = none := by
    cases hs : s.hand with
    | none => rfl
    | some x => have := hstuck ActC.handDone; simp [stepC, hs, hbusy] at this
  have hb1 : s.box1 = [] := by
    cases hs : s.box1 with
    | nil => rfl
    | cons x r => have := hstuck ActC.firstWins; simp [stepC, hs, hbusy, hhand] at this
  have hb2 : s.box2 = [] := by
    cases hs : s.box2 with
    | nil => rfl
    | cons x r => have := hstuck ActC.secondWins; simp [stepC, hs, hbusy, hhand] at this
  have := c13_composed_accounting inputs hn acts s h
  simpa [seqC, hsrc, hout, hbusy, hin, hhand, hb1, hb2] using this

/-! ## Non-vacuity -/

example : (runS (initS [1, 2, 3]) [ActS.pull, ActS.recv, ActS.pull, ActS.procDone, ActS.recv, ActS.procDone, ActS.nextAt 0,
    ActS.pull, ActS.recv, ActS.yld, ActS.procDone, ActS.nextAt 0, ActS.nextAt 0, ActS.yld, ActS.yld]).map (·.yielded)
    = some [1, 2, 3] := by decide

example : (runC false (initC [0, 1, 2]) [ActC.pull, ActC.recv, ActC.procDone, ActC.firstWins, ActC.pull, ActC.recv,
    ActC.procDone, ActC.firstWins, ActC.handDone, ActC.secondWins, ActC.pull, ActC.yld, ActC.recv, ActC.procDone,
    ActC.firstWins, ActC.handDone, ActC.secondWins, ActC.yld]).map (fun s => (s.yielded, s.lost)) = some ([1, 2], [0]) := by
  decide

example : expected [0, 1, 2] [0] = [1, 2] := by decide

end P2.C13
