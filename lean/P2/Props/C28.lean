/-
C28 — Discovery backoff stays within its configured bounds.

Model: `P2/Model/Backoff.lean` (milliseconds as `Nat`, time and the two random draws are explicit
arguments).  `increment` is the repaired code (clamp in the same call), `incrementOrig` the pinned
code.  The default configuration is re-extracted from the source on every run
(`P2/Extracted/C28.lean`) and its well-formedness is a theorem here.
-/
import P2.Model.Backoff
import P2.Extracted.C28

namespace P2.C28
open P2.Backoff

/-- Well-formed configuration (the hypotheses of the bounds theorem; the last two are also exactly
what keeps `random_range` from panicking). -/
structure WF (c : Config) : Prop where
  init_le_max : c.initial ≤ c.max
  inc_range   : c.minInc < c.maxInc
  reset_range : c.minReset < c.maxReset

/-- The configuration `Config::default()` of the current source text. -/
def defaultConfig : Config :=
  { initial := P2.Extracted.C28.defInitial, minInc := P2.Extracted.C28.defMinInc,
    maxInc := P2.Extracted.C28.defMaxInc, max := P2.Extracted.C28.defMax,
    minReset := P2.Extracted.C28.defMinReset, maxReset := P2.Extracted.C28.defMaxReset }

/-- The extracted default configuration is well-formed. -/
theorem c28_default_wf : WF defaultConfig := by
  constructor <;> decide

/-- Admissible draws of one call: what `random_range(min..max)` can return. -/
def Op.Admissible (c : Config) : Op → Prop
  | .inc _ rInc rReset => c.minInc ≤ rInc ∧ rInc < c.maxInc ∧ c.minReset ≤ rReset ∧ rReset < c.maxReset
  | .reset _ rReset => c.minReset ≤ rReset ∧ rReset < c.maxReset

instance (c : Config) (o : Op) : Decidable (Op.Admissible c o) := by
  cases o <;> unfold Op.Admissible <;> infer_instance

/-- Times of the calls never go backwards (monotonic `Instant`), starting from `t`. -/
def TimesFrom : Nat → List Op → Prop
  | _, [] => True
  | t, o :: os => t ≤ o.now ∧ TimesFrom o.now os

instance : (t : Nat) → (ops : List Op) → Decidable (TimesFrom t ops)
  | _, [] => isTrue trivial
  | t, o :: os =>
    have := instDecidableTimesFrom o.now os
    by unfold TimesFrom; infer_instance

/-- The bounds the property speaks about. -/
def InBounds (c : Config) (s : State) : Prop := c.initial ≤ s.value ∧ s.value ≤ c.max

instance (c : Config) (s : State) : Decidable (InBounds c s) := by unfold InBounds; infer_instance

/-! ### Tie to the source text -/

/-- The model's `increment` is, component by component, the Lean term that `rs2lean` regenerates from
the current body of `Backoff::increment` (with `reset` inlined) on every run. -/
theorem c28_model_is_source (c : Config) (s : State) (now rInc rReset : Nat) :
    ((increment c s now rInc rReset).value, (increment c s now rInc rReset).resetAfter)
      = P2.Extracted.C28.backoffIncrement s.value c.max c.initial rInc rReset (now - s.lastReset) s.resetAfter := by
  unfold increment P2.Extracted.C28.backoffIncrement resetDue bump reset
  by_cases h : now - s.lastReset ≥ s.resetAfter <;> simp [h]

/-- The two random draws are taken from the half-open ranges `min_increment..max_increment` and
`min_reset..max_reset` (range operator and bounds re-extracted from `random_increment` /
`random_reset_after`): exactly what `Op.Admissible` allows; and `Backoff::new` starts from
`initial_value` and calls `reset()` (the model's `new = reset`). -/
theorem c28_draw_ranges_are_source :
    P2.Extracted.C28.incRangeInclusive = false ∧ P2.Extracted.C28.resetRangeInclusive = false
    ∧ P2.Extracted.C28.newStartsWith = "config.initial_value" := by decide

/-! ### Bounds -/

theorem bump_bounds (c : Config) (v rInc : Nat) (hc : c.initial ≤ c.max)
    (hv : c.initial ≤ v ∧ v ≤ c.max) : c.initial ≤ bump c v rInc ∧ bump c v rInc ≤ c.max := by
  unfold bump
  have : Nat.min (v + rInc) c.max ≤ c.max := Nat.min_le_right _ _
  have h2 : c.initial ≤ Nat.min (v + rInc) c.max := by
    apply Nat.le_min.2; omega
  split
  · omega
  · split <;> omega

theorem reset_bounds (c : Config) (now r : Nat) (hc : c.initial ≤ c.max) : InBounds c (reset c now r) := by
  simp [InBounds, reset, hc]

/-- One step preserves the bounds — for *any* draws and times (the clamp does not rely on the
draws being admissible). -/
theorem step_bounds (c : Config) (s : State) (o : Op) (hc : c.initial ≤ c.max) (hs : InBounds c s) :
    InBounds c (step c s o) := by
  cases o with
  | reset now r => exact reset_bounds c now r hc
  | inc now rInc rReset =>
    simp only [step, increment]
    split
    · exact reset_bounds c now rReset hc
    · exact bump_bounds c s.value rInc hc hs

theorem run_bounds (c : Config) (s : State) (ops : List Op) (hc : c.initial ≤ c.max) (hs : InBounds c s) :
    InBounds c (run c s ops) := by
  induction ops generalizing s with
  | nil => exact hs
  | cons o os ih => exact ih (step c s o) (step_bounds c s o hc hs)

/-- **C28, bounds.** For every well-formed configuration, every construction time and draw, and every
sequence of `increment`/`reset` calls at non-decreasing times with admissible draws, the delay is
never below `initial_value` and never above `max_value` — after the last call and (next theorem)
after every intermediate call. -/
theorem c28_bounds (c : Config) (hwf : WF c) (t0 r0 : Nat) (ops : List Op)
    (_hadm : ∀ o ∈ ops, Op.Admissible c o) (_htimes : TimesFrom t0 ops) :
    InBounds c (run c (new c t0 r0) ops) :=
  run_bounds c _ ops hwf.init_le_max (reset_bounds c t0 r0 hwf.init_le_max)

/-- Same, for every intermediate state of the history. -/
theorem c28_bounds_everywhere (c : Config) (hwf : WF c) (t0 r0 : Nat) (ops : List Op) :
    ∀ s ∈ trace c (new c t0 r0) ops, InBounds c s := by
  have key : ∀ (ops : List Op) (s0 : State), InBounds c s0 → ∀ s ∈ trace c s0 ops, InBounds c s := by
    intro ops
    induction ops with
    | nil => intro s0 _ s hs; simp [trace] at hs
    | cons o os ih =>
      intro s0 h0 s hs
      simp only [trace, List.mem_cons] at hs
      have h1 := step_bounds c s0 o hwf.init_le_max h0
      rcases hs with rfl | hs
      · exact h1
      · exact ih _ h1 s hs
  exact key ops _ (reset_bounds c t0 r0 hwf.init_le_max)

/-- For the configuration the source text defines as default. -/
theorem c28_bounds_default (t0 r0 : Nat) (ops : List Op) :
    InBounds defaultConfig (run defaultConfig (new defaultConfig t0 r0) ops) :=
  run_bounds _ _ ops c28_default_wf.init_le_max (reset_bounds _ t0 r0 c28_default_wf.init_le_max)

/-! ### Reset rule -/

/-- **C28, reset.** An `increment` at a time at least `reset_after` after the last reset leaves the
delay at `initial_value` (and starts a new interval with the fresh draw). -/
theorem c28_reset (c : Config) (s : State) (now rInc rReset : Nat)
    (hdue : s.lastReset + s.resetAfter ≤ now) :
    (increment c s now rInc rReset).value = c.initial
    ∧ (increment c s now rInc rReset).lastReset = now
    ∧ (increment c s now rInc rReset).resetAfter = rReset := by
  have h : resetDue { s with value := bump c s.value rInc } now = true := by
    simp only [resetDue, decide_eq_true_eq]; omega
  simp [increment, h, reset]

/-- Conversely: before the interval has elapsed an `increment` never resets — the value does not
decrease and the interval is kept. -/
theorem c28_no_early_reset (c : Config) (s : State) (now rInc rReset : Nat)
    (hs : s.value ≤ c.max) (hearly : now < s.lastReset + s.resetAfter) (hlr : s.lastReset ≤ now) :
    s.value ≤ (increment c s now rInc rReset).value
    ∧ (increment c s now rInc rReset).lastReset = s.lastReset
    ∧ (increment c s now rInc rReset).resetAfter = s.resetAfter := by
  have h : resetDue { s with value := bump c s.value rInc } now = false := by
    simp only [resetDue, decide_eq_false_iff_not]; omega
  simp only [increment, h]
  refine ⟨?_, rfl, rfl⟩
  show s.value ≤ bump c s.value rInc
  unfold bump
  split
  · omega
  · split
    · apply Nat.le_min.2; omega
    · omega

/-- The reset interval in force is always an admissible draw. -/
theorem c28_reset_after_range (c : Config) (t0 r0 : Nat) (ops : List Op)
    (h0 : c.minReset ≤ r0 ∧ r0 < c.maxReset) (hadm : ∀ o ∈ ops, Op.Admissible c o) :
    c.minReset ≤ (run c (new c t0 r0) ops).resetAfter ∧ (run c (new c t0 r0) ops).resetAfter < c.maxReset := by
  have key : ∀ (ops : List Op) (s : State), (c.minReset ≤ s.resetAfter ∧ s.resetAfter < c.maxReset) →
      (∀ o ∈ ops, Op.Admissible c o) →
      c.minReset ≤ (run c s ops).resetAfter ∧ (run c s ops).resetAfter < c.maxReset := by
    intro ops
    induction ops with
    | nil => intro s hs _; exact hs
    | cons o os ih =>
      intro s hs hadm
      apply ih (step c s o) _ (fun o' ho' => hadm o' (List.mem_cons_of_mem _ ho'))
      have ho := hadm o (List.mem_cons_self)
      cases o with
      | reset now r => simpa [step, reset, Op.Admissible] using ho
      | inc now rInc rReset =>
        simp only [step, increment]
        split
        · simpa [reset] using ho.2.2
        · exact hs
  exact key ops _ (by simpa [new, reset] using h0) hadm

/-- Progress towards the ceiling: `k` increments without a reset in between raise the delay to at
least `min(max, value + k·min_increment)` — with `min_increment ≥ 1` the ceiling is reached. -/
theorem c28_progress (c : Config) (s : State) (ops : List Op) (hs : s.value ≤ c.max)
    (hinc : ∀ o ∈ ops, ∃ now rInc rReset, o = .inc now rInc rReset ∧ c.minInc ≤ rInc
              ∧ s.lastReset ≤ now ∧ now < s.lastReset + s.resetAfter) :
    Nat.min c.max (s.value + ops.length * c.minInc) ≤ (run c s ops).value
    ∧ (run c s ops).value ≤ c.max := by
  induction ops generalizing s with
  | nil => simp [run]; exact ⟨Nat.min_le_right _ _, hs⟩
  | cons o os ih =>
    obtain ⟨now, rInc, rReset, rfl, hr, hl, he⟩ := hinc _ (List.mem_cons_self)
    have hne := c28_no_early_reset c s now rInc rReset hs he hl
    have hstep : step c s (.inc now rInc rReset) = increment c s now rInc rReset := rfl
    have hv : Nat.min c.max (s.value + rInc) ≤ (increment c s now rInc rReset).value
        ∧ (increment c s now rInc rReset).value ≤ c.max := by
      have h : resetDue { s with value := bump c s.value rInc } now = false := by
        simp only [resetDue, decide_eq_false_iff_not]; omega
      simp only [increment, h]
      show Nat.min c.max (s.value + rInc) ≤ bump c s.value rInc ∧ bump c s.value rInc ≤ c.max
      unfold bump
      have hm1 : Nat.min c.max (s.value + rInc) ≤ c.max := Nat.min_le_left _ _
      have hm2 : Nat.min c.max (s.value + rInc) ≤ s.value + rInc := Nat.min_le_right _ _
      have hm3 : Nat.min (s.value + rInc) c.max ≤ c.max := Nat.min_le_right _ _
      split
      · omega
      · split
        · refine ⟨?_, hm3⟩
          apply Nat.le_min.2; omega
        · omega
    have ih' := ih (increment c s now rInc rReset) hv.2 (by
      intro o ho
      obtain ⟨n', ri', rr', e, h1, h2, h3⟩ := hinc o (List.mem_cons_of_mem _ ho)
      exact ⟨n', ri', rr', e, h1, by rw [hne.2.1]; exact h2, by rw [hne.2.1, hne.2.2]; exact h3⟩)
    simp only [run, List.foldl_cons, hstep, List.length_cons] at ih' ⊢
    refine ⟨?_, ih'.2⟩
    refine Nat.le_trans ?_ ih'.1
    apply Nat.le_min.2
    have hm1 : Nat.min c.max (s.value + (os.length + 1) * c.minInc) ≤ c.max := Nat.min_le_left _ _
    have hm2 : Nat.min c.max (s.value + (os.length + 1) * c.minInc) ≤ s.value + (os.length + 1) * c.minInc :=
      Nat.min_le_right _ _
    refine ⟨hm1, ?_⟩
    have hm4 : Nat.min c.max (s.value + rInc) = c.max ∨ Nat.min c.max (s.value + rInc) = s.value + rInc := by
      rcases Nat.le_total c.max (s.value + rInc) with h | h
      · exact Or.inl (Nat.min_eq_left h)
      · exact Or.inr (Nat.min_eq_right h)
    have hexp : (os.length + 1) * c.minInc = os.length * c.minInc + c.minInc := Nat.succ_mul _ _
    rcases hm4 with h | h
    · -- already at the ceiling
      have : c.max ≤ (increment c s now rInc rReset).value := by omega
      omega
    · omega

/-! ### The pinned code violates the bound -/

/-- Full-strength statement for the *original* `increment` — false on the pinned tree. -/
def OrigBoundsStatement : Prop :=
  ∀ (c : Config), WF c → ∀ (t0 r0 : Nat) (ops : List Op), (∀ o ∈ ops, Op.Admissible c o) →
    InBounds c (runOrig c (new c t0 r0) ops)

/-- Default configuration, delay 29 s, admissible draw 4 999 ms ⇒ 33 999 ms > 30 000 ms. -/
theorem c28_orig_violates :
    (incrementOrig defaultConfig { value := 29000, lastReset := 0, resetAfter := 60000 } 10 4999 60000).value
      = 33999 ∧ ¬ (33999 ≤ defaultConfig.max) := by decide

/-- …and it is reachable from `new` by admissible calls: the full statement fails for the pinned code. -/
theorem c28_orig_statement_false : ¬ OrigBoundsStatement := by
  intro h
  have := h defaultConfig c28_default_wf 0 60000
    [.inc 1 4999 60000, .inc 2 4999 60000, .inc 3 4999 60000, .inc 4 4999 60000,
     .inc 5 4999 60000, .inc 6 4005 60000, .inc 7 4999 60000]
    (by decide)
  revert this
  decide

/-- What the pinned code does guarantee: the overshoot is below one increment. -/
theorem c28_orig_bounds_partial (c : Config) (hwf : WF c) (t0 r0 : Nat) (ops : List Op)
    (hadm : ∀ o ∈ ops, Op.Admissible c o) :
    c.initial ≤ (runOrig c (new c t0 r0) ops).value ∧ (runOrig c (new c t0 r0) ops).value < c.max + c.maxInc := by
  have hc := hwf.init_le_max
  have hpos : 0 < c.maxInc := Nat.lt_of_le_of_lt (Nat.zero_le _) hwf.inc_range
  have key : ∀ (ops : List Op) (s : State), (c.initial ≤ s.value ∧ s.value < c.max + c.maxInc) →
      (∀ o ∈ ops, Op.Admissible c o) →
      c.initial ≤ (runOrig c s ops).value ∧ (runOrig c s ops).value < c.max + c.maxInc := by
    intro ops
    induction ops with
    | nil => intro s hs _; exact hs
    | cons o os ih =>
      intro s hs hadm
      apply ih (stepOrig c s o) _ (fun o' ho' => hadm o' (List.mem_cons_of_mem _ ho'))
      have ho := hadm o (List.mem_cons_self)
      cases o with
      | reset now r => simp only [stepOrig, reset]; omega
      | inc now rInc rReset =>
        simp only [stepOrig, incrementOrig]
        have hr : rInc < c.maxInc := ho.2.1
        split
        · simp only [reset]; omega
        · show c.initial ≤ bumpOrig c s.value rInc ∧ bumpOrig c s.value rInc < c.max + c.maxInc
          unfold bumpOrig
          split
          · omega
          · split <;> omega
  exact key ops _ (by simp only [new, reset]; omega) hadm

/-! ### Non-vacuity -/

example : WF defaultConfig := c28_default_wf
example : WF { initial := 500, minInc := 10, maxInc := 2000, max := 7000, minReset := 1500, maxReset := 4000 } := by
  constructor <;> decide
-- a history that reaches the clamp window (29 s < 30 s, then an increment) and a reset
example :
    (trace defaultConfig (new defaultConfig 0 60000)
      [.inc 1 4999 60000, .inc 2 4999 60000, .inc 3 4999 60000, .inc 4 4999 60000, .inc 5 4999 60000,
       .inc 6 4005 60000, .inc 7 4999 60000, .inc 8 1000 60000, .inc 60000 1000 61000, .inc 60001 1234 60000]).map
      (·.value) = [4999, 9998, 14997, 19996, 24995, 29000, 30000, 30000, 0, 1234] := by decide
example : Op.Admissible defaultConfig (.inc 7 4999 60000) := by decide
example : TimesFrom 0 [.inc 1 4999 60000, .reset 5 60000, .inc 5 1000 60000] := by decide

end P2.C28
