/-
C22 — Sync session events follow the documented lifecycle.

Model: `P2/Model/SyncEvents.lean` — `TopicLogSync::run` as a function of the fault script (the
outcome of every I/O step in program order; the inner `LogSync` is `P2.Sync.step`, the model of
C20).  `fixTerminal = true` / inner `fixClosed = true` is the repaired code (two `fix:` commits),
`false` the pinned code.  Helper lemmas: `P2/Lemmas/C22.lean`.
-/
import P2.Model.SyncProto
import P2.Model.SyncEvents
import P2.Lemmas.C22
import P2.Extracted.C22

namespace P2.C22
open P2.Sync

set_option linter.unusedSimpArgs false

/-! ## The lifecycle grammar -/

def IsOp (e : TEv) : Prop := ∃ id m, e = TEv.opReceived id m
def IsLiveOp (e : TEv) : Prop := ∃ id, e = TEv.liveOpReceived id

/-- `SyncStarted · OperationReceived*` -/
def E1 (evs : List TEv) : Prop := ∃ m ops, evs = TEv.syncStarted m :: ops ∧ ∀ e ∈ ops, IsOp e
/-- `… · SyncFinished` -/
def E2 (evs : List TEv) : Prop := ∃ pre m, E1 pre ∧ evs = pre ++ [TEv.syncFinished m]
/-- `… · LiveModeStarted · OperationReceived*` -/
def E3 (evs : List TEv) : Prop :=
  ∃ pre lops, E2 pre ∧ evs = pre ++ TEv.liveModeStarted :: lops ∧ ∀ e ∈ lops, IsLiveOp e
/-- a complete trace: exactly one terminal event, last; `SessionFinished` only after `SyncFinished` -/
def Term (evs : List TEv) : Prop :=
  ∃ pre, (evs = pre ++ [TEv.failed] ∧ (pre = [] ∨ E1 pre ∨ E2 pre ∨ E3 pre)) ∨
         (evs = pre ++ [TEv.sessionFinished] ∧ (E2 pre ∨ E3 pre))
/-- `(Failed | SyncStarted · Op* · (Failed | SyncFinished · ((LiveModeStarted · Op*)? · (SessionFinished | Failed))))`,
    prefix-closed — the documented lifecycle **without** the leading `SessionStarted` -/
def Life (evs : List TEv) : Prop := evs = [] ∨ E1 evs ∨ E2 evs ∨ E3 evs ∨ Term evs

/-- the full documented lifecycle -/
def FullLife (evs : List TEv) : Prop := ∃ rest, evs = TEv.sessionStarted :: rest ∧ Life rest

/-! ## Invariant of the repaired session (an event receiver exists) -/

def TInv (s : TSt) : Prop :=
  match s.pc with
  | .start => s.events = [] ∧ s.sync.events = [] ∧ EInv s.sync
  | .inner => s.events = s.sync.events.map liftEv ∧ EInv s.sync
  | .closeAfterFail _ => Term s.events
  | .liveLoop _ | .liveSendOp _ | .liveSendClose => E3 s.events
  | .closing _ => E2 s.events ∨ E3 s.events
  | .done _ => Term s.events
  | .mismatch => Life s.events

private theorem e1_of_started {evs : List Ev} (h : EvStarted evs) : E1 (evs.map liftEv) := by
  obtain ⟨m, rest, rfl, hr⟩ := h
  refine ⟨m, rest.map liftEv, by simp [liftEv], ?_⟩
  intro e he
  obtain ⟨x, hx, rfl⟩ := List.mem_map.mp he
  obtain ⟨id, m', rfl⟩ := hr x hx
  exact ⟨id, m', rfl⟩

private theorem tinv_life (s : TSt) (h : TInv s) : Life s.events := by
  unfold TInv at h
  split at h
  · exact Or.inl h.1
  · rcases h.2.2.2 with h0 | h1
    · left; rw [h.1, h0]; rfl
    · right; left; rw [h.1]; exact e1_of_started h1
  · exact Or.inr (Or.inr (Or.inr (Or.inr h)))
  · exact Or.inr (Or.inr (Or.inr (Or.inl h)))
  · exact Or.inr (Or.inr (Or.inr (Or.inl h)))
  · exact Or.inr (Or.inr (Or.inr (Or.inl h)))
  · rcases h with h | h
    · exact Or.inr (Or.inr (Or.inl h))
    · exact Or.inr (Or.inr (Or.inr (Or.inl h)))
  · exact Or.inr (Or.inr (Or.inr (Or.inr h)))
  · exact h

private theorem e3_snoc {evs : List TEv} (h : E3 evs) (id : Nat) : E3 (evs ++ [TEv.liveOpReceived id]) := by
  obtain ⟨pre, lops, hp, rfl, hl⟩ := h
  refine ⟨pre, lops ++ [TEv.liveOpReceived id], hp, by simp, ?_⟩
  intro e he
  rcases List.mem_append.mp he with he | he
  · exact hl e he
  · simp at he; exact ⟨id, he⟩

private theorem emit_rx (cfg : TCfg) (hrx : cfg.inner.rx = true) (s : TSt) (e : TEv) (k : TSt → TSt) :
    emit cfg s e k = k { s with events := s.events ++ [e] } := by
  simp [emit, hrx]

private theorem tinv_finish (cfg : TCfg) (hrx : cfg.inner.rx = true) (s : TSt) (r : Option TErr)
    (h : (r ≠ none ∧ (s.events = [] ∨ E1 s.events ∨ E2 s.events ∨ E3 s.events)) ∨
         (E2 s.events ∨ E3 s.events)) : TInv (finish cfg s r) := by
  unfold finish
  rw [emit_rx cfg hrx]
  simp only [TInv]
  cases r with
  | none =>
    rcases h with h | h
    · exact absurd rfl h.1
    · exact ⟨s.events, Or.inr ⟨rfl, h⟩⟩
  | some e =>
    refine ⟨s.events, Or.inl ⟨rfl, ?_⟩⟩
    rcases h with h | h
    · exact h.2
    · rcases h with h | h
      · exact Or.inr (Or.inr (Or.inl h))
      · exact Or.inr (Or.inr (Or.inr h))

private theorem tinv_afterInner (cfg : TCfg) (hrx : cfg.inner.rx = true) (s : TSt) (st' : St) (hpc0 : s.pc = .inner)
    (hev : s.events = s.sync.events.map liftEv) (hpre : s.sync.events <+: st'.events) (hinv : EInv st') :
    TInv (afterInner cfg s st') := by
  obtain ⟨extra, hextra⟩ := hpre
  have hnew : s.events ++ (st'.events.drop s.sync.events.length).map liftEv = st'.events.map liftEv := by
    rw [hev, ← hextra]; simp
  unfold afterInner
  simp only [hnew]
  split
  · -- `Ok`
    rename_i hpc
    have hs : EvStarted st'.events := hinv.2.1 (by rw [hpc]; rfl)
    have h1 := e1_of_started hs
    rw [emit_rx cfg hrx]
    simp only
    have h2 : E2 (st'.events.map liftEv ++ [TEv.syncFinished st'.m]) := ⟨_, _, h1, rfl⟩
    split
    · rw [emit_rx cfg hrx]
      simp only [TInv]
      exact ⟨_, [], h2, rfl, by simp⟩
    · simp only [toClosing, TInv]
      exact Or.inl h2
  · -- inner failure: `Failed`, then the close of the failure path
    rw [emit_rx cfg hrx]
    simp only [TInv]
    refine ⟨st'.events.map liftEv, Or.inl ⟨rfl, ?_⟩⟩
    rcases hinv.2.2 with h0 | h1
    · left; rw [h0]; rfl
    · right; left; exact e1_of_started h1
  · simp only [TInv]
    rcases hinv.2.2 with h0 | h1
    · left; rw [h0]; rfl
    · right; left; exact e1_of_started h1
  · -- still running
    simp only [TInv, hpc0]
    exact ⟨trivial, hinv⟩

private theorem tinv_step (cfg : TCfg) (hrx : cfg.inner.rx = true) (hfix : cfg.fixTerminal = true)
    (s : TSt) (i : TIn) (h : TInv s) : TInv (tstep cfg s i) := by
  have hl := tinv_life s h
  obtain ⟨pc, sync, events, dedup⟩ := s
  cases pc
  case start =>
    simp only [TInv] at h
    cases i <;> simp only [tstep] <;> first | exact hl | skip
    case resolve ok =>
      split
      · simp only [TInv]; exact ⟨by rw [h.1, h.2.1]; rfl, h.2.2⟩
      · first
          | exact tinv_finish cfg hrx _ _ (Or.inl ⟨by simp, Or.inl h.1⟩)
          | (rw [if_pos hfix]; exact tinv_finish cfg hrx _ _ (Or.inl ⟨by simp, Or.inl h.1⟩))
  case inner =>
    simp only [TInv] at h
    simp only [tstep]
    split
    · exact hl
    · rename_i i' _
      exact tinv_afterInner cfg hrx _ _ rfl h.1 (step_events_prefix cfg.inner sync i') (einv_step cfg.inner sync i' h.2)
  case closeAfterFail e =>
    cases i <;> simp only [tstep] <;> first | exact hl | exact h
  case liveLoop cs =>
    simp only [TInv] at h
    cases i <;> simp only [tstep] <;> first | exact hl | skip
    case live x =>
      cases x with
      | payload id b =>
        simp only [tstep]
        split <;> exact h
      | close => exact h
    case recv x =>
      cases x with
      | sync r =>
        cases r <;> simp only [toClosing, TInv] <;> exact Or.inr h
      | live id b =>
        simp only
        split
        · rw [emit_rx cfg hrx]; exact e3_snoc h id
        · exact h
      | closeMsg => exact Or.inr h
  case liveSendOp cs =>
    simp only [TInv] at h
    cases i <;> simp only [tstep] <;> first | exact hl | skip
    case send ok =>
      split
      · exact h
      · exact Or.inr h
  case liveSendClose =>
    simp only [TInv] at h
    cases i <;> simp only [tstep] <;> first | exact hl | skip
    case send ok =>
      split
      · exact h
      · exact Or.inr h
  case closing r =>
    simp only [TInv] at h
    cases i <;> simp only [tstep] <;> first | exact hl | skip
    case close ok =>
      first
        | exact tinv_finish cfg hrx _ _ (Or.inr h)
        | (rw [if_pos hfix]; exact tinv_finish cfg hrx _ _ (Or.inr h))
  case done r =>
    cases i <;> simp only [tstep] <;> exact hl
  case mismatch =>
    cases i <;> simp only [tstep] <;> exact hl

private theorem tinv_init (cfg : TCfg) : TInv (tinit cfg) := by
  simp only [tinit, TInv]
  refine ⟨trivial, ?_, einv_init cfg.inner⟩
  unfold init; cases cfg.inner.scope <;> rfl

private theorem tinv_run (cfg : TCfg) (hrx : cfg.inner.rx = true) (hfix : cfg.fixTerminal = true)
    (script : List TIn) : TInv (trun cfg script) := by
  unfold trun
  have : ∀ s, TInv s → TInv (script.foldl (tstep cfg) s) := by
    induction script with
    | nil => intro s h; exact h
    | cons i rest ih => intro s h; exact ih _ (tinv_step cfg hrx hfix s i h)
  exact this _ (tinv_init cfg)

/-! ## Property theorems -/

/-- **`c22_lifecycle_partial`** (repaired terminal-event handling, an event receiver exists): for
    *every* fault script — any outcome of `resolve`, of every store call, sink send, stream item,
    live-channel item and of `close`, in any order the session consumes them — the emitted events
    form a prefix of the documented lifecycle without the leading `SessionStarted`. -/
theorem c22_lifecycle_partial (cfg : TCfg) (hrx : cfg.inner.rx = true) (hfix : cfg.fixTerminal = true)
    (script : List TIn) : Life (trun cfg script).events :=
  tinv_life _ (tinv_run cfg hrx hfix script)

/-- … and a session that has returned has emitted exactly one terminal event, as its last event
    (`SessionFinished` only after `SyncFinished`). -/
theorem c22_terminal_once (cfg : TCfg) (hrx : cfg.inner.rx = true) (hfix : cfg.fixTerminal = true)
    (script : List TIn) (r : Option TErr) (hdone : (trun cfg script).pc = .done r) :
    Term (trun cfg script).events := by
  have h := tinv_run cfg hrx hfix script
  unfold TInv at h
  rw [hdone] at h
  exact h

/-! ## `SessionStarted` is never emitted (known finding), so the full statement fails -/

private theorem nss_map (evs : List Ev) : TEv.sessionStarted ∉ evs.map liftEv := by
  intro h
  obtain ⟨x, _, hx⟩ := List.mem_map.mp h
  cases x <;> simp [liftEv] at hx

private theorem nss_emit (cfg : TCfg) (s : TSt) (e : TEv) (k : TSt → TSt)
    (hs : TEv.sessionStarted ∉ s.events) (he : e ≠ TEv.sessionStarted)
    (hk : ∀ t : TSt, TEv.sessionStarted ∉ t.events → TEv.sessionStarted ∉ (k t).events) :
    TEv.sessionStarted ∉ (emit cfg s e k).events := by
  unfold emit
  split
  · apply hk
    simp only [List.mem_append, List.mem_singleton, not_or]
    exact ⟨hs, fun h => he h.symm⟩
  · exact hs

private theorem nss_finish (cfg : TCfg) (s : TSt) (r : Option TErr) (hs : TEv.sessionStarted ∉ s.events) :
    TEv.sessionStarted ∉ (finish cfg s r).events := by
  unfold finish
  apply nss_emit _ _ _ _ hs
  · cases r <;> simp
  · intro t ht; exact ht

private theorem nss_afterInner (cfg : TCfg) (s : TSt) (st' : St) (hs : TEv.sessionStarted ∉ s.events) :
    TEv.sessionStarted ∉ (afterInner cfg s st').events := by
  unfold afterInner
  have hbase : TEv.sessionStarted ∉ s.events ++ (st'.events.drop s.sync.events.length).map liftEv := by
    simp only [List.mem_append, not_or]; exact ⟨hs, nss_map _⟩
  simp only
  split
  · refine nss_emit _ _ _ _ hbase (by simp) ?_
    intro t ht
    split
    · refine nss_emit _ _ _ _ ?_ (by simp) ?_
      · exact ht
      · intro t' ht'; exact ht'
    · exact ht
  · refine nss_emit _ _ _ _ hbase (by simp) ?_
    intro t ht; exact ht
  · exact hbase
  · exact hbase

private theorem nss_step (cfg : TCfg) (s : TSt) (i : TIn) (hs : TEv.sessionStarted ∉ s.events) :
    TEv.sessionStarted ∉ (tstep cfg s i).events := by
  obtain ⟨pc, sync, events, dedup⟩ := s
  cases pc <;> cases i <;> simp only [tstep] <;> (repeat' split) <;>
    first
      | exact hs
      | exact nss_finish _ _ _ hs
      | exact nss_afterInner _ _ _ hs
      | (refine nss_emit _ _ _ _ ?_ (by simp) ?_
         · exact hs
         · intro t ht; exact ht)

/-- **`c22_session_started_missing`** (current code and repaired code alike): no session ever
    emits `SessionStarted`, whatever happens. -/
theorem c22_session_started_missing (cfg : TCfg) (script : List TIn) :
    TEv.sessionStarted ∉ (trun cfg script).events := by
  unfold trun
  have : ∀ s : TSt, TEv.sessionStarted ∉ s.events → TEv.sessionStarted ∉ (script.foldl (tstep cfg) s).events := by
    induction script with
    | nil => intro s h; exact h
    | cons i rest ih => intro s h; exact ih _ (nss_step cfg s i h)
  apply this
  simp [tinit]

/-- the full statement `c22_lifecycle` (`SessionStarted` first) is false for every session -/
theorem c22_lifecycle_full_false (cfg : TCfg) (script : List TIn) : ¬ FullLife (trun cfg script).events := by
  rintro ⟨rest, h, _⟩
  have := c22_session_started_missing cfg script
  rw [h] at this
  simp at this

/-! ## The pinned terminal-event handling (`fixTerminal = false`, `fixClosed = false`) -/

private def origT (live : Bool) : TCfg :=
  { inner := origCfg [(0, [0])] 8 true, liveMode := live, fixTerminal := false }

/-- script "empty replicas, live mode, remote sends `Close`, our `close()` fails": the session
    returns `MessageSink` after `LiveModeStarted` without any terminal event. -/
theorem c22_orig_no_terminal :
    let s := trun (origT true)
      [.resolve true, .heights (some none), .send true, .recv (.sync (.msg (.have []))), .send true,
       .recv (.sync (.msg .done)), .recv .closeMsg, .close false]
    s.pc = .done (some .sink) ∧
    s.events = [TEv.syncStarted {}, TEv.syncFinished {}, TEv.liveModeStarted] := by
  decide

/-- a failing `resolve()`: returns without any event at all -/
theorem c22_orig_no_terminal_resolve :
    let s := trun (origT false) [.resolve false]
    s.pc = .done (some .topicStore) ∧ s.events = [] := by decide

/-- the remote closes the stream during the `Sync` state: the pinned inner session spins forever
    (never returns, never a terminal event) -/
theorem c22_orig_spins_on_closed_stream :
    (trun (origT false)
      [.resolve true, .heights (some none), .send true, .recv (.sync (.msg (.have []))), .send true,
       .recv (.sync (.msg (.preSync 1 10))), .recv (.sync .closed)]).sync.pc = .spin := by decide

/-! ## Non-vacuity: the same scripts on the repaired code, and a complete live session -/

private def curT (live : Bool) : TCfg := curTCfg [(0, [0])] 8 true live

example : (curT true).inner.rx = true ∧ (curT true).fixTerminal = true := by decide

example :
    (trun (curT true)
      [.resolve true, .heights (some none), .send true, .recv (.sync (.msg (.have []))), .send true,
       .recv (.sync (.msg .done)), .recv .closeMsg, .close false]).events
    = [TEv.syncStarted {}, TEv.syncFinished {}, TEv.liveModeStarted, TEv.failed] := by decide

example : (trun (curT false) [.resolve false]).events = [TEv.failed] := by decide

example :
    (trun (curT false)
      [.resolve true, .heights (some none), .send true, .recv (.sync (.msg (.have []))), .send true,
       .recv (.sync (.msg (.preSync 1 10))), .recv (.sync .closed), .close true]).events
    = [TEv.syncStarted { inOps := 1, inBytes := 10 }, TEv.failed] := by decide

/-- live mode with traffic in both directions, a duplicate, our `Close`, the remote closes -/
example :
    (trun (curT true)
      [.resolve true, .heights (some none), .send true, .recv (.sync (.msg (.have []))), .send true,
       .recv (.sync (.msg .done)),
       .live (.payload 5 100), .send true, .recv (.live 6 90), .recv (.live 5 100),
       .live .close, .send true, .recv (.sync .closed), .close true]).events
    = [TEv.syncStarted {}, TEv.syncFinished {}, TEv.liveModeStarted, TEv.liveOpReceived 6, TEv.sessionFinished] := by
  decide

/-! ## Tie to the current source text (regenerated into `P2/Extracted/C22.lean` on every run) -/

/-- The event/close ordering of `TopicLogSync::run` as `topic_log_sync.rs` reads *now*, branch by
    branch of `P2.Sync.tstep`: a failing `resolve` announces `Failed` and returns (`finish … topicStore`);
    a failed inner session announces `Failed` **before** `log_sync_sink.close()` (`.closeAfterFail`);
    `SyncFinished` follows a successful inner session; at the end `close()` is attempted without `?`,
    its outcome is merged into `result`, and only then the final event is sent (`.closing`, `finish`). -/
theorem c22_extracted_event_order :
    P2.Extracted.C22.resolveFailBranch = "let err = TopicLogSyncError::TopicStore(err.to_string()); self.event_tx .send(TopicLogSyncEvent::Failed { error: err.to_string(), }) .map_err(|_| TopicLogSyncChannelError::EventSend)?; return Err(err);" ∧
    P2.Extracted.C22.innerFailBranch = "self.event_tx .send(TopicLogSyncEvent::Failed { error: err.to_string(), }) .map_err(|_| TopicLogSyncChannelError::EventSend)?; log_sync_sink .close() .await .map_err(|err| TopicLogSyncChannelError::MessageSink(format!(\"{err:?}\")))?; return Err(err.into());" ∧
    P2.Extracted.C22.syncFinishedBranch = "self.event_tx .send(TopicLogSyncEvent::SyncFinished { metrics: metrics.clone().into(), }) .map_err(|_| TopicLogSyncChannelError::EventSend)?;" ∧
    P2.Extracted.C22.closeThenResult = "let close_result = sink .close() .await .map_err(|err| TopicLogSyncChannelError::MessageSink(format!(\"{err:?}\"))); let result = match (result, close_result) { (Err(err), _) => Err(err), (Ok(()), Err(err)) => Err(err.into()), (Ok(()), Ok(())) => Ok(()), };" ∧
    P2.Extracted.C22.finalSend = "self.event_tx .send(final_event) .map_err(|_| TopicLogSyncChannelError::EventSend)?; result" :=
  ⟨rfl, rfl, rfl, rfl, rfl⟩

/-- the known finding at source level: no non-test code of p2panda-sync mentions
    `TopicLogSyncEvent::SessionStarted` (model: no `tstep` branch emits `.sessionStarted`) -/
theorem c22_extracted_session_started_unused : P2.Extracted.C22.sessionStartedUses = 0 := by decide

end P2.C22
