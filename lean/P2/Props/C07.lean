/-
C07 — Stream cursors only move forward and only for their own topic.

Theorems about `Cursor::advance` (state = pointwise maximum of everything it was advanced to,
in any order) and about `Acked::ack` over the persisted cursor table (monotone, rejects
foreign topics without touching anything, leaves other cursors alone, any interleaving of
acks through any number of `Acked` handles ends in the order-independent maximum).
All statements hold for arbitrary sequences, key types, heights and numbers of handles.
-/
import P2.Model.Heights
import P2.Lemmas.Heights
import P2.Extracted.C07

namespace P2.C07
open P2.Heights

set_option linter.unusedSectionVars false
variable {K : Type} [DecidableEq K]

/-! ## `Cursor::advance` -/

/-- After any sequence of advances the height of every log is the maximum of its initial
    height and all heights it was advanced to (`maxOf`, characterised by `c07_maxOf_spec`). -/
theorem c07_fold_max (c₀ : Heights K) (hs : List (K × Nat)) (k : K) :
    lookup k (advanceAll c₀ hs) = optMax (lookup k c₀) (maxOf k hs) :=
  lookup_advanceAll c₀ hs k

/-- `maxOf k hs` is `none` iff `k` was never advanced, otherwise the greatest height named
    for `k` (a height that occurs in the list and bounds all others). -/
theorem c07_maxOf_spec (k : K) (hs : List (K × Nat)) :
    (maxOf k hs = none ↔ ∀ h, (k, h) ∉ hs) ∧
    (∀ m, maxOf k hs = some m ↔ (k, m) ∈ hs ∧ ∀ h, (k, h) ∈ hs → h ≤ m) :=
  ⟨maxOf_eq_none_iff k hs, maxOf_eq_some_iff k hs⟩

/-- The order of the advances does not matter. -/
theorem c07_order_independent (c₀ : Heights K) {hs₁ hs₂ : List (K × Nat)} (hp : hs₁.Perm hs₂)
    (k : K) : lookup k (advanceAll c₀ hs₁) = lookup k (advanceAll c₀ hs₂) := by
  rw [c07_fold_max, c07_fold_max, maxOf_perm k hp]

/-- A single advance never lowers any log (and never removes one). -/
theorem c07_advance_monotone (c : Heights K) (k : K) (h : Nat) (k' : K) :
    optLe (lookup k' c) (lookup k' (advance c k h)) := by
  rw [lookup_advance]
  by_cases hk : k = k'
  · subst hk; simp only [if_true]; exact optLe_optMax_left _ _
  · simp only [hk, if_false]; exact optLe_refl _

/-- Advancing to a height at or below the current one changes nothing at all. -/
theorem c07_advance_ignored (c : Heights K) (k : K) (h cur : Nat)
    (hc : lookup k c = some cur) (hle : h ≤ cur) : advance c k h = c := by
  unfold advance
  simp [hc, hle]

private theorem keys_upsert (k : K) (v : Nat) (m : Heights K) :
    keys (upsert k v m) = if k ∈ keys m then keys m else keys m ++ [k] := by
  induction m with
  | nil => simp [upsert, keys]
  | cons e t ih =>
    obtain ⟨ke, ve⟩ := e
    by_cases h : ke = k
    · subst h; simp [upsert, keys]
    · have h' : ¬ k = ke := fun x => h x.symm
      have ih' : List.map Prod.fst (upsert k v t)
          = if k ∈ List.map Prod.fst t then List.map Prod.fst t else List.map Prod.fst t ++ [k] := ih
      simp only [upsert, h, if_false, keys, List.map_cons, List.mem_cons, h', false_or, ih']
      split <;> simp

/-- The cursor stays a map: keys remain unique. -/
theorem c07_advance_keys_nodup (c : Heights K) (k : K) (h : Nat) (hc : (keys c).Nodup) :
    (keys (advance c k h)).Nodup := by
  have hset : (keys (upsert k h c)).Nodup := by
    rw [keys_upsert]
    split
    · exact hc
    · rename_i hk
      rw [List.nodup_append]
      refine ⟨hc, by simp, ?_⟩
      intro a ha b hb
      simp only [List.mem_singleton] at hb
      subst hb
      intro hab; subst hab; exact hk ha
  unfold advance
  split
  · split
    · exact hc
    · exact hset
  · exact hset

/-! ## `Acked::ack` over the persisted cursor table -/

private theorem getCursor_setCursor (t : CursorTable K) (n n' : Nat) (c : Heights K) :
    getCursor (setCursor t n c) n' = if n = n' then c else getCursor t n' := by
  unfold getCursor setCursor
  rw [lookup_upsert]
  by_cases h : n = n' <;> simp [h]

/-- An operation of a different topic is rejected and nothing is written. -/
theorem c07_wrong_topic (t : CursorTable (Nat × Nat)) (a : Acked) (h : AckHeader)
    (hne : h.logId ≠ a.topicLog) : ack t a h = (t, .invalidTopic) := by
  unfold ack
  have : a.topicLog ≠ h.logId := fun e => hne e.symm
  simp [this]

/-- An operation of the own topic is accepted. -/
theorem c07_own_topic_ok (t : CursorTable (Nat × Nat)) (a : Acked) (h : AckHeader)
    (he : h.logId = a.topicLog) : (ack t a h).2 = .ok := by
  unfold ack
  simp [he]

/-- What one `ack` does to every cursor of the table: the handle's own cursor is advanced
    for the acknowledged log when the topic matches, everything else stays as it is. -/
theorem c07_ack_effect (t : CursorTable (Nat × Nat)) (a : Acked) (h : AckHeader) (n : Nat) :
    getCursor (ack t a h).1 n =
      if a.name = n ∧ a.topicLog = h.logId
      then advance (getCursor t n) (h.author, h.logId) h.seq
      else getCursor t n := by
  unfold ack
  by_cases ht : a.topicLog = h.logId
  · simp only [ht, ne_eq, not_true_eq_false, if_false, and_true]
    rw [getCursor_setCursor]
    by_cases hn : a.name = n
    · subst hn; simp
    · simp [hn]
  · simp [ht]

/-- Acknowledging never moves any persisted cursor backwards — for every cursor name and
    every log, whatever the header says. -/
theorem c07_ack_monotone (t : CursorTable (Nat × Nat)) (a : Acked) (h : AckHeader)
    (n : Nat) (k : Nat × Nat) :
    optLe (lookup k (getCursor t n)) (lookup k (getCursor (ack t a h).1 n)) := by
  rw [c07_ack_effect]
  split
  · exact c07_advance_monotone _ _ _ _
  · exact optLe_refl _

/-- Cursors under other names are not touched by an `ack`. -/
theorem c07_ack_frame (t : CursorTable (Nat × Nat)) (a : Acked) (h : AckHeader) (n : Nat)
    (hn : a.name ≠ n) : getCursor (ack t a h).1 n = getCursor t n := by
  rw [c07_ack_effect]; simp [hn]

/-- Any interleaving of acknowledgements through any handles sharing the table. -/
def ackAll (t : CursorTable (Nat × Nat)) (ops : List (Acked × AckHeader)) :
    CursorTable (Nat × Nat) :=
  ops.foldl (fun t o => (ack t o.1 o.2).1) t

/-- The acknowledgements that count for the cursor named `n`: made through a handle with that
    name, for an operation of that handle's topic. -/
def acceptedFor (n : Nat) (ops : List (Acked × AckHeader)) : List ((Nat × Nat) × Nat) :=
  ops.filterMap fun o =>
    if o.1.name = n ∧ o.1.topicLog = o.2.logId then some ((o.2.author, o.2.logId), o.2.seq)
    else none

private theorem ackAll_eq_advanceAll (t : CursorTable (Nat × Nat)) (ops : List (Acked × AckHeader))
    (n : Nat) :
    getCursor (ackAll t ops) n = advanceAll (getCursor t n) (acceptedFor n ops) := by
  induction ops generalizing t with
  | nil => rfl
  | cons o rest ih =>
    have h1 : ackAll t (o :: rest) = ackAll (ack t o.1 o.2).1 rest := rfl
    rw [h1, ih, c07_ack_effect]
    unfold acceptedFor
    rw [List.filterMap_cons]
    by_cases hc : o.1.name = n ∧ o.1.topicLog = o.2.logId
    · simp only [hc, and_self, if_true]; rfl
    · simp only [hc, if_false]

/-- After any sequence of acknowledgements every persisted cursor holds, for every log, the
    maximum of its initial height and the sequence numbers acknowledged for it through handles
    of that name and topic; acknowledgements of foreign topics contribute nothing. -/
theorem c07_acks_fold_max (t : CursorTable (Nat × Nat)) (ops : List (Acked × AckHeader))
    (n : Nat) (k : Nat × Nat) :
    lookup k (getCursor (ackAll t ops) n)
      = optMax (lookup k (getCursor t n)) (maxOf k (acceptedFor n ops)) := by
  rw [ackAll_eq_advanceAll, c07_fold_max]

/-- The final cursors do not depend on the order in which concurrent acknowledgements were
    serialised by the semaphore. -/
theorem c07_acks_order_independent (t : CursorTable (Nat × Nat))
    {ops₁ ops₂ : List (Acked × AckHeader)} (hp : ops₁.Perm ops₂) (n : Nat) (k : Nat × Nat) :
    lookup k (getCursor (ackAll t ops₁) n) = lookup k (getCursor (ackAll t ops₂) n) := by
  rw [c07_acks_fold_max, c07_acks_fold_max]
  congr 1
  exact maxOf_perm k (hp.filterMap _)

/-- Over any history, no cursor ever moves backwards. -/
theorem c07_acks_monotone (t : CursorTable (Nat × Nat)) (ops : List (Acked × AckHeader))
    (n : Nat) (k : Nat × Nat) :
    optLe (lookup k (getCursor t n)) (lookup k (getCursor (ackAll t ops) n)) := by
  rw [c07_acks_fold_max]; exact optLe_optMax_left _ _

/-- A cursor that only holds logs of its handle's topic keeps that shape: acknowledging through
    a handle never introduces a log of another topic into that handle's cursor. -/
theorem c07_ack_only_own_topic (t : CursorTable (Nat × Nat)) (a : Acked) (h : AckHeader)
    (hinv : ∀ k v, lookup k (getCursor t a.name) = some v → k.2 = a.topicLog)
    (k : Nat × Nat) (v : Nat) (hk : lookup k (getCursor (ack t a h).1 a.name) = some v) :
    k.2 = a.topicLog := by
  rw [c07_ack_effect] at hk
  by_cases ht : a.topicLog = h.logId
  · simp only [ht, and_self, if_true, lookup_advance] at hk
    by_cases hkk : (h.author, h.logId) = k
    · rw [← hkk]; exact ht.symm
    · simp only [hkk, if_false] at hk
      exact hinv k v hk
  · simp only [ht, and_false, if_false] at hk
    exact hinv k v hk

/-! ## Tie to the source text -/

/-- `Cursor::advance` is the term `rs2lean` regenerates from the current Rust body on every run
    (`cur` = `self.log_height(&author, &log_id)`, `upsert` = the `entry().or_default().insert()`
    statement), with the model's `lookup` / `upsert` plugged in.  Flipping `>=`, dropping the early
    return or the insert changes the generated term and breaks this theorem. -/
theorem c07_advance_is_source (c : Heights K) (k : K) (h : Nat) :
    advance c k h
      = P2.Extracted.C07.advanceT c (lookup k c) (fun st v => upsert k v st) h := by
  unfold advance P2.Extracted.C07.advanceT
  cases lookup k c <;> rfl

/-- Shape of `Acked::ack` in the current source (re-extracted on every run; a missing pattern is
    itself a failure): the semaphore permit is acquired *first*, the topic check compares
    `LogId::from_topic(self.topic)` with the header's log id using `!=` and returns
    `InvalidTopic` *before* the cursor is read, and exactly the header's author, log id and
    sequence number are advanced before the single `set_cursor` inside the transaction. -/
theorem c07_ack_source_shape :
    P2.Extracted.C07.ackFirstStatement = "let _permit = self.semaphore.acquire().await;" ∧
    P2.Extracted.C07.ackTopicCheck = "LogId::from_topic(self.topic) != header.extensions.log_id()" ∧
    P2.Extracted.C07.ackAdvanceArgs
      = "header.verifying_key, header.extensions.log_id(), header.seq_num" := by
  decide

/-! ## Concurrency: what the per-instance semaphore does and does not give

`Acked::ack` holds the semaphore of its own instance (clones share it) around
read-advance-write, so acks through one instance and its clones are the atomic `ack` steps the
theorems above speak about (tokio's `Semaphore(1)` is trusted for that).  Two *separately
constructed* handles have two semaphores; `ackRacy` is the interleaving read₁ read₂ write₁
write₂ that the harness realises on the real code. -/

/-- The full statement one would like for two separately constructed handles: after both
    acknowledgements returned, no cursor is behind what the atomic execution would have
    persisted.  **False on the pinned tree** (`c07_racy_same_name_lost_update`); true whenever
    the two handles use different cursor names (`c07_racy_distinct_names_partial`). -/
def RacyStatement : Prop :=
  ∀ (t : CursorTable (Nat × Nat)) (a1 a2 : Acked) (h1 h2 : AckHeader) (n : Nat) (k : Nat × Nat),
    optLe (lookup k (getCursor (ackAll t [(a1, h1), (a2, h2)]) n))
          (lookup k (getCursor (ackRacy t a1 h1 a2 h2).1 n))

/-- With different cursor names the unsynchronised interleaving is harmless: it produces
    exactly the table and the results of the two atomic acks, one after the other. -/
theorem c07_racy_distinct_names_partial (t : CursorTable (Nat × Nat)) (a1 a2 : Acked)
    (h1 h2 : AckHeader) (hne : a1.name ≠ a2.name) (n : Nat) :
    getCursor (ackRacy t a1 h1 a2 h2).1 n = getCursor (ackAll t [(a1, h1), (a2, h2)]) n
    ∧ (ackRacy t a1 h1 a2 h2).2.1 = (ack t a1 h1).2
    ∧ (ackRacy t a1 h1 a2 h2).2.2 = (ack (ack t a1 h1).1 a2 h2).2 := by
  have hne' : ¬ a2.name = a1.name := fun h => hne h.symm
  refine ⟨?_, ?_, ?_⟩
  · show _ = getCursor (ack (ack t a1 h1).1 a2 h2).1 n
    rw [c07_ack_effect, c07_ack_effect]
    unfold ackRacy
    by_cases ht1 : a1.topicLog = h1.logId <;> by_cases ht2 : a2.topicLog = h2.logId
    all_goals simp only [ht1, ht2, ne_eq, not_true_eq_false, not_false_eq_true, if_true, if_false,
      and_true, and_false, getCursor_setCursor]
    all_goals (by_cases hn1 : a1.name = n <;> by_cases hn2 : a2.name = n)
    all_goals first
      | (exfalso; exact hne (hn1.trans hn2.symm))
      | simp [hn1, hn2]
  · unfold ackRacy ack
    by_cases ht1 : a1.topicLog = h1.logId <;> simp [ht1]
  · unfold ackRacy ack
    by_cases ht2 : a2.topicLog = h2.logId <;> simp [ht2]

/-- **Counterexample (pinned tree).** Two handles created separately for the same topic (same
    default cursor name 1), author 0 acknowledges seq 9 through the first and seq 5 through the
    second; in the interleaving read₁ read₂ write₁ write₂ both return `ok` and the persisted
    cursor is 5 — behind the acknowledged 9 (the atomic executions end in 9). -/
theorem c07_racy_same_name_lost_update :
    let a : Acked := { name := 1, topicLog := 7 }
    let r := ackRacy [] a ⟨0, 7, 9⟩ a ⟨0, 7, 5⟩
    r.2.1 = .ok ∧ r.2.2 = .ok ∧
    lookup (0, 7) (getCursor r.1 1) = some 5 ∧
    lookup (0, 7) (getCursor (ackAll [] [(a, ⟨0, 7, 9⟩), (a, ⟨0, 7, 5⟩)]) 1) = some 9 := by
  decide

theorem c07_racy_statement_false : ¬ RacyStatement := by
  intro h
  have hx := h [] { name := 1, topicLog := 7 } { name := 1, topicLog := 7 } ⟨0, 7, 9⟩ ⟨0, 7, 5⟩ 1 (0, 7)
  obtain ⟨_, _, h5, h9⟩ := c07_racy_same_name_lost_update
  rw [h5, h9] at hx
  simp [optLe] at hx

/-! ## Non-vacuity: a decreasing advance, two logs; a foreign ack between two own acks. -/

example : advanceAll ([] : Heights (Nat × Nat)) [((0, 0), 5), ((1, 0), 2), ((0, 0), 3), ((0, 0), 9)]
    = [((0, 0), 9), ((1, 0), 2)] := by decide

example : maxOf ((0, 0) : Nat × Nat) [((0, 0), 5), ((1, 0), 2), ((0, 0), 3), ((0, 0), 9)] = some 9 := by
  decide

private def a1 : Acked := { name := 1, topicLog := 7 }
private def a2 : Acked := { name := 2, topicLog := 8 }

example : ackAll [] [(a1, ⟨0, 7, 4⟩), (a1, ⟨0, 8, 9⟩), (a2, ⟨0, 8, 1⟩), (a1, ⟨0, 7, 2⟩), (a1, ⟨3, 7, 0⟩)]
    = [(1, [((0, 7), 4), ((3, 7), 0)]), (2, [((0, 8), 1)])] := by decide

example : ack [] a1 ⟨0, 8, 9⟩ = ([], .invalidTopic) := by decide

end P2.C07
