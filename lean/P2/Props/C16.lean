/-
C16 — Ephemeral messages are authentic and unique per publish.
Property theorems (namespace `P2.C16`) about `P2/Model/Ephemeral.lean` (wire format, ideal
signatures) and `P2/Model/HybridTs.lean` (the publisher's timestamp, repaired `increment`).
-/
import P2.Model.Ephemeral
import P2.Lemmas.HybridTs
import P2.Extracted.C16

namespace P2.C16
open P2.HybridTs P2.Ephemeral

/-- `Signed key items sig`: `sig` is `key`'s signature over `items` (ideal: produced only by signing). -/
def Signed (key : Nat) (items : Items) (sig : Sig) : Prop := sig = sign key items

theorem verifySig_iff (key : Nat) (items : Items) (sig : Sig) :
    verifySig key items sig = true ↔ Signed key items sig := by
  unfold verifySig Signed sign; simp

/-- The model's version constant is the one in the source (`MESSAGE_VERSION`, re-extracted each run). -/
theorem c16_version_is_source : messageVersion = P2.Extracted.C16.messageVersion := by decide

/-! ### soundness of what is yielded -/

/-- **C16 (yield sound)**: whatever arrives, a message that `from_bytes` accepts (and the subscription
    therefore yields) has the supported version and carries the signature of the *reported author*
    (`m.key`) over exactly its own version, key, timestamp (both parts) and body. -/
theorem c16_yield_sound (i : Input) (m : Wire) (h : unwrap i = .ok m) :
    i = .wire m ∧ m.version = messageVersion ∧ Signed m.key m.items m.sig := by
  cases i with
  | garbage => simp [unwrap] at h
  | wire w =>
    unfold unwrap at h
    by_cases hv : w.version ≠ messageVersion
    · simp [hv] at h
    · by_cases hs : verifySig w.key w.items w.sig = true
      · simp only [hv, hs, if_false, if_true] at h
        have : w = m := by injection h
        subst this
        exact ⟨rfl, by simpa using hv, (verifySig_iff _ _ _).1 hs⟩
      · simp [hv, hs] at h

/-- Honestly wrapped messages are accepted unchanged (round trip `new` → `to_bytes` → `from_bytes`). -/
theorem c16_honest_accepted (key : Nat) (ts : HTs) (body : Nat) :
    unwrap (.wire (wrap key ts body)) = .ok (wrap key ts body) := by
  simp [unwrap, wrap, verifySig, sign, Wire.items]

/-- A yielded message is *exactly* an honest wrapping by its reported author: nothing else passes. -/
theorem c16_yield_iff_honest (w : Wire) :
    (unwrap (.wire w) = .ok w) ↔ w = wrap w.key w.ts w.body := by
  constructor
  · intro h
    obtain ⟨_, hv, hs⟩ := c16_yield_sound _ _ h
    cases w with
    | mk version key sig ts body =>
      simp only [Signed, sign, Wire.items] at hs
      simp only at hv
      subst hv; subst hs
      rfl
  · intro h; rw [h]; exact c16_honest_accepted _ _ _

/-! ### tampering -/

/-- **C16 (tamper)**: take an honestly wrapped message and change version, key, timestamp, lamport
    part or body in any way while keeping its signature: the result is never yielded. -/
theorem c16_tamper (key : Nat) (ts : HTs) (body : Nat) (w' : Wire)
    (hsig : w'.sig = (wrap key ts body).sig) (hne : w' ≠ wrap key ts body) (m : Wire) :
    unwrap (.wire w') ≠ .ok m := by
  intro h
  obtain ⟨hi, hv, hs⟩ := c16_yield_sound _ _ h
  have hm : w' = m := by injection hi
  subst hm
  apply hne
  cases w' with
  | mk version k sig t b =>
    simp only [wrap] at hsig ⊢
    simp only [Signed, sign, Wire.items] at hs
    simp only at hv
    subst hsig
    simp only [sign, Option.some.injEq, Prod.mk.injEq, Items.mk.injEq] at hs
    obtain ⟨h1, h2, h3, h4, h5⟩ := hs
    subst h1 h4 h5
    simp [hv]

/-- Changing the signature of an honest message to any other value is rejected as well. -/
theorem c16_tamper_sig (key : Nat) (ts : HTs) (body : Nat) (sig' : Sig)
    (hne : sig' ≠ (wrap key ts body).sig) (m : Wire) :
    unwrap (.wire { wrap key ts body with sig := sig' }) ≠ .ok m := by
  intro h
  obtain ⟨hi, _, hs⟩ := c16_yield_sound _ _ h
  have hm : { wrap key ts body with sig := sig' } = m := by injection hi
  subst hm
  apply hne
  simpa [Signed, wrap, Wire.items] using hs

/-- **C16 (re-signing)**: a message re-signed by another key is yielded only with *that* key as the
    reported author: the author of a yielded message is always the signer of its signature. -/
theorem c16_resign_author (i : Input) (m : Wire) (h : unwrap i = .ok m) (signer : Nat) (items : Items)
    (hs : m.sig = sign signer items) : m.key = signer ∧ items = m.items := by
  obtain ⟨_, _, hsg⟩ := c16_yield_sound _ _ h
  rw [hsg] at hs
  simp only [sign, Option.some.injEq, Prod.mk.injEq] at hs
  exact ⟨hs.1, hs.2.symm⟩

/-- Unsupported versions are rejected even when correctly signed over that version. -/
theorem c16_version_checked (w : Wire) (h : w.version ≠ messageVersion) :
    unwrap (.wire w) = .error .version := by
  simp [unwrap, h]

/-! ### uniqueness of published messages -/

theorem publishAll_ts (key : Nat) (st : HTs) (steps : List (Nat × Nat)) :
    (publishAll key st steps).map (·.ts) = chain st (steps.map (·.1)) := by
  induction steps generalizing st with
  | nil => rfl
  | cons s rest ih =>
    obtain ⟨now, body⟩ := s
    simp only [publishAll, publish, List.map_cons, chain, chainWith]
    rw [ih]; rfl

private theorem chain_all_gt (t : HTs) (nows : List Nat) : ∀ x ∈ chain t nows, t < x := by
  induction nows generalizing t with
  | nil => intro x hx; simp [chain, chainWith] at hx
  | cons n ns ih =>
    intro x hx
    simp only [chain, chainWith, List.mem_cons] at hx
    have hstep : t < increment t n := by
      rw [lt_iff]
      by_cases h : n ≤ t.wall
      · simp [increment, h]
      · simp only [increment, h, if_false]; omega
    rcases hx with rfl | hx
    · exact hstep
    · exact lt_trans hstep (ih _ x hx)

private theorem chain_pairwise (t : HTs) (nows : List Nat) : (chain t nows).Pairwise (· < ·) := by
  induction nows generalizing t with
  | nil => simp [chain, chainWith]
  | cons n ns ih =>
    simp only [chain, chainWith, List.pairwise_cons]
    exact ⟨fun x hx => chain_all_gt _ ns x hx, ih _⟩

/-- **C16 (strictly increasing)**: successive publishes of one publisher carry strictly increasing
    timestamps, whatever the bodies and the clock readings. -/
theorem c16_publish_increasing (key : Nat) (st : HTs) (steps : List (Nat × Nat)) :
    ((publishAll key st steps).map (·.ts)).Pairwise (· < ·) := by
  rw [publishAll_ts]; exact chain_pairwise _ _

/-- **C16 (unique)**: successive publishes yield pairwise different byte strings — for every wire
    encoding `enc` that is injective (CBOR of the 6-tuple), every body sequence (also all equal)
    and all clock readings. -/
theorem c16_unique {β : Type} (enc : Wire → β) (henc : Function.Injective enc)
    (key : Nat) (st : HTs) (steps : List (Nat × Nat)) :
    ((publishAll key st steps).map enc).Nodup := by
  have hinc := c16_publish_increasing key st steps
  have hw : (publishAll key st steps).Pairwise (fun a b => a ≠ b) := by
    rw [List.pairwise_map] at hinc
    exact hinc.imp (fun {a b} hlt heq => by subst heq; exact lt_irrefl _ hlt)
  unfold List.Nodup
  rw [List.pairwise_map]
  exact hw.imp (fun {a b} hne heq => hne (henc heq))

/-- Every published message is accepted by every subscriber (and reports the publisher as author). -/
theorem c16_published_accepted (key : Nat) (st : HTs) (steps : List (Nat × Nat)) :
    ∀ w ∈ publishAll key st steps, unwrap (.wire w) = .ok w ∧ w.key = key := by
  induction steps generalizing st with
  | nil => intro w hw; simp [publishAll] at hw
  | cons s rest ih =>
    obtain ⟨now, body⟩ := s
    intro w hw
    simp only [publishAll, publish, List.mem_cons] at hw
    rcases hw with rfl | hw
    · exact ⟨c16_honest_accepted _ _ _, rfl⟩
    · exact ih _ w hw

/-- On the pinned tree (C18 defect) the uniqueness half fails: the clock going back and forth makes
    two publishes of the same body byte-identical. -/
theorem c16_orig_violates :
    ¬ (publishAllOrig 1 ⟨7, 0⟩ [(6, 0), (7, 0), (6, 0)]).Nodup := by decide

/-! ### ties to the source text (regenerated from /repo on every run) -/

/-- How the model reads the CBOR 5-tuple that is signed. -/
def encItems : Nat × Nat × Nat × Nat × Nat → Items
  | (v, k, t, l, b) => ⟨v, k, ⟨t, l⟩, b⟩

/-- `WrappedMessage::verify` as `rs2lean` translates the current Rust text — one check of the message's
    *own* key over the re-encoded tuple (version, key, timestamp, lamport, body), in this order, against the
    message's signature — is the model's signature check. -/
theorem c16_verify_is_source (w : Wire) :
    (if verifySig w.key w.items w.sig then (none : Option Nat) else some 2) =
      P2.Extracted.C16.wrappedVerifyT w.version w.key w.ts.wall w.ts.logical w.body encItems
        (fun k i => verifySig k i w.sig) := by
  unfold P2.Extracted.C16.wrappedVerifyT
  have : encItems (w.version, w.key, (w.ts.wall, w.ts.logical).1, (w.ts.wall, w.ts.logical).2, w.body) = w.items := rfl
  rw [this]
  by_cases h : verifySig w.key w.items w.sig = true <;> simp [h]

/-- `WrappedMessage::sign` as translated: the signature of `new` is over (MESSAGE_VERSION, key, timestamp,
    lamport, body) — the same tuple shape `verify` re-encodes. -/
theorem c16_sign_is_source (key : Nat) (ts : HTs) (body : Nat) :
    (wrap key ts body).sig =
      P2.Extracted.C16.wrappedSignT P2.Extracted.C16.messageVersion key ts.wall ts.logical body encItems
        (fun i => sign key i) := by
  rfl

/-- `from_bytes` as translated: the version check comes first and returns before `verify` is reached
    (first component = "verify was executed"); the model's `unwrap` has exactly this order. -/
theorem c16_from_bytes_is_source (w : Wire) (sigB : Nat) :
    let t := P2.Extracted.C16.fromBytesT w.version w.key sigB w.ts.wall w.ts.logical w.body
               P2.Extracted.C16.messageVersion
    unwrap (.wire w) =
      (match t.2 with
       | some _ => .error .version
       | none => if verifySig w.key w.items w.sig then .ok w else .error .signature) ∧
    (t.1 = true ↔ w.version = messageVersion) := by
  unfold P2.Extracted.C16.fromBytesT unwrap
  have hm : P2.Extracted.C16.messageVersion = messageVersion := by decide
  rw [hm]
  by_cases h : w.version = messageVersion
  · simp [h]
  · simp [h]

/-- Text ties for what is outside the translator's subset: the publisher stores `timestamp.increment()`
    and wraps with that timestamp and the forge's key; `new` signs (key, timestamp, body) with the same key it
    embeds; the wire tuple and its decoding have the documented field order. -/
theorem c16_source_shape :
    P2.Extracted.C16.publishTimestampUpdate = "timestamp.increment()" ∧
    P2.Extracted.C16.publishWrapArgs = "message, timestamp, self.forge.signing_key()" ∧
    P2.Extracted.C16.newSignArgs = "signing_key, verifying_key, timestamp, &body" ∧
    P2.Extracted.C16.toBytesTuple =
      "self.version, self.verifying_key, self.signature, timestamp, logical, &self.body," ∧
    P2.Extracted.C16.fromBytesTupleLet = "version, verifying_key, signature, timestamp, logical, body" := by
  decide

/-! ### non-vacuity -/

example : (publishAll 1 ⟨7, 0⟩ [(6, 0), (7, 0), (6, 0)]).map (·.ts) = [⟨7, 1⟩, ⟨7, 2⟩, ⟨7, 3⟩] := by decide
example : unwrap (.wire { wrap 1 ⟨5, 0⟩ 9 with ts := ⟨5, 1⟩ }) = .error .signature := by rfl
example : unwrap (.wire { wrap 1 ⟨5, 0⟩ 9 with version := 2 }) = .error .version := by rfl
example : unwrap (.wire { wrap 1 ⟨5, 0⟩ 9 with key := 2 }) = .error .signature := by rfl
example : unwrap (.wire (wrap 2 ⟨5, 0⟩ 9)) = .ok (wrap 2 ⟨5, 0⟩ 9) := by rfl
example : unwrap .garbage = .error .encoding := by rfl

end P2.C16
