/-
C03 — Ingest keeps every stored log a hash-linked, gap-free chain.
Property theorems (DESIGN.md §6 C03) about `ingest` / `pruneBelow` / histories of deliveries
and prune steps (`P2/Model/LogStore.lean`), proved for the repaired `validate_prunable_backlink`
(the C05 `fix:`); the invariant itself is in `P2/Lemmas/LogStore.lean`.

Histories are arbitrary lists of events — deliveries of *any* operations (honest, duplicated,
forged, equivocating, out of order, with missing prefixes) and prune steps, which happen only
when armed by a completed ingest of a prune-flagged operation but otherwise arbitrarily late or
never.  The only hypothesis on deliveries is `EvOK`: an operation is announced under the hash of
its header bytes, and that hash is injective.
-/
import P2.Model.LogStore
import P2.Lemmas.LogStore
import P2.Extracted.C03

namespace P2.C03
open P2.Header P2.LogStore P2.LogStoreLemmas

variable {E : Type} (Hh : Header E → Nat) (lg : Header E → Nat) (pf : Header E → Bool)

/-- States reachable from the empty store. -/
def Reachable (c : ExtCodec E) (tbl : SigTable) (st : Sys) : Prop :=
  ∃ es : List (Event E), (∀ e ∈ es, EvOK Hh e) ∧ st = run c tbl lg pf Sys.init es

theorem reachable_inv (hinj : ∀ h₁ h₂ : Header E, Hh h₁ = Hh h₂ → h₁ = h₂)
    (c : ExtCodec E) (tbl : SigTable) (st : Sys) (hr : Reachable Hh lg pf c tbl st) :
    Inv Hh lg pf st := by
  obtain ⟨es, hes, rfl⟩ := hr
  exact inv_run Hh lg pf hinj c tbl es Sys.init (inv_init Hh lg pf) hes

/-- **Unique sequence numbers**: in every reachable state no two rows of one log share a `seq`. -/
theorem c03_unique_seq (hinj : ∀ h₁ h₂ : Header E, Hh h₁ = Hh h₂ → h₁ = h₂)
    (c : ExtCodec E) (tbl : SigTable) (st : Sys) (hr : Reachable Hh lg pf c tbl st) :
    st.store.rows.Pairwise (fun r₁ r₂ =>
      ¬ (r₁.author = r₂.author ∧ r₁.log = r₂.log ∧ r₁.seq = r₂.seq)) :=
  (reachable_inv Hh lg pf hinj c tbl st hr).uniq

/-- **Hash-linked**: every stored row with `seq > 0` and no prune flag has the row directly
    before it stored, and backlinks to the hash of that row's header. -/
theorem c03_linked (hinj : ∀ h₁ h₂ : Header E, Hh h₁ = Hh h₂ → h₁ = h₂)
    (c : ExtCodec E) (tbl : SigTable) (st : Sys) (hr : Reachable Hh lg pf c tbl st)
    (r : Row) (hrow : r ∈ st.store.rows) (hpos : 0 < r.seq) (hfl : r.prune = false) :
    ∃ p ∈ st.store.rows, p.author = r.author ∧ p.log = r.log ∧ p.seq + 1 = r.seq ∧
      r.backlink = some p.hid :=
  (reachable_inv Hh lg pf hinj c tbl st hr).link r hrow hpos hfl

/-- order on heights: an empty log (`none`) is below everything -/
def hle : Option Nat → Option Nat → Prop
  | none, _ => True
  | some _, none => False
  | some x, some y => x ≤ y

theorem height_ge (s : Store) (a l : Nat) (r : Row) (hr : r ∈ s.rows) (hl : inLog a l r = true) :
    ∃ m, height s a l = some m ∧ r.seq ≤ m := by
  obtain ⟨m, hm⟩ := latest_exists s a l r hr hl
  exact ⟨m.seq, by simp [height, hm], (latest_some s a l m hm).2.2 r hr hl⟩

/-- **Height never decreases**: along every event of a history (delivery or prune step). -/
theorem c03_height_mono
    (c : ExtCodec E) (tbl : SigTable) (st : Sys) (hI : Inv Hh lg pf st) (e : Event E)
    (a l : Nat) :
    hle (height st.store a l) (height (step c tbl lg pf st e).1.store a l) := by
  cases hh : height st.store a l with
  | none => simp [hle]
  | some m =>
    -- the maximal row of the log
    simp only [height, Option.map_eq_some_iff] at hh
    obtain ⟨rm, hlat, hseq⟩ := hh
    obtain ⟨hmem, hlog, hmax⟩ := latest_some st.store a l rm hlat
    suffices hkeep : ∃ x ∈ (step c tbl lg pf st e).1.store.rows, inLog a l x = true ∧ m ≤ x.seq by
      obtain ⟨x, hx, hxl, hxm⟩ := hkeep
      obtain ⟨m', hm', hle'⟩ := height_ge _ a l x hx hxl
      rw [hm']; simp only [hle]; omega
    cases e with
    | deliver o topic =>
      simp only [step, stepWith]
      generalize hr : ingestStepWith validatePrunableBacklink c tbl st.store o (lg o.op.header) topic
        (pf o.op.header) = r
      rcases deliver_cases c tbl st.store o _ topic _ r hr with ⟨hs, _⟩ | ⟨hs, _⟩ | ⟨_, hrows, _⟩
      · exact ⟨rm, by simp [hs, hmem], hlog, by omega⟩
      · exact ⟨rm, by simp [hs, hmem], hlog, by omega⟩
      · exact ⟨rm, by simp [hrows, hmem], hlog, by omega⟩
    | prune a0 l0 n =>
      simp only [step, stepWith]
      cases hc : st.armed.contains (a0, l0, n) with
      | false => exact ⟨rm, by simpa using hmem, hlog, by omega⟩
      | true =>
        simp only [if_true, pruneBelow]
        refine ⟨rm, ?_, hlog, by omega⟩
        simp only [List.mem_filter, hmem, true_and, Bool.not_eq_eq_eq_not, Bool.not_true,
          Bool.and_eq_false_imp, decide_eq_false_iff_not, Nat.not_lt]
        intro hin
        -- the armed prune point has a stored row at or above it, which `rm` dominates
        obtain ⟨⟨w, hw, hwl, hwn⟩, _⟩ := hI.armedOk a0 l0 n (by simpa [List.contains_iff_mem] using hc)
        have h1 := (inLog_iff a0 l0 rm).1 hin
        have h2 := (inLog_iff a l rm).1 hlog
        have h3 := (inLog_iff a0 l0 w).1 hwl
        have := hmax w hw ((inLog_iff a l w).2 ⟨by rw [h3.1, ← h1.1, h2.1], by rw [h3.2, ← h1.2, h2.2]⟩)
        omega

/-- **Only extending operations are accepted.** An operation is inserted only if it extends its
    log: without prune flag its `seq` is `latest.seq + 1` and its backlink is the hash of the
    latest stored header (or it is `seq = 0` on an empty log); with the prune flag it lies
    strictly above the latest stored entry. Everything else — non-incremental seq, wrong
    backlink, missing prefix without prune flag, and anything failing `validate_operation`
    (forged or corrupted copies, C01) — is rejected and leaves the store unchanged. -/
theorem c03_rejects (c : ExtCodec E) (tbl : SigTable) (s : Store) (o : Op E) (log topic : Nat)
    (prune : Bool) :
    ((ingestStep c tbl s o log topic prune).2 = .inserted →
      validateOperation c tbl o.op = .ok () ∧
      (∀ p, latest s o.op.header.key log = some p → p.seq < o.op.header.seq) ∧
      (prune = false →
        (∀ p, latest s o.op.header.key log = some p →
            p.seq + 1 = o.op.header.seq ∧ o.op.header.backlink = some p.hid) ∧
        (latest s o.op.header.key log = none → o.op.header.seq = 0))) ∧
    ((ingestStep c tbl s o log topic prune).2 ≠ .inserted →
      (ingestStep c tbl s o log topic prune).1 = s) := by
  generalize hr : ingestStep c tbl s o log topic prune = r
  rcases deliver_cases c tbl s o log topic prune r hr with ⟨hs, e, hf⟩ | ⟨hs, ha, _⟩ | ⟨hins, _, _, hv, hvpb⟩
  · exact ⟨fun h => (by rw [hf] at h; cases h), fun _ => hs⟩
  · exact ⟨fun h => (by rw [ha] at h; cases h), fun _ => hs⟩
  · exact ⟨fun _ => ⟨hv, vpb_ok _ _ _ hvpb⟩, fun h => absurd hins h⟩

/-- **Tie to the source text**: the model's repaired `validatePrunableBacklink` is the Lean term
    that `rs2lean` regenerates from the current body of `validate_prunable_backlink`
    (p2panda-core/src/prune.rs) on every run — an edit of its decision logic (a dropped arm, `<=`
    → `<`, the prune branch accepting unconditionally again) breaks this proof obligation before
    any input is generated. -/
theorem c03_validate_prunable_is_source {E : Type} (past : Option Row) (h : Header E) (prune : Bool) :
    codeOf (validatePrunableBacklink past h prune) =
      P2.Extracted.C03.validatePrunableT (past.map pastTriple) h.seq h.key prune
        (fun p => codeOf (validateBacklink (rowOfTriple p) h)) := by
  rw [show @P2.Extracted.C03.validatePrunableT = @validatePrunableSpec from rfl]
  exact vpb_eq_spec past h prune

/-- `validate_backlink` (p2panda-core/src/operation.rs), read from the current source: the
    (condition, error) pairs in order — same author, `seq + 1`, backlink = hash of the past header,
    backlink present — are the ones `validateBacklink` transcribes. (`rs2lean` cannot translate
    this body — a `match` statement with early returns in its arms followed by a tail
    expression — so the tie is on the extracted condition texts.) -/
theorem c03_extracted_backlink_checks :
    P2.Extracted.C03.backlinkChecks =
      [("past_header.verifying_key != header.verifying_key", "TooManyAuthors"),
       ("past_header.seq_num + 1 != header.seq_num", "SeqNumNonIncremental"),
       ("past_header.hash() != backlink", "BacklinkMismatch"),
       ("header.backlink is None", "BacklinkMissing")] ∧
    P2.Extracted.C03.backlinkScrutinee = "header.backlink" ∧
    P2.Extracted.C03.backlinkTail = "Ok(())" := by
  refine ⟨rfl, rfl, rfl⟩

/-- Step order and arguments of `ingest_operation` and the SQL of `prune_entries` /
    `GET_LATEST_ENTRY`, read from the current sources: validate → begin → dedup on
    `operation.hash` (returning `Ok(false)`) → `past_header` bound to
    `get_latest_entry_tx(author, log_id)` unconditionally → `validate_prunable_backlink(past_header,
    header, prune_flag)` → insert → associate → commit; prune deletes `seq_num < ?` of one
    `(verifying_key, log_id)`; latest = `ORDER BY seq_num DESC LIMIT 1`. -/
theorem c03_extracted_ingest_order :
    P2.Extracted.C03.ingestCalls = ["validate_operation", "begin", "has_operation_tx", "rollback",
      "get_latest_entry_tx", "validate_prunable_backlink", "insert_operation", "associate", "commit"] ∧
    P2.Extracted.C03.pastHeaderExpr = "store .get_latest_entry_tx(&operation.header.verifying_key, log_id) .await .map_err(STORE)? .map(|operation| operation.header)" ∧
    P2.Extracted.C03.vpbArgs = "past_header.as_ref(), &operation.header, prune_flag" ∧
    P2.Extracted.C03.dedupKey = "&operation.hash" ∧
    P2.Extracted.C03.dedupReturn = "Ok(false)" ∧
    P2.Extracted.C03.insertArgs = "&id, operation, log_id" ∧
    P2.Extracted.C03.pruneSql = "DELETE FROM operations_v1 WHERE verifying_key = ? AND log_id = ? AND seq_num < ?" ∧
    P2.Extracted.C03.pruneBinds = ["author.to_string()", "log_id", "until.to_string()"] ∧
    P2.Extracted.C03.latestSql = "SELECT hash, header, body FROM operations_v1 WHERE verifying_key = ? AND log_id = ? ORDER BY seq_num DESC LIMIT 1" := by
  refine ⟨rfl, rfl, rfl, rfl, rfl, rfl, rfl, rfl, rfl⟩

/-! ### Non-vacuity: a concrete out-of-order history with a prune point and a forged copy -/

/-- honest chain of author 1 in log 7 (`Custom.a = 7`): seq 0, 1, 2ᵖ, 3; header hash ids 100+seq -/
def exHdr (seq : Nat) (bl : Option Nat) (flag : Bool) (sig : Nat) : Header Custom :=
  { version := 1, key := 1, signature := some sig, payloadSize := 0, payloadHash := none,
    seq := seq, backlink := bl, ext := { a := 7, flag := flag } }

def exOp (seq : Nat) (bl : Option Nat) (flag : Bool) : Op Custom :=
  { op := { id := 100 + seq, header := exHdr seq bl flag (200 + seq), body := none }, hid := 100 + seq }

def ex0 := exOp 0 none false
def ex1 := exOp 1 (some 100) false
def ex2 := exOp 2 (some 101) true
def ex3 := exOp 3 (some 102) false
/-- forged copy of `ex3`: backlink changed, signature kept -/
def ex3f : Op Custom :=
  { op := { id := 999, header := exHdr 3 (some 555) false 203, body := none }, hid := 999 }

def exTbl : SigTable :=
  [ex0, ex1, ex2, ex3].map (fun o => (1, encode customCodec (unsign o.op.header), 200 + o.op.header.seq))

def exLg (h : Header Custom) : Nat := h.ext.a
def exPf (h : Header Custom) : Bool := h.ext.flag

/-- deliveries: 1 (missing prefix: rejected), 0, 1, 3 (gap: rejected), forged 3, 2ᵖ, prune, 0 again
    (outdated: rejected), 3 -/
def exHistory : List (Event Custom) :=
  [.deliver ex1 5, .deliver ex0 5, .deliver ex1 5, .deliver ex3 5, .deliver ex3f 5, .deliver ex2 5,
   .prune 1 7 2, .deliver ex0 5, .deliver ex3 5]

example : (run customCodec exTbl exLg exPf Sys.init exHistory).store.rows.map (fun r => (r.seq, r.id))
    = [(2, 102), (3, 103)] := by rfl

example : (step customCodec exTbl exLg exPf Sys.init (.deliver ex1 5)).2
    = .ingest (.failed .backlinkMissing) := by rfl

end P2.C03
