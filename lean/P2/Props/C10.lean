import P2.Model.TxLts
import P2.Extracted.C10
/-
C10 — Store transactions are atomic and serialized under any abort point.

`P2.TxLts` is the labelled transition system of `SqliteStore::{begin, tx, commit, rollback}` and
`TransactionPermit::drop`.  Everything below is proved for every reachable state, i.e. for any number of tasks,
any scripts (a task may take any enabled step — including queries issued through `tx()` by tasks that share the
transaction without holding the permit) and any schedule, by one invariant over `Reach`.
Assumed, not proved: SQLite/sqlx atomicity ("commit applies the buffer, anything else discards it") and that
the tokio runtime eventually runs the spawned rollback task.
-/
namespace P2.C10
open P2.TxLts

inductive Reach : St → Prop
  | init : Reach St.init
  | step {s s' : St} {a : Act} : Reach s → stepFn s a = some s' → Reach s'

def holds : PC → Bool
  | .acquired | .inTx | .committing _ | .rollingBack => true
  | _ => false

/-- a transaction of this task is under way (opened, not yet ended) -/
def live : PC → Bool
  | .inTx | .committing _ | .rollingBack => true
  | _ => false

structure Inv (s : St) : Prop where
  hold_owner : ∀ u, holds (s.pc u) = true → s.owner = .task u
  owner_hold : ∀ t, s.owner = .task t → holds (s.pc t) = true
  spawned_iff : s.owner = .spawned ↔ s.spawn ≠ .none
  acq_slot : ∀ t, s.pc t = .acquired → s.slot = none
  intx_slot : ∀ t, s.pc t = .inTx → s.slot.isSome = true
  com_slot : ∀ t buf, s.pc t = .committing buf → s.slot = none ∧ ∀ w ∈ buf, w.txn = s.txn
  rb_slot : ∀ t, s.pc t = .rollingBack → s.slot = none
  free_slot : s.owner = .free → s.slot = none
  rel_slot : s.spawn = .releasing → s.slot = none
  lock_slot : s.lock.isSome = true → s.slot.isSome = true
  slot_txn : ∀ buf, s.slot = some buf → ∀ w ∈ buf, w.txn = s.txn
  stash_none : s.stash = none
  q_wait : ∀ t, t ∈ s.queue ↔ s.pc t = .waiting
  q_nodup : s.queue.Nodup
  q_free : s.owner = .free → s.queue = []
  db_hist : s.db = (s.hist.map (·.2)).flatten
  hist_txn : ∀ i buf, (i, buf) ∈ s.hist → ∀ w ∈ buf, w.txn = i
  hist_le : ∀ i buf, (i, buf) ∈ s.hist → i ≤ s.txn
  ab_le : ∀ i, i ∈ s.aborted → i ≤ s.txn
  live_fresh : ∀ t, live (s.pc t) = true → (∀ i buf, (i, buf) ∈ s.hist → i ≠ s.txn) ∧ s.txn ∉ s.aborted
  disjoint : ∀ i buf, (i, buf) ∈ s.hist → i ∉ s.aborted

private theorem live_holds {p : PC} (h : live p = true) : holds p = true := by
  cases p <;> simp_all [live, holds]

private theorem inv_init : Inv St.init := by
  constructor <;> simp [St.init, holds, live]

/-- closes one field of the invariant for one explicit successor state -/
macro "inv_field" : tactic => `(tactic|
  first
    | grind [upd, holds, live, live_holds, List.mem_erase_of_ne, List.Nodup.erase, List.nodup_cons, List.Nodup.mem_erase_iff]
    | (simp only [List.map_append, List.flatten_append, List.map_cons, List.map_nil, List.flatten_cons,
        List.flatten_nil, List.append_nil]; grind [upd, holds, live, live_holds])
    | (intro _ _ hm; simp only [List.mem_append, List.mem_singleton, Prod.mk.injEq] at hm; grind [upd, holds, live, live_holds])
    | (intro _ hm; simp only [List.mem_append, List.mem_singleton] at hm; grind [upd, holds, live, live_holds])
    | (simp only [List.mem_append, List.mem_singleton, Prod.mk.injEq]; grind [upd, holds, live, live_holds]))

macro "inv_action" hs:ident : tactic => `(tactic|
  (simp only [stepFn, release] at $hs:ident <;> (repeat (split at $hs:ident)) <;>
    simp at $hs:ident <;> subst $hs:ident <;> constructor <;> simp only [] <;> inv_field))

set_option maxHeartbeats 2000000 in
private theorem inv_want {s s' : St} (t : Nat) (h : Inv s) (hs : stepFn s (.want t) = some s') : Inv s' := by
  obtain ⟨h1, h2, h3, h4, h5, h6, h7, h8, h9, hl1, hl2, hst, q1, q2, q3, h10, h11, h12, h13, h14, h15⟩ := h
  inv_action hs

set_option maxHeartbeats 2000000 in
private theorem inv_opened {s s' : St} (t : Nat) (h : Inv s) (hs : stepFn s (.opened t) = some s') : Inv s' := by
  obtain ⟨h1, h2, h3, h4, h5, h6, h7, h8, h9, hl1, hl2, hst, q1, q2, q3, h10, h11, h12, h13, h14, h15⟩ := h
  inv_action hs

set_option maxHeartbeats 2000000 in
private theorem inv_cancelWait {s s' : St} (t : Nat) (h : Inv s) (hs : stepFn s (.cancelWait t) = some s') : Inv s' := by
  obtain ⟨h1, h2, h3, h4, h5, h6, h7, h8, h9, hl1, hl2, hst, q1, q2, q3, h10, h11, h12, h13, h14, h15⟩ := h
  inv_action hs

set_option maxHeartbeats 2000000 in
private theorem inv_cancelAcquired {s s' : St} (t : Nat) (h : Inv s) (hs : stepFn s (.cancelAcquired t) = some s') : Inv s' := by
  obtain ⟨h1, h2, h3, h4, h5, h6, h7, h8, h9, hl1, hl2, hst, q1, q2, q3, h10, h11, h12, h13, h14, h15⟩ := h
  inv_action hs

set_option maxHeartbeats 2000000 in
private theorem inv_txEnter {s s' : St} (t : Nat) (h : Inv s) (hs : stepFn s (.txEnter t) = some s') : Inv s' := by
  obtain ⟨h1, h2, h3, h4, h5, h6, h7, h8, h9, hl1, hl2, hst, q1, q2, q3, h10, h11, h12, h13, h14, h15⟩ := h
  inv_action hs

set_option maxHeartbeats 2000000 in
private theorem inv_txExit {s s' : St} (t : Nat) (n : Nat) (b : Bool) (h : Inv s) (hs : stepFn s (.txExit t n b) = some s') : Inv s' := by
  obtain ⟨h1, h2, h3, h4, h5, h6, h7, h8, h9, hl1, hl2, hst, q1, q2, q3, h10, h11, h12, h13, h14, h15⟩ := h
  inv_action hs

set_option maxHeartbeats 2000000 in
private theorem inv_txCancel {s s' : St} (t : Nat) (h : Inv s) (hs : stepFn s (.txCancel t) = some s') : Inv s' := by
  obtain ⟨h1, h2, h3, h4, h5, h6, h7, h8, h9, hl1, hl2, hst, q1, q2, q3, h10, h11, h12, h13, h14, h15⟩ := h
  inv_action hs

set_option maxHeartbeats 2000000 in
private theorem inv_commitTake {s s' : St} (t : Nat) (h : Inv s) (hs : stepFn s (.commitTake t) = some s') : Inv s' := by
  obtain ⟨h1, h2, h3, h4, h5, h6, h7, h8, h9, hl1, hl2, hst, q1, q2, q3, h10, h11, h12, h13, h14, h15⟩ := h
  inv_action hs

set_option maxHeartbeats 2000000 in
private theorem inv_commitDone {s s' : St} (t : Nat) (h : Inv s) (hs : stepFn s (.commitDone t) = some s') : Inv s' := by
  obtain ⟨h1, h2, h3, h4, h5, h6, h7, h8, h9, hl1, hl2, hst, q1, q2, q3, h10, h11, h12, h13, h14, h15⟩ := h
  inv_action hs

set_option maxHeartbeats 2000000 in
private theorem inv_commitFail {s s' : St} (t : Nat) (h : Inv s) (hs : stepFn s (.commitFail t) = some s') : Inv s' := by
  obtain ⟨h1, h2, h3, h4, h5, h6, h7, h8, h9, hl1, hl2, hst, q1, q2, q3, h10, h11, h12, h13, h14, h15⟩ := h
  inv_action hs

set_option maxHeartbeats 2000000 in
private theorem inv_cancelCommit {s s' : St} (t : Nat) (ap : Bool) (h : Inv s) (hs : stepFn s (.cancelCommit t ap) = some s') : Inv s' := by
  obtain ⟨h1, h2, h3, h4, h5, h6, h7, h8, h9, hl1, hl2, hst, q1, q2, q3, h10, h11, h12, h13, h14, h15⟩ := h
  inv_action hs

set_option maxHeartbeats 2000000 in
private theorem inv_rollbackTake {s s' : St} (t : Nat) (h : Inv s) (hs : stepFn s (.rollbackTake t) = some s') : Inv s' := by
  obtain ⟨h1, h2, h3, h4, h5, h6, h7, h8, h9, hl1, hl2, hst, q1, q2, q3, h10, h11, h12, h13, h14, h15⟩ := h
  inv_action hs

set_option maxHeartbeats 2000000 in
private theorem inv_rollbackDone {s s' : St} (t : Nat) (h : Inv s) (hs : stepFn s (.rollbackDone t) = some s') : Inv s' := by
  obtain ⟨h1, h2, h3, h4, h5, h6, h7, h8, h9, hl1, hl2, hst, q1, q2, q3, h10, h11, h12, h13, h14, h15⟩ := h
  inv_action hs

set_option maxHeartbeats 2000000 in
private theorem inv_cancelRollback {s s' : St} (t : Nat) (h : Inv s) (hs : stepFn s (.cancelRollback t) = some s') : Inv s' := by
  obtain ⟨h1, h2, h3, h4, h5, h6, h7, h8, h9, hl1, hl2, hst, q1, q2, q3, h10, h11, h12, h13, h14, h15⟩ := h
  inv_action hs

set_option maxHeartbeats 2000000 in
private theorem inv_dropPermit {s s' : St} (t : Nat) (h : Inv s) (hs : stepFn s (.dropPermit t) = some s') : Inv s' := by
  obtain ⟨h1, h2, h3, h4, h5, h6, h7, h8, h9, hl1, hl2, hst, q1, q2, q3, h10, h11, h12, h13, h14, h15⟩ := h
  inv_action hs

set_option maxHeartbeats 2000000 in
private theorem inv_rbTake {s s' : St}  (h : Inv s) (hs : stepFn s (.rbTake ) = some s') : Inv s' := by
  obtain ⟨h1, h2, h3, h4, h5, h6, h7, h8, h9, hl1, hl2, hst, q1, q2, q3, h10, h11, h12, h13, h14, h15⟩ := h
  inv_action hs

set_option maxHeartbeats 2000000 in
private theorem inv_rbRelease {s s' : St}  (h : Inv s) (hs : stepFn s (.rbRelease ) = some s') : Inv s' := by
  obtain ⟨h1, h2, h3, h4, h5, h6, h7, h8, h9, hl1, hl2, hst, q1, q2, q3, h10, h11, h12, h13, h14, h15⟩ := h
  inv_action hs

private theorem inv_step {s s' : St} {a : Act} (h : Inv s) (hs : stepFn s a = some s') : Inv s' := by
  cases a with
  | want t => exact inv_want t h hs
  | opened t => exact inv_opened t h hs
  | cancelWait t => exact inv_cancelWait t h hs
  | cancelAcquired t => exact inv_cancelAcquired t h hs
  | txEnter t => exact inv_txEnter t h hs
  | txExit t n b => exact inv_txExit t n b h hs
  | txCancel t => exact inv_txCancel t h hs
  | commitTake t => exact inv_commitTake t h hs
  | commitDone t => exact inv_commitDone t h hs
  | commitFail t => exact inv_commitFail t h hs
  | cancelCommit t ap => exact inv_cancelCommit t ap h hs
  | rollbackTake t => exact inv_rollbackTake t h hs
  | rollbackDone t => exact inv_rollbackDone t h hs
  | cancelRollback t => exact inv_cancelRollback t h hs
  | dropPermit t => exact inv_dropPermit t h hs
  | rbTake  => exact inv_rbTake  h hs
  | rbRelease  => exact inv_rbRelease  h hs

private theorem inv_reach {s : St} (h : Reach s) : Inv s := by
  induction h with
  | init => exact inv_init
  | step _ hs ih => exact inv_step ih hs

/-- **Mutual exclusion.** In every reachable state at most one task is inside `begin … commit/rollback`
    (holds the permit); an open transaction object implies the semaphore is taken; no task holds the permit
    while the spawned rollback task does; the `assert!(tx_ref.is_none())` in `begin` cannot fire (a task that
    has just acquired the permit always finds the slot empty); and while a `tx()` query is in flight the
    transaction is in the slot, behind the lock — so whoever wants to take it out (commit, rollback, the
    clean-up task) finds it there and waits for the query. -/
theorem c10_mutex {s : St} (h : Reach s) :
    (∀ t u, holds (s.pc t) = true → holds (s.pc u) = true → t = u) ∧
    (s.slot.isSome → s.owner ≠ .free) ∧
    (s.spawn ≠ .none → ∀ t, holds (s.pc t) = false) ∧
    (∀ t, s.pc t = .acquired → s.slot = none) ∧
    (s.lock.isSome = true → s.slot.isSome = true) := by
  have i := inv_reach h
  refine ⟨?_, ?_, ?_, i.acq_slot, i.lock_slot⟩
  · intro t u ht hu
    have h1 := i.hold_owner t ht
    have h2 := i.hold_owner u hu
    rw [h1] at h2
    injection h2 with h2
  · intro hs hf
    rw [i.free_slot hf] at hs
    simp at hs
  · intro hsp t
    have ho := i.spawned_iff.mpr hsp
    cases hh : holds (s.pc t) with
    | false => rfl
    | true =>
      have := i.hold_owner t hh
      rw [ho] at this
      cases this

/-- **Isolation.** The open sqlx transaction only ever contains rows written in *this* transaction (by its
    holder or by tasks sharing it): nothing of an earlier, aborted or committed, transaction is left in it, and
    nothing of it has an earlier number. -/
theorem c10_isolation {s : St} (h : Reach s) (buf : List Write) (hb : s.slot = some buf) :
    ∀ w ∈ buf, w.txn = s.txn :=
  (inv_reach h).slot_txn buf hb

/-- **Serial.** The committed database is the concatenation, in commit order, of the row lists of exactly the
    committed transactions, each consisting of rows of that one transaction only. -/
theorem c10_serial {s : St} (h : Reach s) :
    s.db = (s.hist.map (·.2)).flatten ∧ ∀ i buf, (i, buf) ∈ s.hist → ∀ w ∈ buf, w.txn = i :=
  ⟨(inv_reach h).db_hist, (inv_reach h).hist_txn⟩

/-- Only `commitDone` and a cancelled-but-applied commit (`cancelCommit _ true`) touch the committed rows. -/
def commits : Act → Bool
  | .commitDone _ => true
  | .cancelCommit _ true => true
  | _ => false

/-- **No trace.** A step that is not a (possibly cancelled but applied) commit leaves the committed rows and
    the list of committed transactions untouched — rollback, failed commit, dropped permit, `?`, panic,
    cancellation at any await point, queries in flight and the spawned rollback contribute nothing; every
    committed row belongs to a committed transaction; and no committed row was written in a transaction that
    ended any other way (a transaction ends exactly once: committed and aborted numbers are disjoint). -/
theorem c10_no_trace :
    (∀ (s s' : St) (a : Act), stepFn s a = some s' → commits a = false → s'.db = s.db ∧ s'.hist = s.hist) ∧
    (∀ s, Reach s → ∀ w ∈ s.db, (∃ buf, (w.txn, buf) ∈ s.hist ∧ w ∈ buf) ∧ w.txn ∉ s.aborted) := by
  constructor
  · intro s s' a hs hc
    cases a <;> simp only [stepFn, release] at hs <;> (repeat (split at hs)) <;>
      simp at hs <;> (try subst hs) <;> simp_all [commits]
  · intro s h w hw
    have i := inv_reach h
    rw [i.db_hist] at hw
    simp only [List.mem_flatten, List.mem_map] at hw
    obtain ⟨l, ⟨⟨t, ws⟩, he, rfl⟩, hwl⟩ := hw
    have := i.hist_txn t ws he w hwl
    refine ⟨⟨ws, by rw [this]; exact he, hwl⟩, ?_⟩
    rw [this]
    exact i.disjoint t ws he

/-- Steps allowed in the progress argument for task `t`: a query in flight completes, whoever holds the permit
    only *finishes* what it has started (completes `begin`, rolls back / completes its commit) — this includes
    the tasks queued before `t`, which tokio's fair semaphore serves first — and the spawned rollback task runs.
    No task starts a new `begin` or a new query, or is cancelled. -/
def finishing (t : Nat) : Act → Bool
  | .opened _ => true
  | .txExit _ _ _ => true
  | .rollbackTake u => u != t
  | .rollbackDone u => u != t
  | .commitDone u => u != t
  | .commitFail u => u != t
  | .rbTake => true
  | .rbRelease => true
  | _ => false

private theorem runActs_append (s : St) (as bs : List Act) :
    runActs s (as ++ bs) = (runActs s as).bind (fun s' => runActs s' bs) := by
  induction as generalizing s with
  | nil => simp [runActs]
  | cons a as ih =>
    simp only [List.cons_append, runActs]
    cases stepFn s a with
    | none => simp
    | some s' => simp [ih]

private theorem reach_run {s s' : St} (h : Reach s) (as : List Act) (hr : runActs s as = some s') : Reach s' := by
  induction as generalizing s with
  | nil => simp [runActs] at hr; subst hr; exact h
  | cons a as ih =>
    simp only [runActs] at hr
    cases hs : stepFn s a with
    | none => simp [hs] at hr
    | some s1 => rw [hs] at hr; exact ih (Reach.step h hs) hr

/-- A query in flight can always complete; afterwards the lock is free and nothing else has changed as far as
    the permit protocol is concerned. -/
private theorem unlock_path {s : St} (h : Reach s) (t : Nat) :
    ∃ as s', (∀ a ∈ as, finishing t a = true) ∧ runActs s as = some s' ∧ s'.lock = none ∧
      s'.pc = s.pc ∧ s'.queue = s.queue ∧ s'.owner = s.owner ∧ s'.spawn = s.spawn ∧
      (s.slot.isSome = true → s'.slot.isSome = true) ∧ (s.slot = none → s'.slot = none) := by
  have i := inv_reach h
  cases hl : s.lock with
  | none => exact ⟨[], s, by simp, rfl, hl, rfl, rfl, rfl, rfl, id, id⟩
  | some x =>
    have hs := i.lock_slot (by simp [hl])
    cases hsl : s.slot with
    | none => rw [hsl] at hs; simp at hs
    | some buf =>
      refine ⟨[.txExit x 0 false], ?_⟩
      simp [runActs, stepFn, hsl, hl, finishing]

/-- One round: from a reachable state in which `t` is queued, finishing steps make the current owner give the
    permit back; the head of the queue gets it. Either that is `t`, or `t` is still queued and the queue is
    shorter. -/
private theorem release_round {s : St} (h0 : Reach s) (t : Nat) (hw0 : s.pc t = .waiting) :
    ∃ as s', (∀ a ∈ as, finishing t a = true) ∧ runActs s as = some s' ∧
      (s'.pc t = .acquired ∨ (s'.pc t = .waiting ∧ s'.queue.length < s.queue.length)) := by
  -- first let a query in flight complete
  obtain ⟨as0, s1, hfin0, hrun0, hlock, hpc, hq1, ho1, hsp1, hsl1, hsl0⟩ := unlock_path h0 t
  have h := reach_run h0 as0 hrun0
  have hw : s1.pc t = .waiting := by rw [hpc]; exact hw0
  suffices hsuff : ∃ as s', (∀ a ∈ as, finishing t a = true) ∧ runActs s1 as = some s' ∧
      (s'.pc t = .acquired ∨ (s'.pc t = .waiting ∧ s'.queue.length < s1.queue.length)) by
    obtain ⟨as, s', hfin, hrun, hres⟩ := hsuff
    refine ⟨as0 ++ as, s', ?_, ?_, ?_⟩
    · intro a ha
      rcases List.mem_append.mp ha with ha | ha
      · exact hfin0 a ha
      · exact hfin a ha
    · rw [runActs_append, hrun0]; exact hrun
    · rw [hq1] at hres; exact hres
  have i := inv_reach h
  have htq : t ∈ s1.queue := (i.q_wait t).mpr hw
  cases hq : s1.queue with
  | nil => rw [hq] at htq; cases htq
  | cons u q =>
    have hu_t : u = t ∨ (u ≠ t ∧ t ∈ q) := by
      rw [hq] at htq
      rcases List.mem_cons.mp htq with e | e
      · exact Or.inl e.symm
      · by_cases hut : u = t
        · exact Or.inl hut
        · exact Or.inr ⟨hut, e⟩
    cases ho : s1.owner with
    | free => have := i.q_free ho; rw [hq] at this; cases this
    | spawned =>
      have hsp := i.spawned_iff.mp ho
      cases hs : s1.spawn with
      | none => exact absurd hs hsp
      | pending =>
        refine ⟨[.rbTake, .rbRelease], ?_⟩
        rcases hu_t with e | ⟨hne, _⟩
        · subst e; simp [runActs, stepFn, release, hs, hq, hlock, finishing, upd]
        · have : ¬ t = u := fun e => hne e.symm
          simp [runActs, stepFn, release, hs, hq, hlock, finishing, upd, this, hw]
      | releasing =>
        refine ⟨[.rbRelease], ?_⟩
        rcases hu_t with e | ⟨hne, _⟩
        · subst e; simp [runActs, stepFn, release, hs, hq, finishing, upd]
        · have : ¬ t = u := fun e => hne e.symm
          simp [runActs, stepFn, release, hs, hq, finishing, upd, this, hw]
    | task v =>
      have hv := i.owner_hold v ho
      have hvt : v ≠ t := by
        intro e; subst e; rw [hw] at hv; simp [holds] at hv
      have htv : ¬ t = v := fun e => hvt e.symm
      have hne : (v != t) = true := by simp [hvt]
      cases hpc' : s1.pc v with
      | idle => rw [hpc'] at hv; simp [holds] at hv
      | waiting => rw [hpc'] at hv; simp [holds] at hv
      | acquired =>
        have hslot := i.acq_slot v hpc'
        refine ⟨[.opened v, .rollbackTake v, .rollbackDone v], ?_⟩
        rcases hu_t with e | ⟨hut, _⟩
        · subst e; simp [runActs, stepFn, release, hpc', hslot, hlock, hq, finishing, hne, upd]
        · have : ¬ t = u := fun e => hut e.symm
          simp [runActs, stepFn, release, hpc', hslot, hlock, hq, finishing, hne, upd, this, htv, hw]
      | inTx =>
        have hslot := i.intx_slot v hpc'
        cases hsl : s1.slot with
        | none => rw [hsl] at hslot; simp at hslot
        | some buf =>
          refine ⟨[.rollbackTake v, .rollbackDone v], ?_⟩
          rcases hu_t with e | ⟨hut, _⟩
          · subst e; simp [runActs, stepFn, release, hpc', hsl, hlock, hq, finishing, hne, upd]
          · have : ¬ t = u := fun e => hut e.symm
            simp [runActs, stepFn, release, hpc', hsl, hlock, hq, finishing, hne, upd, this, htv, hw]
      | committing buf =>
        by_cases hb : noBad buf = true
        · refine ⟨[.commitDone v], ?_⟩
          rcases hu_t with e | ⟨hut, _⟩
          · subst e; simp [runActs, stepFn, release, hpc', hb, hq, finishing, hne, upd]
          · have : ¬ t = u := fun e => hut e.symm
            simp [runActs, stepFn, release, hpc', hb, hq, finishing, hne, upd, this, htv, hw]
        · refine ⟨[.commitFail v], ?_⟩
          rcases hu_t with e | ⟨hut, _⟩
          · subst e; simp [runActs, stepFn, release, hpc', hq, finishing, hne, upd]
          · have : ¬ t = u := fun e => hut e.symm
            simp [runActs, stepFn, release, hpc', hq, finishing, hne, upd, this, htv, hw]
      | rollingBack =>
        refine ⟨[.rollbackDone v], ?_⟩
        rcases hu_t with e | ⟨hut, _⟩
        · subst e; simp [runActs, stepFn, release, hpc', hq, finishing, hne, upd]
        · have : ¬ t = u := fun e => hut e.symm
          simp [runActs, stepFn, release, hpc', hq, finishing, hne, upd, this, htv, hw]

/-- **Progress.** From every reachable state in which some task `t` waits in `begin`, a state where `t` is
    inside its own transaction is reachable using only finishing steps (a query in flight completes, the owner
    and the tasks queued before `t` complete and end their transactions, the spawned rollback runs): no abort
    point — rollback, failed commit, dropped permit (also with a query of a sharing task in flight),
    cancellation inside `begin`, `commit` or `rollback` — leaks the permit. -/
theorem c10_progress {s : St} (h : Reach s) (t : Nat) (hw : s.pc t = .waiting) :
    ∃ as s', (∀ a ∈ as, finishing t a = true) ∧ runActs s as = some s' ∧ s'.pc t = .inTx := by
  have key : ∀ n (s : St), Reach s → s.pc t = .waiting → s.queue.length = n →
      ∃ as s', (∀ a ∈ as, finishing t a = true) ∧ runActs s as = some s' ∧ s'.pc t = .inTx := by
    intro n
    induction n using Nat.strongRecOn with
    | _ n ih =>
      intro s h hw hn
      obtain ⟨as, s1, hfin, hrun, hcase⟩ := release_round h t hw
      have h1 := reach_run h as hrun
      rcases hcase with hacq | ⟨hw1, hlt⟩
      · have i1 := inv_reach h1
        have hslot := i1.acq_slot t hacq
        have hlock : s1.lock = none := by
          cases hl : s1.lock with
          | none => rfl
          | some x => have := i1.lock_slot (by simp [hl]); rw [hslot] at this; simp at this
        refine ⟨as ++ [.opened t], ?_⟩
        have : ∃ s2, runActs s1 [.opened t] = some s2 ∧ s2.pc t = .inTx := by
          simp [runActs, stepFn, hacq, hslot, hlock, upd]
        obtain ⟨s2, hr2, hp2⟩ := this
        refine ⟨s2, ?_, ?_, hp2⟩
        · intro a ha
          rcases List.mem_append.mp ha with ha | ha
          · exact hfin a ha
          · simp at ha; subst ha; simp [finishing]
        · rw [runActs_append, hrun]; exact hr2
      · obtain ⟨bs, s2, hfin2, hrun2, hp2⟩ := ih s1.queue.length (by omega) s1 h1 hw1 rfl
        refine ⟨as ++ bs, s2, ?_, ?_, hp2⟩
        · intro a ha
          rcases List.mem_append.mp ha with ha | ha
          · exact hfin a ha
          · exact hfin2 a ha
        · rw [runActs_append, hrun]; exact hrun2
  exact key s.queue.length s h hw rfl

/-- **Tie to the source text** (re-extracted from `impl Drop for TransactionPermit` on every run): the clean-up
    task is spawned exactly when the permit was *not* marked committed, it owns a clone of the semaphore permit,
    and its statements are, in this order: take the transaction out of the slot, roll it back, and only then
    `drop(permit)` — the order of the model's `rbTake` before `rbRelease` (and of `dropPermit` moving the
    permit to the spawned task). Moving `drop(permit)` before the rollback, inverting the condition or not
    cloning the permit breaks this theorem before any schedule is run. -/
theorem c10_extracted_drop :
    P2.Extracted.C10.dropCondition = "!self.committed" ∧
    P2.Extracted.C10.permitMovedIntoTask = true ∧
    P2.Extracted.C10.dropTaskStmts =
      ["if let Some(tx) = tx.lock().await.take() {", "let _ = tx.rollback().await;", "}", "drop(permit);"] := by
  decide

/-- **Tie to the source text of `SqliteStore::tx()`**: it locks the slot, reaches the transaction *through the
    guard* (`tx_ref.as_mut()`: the transaction stays in the slot) and awaits the caller's closure as its last
    expression, i.e. with the `MutexGuard` still alive — the model's `txEnter … txExit` holding `lock`. Taking the
    transaction out of the slot for the duration of the query, or dropping the guard before the closure runs,
    changes this text and breaks the theorem. -/
theorem c10_extracted_tx :
    P2.Extracted.C10.txStmts =
      ["let mut tx_ref = self.tx.lock().await;",
       "let tx = tx_ref.as_mut().ok_or(SqliteError::TransactionMissing)?;",
       "f(tx).await"] := by
  decide

/-! ### the variants the harness is meant to catch, and non-vacuity -/

/-- If `Drop` released the semaphore at once and left only the rollback to the spawned task ("release before the
    rollback finishes"), a second task could acquire the permit while the first task's aborted transaction is
    still in the slot — the state in which `begin`'s `assert!` panics. -/
theorem c10_early_release_violates :
    ∃ s, (([Act.want 0, .opened 0, .txEnter 0, .txExit 0 1 false, .dropPermit 0, .want 1] : List Act).foldl
            (fun (o : Option St) a => o.bind (fun s => stepFnEarlyRelease s a)) (some St.init)) = some s ∧
      s.pc 1 = .acquired ∧ s.slot = some [{ tid := 0, n := 1, bad := false, txn := 1 }] := by
  refine ⟨_, rfl, ?_, ?_⟩ <;> simp [upd, release, St.init]

/-- If `tx()` took the transaction out of the slot while its query runs ("do not hold the lock across a long
    query"), a permit dropped while a query of a task sharing the transaction is in flight makes the clean-up task
    find an empty slot: it rolls back nothing and releases the permit; the query then puts the aborted, still
    open transaction back. Result: an open transaction in the slot while the permit is free (`c10_mutex` fails),
    the next `begin` runs into its `assert!` — or, begun inside the window, gets its fresh transaction replaced
    by the stale one and commits the aborted rows. -/
theorem c10_take_out_violates :
    ∃ s, (([Act.want 0, .opened 0, .txEnter 0, .txExit 0 1 false, .txEnter 7, .dropPermit 0, .rbTake, .rbRelease,
            .txExit 7 2 false, .want 1] : List Act).foldl
            (fun (o : Option St) a => o.bind (fun s => stepFnTakeOut s a)) (some St.init)) = some s ∧
      s.pc 1 = .acquired ∧ s.owner = .task 1 ∧ 1 ∈ s.aborted ∧
      s.slot = some [{ tid := 0, n := 1, bad := false, txn := 1 }, { tid := 7, n := 2, bad := false, txn := 1 }] := by
  refine ⟨_, rfl, ?_, ?_, ?_, ?_⟩ <;> simp [upd, release, St.init]

/-- In the real protocol the same schedule is not possible: the clean-up task cannot take the transaction while
    the query is in flight (`rbTake` is not enabled) … -/
example : (runActs St.init [.want 0, .opened 0, .txEnter 7, .dropPermit 0, .rbTake]).isNone = true := by decide
/-- … it can once the query has completed, and then the slot is empty before the permit is released. -/
example : (runActs St.init [.want 0, .opened 0, .txEnter 7, .dropPermit 0, .txExit 7 2 false, .rbTake, .rbRelease,
    .want 1]).map (fun s => (s.pc 1, s.slot, s.db)) = some (PC.acquired, none, []) := by decide

private def demo : List Act :=
  [.want 0, .want 1, .opened 0, .txEnter 0, .txExit 0 1 false, .txEnter 5, .txExit 5 2 false, .commitTake 0,
   .commitDone 0,
   .opened 1, .txEnter 1, .txExit 1 3 false, .dropPermit 1, .want 0, .rbTake, .rbRelease,
   .opened 0, .txEnter 0, .txExit 0 4 false, .commitTake 0, .cancelCommit 0 true, .want 2, .rbTake, .rbRelease,
   .opened 2, .txEnter 2, .txExit 2 5 true, .commitTake 2, .commitFail 2]

example : (runActs St.init demo).map (·.db) =
    some [⟨0, 1, false, 1⟩, ⟨5, 2, false, 1⟩, ⟨0, 4, false, 3⟩] := by decide
example : (runActs St.init demo).map (·.hist) =
    some [(1, [⟨0, 1, false, 1⟩, ⟨5, 2, false, 1⟩]), (3, [⟨0, 4, false, 3⟩])] := by decide
example : (runActs St.init demo).map (·.aborted) = some [2, 4] := by decide
example : (runActs St.init demo).map (·.owner) = some Owner.free := by decide
/-- while the spawned rollback owns the permit a new `begin` is queued, and gets the permit by hand-over -/
example : (runActs St.init [.want 0, .opened 0, .dropPermit 0, .want 1]).map (fun s => (s.pc 1, s.owner)) =
    some (PC.waiting, Owner.spawned) := by decide
example : (runActs St.init [.want 0, .opened 0, .dropPermit 0, .want 1, .rbTake, .rbRelease]).map
    (fun s => (s.pc 1, s.owner, s.slot)) = some (PC.acquired, Owner.task 1, none) := by decide

end P2.C10
