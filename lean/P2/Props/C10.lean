import P2.Model.TxLts
import P2.Extracted.C10
/-
C10 — Store transactions are atomic and serialized under any abort point.

`P2.TxLts` is the labelled transition system of `SqliteStore::{begin, tx, commit, rollback}` and
`TransactionPermit::drop`.  Everything below is proved for every reachable state, i.e. for any number of tasks,
any scripts (a task may take any enabled step) and any schedule, by one invariant over `Reach`.
Assumed, not proved: SQLite/sqlx atomicity ("commit applies the buffer, anything else discards it") and that
the tokio runtime eventually runs the spawned rollback task (`rbTake`, `rbRelease` are always enabled once
spawned — `c10_progress` uses exactly that).
-/
namespace P2.C10
open P2.TxLts

inductive Reach : St → Prop
  | init : Reach St.init
  | step {s s' : St} {a : Act} : Reach s → stepFn s a = some s' → Reach s'

def holds : PC → Bool
  | .acquired | .inTx _ | .committing _ _ | .rollingBack _ => true
  | _ => false

structure Inv (s : St) : Prop where
  hold_owner : ∀ u, holds (s.pc u) = true → s.owner = .task u
  owner_hold : ∀ t, s.owner = .task t → holds (s.pc t) = true
  spawned_iff : s.owner = .spawned ↔ s.spawn ≠ .none
  acq_slot : ∀ t, s.pc t = .acquired → s.slot = none
  intx_slot : ∀ t ws, s.pc t = .inTx ws → s.slot = some ws ∧ ∀ w ∈ ws, w.tid = t
  com_slot : ∀ t buf ws, s.pc t = .committing buf ws → s.slot = none ∧ buf = ws ∧ ∀ w ∈ ws, w.tid = t
  rb_slot : ∀ t ws, s.pc t = .rollingBack ws → s.slot = none
  free_slot : s.owner = .free → s.slot = none
  rel_slot : s.spawn = .releasing → s.slot = none
  q_wait : ∀ t, t ∈ s.queue ↔ s.pc t = .waiting
  q_nodup : s.queue.Nodup
  q_free : s.owner = .free → s.queue = []
  db_hist : s.db = (s.hist.map (·.2)).flatten
  hist_tid : ∀ t ws, (t, ws) ∈ s.hist → ∀ w ∈ ws, w.tid = t

private theorem inv_init : Inv St.init := by
  constructor <;> simp [St.init, holds]

/-- closes one field of the invariant for one explicit successor state -/
macro "inv_field" : tactic => `(tactic|
  first
    | grind [upd, holds, List.mem_erase_of_ne, List.Nodup.erase, List.nodup_cons, List.Nodup.mem_erase_iff]
    | (simp only [List.map_append, List.flatten_append, List.map_cons, List.map_nil, List.flatten_cons,
        List.flatten_nil, List.append_nil]; grind [upd, holds])
    | (intro _ _ hm; simp only [List.mem_append, List.mem_singleton, Prod.mk.injEq] at hm; grind [upd, holds]))

macro "inv_action" hs:ident : tactic => `(tactic|
  (simp only [stepFn, release] at $hs:ident <;> (repeat (split at $hs:ident)) <;>
    simp at $hs:ident <;> subst $hs:ident <;> constructor <;> simp only [] <;> inv_field))

set_option maxHeartbeats 1000000 in
private theorem inv_want {s s' : St} (t : Nat) (h : Inv s) (hs : stepFn s (.want t) = some s') : Inv s' := by
  obtain ⟨h1, h2, h3, h4, h5, h6, h7, h8, h9, q1, q2, q3, h10, h11⟩ := h
  inv_action hs

set_option maxHeartbeats 1000000 in
private theorem inv_opened {s s' : St} (t : Nat) (h : Inv s) (hs : stepFn s (.opened t) = some s') : Inv s' := by
  obtain ⟨h1, h2, h3, h4, h5, h6, h7, h8, h9, q1, q2, q3, h10, h11⟩ := h
  inv_action hs

set_option maxHeartbeats 1000000 in
private theorem inv_cancelWait {s s' : St} (t : Nat) (h : Inv s) (hs : stepFn s (.cancelWait t) = some s') : Inv s' := by
  obtain ⟨h1, h2, h3, h4, h5, h6, h7, h8, h9, q1, q2, q3, h10, h11⟩ := h
  inv_action hs

set_option maxHeartbeats 1000000 in
private theorem inv_cancelAcquired {s s' : St} (t : Nat) (h : Inv s) (hs : stepFn s (.cancelAcquired t) = some s') : Inv s' := by
  obtain ⟨h1, h2, h3, h4, h5, h6, h7, h8, h9, q1, q2, q3, h10, h11⟩ := h
  inv_action hs

set_option maxHeartbeats 1000000 in
private theorem inv_write {s s' : St} (t : Nat) (n : Nat) (b : Bool) (h : Inv s) (hs : stepFn s (.write t n b) = some s') : Inv s' := by
  obtain ⟨h1, h2, h3, h4, h5, h6, h7, h8, h9, q1, q2, q3, h10, h11⟩ := h
  inv_action hs

set_option maxHeartbeats 1000000 in
private theorem inv_commitTake {s s' : St} (t : Nat) (h : Inv s) (hs : stepFn s (.commitTake t) = some s') : Inv s' := by
  obtain ⟨h1, h2, h3, h4, h5, h6, h7, h8, h9, q1, q2, q3, h10, h11⟩ := h
  inv_action hs

set_option maxHeartbeats 1000000 in
private theorem inv_commitDone {s s' : St} (t : Nat) (h : Inv s) (hs : stepFn s (.commitDone t) = some s') : Inv s' := by
  obtain ⟨h1, h2, h3, h4, h5, h6, h7, h8, h9, q1, q2, q3, h10, h11⟩ := h
  inv_action hs

set_option maxHeartbeats 1000000 in
private theorem inv_commitFail {s s' : St} (t : Nat) (h : Inv s) (hs : stepFn s (.commitFail t) = some s') : Inv s' := by
  obtain ⟨h1, h2, h3, h4, h5, h6, h7, h8, h9, q1, q2, q3, h10, h11⟩ := h
  inv_action hs

set_option maxHeartbeats 1000000 in
private theorem inv_cancelCommit {s s' : St} (t : Nat) (ap : Bool) (h : Inv s) (hs : stepFn s (.cancelCommit t ap) = some s') : Inv s' := by
  obtain ⟨h1, h2, h3, h4, h5, h6, h7, h8, h9, q1, q2, q3, h10, h11⟩ := h
  inv_action hs

set_option maxHeartbeats 1000000 in
private theorem inv_rollbackTake {s s' : St} (t : Nat) (h : Inv s) (hs : stepFn s (.rollbackTake t) = some s') : Inv s' := by
  obtain ⟨h1, h2, h3, h4, h5, h6, h7, h8, h9, q1, q2, q3, h10, h11⟩ := h
  inv_action hs

set_option maxHeartbeats 1000000 in
private theorem inv_rollbackDone {s s' : St} (t : Nat) (h : Inv s) (hs : stepFn s (.rollbackDone t) = some s') : Inv s' := by
  obtain ⟨h1, h2, h3, h4, h5, h6, h7, h8, h9, q1, q2, q3, h10, h11⟩ := h
  inv_action hs

set_option maxHeartbeats 1000000 in
private theorem inv_cancelRollback {s s' : St} (t : Nat) (h : Inv s) (hs : stepFn s (.cancelRollback t) = some s') : Inv s' := by
  obtain ⟨h1, h2, h3, h4, h5, h6, h7, h8, h9, q1, q2, q3, h10, h11⟩ := h
  inv_action hs

set_option maxHeartbeats 1000000 in
private theorem inv_dropPermit {s s' : St} (t : Nat) (h : Inv s) (hs : stepFn s (.dropPermit t) = some s') : Inv s' := by
  obtain ⟨h1, h2, h3, h4, h5, h6, h7, h8, h9, q1, q2, q3, h10, h11⟩ := h
  inv_action hs

set_option maxHeartbeats 1000000 in
private theorem inv_rbTake {s s' : St}  (h : Inv s) (hs : stepFn s (.rbTake ) = some s') : Inv s' := by
  obtain ⟨h1, h2, h3, h4, h5, h6, h7, h8, h9, q1, q2, q3, h10, h11⟩ := h
  inv_action hs

set_option maxHeartbeats 1000000 in
private theorem inv_rbRelease {s s' : St}  (h : Inv s) (hs : stepFn s (.rbRelease ) = some s') : Inv s' := by
  obtain ⟨h1, h2, h3, h4, h5, h6, h7, h8, h9, q1, q2, q3, h10, h11⟩ := h
  inv_action hs

private theorem inv_step {s s' : St} {a : Act} (h : Inv s) (hs : stepFn s a = some s') : Inv s' := by
  cases a with
  | want t => exact inv_want t h hs
  | opened t => exact inv_opened t h hs
  | cancelWait t => exact inv_cancelWait t h hs
  | cancelAcquired t => exact inv_cancelAcquired t h hs
  | write t n b => exact inv_write t n b h hs
  | commitTake t => exact inv_commitTake t h hs
  | commitDone t => exact inv_commitDone t h hs
  | commitFail t => exact inv_commitFail t h hs
  | cancelCommit t ap => exact inv_cancelCommit t ap h hs
  | rollbackTake t => exact inv_rollbackTake t h hs
  | rollbackDone t => exact inv_rollbackDone t h hs
  | cancelRollback t => exact inv_cancelRollback t h hs
  | dropPermit t => exact inv_dropPermit t h hs
  | rbTake  => exact inv_rbTake  h hs
  | rbRelease  => exact inv_rbRelease  h hs

private theorem inv_reach {s : St} (h : Reach s) : Inv s := by
  induction h with
  | init => exact inv_init
  | step _ hs ih => exact inv_step ih hs

/-- **Mutual exclusion.** In every reachable state at most one task is inside `begin … commit/rollback`
    (holds the permit), an open transaction object implies the semaphore is taken, no task holds the permit
    while the spawned rollback task does, and the `assert!(tx_ref.is_none())` in `begin` cannot fire: a task
    that has just acquired the permit always finds the slot empty. -/
theorem c10_mutex {s : St} (h : Reach s) :
    (∀ t u, holds (s.pc t) = true → holds (s.pc u) = true → t = u) ∧
    (s.slot.isSome → s.owner ≠ .free) ∧
    (s.spawn ≠ .none → ∀ t, holds (s.pc t) = false) ∧
    (∀ t, s.pc t = .acquired → s.slot = none) := by
  have i := inv_reach h
  refine ⟨?_, ?_, ?_, i.acq_slot⟩
  · intro t u ht hu
    have h1 := i.hold_owner t ht
    have h2 := i.hold_owner u hu
    rw [h1] at h2
    injection h2 with h2
  · intro hs hf
    rw [i.free_slot hf] at hs
    simp at hs
  · intro hsp t
    have ho := i.spawned_iff.mpr hsp
    cases hh : holds (s.pc t) with
    | false => rfl
    | true =>
      have := i.hold_owner t hh
      rw [ho] at this
      cases this

/-- **Isolation.** While a task is inside its transaction, the open sqlx transaction contains exactly that
    task's own writes of this transaction, in order — nobody else's, nothing left over from an aborted one. -/
theorem c10_isolation {s : St} (h : Reach s) (t : Nat) (ws : List Write) (ht : s.pc t = .inTx ws) :
    s.slot = some ws ∧ ∀ w ∈ ws, w.tid = t :=
  (inv_reach h).intx_slot t ws ht

/-- **Serial.** The committed database is the concatenation, in commit order, of the write lists of exactly
    the committed transactions (each as the committing task itself issued it, each entirely by that task). -/
theorem c10_serial {s : St} (h : Reach s) :
    s.db = (s.hist.map (·.2)).flatten ∧ ∀ t ws, (t, ws) ∈ s.hist → ∀ w ∈ ws, w.tid = t :=
  ⟨(inv_reach h).db_hist, (inv_reach h).hist_tid⟩

/-- Actions by which a transaction ends without (successfully) committing, plus the spawned task's steps and
    everything before/inside a transaction: none of them touches the committed database. Only `commitDone`
    and a cancelled-but-applied commit (`cancelCommit _ true`) do. -/
def commits : Act → Bool
  | .commitDone _ => true
  | .cancelCommit _ true => true
  | _ => false

/-- **No trace.** A step that is not a (possibly cancelled but applied) commit leaves the committed rows and
    the list of committed transactions untouched — rollback, failed commit, dropped permit, `?`, panic,
    cancellation at any await point, and the spawned rollback contribute nothing; and every committed row
    belongs to a committed transaction of the task that wrote it. -/
theorem c10_no_trace :
    (∀ (s s' : St) (a : Act), stepFn s a = some s' → commits a = false → s'.db = s.db ∧ s'.hist = s.hist) ∧
    (∀ s, Reach s → ∀ w ∈ s.db, ∃ ws, (w.tid, ws) ∈ s.hist ∧ w ∈ ws) := by
  constructor
  · intro s s' a hs hc
    cases a <;> simp only [stepFn, release] at hs <;> (repeat (split at hs)) <;>
      simp at hs <;> (try subst hs) <;> simp_all [commits]
  · intro s h w hw
    have i := inv_reach h
    rw [i.db_hist] at hw
    simp only [List.mem_flatten, List.mem_map] at hw
    obtain ⟨l, ⟨⟨t, ws⟩, he, rfl⟩, hwl⟩ := hw
    have := i.hist_tid t ws he w hwl
    exact ⟨ws, by rw [this]; exact he, hwl⟩

/-- Steps allowed in the progress argument for task `t`: whoever holds the permit only *finishes* what it has
    started (completes `begin`, rolls back / completes its commit) — this includes the tasks queued before `t`,
    which tokio's fair semaphore serves first — and the spawned rollback task runs. No task starts a new
    `begin`, writes, or is cancelled. -/
def finishing (t : Nat) : Act → Bool
  | .opened _ => true
  | .rollbackTake u => u != t
  | .rollbackDone u => u != t
  | .commitDone u => u != t
  | .commitFail u => u != t
  | .rbTake => true
  | .rbRelease => true
  | _ => false

private theorem runActs_append (s : St) (as bs : List Act) :
    runActs s (as ++ bs) = (runActs s as).bind (fun s' => runActs s' bs) := by
  induction as generalizing s with
  | nil => simp [runActs]
  | cons a as ih =>
    simp only [List.cons_append, runActs]
    cases stepFn s a with
    | none => simp
    | some s' => simp [ih]

private theorem reach_run {s s' : St} (h : Reach s) (as : List Act) (hr : runActs s as = some s') : Reach s' := by
  induction as generalizing s with
  | nil => simp [runActs] at hr; subst hr; exact h
  | cons a as ih =>
    simp only [runActs] at hr
    cases hs : stepFn s a with
    | none => simp [hs] at hr
    | some s1 => rw [hs] at hr; exact ih (Reach.step h hs) hr

/-- One round: from a reachable state in which `t` is queued, finishing steps make the current owner give the
    permit back; the head of the queue gets it. Either that is `t`, or `t` is still queued and the queue is
    shorter. -/
private theorem release_round {s : St} (h : Reach s) (t : Nat) (hw : s.pc t = .waiting) :
    ∃ as s', (∀ a ∈ as, finishing t a = true) ∧ runActs s as = some s' ∧
      (s'.pc t = .acquired ∨ (s'.pc t = .waiting ∧ s'.queue.length < s.queue.length)) := by
  have i := inv_reach h
  have htq : t ∈ s.queue := (i.q_wait t).mpr hw
  cases hq : s.queue with
  | nil => rw [hq] at htq; cases htq
  | cons u q =>
    -- what `release` does to `t`
    have hu_t : u = t ∨ (u ≠ t ∧ t ∈ q) := by
      rw [hq] at htq
      rcases List.mem_cons.mp htq with e | e
      · exact Or.inl e.symm
      · by_cases hut : u = t
        · exact Or.inl hut
        · exact Or.inr ⟨hut, e⟩
    cases ho : s.owner with
    | free => have := i.q_free ho; rw [hq] at this; cases this
    | spawned =>
      have hsp := i.spawned_iff.mp ho
      cases hs : s.spawn with
      | none => exact absurd hs hsp
      | pending =>
        refine ⟨[.rbTake, .rbRelease], ?_⟩
        rcases hu_t with e | ⟨hne, _⟩
        · subst e; simp [runActs, stepFn, release, hs, hq, finishing, upd]
        · have : ¬ t = u := fun e => hne e.symm
          simp [runActs, stepFn, release, hs, hq, finishing, upd, this, hw]
      | releasing =>
        refine ⟨[.rbRelease], ?_⟩
        rcases hu_t with e | ⟨hne, _⟩
        · subst e; simp [runActs, stepFn, release, hs, hq, finishing, upd]
        · have : ¬ t = u := fun e => hne e.symm
          simp [runActs, stepFn, release, hs, hq, finishing, upd, this, hw]
    | task v =>
      have hv := i.owner_hold v ho
      have hvt : v ≠ t := by
        intro e; subst e; rw [hw] at hv; simp [holds] at hv
      have htv : ¬ t = v := fun e => hvt e.symm
      have hne : (v != t) = true := by simp [hvt]
      have hvu : ¬ u = v := by
        intro e
        have : s.pc u = .waiting := (i.q_wait u).mp (by rw [hq]; exact List.mem_cons_self)
        rw [e] at this; rw [this] at hv; simp [holds] at hv
      cases hpc : s.pc v with
      | idle => rw [hpc] at hv; simp [holds] at hv
      | waiting => rw [hpc] at hv; simp [holds] at hv
      | acquired =>
        have hslot := i.acq_slot v hpc
        refine ⟨[.opened v, .rollbackTake v, .rollbackDone v], ?_⟩
        rcases hu_t with e | ⟨hut, _⟩
        · subst e; simp [runActs, stepFn, release, hpc, hslot, hq, finishing, hne, upd]
        · have : ¬ t = u := fun e => hut e.symm
          simp [runActs, stepFn, release, hpc, hslot, hq, finishing, hne, upd, this, htv, hw]
      | inTx ws =>
        have hslot := (i.intx_slot v ws hpc).1
        refine ⟨[.rollbackTake v, .rollbackDone v], ?_⟩
        rcases hu_t with e | ⟨hut, _⟩
        · subst e; simp [runActs, stepFn, release, hpc, hslot, hq, finishing, hne, upd]
        · have : ¬ t = u := fun e => hut e.symm
          simp [runActs, stepFn, release, hpc, hslot, hq, finishing, hne, upd, this, htv, hw]
      | committing buf ws =>
        by_cases hb : noBad buf = true
        · refine ⟨[.commitDone v], ?_⟩
          rcases hu_t with e | ⟨hut, _⟩
          · subst e; simp [runActs, stepFn, release, hpc, hb, hq, finishing, hne, upd]
          · have : ¬ t = u := fun e => hut e.symm
            simp [runActs, stepFn, release, hpc, hb, hq, finishing, hne, upd, this, htv, hw]
        · refine ⟨[.commitFail v], ?_⟩
          rcases hu_t with e | ⟨hut, _⟩
          · subst e; simp [runActs, stepFn, release, hpc, hq, finishing, hne, upd]
          · have : ¬ t = u := fun e => hut e.symm
            simp [runActs, stepFn, release, hpc, hq, finishing, hne, upd, this, htv, hw]
      | rollingBack ws =>
        refine ⟨[.rollbackDone v], ?_⟩
        rcases hu_t with e | ⟨hut, _⟩
        · subst e; simp [runActs, stepFn, release, hpc, hq, finishing, hne, upd]
        · have : ¬ t = u := fun e => hut e.symm
          simp [runActs, stepFn, release, hpc, hq, finishing, hne, upd, this, htv, hw]

/-- **Progress.** From every reachable state in which some task `t` waits in `begin`, a state where `t` is
    inside its own (empty) transaction is reachable using only finishing steps (the owner and the tasks queued
    before `t` complete and end their transactions, the spawned rollback runs): no abort point — rollback,
    failed commit, dropped permit, cancellation inside `begin`, `commit` or `rollback` — leaks the permit. -/
theorem c10_progress {s : St} (h : Reach s) (t : Nat) (hw : s.pc t = .waiting) :
    ∃ as s', (∀ a ∈ as, finishing t a = true) ∧ runActs s as = some s' ∧ s'.pc t = .inTx [] := by
  have key : ∀ n (s : St), Reach s → s.pc t = .waiting → s.queue.length = n →
      ∃ as s', (∀ a ∈ as, finishing t a = true) ∧ runActs s as = some s' ∧ s'.pc t = .inTx [] := by
    intro n
    induction n using Nat.strongRecOn with
    | _ n ih =>
      intro s h hw hn
      obtain ⟨as, s1, hfin, hrun, hcase⟩ := release_round h t hw
      have h1 := reach_run h as hrun
      rcases hcase with hacq | ⟨hw1, hlt⟩
      · have hslot := (inv_reach h1).acq_slot t hacq
        refine ⟨as ++ [.opened t], ?_⟩
        have : ∃ s2, runActs s1 [.opened t] = some s2 ∧ s2.pc t = .inTx [] := by
          simp [runActs, stepFn, hacq, hslot, upd]
        obtain ⟨s2, hr2, hp2⟩ := this
        refine ⟨s2, ?_, ?_, hp2⟩
        · intro a ha
          rcases List.mem_append.mp ha with ha | ha
          · exact hfin a ha
          · simp at ha; subst ha; simp [finishing]
        · rw [runActs_append, hrun]; exact hr2
      · obtain ⟨bs, s2, hfin2, hrun2, hp2⟩ := ih s1.queue.length (by omega) s1 h1 hw1 rfl
        refine ⟨as ++ bs, s2, ?_, ?_, hp2⟩
        · intro a ha
          rcases List.mem_append.mp ha with ha | ha
          · exact hfin a ha
          · exact hfin2 a ha
        · rw [runActs_append, hrun]; exact hrun2
  exact key s.queue.length s h hw rfl

/-- **Tie to the source text** (re-extracted from `impl Drop for TransactionPermit` on every run): the clean-up
    task is spawned exactly when the permit was *not* marked committed, it owns a clone of the semaphore permit,
    and its statements are, in this order: take the transaction out of the slot, roll it back, and only then
    `drop(permit)` — the order of the model's `rbTake` before `rbRelease` (and of `dropPermit` moving the
    permit to the spawned task). Moving `drop(permit)` before the rollback, inverting the condition or not
    cloning the permit breaks this theorem before any schedule is run. -/
theorem c10_extracted_drop :
    P2.Extracted.C10.dropCondition = "!self.committed" ∧
    P2.Extracted.C10.permitMovedIntoTask = true ∧
    P2.Extracted.C10.dropTaskStmts =
      ["if let Some(tx) = tx.lock().await.take() {", "let _ = tx.rollback().await;", "}", "drop(permit);"] := by
  decide

/-! ### the variant the harness is meant to catch, and non-vacuity -/

/-- If `Drop` released the semaphore at once and left only the rollback to the spawned task ("release before the
    rollback finishes"), a second task could acquire the permit while the first task's aborted transaction is
    still in the slot — the state in which `begin`'s `assert!` panics. -/
theorem c10_early_release_violates :
    ∃ s, (([Act.want 0, .opened 0, .write 0 1 false, .dropPermit 0, .want 1] : List Act).foldl
            (fun (o : Option St) a => o.bind (fun s => stepFnEarlyRelease s a)) (some St.init)) = some s ∧
      s.pc 1 = .acquired ∧ s.slot = some [{ tid := 0, n := 1, bad := false }] := by
  refine ⟨_, rfl, ?_, ?_⟩ <;> simp [upd, release, St.init]

private def demo : List Act :=
  [.want 0, .want 1, .opened 0, .write 0 1 false, .write 0 2 false, .commitTake 0, .commitDone 0,
   .opened 1, .write 1 3 false, .dropPermit 1, .want 0, .rbTake, .rbRelease,
   .opened 0, .write 0 4 false, .commitTake 0, .cancelCommit 0 true, .want 2, .rbTake, .rbRelease,
   .opened 2, .write 2 5 true, .commitTake 2, .commitFail 2]

example : (runActs St.init demo).map (·.db) =
    some [⟨0, 1, false⟩, ⟨0, 2, false⟩, ⟨0, 4, false⟩] := by decide
example : (runActs St.init demo).map (·.hist) =
    some [(0, [⟨0, 1, false⟩, ⟨0, 2, false⟩]), (0, [⟨0, 4, false⟩])] := by decide
example : (runActs St.init demo).map (·.aborted) = some [(1, [⟨1, 3, false⟩]), (2, [⟨2, 5, true⟩])] := by decide
example : (runActs St.init demo).map (·.owner) = some Owner.free := by decide
/-- while the spawned rollback owns the permit a new `begin` is queued, and gets the permit by hand-over -/
example : (runActs St.init [.want 0, .opened 0, .dropPermit 0, .want 1]).map (fun s => (s.pc 1, s.owner)) =
    some (PC.waiting, Owner.spawned) := by decide
example : (runActs St.init [.want 0, .opened 0, .dropPermit 0, .want 1, .rbTake, .rbRelease]).map
    (fun s => (s.pc 1, s.owner, s.slot)) = some (PC.acquired, Owner.task 1, none) := by decide

end P2.C10
