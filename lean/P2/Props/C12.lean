/-
C12 — Released orderer items survive cancellation of `next`.

Model: `P2/Model/OrdererNext.lean` — labelled transition system of `Orderer::process` / `Orderer::next`
with a `cancel` transition at every await point (and `cancelCommit went` inside `commit`).
All theorems quantify over **every** schedule (`run fixed init acts = some s`, any length, any
interleaving of process / next-steps / cancels that the system enables).
-/
import P2.Model.OrdererNext
import P2.Extracted.C12

namespace P2.C12
open P2.OrdNext

/-- The code under verification is the repaired variant (re-extracted from `processor.rs` on every run). -/
theorem c12_code_fetches_in_tx : P2.Extracted.C12.nextFetchesInTx = true := by decide

/-- **Source tie for the statement order the model's program counters encode** (re-extracted from
    `processor.rs` on every run): the first statement of `next` after acquiring `inner` hands out the parked
    item (`take_in_flight`) *before* `begin`; the fetched operation is parked (`park_in_flight`) textually
    before `commit(permit).await`; after the commit the item is returned from the slot; `process` ends with
    `notify_one` (a stored permit, not `notify_waiters`). -/
theorem c12_extracted_order :
    (P2.Extracted.C12.firstAfterLock, P2.Extracted.C12.parkedBeforeCommit, P2.Extracted.C12.returnsFromSlot,
     P2.Extracted.C12.processNotifies)
    = ("take_in_flight", "park_in_flight", "take_in_flight", "notify_one") := by decide

def b2n (p : Prop) [Decidable p] : Nat := if p then 1 else 0

/-- How often `x` is accounted for: returned, parked, queued. -/
def tokens (s : St) (x : Nat) : Nat :=
  s.returned.count x + b2n (s.slot = some x) + b2n (x ∈ s.queue)

/-- Program-counter dependent part of the invariant (repaired code). -/
def PcInv (s : St) : Prop :=
  match s.pc with
  | PC.idle => s.tx = none
  | PC.start => s.tx = none
  | PC.begun => s.tx = some s.queue ∧ s.slot = none
  | PC.waiting => s.tx = some s.queue ∧ s.slot = none
  | PC.taken k => s.slot = none ∧ ∃ q, s.tx = some q ∧ s.queue = k :: q
  | PC.fetchedTx k => s.slot = none ∧ ∃ q, s.tx = some q ∧ s.queue = k :: q
  | PC.committed k => s.tx = none ∧ s.slot = some k
  | PC.fetched _ => False

structure Inv (s : St) : Prop where
  pcInv : PcInv s
  noLoss : ∀ x ∈ s.released, x ∈ s.returned ∨ x ∈ s.queue ∨ s.slot = some x
  qsub : ∀ x ∈ s.queue, x ∈ s.released
  rsub : ∀ x ∈ s.returned, x ∈ s.released
  ssub : ∀ x, s.slot = some x → x ∈ s.released
  qnodup : s.queue.Nodup
  tok : ∀ x, tokens s x ≤ 1 + s.cancelledCommits

theorem inv_init : Inv init := by
  refine ⟨?_, ?_, ?_, ?_, ?_, ?_, ?_⟩ <;> simp [init, PcInv, tokens, b2n]

theorem inv_step (s s' : St) (a : Act) (hI : Inv s) (h : stepFn true s a = some s') : Inv s' := by
  obtain ⟨hpc, hnl, hqs, hrs, hss, hnd, htok⟩ := hI
  obtain ⟨queue, tx, pc, slot, permit, returned, released, cc⟩ := s
  cases a with
  | proc k =>
    cases pc <;> simp [stepFn] at h
    obtain ⟨hfresh, rfl⟩ := h
    simp only [PcInv] at hpc
    refine ⟨?_, ?_, ?_, ?_, ?_, ?_, ?_⟩
    · simpa [PcInv] using hpc
    · intro x hx
      simp only [List.mem_append, List.mem_singleton] at hx ⊢
      rcases hx with hx | rfl
      · rcases hnl x hx with h1 | h1 | h1
        · exact Or.inl h1
        · exact Or.inr (Or.inl (Or.inl h1))
        · exact Or.inr (Or.inr h1)
      · exact Or.inr (Or.inl (Or.inr rfl))
    · intro x hx
      simp only [List.mem_append, List.mem_singleton] at hx ⊢
      rcases hx with hx | rfl
      · exact Or.inl (hqs x hx)
      · exact Or.inr rfl
    · intro x hx; simp only [List.mem_append]; exact Or.inl (hrs x hx)
    · intro x hx; simp only [List.mem_append]; exact Or.inl (hss x hx)
    · simp only [List.nodup_append, List.mem_singleton]
      refine ⟨hnd, by simp, ?_⟩
      intro a ha b hb; subst hb; intro hab; subst hab; exact hfresh (hqs _ ha)
    · intro x
      have := htok x
      simp only [tokens, b2n, List.mem_append, List.mem_singleton] at this ⊢
      by_cases hxk : x = k
      · subst hxk
        have h1 : x ∉ returned := fun hh => hfresh (hrs x hh)
        have h2 : x ∉ queue := fun hh => hfresh (hqs x hh)
        have h3 : slot ≠ some x := fun hh => hfresh (hss x hh)
        simp [List.count_eq_zero_of_not_mem h1, h2, h3]
      · simp only [hxk, or_false]; exact this
  | call =>
    cases pc <;> simp [stepFn] at h
    subst h
    exact ⟨by simpa [PcInv] using hpc, hnl, hqs, hrs, hss, hnd, htok⟩
  | block =>
    cases pc <;> simp [stepFn] at h
    obtain ⟨_, rfl⟩ := h
    exact ⟨by simp [PcInv], hnl, hqs, hrs, hss, hnd, htok⟩
  | cancel =>
    cases pc <;> simp [stepFn] at h <;> subst h <;>
      exact ⟨by simp [PcInv], hnl, hqs, hrs, hss, hnd, htok⟩
  | cancelCommit went =>
    cases pc <;> cases tx <;> simp [stepFn] at h
    rename_i k q
    subst h
    simp only [PcInv] at hpc
    obtain ⟨hslot, q', hq', hqueue⟩ := hpc
    simp only [Option.some.injEq] at hq'
    subst hq' hslot hqueue
    have hknq : k ∉ q := (List.nodup_cons.1 hnd).1
    cases went with
    | true =>
      refine ⟨by simp [PcInv], ?_, ?_, hrs, ?_, ?_, ?_⟩
      · intro x hx
        rcases hnl x hx with h1 | h1 | h1
        · exact Or.inl h1
        · simp only [List.mem_cons] at h1
          rcases h1 with rfl | h1
          · exact Or.inr (Or.inr rfl)
          · exact Or.inr (Or.inl (by simpa using h1))
        · simp at h1
      · intro x hx; exact hqs x (by simp at hx ⊢; exact Or.inr hx)
      · intro x hx; simp at hx; subst hx; exact hqs _ (by simp)
      · simpa using (List.nodup_cons.1 hnd).2
      · intro x
        have := htok x
        simp only [tokens, b2n, List.mem_cons] at this ⊢
        by_cases hxk : x = k
        · subst hxk; simp [hknq] at this ⊢; omega
        · have hkx : k ≠ x := fun hh => hxk hh.symm
          simp [hxk, hkx] at this ⊢; omega
    | false =>
      refine ⟨by simp [PcInv], ?_, hqs, hrs, ?_, hnd, ?_⟩
      · intro x hx
        rcases hnl x hx with h1 | h1 | h1
        · exact Or.inl h1
        · exact Or.inr (Or.inl (by simpa using h1))
        · simp at h1
      · intro x hx; simp at hx; subst hx; exact hqs _ (by simp)
      · intro x
        have := htok x
        simp only [tokens, b2n, List.mem_cons] at this ⊢
        by_cases hxk : x = k
        · subst hxk; simp at this ⊢; omega
        · have hkx : k ≠ x := fun hh => hxk hh.symm
          simp [hxk, hkx] at this ⊢; omega
  | ret =>
    cases pc <;> simp [stepFn] at h
    · -- start with a parked item
      cases slot with
      | none => simp at h
      | some y =>
        simp at h
        subst h
        refine ⟨by simpa [PcInv] using hpc, ?_, hqs, ?_, by simp, hnd, ?_⟩
        · intro x hx
          rcases hnl x hx with h1 | h1 | h1
          · exact Or.inl (by simp [h1])
          · exact Or.inr (Or.inl h1)
          · simp at h1; subst h1; exact Or.inl (by simp)
        · intro x hx
          simp only [List.mem_append, List.mem_singleton] at hx
          rcases hx with hx | rfl
          · exact hrs x hx
          · exact hss _ rfl
        · intro x
          have := htok x
          simp only [tokens, b2n, List.count_append] at this ⊢
          by_cases hxy : x = y
          · subst hxy; simp at this ⊢; omega
          · have hyx : y ≠ x := fun hh => hxy hh.symm
            simp [hxy, hyx] at this ⊢; omega
    · -- committed k
      rename_i k
      subst h
      simp only [PcInv] at hpc
      obtain ⟨htx, hslot⟩ := hpc
      subst hslot
      refine ⟨by simpa [PcInv] using htx, ?_, hqs, ?_, by simp, hnd, ?_⟩
      · intro x hx
        rcases hnl x hx with h1 | h1 | h1
        · exact Or.inl (by simp [h1])
        · exact Or.inr (Or.inl h1)
        · simp at h1; subst h1; exact Or.inl (by simp)
      · intro x hx
        simp only [List.mem_append, List.mem_singleton] at hx
        rcases hx with hx | rfl
        · exact hrs x hx
        · exact hss _ rfl
      · intro x
        have := htok x
        simp only [tokens, b2n, List.count_append] at this ⊢
        by_cases hxy : x = k
        · subst hxy; simp at this ⊢; omega
        · have hyx : k ≠ x := fun hh => hxy hh.symm
          simp [hxy, hyx] at this ⊢; omega
  | ev e =>
    cases e with
    | begin =>
      cases pc <;> simp [stepFn] at h
      obtain ⟨hs, rfl⟩ := h
      refine ⟨?_, hnl, hqs, hrs, hss, hnd, htok⟩
      cases slot <;> simp_all [PcInv]
    | wake =>
      cases pc <;> simp [stepFn] at h
      obtain ⟨_, rfl⟩ := h
      exact ⟨by simp [PcInv], hnl, hqs, hrs, hss, hnd, htok⟩
    | take r =>
      cases pc <;> cases tx <;> simp [stepFn] at h
      rename_i q
      simp only [PcInv] at hpc
      obtain ⟨hq, hslot⟩ := hpc
      simp only [Option.some.injEq] at hq
      subst hq hslot
      obtain ⟨hr, h⟩ := h
      subst hr
      cases hq : q with
      | nil =>
        simp [hq] at h
        subst h
        subst hq
        exact ⟨by simp [PcInv], hnl, hqs, hrs, hss, hnd, htok⟩
      | cons k q' =>
        simp [hq] at h
        subst h
        subst hq
        exact ⟨by simp [PcInv], hnl, hqs, hrs, hss, hnd, htok⟩
    | gettx =>
      cases pc <;> simp [stepFn] at h
      subst h
      exact ⟨by simpa [PcInv] using hpc, hnl, hqs, hrs, hss, hnd, htok⟩
    | get =>
      cases pc <;> simp [stepFn] at h
    | commit =>
      cases pc <;> cases tx <;> simp [stepFn] at h
      rename_i k q
      subst h
      simp only [PcInv] at hpc
      obtain ⟨hslot, q', hq', hqueue⟩ := hpc
      simp only [Option.some.injEq] at hq'
      subst hq' hslot hqueue
      have hknq : k ∉ q := (List.nodup_cons.1 hnd).1
      refine ⟨by simp [PcInv], ?_, ?_, hrs, ?_, ?_, ?_⟩
      · intro x hx
        rcases hnl x hx with h1 | h1 | h1
        · exact Or.inl h1
        · simp only [List.mem_cons] at h1
          rcases h1 with rfl | h1
          · exact Or.inr (Or.inr rfl)
          · exact Or.inr (Or.inl h1)
        · simp at h1
      · intro x hx; exact hqs x (by simp; exact Or.inr hx)
      · intro x hx; simp at hx; subst hx; exact hqs _ (by simp)
      · exact (List.nodup_cons.1 hnd).2
      · intro x
        have := htok x
        simp only [tokens, b2n, List.mem_cons] at this ⊢
        by_cases hxk : x = k
        · subst hxk; simp [hknq] at this ⊢; omega
        · have hkx : k ≠ x := fun hh => hxk hh.symm
          simp [hxk, hkx] at this ⊢; omega

theorem inv_run (acts : List Act) : ∀ (s s' : St), Inv s → run true s acts = some s' → Inv s' := by
  induction acts with
  | nil => intro s s' hI h; simp only [run, Option.some.injEq] at h; subst h; exact hI
  | cons a acts ih =>
    intro s s' hI h
    simp only [run] at h
    cases hs : stepFn true s a with
    | none => simp [hs] at h
    | some s1 => simp only [hs] at h; exact ih s1 s' (inv_step s s1 a hI hs) h

theorem run_append (fixed : Bool) (a b : List Act) (s : St) :
    run fixed s (a ++ b) = (run fixed s a).bind (fun s' => run fixed s' b) := by
  induction a generalizing s with
  | nil => simp [run]
  | cons x a ih =>
    simp only [List.cons_append, run]
    cases stepFn fixed s x with
    | none => simp
    | some s1 => simp [ih]

/-! ## Property theorems -/

/-- Full statement of C12 for a code variant: in every reachable state every released item has been
    returned by a completed `next`, or is still queued, or is parked in the in-flight slot. -/
def NoLossStatement (fixed : Bool) : Prop :=
  ∀ (acts : List Act) (s : St), run fixed init acts = some s →
    ∀ x ∈ s.released, x ∈ s.returned ∨ x ∈ s.queue ∨ s.slot = some x

/-- **No loss** (repaired code): for every schedule of `process`, `next` steps and cancellations at any
    await point — including a cancellation inside `commit` with either outcome. -/
theorem c12_no_loss : NoLossStatement true := by
  intro acts s h
  exact (inv_run acts init s inv_init h).noLoss

/-- An item is returned at most once more often than commits were cancelled in flight (a cancelled
    commit that was rolled back leaves the item both parked and queued). -/
theorem c12_returned_at_most (acts : List Act) (s : St) (h : run true init acts = some s) (x : Nat) :
    s.returned.count x ≤ 1 + s.cancelledCommits := by
  have := (inv_run acts init s inv_init h).tok x
  unfold tokens at this; omega

/-- Without cancelled commits: exactly-once (never twice). -/
theorem c12_exactly_once_without_cancelled_commit (acts : List Act) (s : St) (h : run true init acts = some s)
    (hc : s.cancelledCommits = 0) (x : Nat) : s.returned.count x ≤ 1 := by
  have := c12_returned_at_most acts s h x; omega

/-- Only released items are ever returned. -/
theorem c12_returned_released (acts : List Act) (s : St) (h : run true init acts = some s) :
    ∀ x ∈ s.returned, x ∈ s.released :=
  (inv_run acts init s inv_init h).rsub

/-- A completed, uncancelled `next` call from an idle state returns the parked item if there is one,
    else the head of the queue. -/
theorem c12_next_returns_parked (s : St) (x : Nat) (hidle : s.pc = PC.idle) (hslot : s.slot = some x) :
    run true s (fullNext true s) = some { s with slot := none, returned := s.returned ++ [x] } := by
  obtain ⟨queue, tx, pc, slot, permit, returned, released, cc⟩ := s
  simp only at hidle hslot
  subst hidle hslot
  simp [fullNext, run, stepFn]

theorem c12_next_returns_head (s : St) (k : Nat) (q : List Nat) (hidle : s.pc = PC.idle) (hslot : s.slot = none)
    (htx : s.tx = none) (hq : s.queue = k :: q) :
    run true s (fullNext true s) = some { s with queue := q, returned := s.returned ++ [k] } := by
  obtain ⟨queue, tx, pc, slot, permit, returned, released, cc⟩ := s
  simp only at hidle hslot htx hq
  subst hidle hslot htx hq
  simp [fullNext, run, stepFn]

/-- **Eventually returned**: from every reachable idle state there is a schedule of uncancelled `next`
    calls after which every released item has been returned. -/
theorem c12_eventually_returned (acts : List Act) (s : St) (h : run true init acts = some s)
    (hidle : s.pc = PC.idle) :
    ∃ (sched : List Act) (s' : St), run true s sched = some s' ∧
      (∀ a ∈ sched, a ≠ Act.cancel ∧ a ≠ Act.block ∧ ∀ w, a ≠ Act.cancelCommit w) ∧
      s'.released = s.released ∧ ∀ x ∈ s.released, x ∈ s'.returned := by
  have hI := inv_run acts init s inv_init h
  clear h
  -- first empty the slot, then the queue by induction on its length
  have key : ∀ (n : Nat) (s : St), Inv s → s.pc = PC.idle → s.slot = none → s.queue.length = n →
      ∃ (sched : List Act) (s' : St), run true s sched = some s' ∧
        (∀ a ∈ sched, a ≠ Act.cancel ∧ a ≠ Act.block ∧ ∀ w, a ≠ Act.cancelCommit w) ∧
        s'.released = s.released ∧ s'.queue = [] ∧ s'.slot = none ∧ Inv s' := by
    intro n
    induction n with
    | zero =>
      intro s hI _ hslot hlen
      exact ⟨[], s, rfl, by simp, rfl, List.length_eq_zero_iff.1 hlen, hslot, hI⟩
    | succ n ih =>
      intro s hI hidle hslot hlen
      cases hq : s.queue with
      | nil => rw [hq] at hlen; simp at hlen
      | cons k q =>
        have htx : s.tx = none := by have := hI.pcInv; simp only [PcInv, hidle] at this; exact this
        have hrun := c12_next_returns_head s k q hidle hslot htx hq
        have hI1 := inv_run _ s _ hI hrun
        obtain ⟨sched, s', h1, h2, h3, h4, h5, h6⟩ := ih { s with queue := q, returned := s.returned ++ [k] } hI1
          hidle hslot (by rw [hq] at hlen; simpa using hlen)
        refine ⟨fullNext true s ++ sched, s', ?_, ?_, h3, h4, h5, h6⟩
        · rw [run_append, hrun]; exact h1
        · intro a ha
          rcases List.mem_append.1 ha with ha | ha
          · simp only [fullNext, hslot, hq, if_true, List.mem_cons, List.not_mem_nil, or_false] at ha
            rcases ha with rfl | rfl | rfl | rfl | rfl | rfl <;> simp
          · exact h2 a ha
  cases hs : s.slot with
  | none =>
    obtain ⟨sched, s', h1, h2, h3, h4, h5, h6⟩ := key s.queue.length s hI hidle hs rfl
    refine ⟨sched, s', h1, h2, h3, ?_⟩
    intro x hx
    rcases h6.noLoss x (h3 ▸ hx) with hh | hh | hh
    · exact hh
    · rw [h4] at hh; simp at hh
    · rw [h5] at hh; simp at hh
  | some y =>
    have hrun := c12_next_returns_parked s y hidle hs
    have hI1 := inv_run _ s _ hI hrun
    obtain ⟨sched, s', h1, h2, h3, h4, h5, h6⟩ := key s.queue.length { s with slot := none, returned := s.returned ++ [y] }
      hI1 hidle rfl rfl
    refine ⟨fullNext true s ++ sched, s', ?_, ?_, h3, ?_⟩
    · rw [run_append, hrun]; exact h1
    · intro a ha
      rcases List.mem_append.1 ha with ha | ha
      · simp only [fullNext, hs, if_true, List.mem_cons, List.not_mem_nil, or_false] at ha
        rcases ha with rfl | rfl <;> simp
      · exact h2 a ha
    · intro x hx
      rcases h6.noLoss x (h3 ▸ hx) with hh | hh | hh
      · exact hh
      · rw [h4] at hh; simp at hh
      · rw [h5] at hh; simp at hh

/-! ## The pinned code loses the item -/

/-- `process a; next: begin, take a, commit; cancel` — `a` is released, not returned, not queued, and
    there is no slot: it is gone. -/
theorem c12_orig_violates :
    ∃ s, run false init [Act.proc 0, Act.call, Act.ev Ev.begin, Act.ev (Ev.take (some 0)), Act.ev Ev.commit, Act.cancel]
        = some s ∧ s.pc = PC.idle ∧ 0 ∈ s.released ∧ 0 ∉ s.returned ∧ 0 ∉ s.queue ∧ s.slot = none := by
  refine ⟨_, rfl, ?_, ?_, ?_, ?_, ?_⟩ <;> decide

/-- Same loss when the future is dropped *inside* `commit` and the commit went through. -/
theorem c12_orig_violates_in_commit :
    ∃ s, run false init [Act.proc 0, Act.call, Act.ev Ev.begin, Act.ev (Ev.take (some 0)), Act.cancelCommit true]
        = some s ∧ s.pc = PC.idle ∧ 0 ∈ s.released ∧ 0 ∉ s.returned ∧ 0 ∉ s.queue ∧ s.slot = none := by
  refine ⟨_, rfl, ?_, ?_, ?_, ?_, ?_⟩ <;> decide

theorem c12_orig_not_safe : ¬ NoLossStatement false := by
  intro h
  have := h [Act.proc 0, Act.call, Act.ev Ev.begin, Act.ev (Ev.take (some 0)), Act.ev Ev.commit, Act.cancel] _ rfl 0
    (by decide)
  revert this; decide

/-! ## Non-vacuity: schedules of the repaired system with cancels at every kind of point -/

example : (run true init [Act.proc 0, Act.proc 1, Act.call, Act.ev Ev.begin, Act.ev (Ev.take (some 0)), Act.ev Ev.gettx,
    Act.cancelCommit false, Act.call, Act.ret, Act.call, Act.ev Ev.begin, Act.ev (Ev.take (some 0)), Act.cancel,
    Act.call, Act.ev Ev.begin, Act.ev (Ev.take (some 0)), Act.ev Ev.gettx, Act.ev Ev.commit, Act.cancel,
    Act.call, Act.ret]).map (fun s => (s.returned, s.queue, s.slot, s.cancelledCommits))
    = some ([0, 0], [1], none, 1) := by decide

example : (run true init [Act.call, Act.ev Ev.begin, Act.ev (Ev.take none), Act.block, Act.proc 3, Act.call, Act.ev Ev.begin,
    Act.ev (Ev.take (some 3)), Act.ev Ev.gettx, Act.cancelCommit true, Act.call, Act.ret]).map (·.returned) = some [3] := by
  decide

end P2.C12
