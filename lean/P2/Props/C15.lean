/-
C15 — Unacknowledged operations are replayed after any crash.

Model: `P2/Model/Replay.lean` (+ `P2/Model/Heights.lean` for `compare` / `advance`).
All statements are for arbitrary persisted states / arbitrary histories (no bound on logs, rows, crashes).
-/
import P2.Model.Replay
import P2.Extracted.C15

namespace P2.C15
open P2.Replay P2.Heights

/-! ### association-list facts used below (kept local: `P2.Model.Heights` is shared and has no lemmas) -/

private theorem lookup_upsert_same (k v : Nat) (m : Heights Nat) : lookup k (upsert k v m) = some v := by
  induction m with
  | nil => simp [upsert, lookup]
  | cons e t ih =>
    obtain ⟨k', v'⟩ := e
    by_cases h : k' = k
    · simp [upsert, lookup, h]
    · simp [upsert, lookup, h, ih]

private theorem lookup_upsert_other (k k2 v : Nat) (m : Heights Nat) (h : k2 ≠ k) :
    lookup k2 (upsert k v m) = lookup k2 m := by
  induction m with
  | nil => simp [upsert, lookup]; intro h'; exact absurd h'.symm h
  | cons e t ih =>
    obtain ⟨k', v'⟩ := e
    by_cases h1 : k' = k
    · subst h1
      have : ¬ k' = k2 := fun h' => h h'.symm
      simp [upsert, lookup, this]
    · by_cases h2 : k' = k2
      · subst h2
        simp [upsert, lookup, h1]
      · simp [upsert, lookup, h1, h2, ih]

/-- `advance` on another key leaves the entry alone; on the same key it yields the maximum. -/
private theorem lookup_advance (c : Heights Nat) (k h k2 : Nat) :
    lookup k2 (advance c k h) =
      if k2 = k then (match lookup k c with
                      | some cur => some (max cur h)
                      | none => some h)
      else lookup k2 c := by
  unfold advance
  by_cases hk : k2 = k
  · subst hk
    simp only [if_true]
    cases hl : lookup k2 c with
    | none => simp [lookup_upsert_same]
    | some cur =>
      simp only
      by_cases hc : cur ≥ h
      · simp [hc, hl, Nat.max_eq_left hc]
      · have : max cur h = h := Nat.max_eq_right (by omega)
        simp [hc, lookup_upsert_same, this]
  · simp only [hk, if_false]
    cases hl : lookup k c with
    | none => simp [lookup_upsert_other _ _ _ _ hk]
    | some cur =>
      simp only
      by_cases hc : cur ≥ h
      · simp [hc]
      · simp [hc, lookup_upsert_other _ _ _ _ hk]

private theorem mem_of_lookup (k v : Nat) (m : Heights Nat) (h : lookup k m = some v) : (k, v) ∈ m := by
  induction m with
  | nil => simp [lookup] at h
  | cons e t ih =>
    obtain ⟨k', v'⟩ := e
    by_cases h1 : k' = k
    · simp [lookup, h1] at h; subst h1; subst h; simp
    · simp [lookup, h1] at h; exact List.mem_cons_of_mem _ (ih h)

/-- Keys of `upsert` / `advance` stay duplicate-free. -/
private theorem keys_upsert (k v : Nat) (m : Heights Nat) :
    ∀ x, x ∈ keys (upsert k v m) ↔ x = k ∨ x ∈ keys m := by
  induction m with
  | nil => intro x; simp [upsert, keys]
  | cons e t ih =>
    obtain ⟨k', v'⟩ := e
    intro x
    by_cases h1 : k' = k
    · simp [upsert, keys, h1]
    · have := ih x
      simp only [keys] at this
      simp [upsert, keys, h1, this]
      grind

private theorem nodup_upsert (k v : Nat) (m : Heights Nat) (h : (keys m).Nodup) : (keys (upsert k v m)).Nodup := by
  induction m with
  | nil => simp [upsert, keys]
  | cons e t ih =>
    obtain ⟨k', v'⟩ := e
    simp only [keys, List.map_cons, List.nodup_cons] at h
    by_cases h1 : k' = k
    · subst h1; simpa [upsert, keys] using h
    · have ht := ih h.2
      have hk := keys_upsert k v t k'
      simp only [upsert, h1, if_false, keys, List.map_cons, List.nodup_cons]
      refine ⟨?_, ht⟩
      intro hmem
      rcases (hk.1 hmem) with h2 | h2
      · exact h1 h2
      · exact h.1 h2

private theorem nodup_advance (c : Heights Nat) (k h : Nat) (hn : (keys c).Nodup) : (keys (advance c k h)).Nodup := by
  unfold advance
  split
  · split
    · exact hn
    · exact nodup_upsert _ _ _ hn
  · exact nodup_upsert _ _ _ hn

/-- In a duplicate-free map an entry is what `lookup` finds. -/
private theorem lookup_of_mem (k v : Nat) (m : Heights Nat) (hn : (keys m).Nodup) (h : (k, v) ∈ m) :
    lookup k m = some v := by
  induction m with
  | nil => simp at h
  | cons e t ih =>
    obtain ⟨k', v'⟩ := e
    simp only [keys, List.map_cons, List.nodup_cons] at hn
    rcases List.mem_cons.1 h with h1 | h1
    · injection h1 with h2 h3; subst h2; subst h3; simp [lookup]
    · have hk : k ∈ keys t := List.mem_map.2 ⟨(k, v), h1, rfl⟩
      have : k' ≠ k := fun hh => hn.1 (hh ▸ hk)
      simp [lookup, this, ih hn.2 h1]

/-! ### log heights of the store -/

private theorem heights_fold (rows : List Row) :
    ∀ (h0 : Heights Nat), (keys h0).Nodup →
      let H := rows.foldl (fun h r => advance h r.author r.seq) h0
      (keys H).Nodup ∧
      (∀ a m, lookup a h0 = some m → ∃ m', lookup a H = some m' ∧ m ≤ m') ∧
      (∀ r, r ∈ rows → ∃ m', lookup r.author H = some m' ∧ r.seq ≤ m') := by
  induction rows with
  | nil =>
    intro h0 hn
    exact ⟨hn, fun a m h => ⟨m, h, Nat.le_refl _⟩, fun r hr => by simp at hr⟩
  | cons r t ih =>
    intro h0 hn
    have hn1 := nodup_advance h0 r.author r.seq hn
    obtain ⟨i1, i2, i3⟩ := ih (advance h0 r.author r.seq) hn1
    simp only [List.foldl_cons]
    refine ⟨i1, ?_, ?_⟩
    · intro a m hl
      have hla := lookup_advance h0 r.author r.seq a
      by_cases ha : a = r.author
      · subst ha
        simp only [if_true, hl] at hla
        obtain ⟨m', h1, h2⟩ := i2 _ _ hla
        exact ⟨m', h1, by omega⟩
      · simp only [ha, if_false] at hla
        exact i2 a m (hla ▸ hl)
    · intro r' hr'
      rcases List.mem_cons.1 hr' with h | h
      · subst h
        have hla := lookup_advance h0 r'.author r'.seq r'.author
        simp only [if_true] at hla
        cases hl : lookup r'.author h0 with
        | none =>
          simp only [hl] at hla
          obtain ⟨m', h1, h2⟩ := i2 _ _ hla
          exact ⟨m', h1, h2⟩
        | some cur =>
          simp only [hl] at hla
          obtain ⟨m', h1, h2⟩ := i2 _ _ hla
          exact ⟨m', h1, by omega⟩
      · exact i3 r' h

/-- Every stored row is at or below its log's height, and the height map has unique keys. -/
theorem heightsOf_spec (rows : List Row) :
    (keys (heightsOf rows)).Nodup ∧ ∀ r, r ∈ rows → ∃ m, lookup r.author (heightsOf rows) = some m ∧ r.seq ≤ m := by
  have := heights_fold rows [] (by simp [keys])
  exact ⟨this.1, this.2.2⟩

/-! ### `ORDER BY seq_num` keeps exactly the selected rows -/

private theorem mem_insertBySeq (r x : Row) (l : List Row) : x ∈ insertBySeq r l ↔ x = r ∨ x ∈ l := by
  induction l with
  | nil => simp [insertBySeq]
  | cons y t ih =>
    unfold insertBySeq
    split
    · simp
    · simp [ih]; grind

private theorem mem_sortBySeq (x : Row) (l : List Row) : x ∈ sortBySeq l ↔ x ∈ l := by
  induction l with
  | nil => simp [sortBySeq]
  | cons y t ih => simp [sortBySeq, mem_insertBySeq, ih]

theorem mem_entries (rows : List Row) (a : Nat) (rg : Range) (x : Row) :
    x ∈ entries rows a rg ↔ x ∈ rows ∧ x.author = a ∧ inRange rg x.seq = true := by
  simp [entries, mem_sortBySeq, List.mem_filter]

/-! ## The property -/

/-- C15 (replay half): every stored row with a body whose log is associated with the topic and whose seq is above
    the persisted cursor of its log (or whose log has no cursor entry) is handed to the application by the replay —
    whatever else the persisted state is. That the association is there after EVERY committed transaction of the
    code is `c15_assoc_after_any_commit` below. -/
theorem c15_replays_unacked (p : Persist) (r : Row) (hr : r ∈ p.rows) (hb : r.body = true)
    (ha : r.author ∈ p.assoc)
    (hc : ∀ h, lookup r.author p.cursor = some h → h < r.seq) : r ∈ deliveredRows p := by
  have hv : r ∈ visibleRows p := by
    simp only [visibleRows, List.mem_filter, List.contains_iff_mem]
    exact ⟨hr, ha⟩
  obtain ⟨hn, hall⟩ := heightsOf_spec (visibleRows p)
  obtain ⟨m, hm, hle⟩ := hall r hv
  have hmem : (r.author, m) ∈ heightsOf (visibleRows p) := mem_of_lookup _ _ _ hm
  unfold deliveredRows nacked P2.Heights.compare
  rw [List.mem_flatMap]
  cases hcur : lookup r.author p.cursor with
  | none =>
    refine ⟨(r.author, (none, m)), ?_, ?_⟩
    · rw [List.mem_filterMap]
      exact ⟨(r.author, m), hmem, by simp [hcur]⟩
    · rw [List.mem_filter]
      refine ⟨(mem_entries _ _ _ _).2 ⟨hr, rfl, ?_⟩, hb⟩
      simp [inRange, hle]
  | some c =>
    have hlt := hc c hcur
    refine ⟨(r.author, (some c, m)), ?_, ?_⟩
    · rw [List.mem_filterMap]
      refine ⟨(r.author, m), hmem, ?_⟩
      have : c < m := by omega
      simp [hcur, this]
    · rw [List.mem_filter]
      refine ⟨(mem_entries _ _ _ _).2 ⟨hr, rfl, ?_⟩, hb⟩
      simp [inRange, hlt, hle]

/-- C15 (no re-delivery half): whatever the replay hands over is a stored row with a body strictly above the
    persisted cursor of its log — nothing acknowledged (itself or through a later operation of its log) is
    delivered again. -/
theorem c15_skips_acked (p : Persist) (r : Row) (hd : r ∈ deliveredRows p) :
    r ∈ p.rows ∧ r.body = true ∧ ∀ h, lookup r.author p.cursor = some h → h < r.seq := by
  unfold deliveredRows nacked P2.Heights.compare at hd
  rw [List.mem_flatMap] at hd
  obtain ⟨e, he, hre⟩ := hd
  rw [List.mem_filter] at hre
  obtain ⟨hent, hb⟩ := hre
  obtain ⟨hrows, hauth, hrange⟩ := (mem_entries _ _ _ _).1 hent
  refine ⟨hrows, hb, ?_⟩
  intro h hl
  rw [List.mem_filterMap] at he
  obtain ⟨x, _, hx⟩ := he
  cases hcx : lookup x.1 p.cursor with
  | none =>
    simp only [hcx] at hx
    injection hx with hx
    subst hx
    simp only at hauth
    rw [hauth, hcx] at hl
    contradiction
  | some c =>
    simp only [hcx] at hx
    split at hx
    · injection hx with hx
      subst hx
      simp only at hauth hrange
      rw [hauth, hcx] at hl
      injection hl with hl
      subst hl
      simp [inRange] at hrange
      exact hrange.1
    · contradiction

/-- Every stored row's log is associated with the topic (what one-transaction insert+associate maintains). -/
def AssocInv (p : Persist) : Prop := ∀ r, r ∈ p.rows → r.author ∈ p.assoc

/-- The ids version used by the correspondence check (for states the code can leave behind). -/
theorem c15_delivered_ids (p : Persist) (hA : AssocInv p) (i : Nat) :
    i ∈ delivered p ↔ ∃ r, r ∈ p.rows ∧ r.id = i ∧ r.body = true ∧
      ∀ h, lookup r.author p.cursor = some h → h < r.seq := by
  unfold delivered
  rw [List.mem_map]
  constructor
  · rintro ⟨r, hr, rfl⟩
    obtain ⟨h1, h2, h3⟩ := c15_skips_acked p r hr
    exact ⟨r, h1, rfl, h2, h3⟩
  · rintro ⟨r, h1, rfl, h2, h3⟩
    exact ⟨r, c15_replays_unacked p r h1 h2 (hA r h1) h3, rfl⟩

/-! ### crashes keep the persistent state; the cursor never goes back -/

/-- `a ≤ b` pointwise on cursors (`optLe`, a missing entry is least). -/
def CursorLe (a b : Heights Nat) : Prop := ∀ k, optLe (lookup k a) (lookup k b)

private theorem optLe_refl (a : Option Nat) : optLe a a := by
  cases a <;> simp [optLe]

private theorem optLe_trans {a b c : Option Nat} (h1 : optLe a b) (h2 : optLe b c) : optLe a c := by
  cases a <;> cases b <;> cases c <;> simp_all [optLe]; omega

private theorem cursorLe_advance (c : Heights Nat) (k h : Nat) : CursorLe c (advance c k h) := by
  intro k2
  rw [lookup_advance]
  by_cases hk : k2 = k
  · subst hk
    simp only [if_true]
    cases hl : lookup k2 c with
    | none => simp [optLe]
    | some cur => simp [optLe]; omega
  · simp only [hk, if_false]
    exact optLe_refl _

/-- One step of any history: rows are only added, the cursor only advances; a crash changes neither. -/
theorem c15_step_persist (s : St) (o : Op) :
    (∀ r, r ∈ s.p.rows → r ∈ (step s o).p.rows) ∧ CursorLe s.p.cursor (step s o).p.cursor ∧
    (o = .crash → (step s o).p = s.p) := by
  cases o with
  | insert r => exact ⟨fun x hx => by simp [step, hx], fun k => optLe_refl _, fun h => by cases h⟩
  | insertRow r => exact ⟨fun x hx => by simp [step, hx], fun k => optLe_refl _, fun h => by cases h⟩
  | associate a => exact ⟨fun x hx => by simpa [step] using hx, fun k => optLe_refl _, fun h => by cases h⟩
  | process i => exact ⟨fun x hx => by simpa [step] using hx, fun k => optLe_refl _, fun h => by cases h⟩
  | ack a h => exact ⟨fun x hx => by simpa [step] using hx, cursorLe_advance _ _ _, fun h => by cases h⟩
  | crash => exact ⟨fun x hx => by simpa [step] using hx, fun k => optLe_refl _, fun _ => rfl⟩

/-- C15 (persistence): along ANY history of store commits, pipeline completions, acks and crashes (at any
    positions, any number of them) no stored row disappears and no cursor entry decreases. -/
theorem c15_cursor_persisted_monotone (ops : List Op) :
    ∀ s : St, (∀ r, r ∈ s.p.rows → r ∈ (runOps s ops).p.rows) ∧ CursorLe s.p.cursor (runOps s ops).p.cursor := by
  induction ops with
  | nil => intro s; exact ⟨fun r h => h, fun k => optLe_refl _⟩
  | cons o t ih =>
    intro s
    obtain ⟨h1, h2, _⟩ := c15_step_persist s o
    obtain ⟨i1, i2⟩ := ih (step s o)
    exact ⟨fun r hr => i1 r (h1 r hr), fun k => optLe_trans (h2 k) (i2 k)⟩

/-- One committed transaction of the code (insert+associate together), a volatile step or a crash keeps
    "every stored row's log is associated with the topic". -/
theorem c15_assoc_step (s : St) (o : Op) (ho : o.atomic = true) (hA : AssocInv s.p) : AssocInv (step s o).p := by
  cases o with
  | insert r =>
    intro x hx
    simp only [step, List.mem_append, List.mem_singleton] at hx ⊢
    rcases hx with hx | hx
    · exact List.mem_cons_of_mem _ (hA x hx)
    · subst hx; simp
  | insertRow r => simp [Op.atomic] at ho
  | associate a => simp [Op.atomic] at ho
  | process i => intro x hx; exact hA x (by simpa [step] using hx)
  | ack a h => intro x hx; exact hA x (by simpa [step] using hx)
  | crash => intro x hx; exact hA x (by simpa [step] using hx)

/-- C15 (crash after ANY committed transaction): along every history of the code's operations — i.e. at every
    durable state, whichever commit the crash follows — every stored row's log is associated with the topic … -/
theorem c15_assoc_after_any_commit (ops : List Op) (hat : ∀ o, o ∈ ops → o.atomic = true) :
    ∀ s : St, AssocInv s.p → AssocInv (runOps s ops).p := by
  induction ops with
  | nil => intro s h; exact h
  | cons o t ih =>
    intro s h
    exact ih (fun x hx => hat x (by simp [hx])) (step s o) (c15_assoc_step s o (hat o (by simp)) h)

/-- … hence the end-to-end reading: run any history of the code's operations (crashes anywhere, after any commit),
    then re-open. A row committed during the history is replayed iff no ack at or above its seq was persisted
    for its log. -/
theorem c15_after_any_history (s : St) (hA : AssocInv s.p) (ops : List Op)
    (hat : ∀ o, o ∈ ops → o.atomic = true) (r : Row) (hr : r ∈ s.p.rows) (hb : r.body = true) :
    let p' := (runOps s ops).p
    (r ∈ deliveredRows p' ↔ ∀ h, lookup r.author p'.cursor = some h → h < r.seq) := by
  intro p'
  have hrows := (c15_cursor_persisted_monotone ops s).1 r hr
  have hA' := c15_assoc_after_any_commit ops hat s hA
  constructor
  · intro hd; exact (c15_skips_acked p' r hd).2.2
  · intro hc; exact c15_replays_unacked p' r hrows hb (hA' r hrows) hc

/-! ### concurrent acks

`Acked::ack` takes the cursor's semaphore permit BEFORE it reads the cursor (tied to the source below), so several
acks in flight at once — e.g. the application acking operations of different authors with `join_all` — are applied
one after the other in SOME order, each atomically. Whatever that order is, every one of them is in the persisted
cursor afterwards, and none of the acknowledged operations is delivered again after any later history. -/

/-- Any sequence (= any interleaving of atomic) acks: each acked `(author, seq)` is covered by the cursor. -/
theorem c15_concurrent_acks_all_persist (acks : List (Nat × Nat)) :
    ∀ (c : Heights Nat) (a h : Nat), (a, h) ∈ acks →
      ∃ m, lookup a (acks.foldl (fun c e => advance c e.1 e.2) c) = some m ∧ h ≤ m := by
  induction acks with
  | nil => intro c a h hm; simp at hm
  | cons e t ih =>
    intro c a h hm
    simp only [List.foldl_cons]
    rcases List.mem_cons.1 hm with he | ht
    · -- this ack is applied now; later acks only move the cursor forward
      subst he
      have hnow : ∃ m0, lookup a (advance c a h) = some m0 ∧ h ≤ m0 := by
        rw [lookup_advance]
        simp only [if_true]
        cases lookup a c with
        | none => exact ⟨h, rfl, Nat.le_refl _⟩
        | some cur => exact ⟨max cur h, rfl, Nat.le_max_right _ _⟩
      obtain ⟨m0, h0, hle0⟩ := hnow
      have hmono : ∀ (l : List (Nat × Nat)) (c0 : Heights Nat), CursorLe c0 (l.foldl (fun c e => advance c e.1 e.2) c0) := by
        intro l
        induction l with
        | nil => intro c0 k; exact optLe_refl _
        | cons x xs ihx =>
          intro c0 k
          simp only [List.foldl_cons]
          exact optLe_trans (cursorLe_advance c0 x.1 x.2 k) (ihx _ k)
      have := hmono t (advance c a h) a
      rw [h0] at this
      cases hl : lookup a (t.foldl (fun c e => advance c e.1 e.2) (advance c a h)) with
      | none => rw [hl] at this; simp [optLe] at this
      | some m => rw [hl] at this; simp only [optLe] at this; exact ⟨m, rfl, by omega⟩
    · exact ih _ a h ht

/-- … so a row acknowledged by one of several concurrent acks is not replayed — right away or after any further
    history of the code's operations (crashes anywhere). -/
theorem c15_concurrent_acks_never_redelivered (s : St) (acks : List (Nat × Nat)) (more : List Op) (r : Row)
    (hack : (r.author, r.seq) ∈ acks) :
    r ∉ deliveredRows (runOps s (acks.map (fun e => Op.ack e.1 e.2) ++ more)).p := by
  intro hd
  have hskip := (c15_skips_acked _ r hd).2.2
  -- cursor after the acks covers r …
  have hfold : ∀ (l : List (Nat × Nat)) (s0 : St),
      (runOps s0 (l.map (fun e => Op.ack e.1 e.2))).p.cursor = l.foldl (fun c e => advance c e.1 e.2) s0.p.cursor := by
    intro l
    induction l with
    | nil => intro s0; rfl
    | cons x xs ihx => intro s0; simp only [List.map_cons, runOps, List.foldl_cons]; exact ihx (step s0 (.ack x.1 x.2))
  obtain ⟨m, hm, hle⟩ := c15_concurrent_acks_all_persist acks s.p.cursor r.author r.seq hack
  -- … and the rest of the history cannot lower it
  have hsplit : runOps s (acks.map (fun e => Op.ack e.1 e.2) ++ more)
      = runOps (runOps s (acks.map (fun e => Op.ack e.1 e.2))) more := by
    simp [runOps, List.foldl_append]
  rw [hsplit] at hskip
  have hmono := (c15_cursor_persisted_monotone more (runOps s (acks.map (fun e => Op.ack e.1 e.2)))).2 r.author
  rw [hfold acks s, hm] at hmono
  cases hl : lookup r.author (runOps (runOps s (acks.map (fun e => Op.ack e.1 e.2))) more).p.cursor with
  | none => rw [hl] at hmono; simp [optLe] at hmono
  | some m' =>
    rw [hl] at hmono
    simp only [optLe] at hmono
    have := hskip m' hl
    omega

/-- What goes wrong without the permit around the read: two acks computed from the SAME old cursor, the second
    write overwrites the first — the first acknowledged operation comes back after a restart. -/
theorem c15_racy_acks_redeliver :
    let rows : List Row := [⟨0, 0, true, 10⟩, ⟨1, 0, true, 11⟩]
    let old : Heights Nat := []
    let write1 := advance old 0 0      -- ack of author 0's operation, computed from `old`
    let write2 := advance old 1 0      -- ack of author 1's operation, computed from `old` as well
    let p : Persist := { rows := rows, cursor := write2, assoc := [0, 1] }   -- write2 lands last
    lookup 0 write1 = some 0 ∧ delivered p = [10] := by decide

/-- The permit is the first thing `Acked::ack` takes — before the topic check and before the cursor is read
    (same extraction as C07's `c07_ack_source_shape`, re-run for this property on every check). -/
theorem c15_ack_permit_first_in_source :
    P2.Extracted.C15.ackFirstStatement = "let _permit = self.semaphore.acquire().await;" := rfl

/-! ### insert and association as TWO transactions lose the first operation of a log

`insertRow` commits the operation, the crash comes before `associate`: the row is stored, has a body, was never
acknowledged — and the replay does not see it. Under the automatic policy the loss is permanent: the next publish
(which finds nothing to repair, associates the log and is acked) moves the cursor past it. -/

def emptySt : St := { p := { rows := [], cursor := [], assoc := [] }, inPipeline := [], handed := [] }

theorem c15_split_loses_first_publish :
    let s := runOps emptySt [.insertRow ⟨0, 0, true, 10⟩, .crash]
    (⟨0, 0, true, 10⟩ : Row) ∈ s.p.rows ∧ lookup 0 s.p.cursor = none ∧ delivered s.p = [] := by decide

theorem c15_split_loss_is_permanent :
    let s := runOps emptySt [.insertRow ⟨0, 0, true, 10⟩, .crash,
      .insertRow ⟨0, 1, true, 11⟩, .associate 0, .process 11, .ack 0 1, .crash]
    (⟨0, 0, true, 10⟩ : Row) ∈ s.p.rows ∧ delivered s.p = [] ∧ s.handed = [] := by decide

/-- The full statement ("stored, body, above the cursor ⇒ replayed") is false for the split variant … -/
theorem c15_split_violates :
    ¬ (∀ (ops : List Op) (r : Row), let p := (runOps emptySt ops).p
        r ∈ p.rows → r.body = true → (∀ h, lookup r.author p.cursor = some h → h < r.seq) → r ∈ deliveredRows p) := by
  intro h
  have := h [.insertRow ⟨0, 0, true, 10⟩, .crash] ⟨0, 0, true, 10⟩ (by decide) rfl (by decide)
  revert this
  decide

/-- … and true for the code's operations (one transaction). -/
theorem c15_atomic_holds (ops : List Op) (hat : ∀ o, o ∈ ops → o.atomic = true) (r : Row) :
    let p := (runOps emptySt ops).p
    r ∈ p.rows → r.body = true → (∀ h, lookup r.author p.cursor = some h → h < r.seq) → r ∈ deliveredRows p := by
  intro p hr hb hc
  have hA : AssocInv p := c15_assoc_after_any_commit ops hat emptySt (by intro x hx; simp [emptySt] at hx)
  exact c15_replays_unacked p r hr hb (hA r hr) hc

/-! ### … and the source really commits both in one transaction

`forgeAssociateInInsertTx` is re-extracted from p2panda/src/forge.rs on every run: inside the ONE
`tx!(self.store, { … })` block of `create_operation` the topic association is followed by `insert_operation`
(the extraction fails if either call lies outside that block). -/
theorem c15_insert_and_associate_one_transaction_in_source :
    P2.Extracted.C15.forgeAssociateInInsertTx = "::associate(" := rfl

/-! ## Non-vacuity -/

/-- publish 1, publish 2 (acked), publish 3, crash before its ack, import of a body-less op by author 1: -/
example :
    let s0 : St := { p := { rows := [], cursor := [], assoc := [] }, inPipeline := [], handed := [] }
    let ops : List Op := [.insert ⟨0, 0, true, 10⟩, .process 10, .insert ⟨0, 1, true, 11⟩, .process 11, .ack 0 1,
      .insert ⟨0, 2, true, 12⟩, .insert ⟨1, 0, false, 13⟩, .crash]
    delivered (runOps s0 ops).p = [12] ∧ (runOps s0 ops).inPipeline = [] ∧
      replayCursor false (runOps s0 ops).p = [(0, 1), (1, 0)] := by decide

end P2.C15
