/-
C27 — Address book keeps the newest authentic transport info per node.
Property theorems (namespace `P2.C27`) about the model of `NodeInfo::update_transports` /
`TransportInfo::verify` in `P2/Model/AddrBook.lean`. "Authentic" = `verify node r` succeeds
(signed by the node over exactly its `(timestamp, addresses)`, or trusted with every address id
equal to the node id). Signatures are ideal (DESIGN §3.1).
-/
import P2.Model.AddrBook
import P2.Lemmas.HybridTs
import P2.Extracted.C27

namespace P2.C27
open P2.HybridTs P2.AddrBook

/-! ### one step -/

/-- `update` spelled out on the register component. -/
theorem update_fst (node : Nat) (reg : Option Rec) (r : Rec) :
    (update node reg r).1 =
      if authentic node r then
        (match reg with
         | none => some r
         | some c => if c.ts < r.ts then some r else some c)
      else reg := by
  unfold update authentic
  cases hv : verify node r with
  | some e => simp
  | none =>
    cases reg with
    | none => simp
    | some c => by_cases h : c.ts < r.ts <;> simp [h]

/-- The step result says `Ok(true)` exactly when the register was replaced by the arriving record,
    an error exactly when verification failed. -/
theorem update_snd (node : Nat) (reg : Option Rec) (r : Rec) :
    (update node reg r).2 =
      match verify node r with
      | some e => .err e
      | none => .ok (match reg with
                     | none => true
                     | some c => decide (c.ts < r.ts)) := by
  unfold update
  cases hv : verify node r with
  | some e => simp
  | none =>
    cases reg with
    | none => simp
    | some c => by_cases h : c.ts < r.ts <;> simp [h]

/-- **C27 (forged records, one step)**: a record failing `verify` leaves the register untouched and is
    reported as an error — whatever its timestamp. -/
theorem c27_forged_step (node : Nat) (reg : Option Rec) (r : Rec) (h : authentic node r = false) :
    (update node reg r).1 = reg ∧ ∃ e, (update node reg r).2 = .err e := by
  unfold authentic at h
  cases hv : verify node r with
  | none => simp [hv] at h
  | some e => simp [update, hv]

/-- **C27 (replace only by strictly newer, one step)**: whenever a step changes a set register, the new
    content is the arriving record, it is authentic and its timestamp is strictly larger. -/
theorem c27_replace_only_newer (node : Nat) (c : Rec) (r : Rec) :
    (update node (some c) r).1 = some c ∨
    ((update node (some c) r).1 = some r ∧ authentic node r = true ∧ c.ts < r.ts) := by
  rw [update_fst]
  by_cases ha : authentic node r = true
  · by_cases h : c.ts < r.ts
    · right; simp [ha, h]
    · left; simp [ha, h]
  · left; simp [ha]

/-- A register, once set, is never emptied. -/
theorem update_some_isSome (node : Nat) (c : Rec) (r : Rec) : ((update node (some c) r).1).isSome := by
  rcases c27_replace_only_newer node c r with h | ⟨h, _, _⟩ <;> simp [h]

/-! ### histories -/

theorem run_append (node : Nat) (reg : Option Rec) (xs ys : List Rec) :
    run node reg (xs ++ ys) = run node (run node reg xs) ys := by
  simp [run, List.foldl_append]

theorem run_cons (node : Nat) (reg : Option Rec) (r : Rec) (rs : List Rec) :
    run node reg (r :: rs) = run node (update node reg r).1 rs := rfl

/-- `reg` is "the newest authentic record among `seen`". -/
def Newest (node : Nat) (seen : List Rec) : Option Rec → Prop
  | none => ∀ r ∈ seen, authentic node r = false
  | some m => m ∈ seen ∧ authentic node m = true ∧
      ∀ r ∈ seen, authentic node r = true → ¬ (m.ts < r.ts)

private theorem newest_step (node : Nat) (seen : List Rec) (reg : Option Rec) (r : Rec)
    (h : Newest node seen reg) : Newest node (seen ++ [r]) (update node reg r).1 := by
  rw [update_fst]
  by_cases ha : authentic node r = true
  · simp only [ha, if_true]
    cases reg with
    | none =>
      simp only [Newest] at h ⊢
      refine ⟨by simp, ha, ?_⟩
      intro r' hr' ha'
      rcases List.mem_append.1 hr' with hm | hm
      · rw [h r' hm] at ha'; cases ha'
      · simp at hm; subst hm; exact lt_irrefl _
    | some c =>
      simp only [Newest] at h
      obtain ⟨hc, hca, hmax⟩ := h
      by_cases hlt : c.ts < r.ts
      · simp only [hlt, if_true, Newest]
        refine ⟨by simp, ha, ?_⟩
        intro r' hr' ha'
        rcases List.mem_append.1 hr' with hm | hm
        · intro h2; exact hmax r' hm ha' (lt_trans hlt h2)
        · simp at hm; subst hm; exact lt_irrefl _
      · simp only [hlt, if_false, Newest]
        refine ⟨List.mem_append_left _ hc, hca, ?_⟩
        intro r' hr' ha'
        rcases List.mem_append.1 hr' with hm | hm
        · exact hmax r' hm ha'
        · simp at hm; subst hm; exact hlt
  · have ha' : authentic node r = false := by simpa using ha
    simp only [ha', Bool.false_eq_true, if_false]
    cases reg with
    | none =>
      simp only [Newest] at h ⊢
      intro r' hr'
      rcases List.mem_append.1 hr' with hm | hm
      · exact h r' hm
      · simp at hm; subst hm; exact ha'
    | some c =>
      simp only [Newest] at h ⊢
      obtain ⟨hc, hca, hmax⟩ := h
      refine ⟨List.mem_append_left _ hc, hca, ?_⟩
      intro r' hr' har'
      rcases List.mem_append.1 hr' with hm | hm
      · exact hmax r' hm har'
      · simp at hm; subst hm; rw [ha'] at har'; cases har'

private theorem newest_run (node : Nat) (rs : List Rec) :
    ∀ (seen : List Rec) (reg : Option Rec), Newest node seen reg →
      Newest node (seen ++ rs) (run node reg rs) := by
  induction rs with
  | nil => intro seen reg h; simpa [run] using h
  | cons r rs ih =>
    intro seen reg h
    have := ih (seen ++ [r]) _ (newest_step node seen reg r h)
    simpa [run_cons, List.append_assoc] using this

/-- **C27 (newest authentic)**: after *any* sequence of arriving records the register of a fresh node
    is empty iff no authentic record arrived, and otherwise holds an authentic record that arrived and
    whose timestamp no other authentic arrived record exceeds. -/
theorem c27_newest_authentic (node : Nat) (rs : List Rec) :
    Newest node rs (run node none rs) := by
  have := newest_run node rs [] none (by simp [Newest])
  simpa using this

/-- Pairwise distinct timestamps among the authentic records (an exact re-delivery of the same
    record is allowed: gossip delivers duplicates). -/
def DistinctTs (node : Nat) (rs : List Rec) : Prop :=
  ∀ a ∈ rs, ∀ b ∈ rs, authentic node a = true → authentic node b = true → a.ts = b.ts → a = b

/-- With distinct timestamps the register holds *the* authentic record of maximal timestamp: every
    other authentic record that arrived is strictly older. -/
theorem c27_newest_authentic_strict (node : Nat) (rs : List Rec) (hd : DistinctTs node rs) (m : Rec)
    (hm : run node none rs = some m) :
    m ∈ rs ∧ authentic node m = true ∧
      ∀ r ∈ rs, authentic node r = true → r ≠ m → r.ts < m.ts := by
  have h := c27_newest_authentic node rs
  rw [hm] at h
  obtain ⟨h1, h2, h3⟩ := h
  refine ⟨h1, h2, ?_⟩
  intro r hr har hne
  apply lt_of_not_lt_of_ne (h3 r hr har)
  intro heq
  exact hne (hd r hr m h1 har h2 heq.symm)

private theorem pairwise_mem {α : Type} {R : α → α → Prop} {l : List α} (h : l.Pairwise R) {a b : α}
    (ha : a ∈ l) (hb : b ∈ l) (hne : a ≠ b) : R a b ∨ R b a := by
  induction l with
  | nil => cases ha
  | cons x xs ih =>
    rw [List.pairwise_cons] at h
    rcases List.mem_cons.1 ha with rfl | ha' <;> rcases List.mem_cons.1 hb with rfl | hb'
    · exact absurd rfl hne
    · exact Or.inl (h.1 _ hb')
    · exact Or.inr (h.1 _ ha')
    · exact ih h.2 ha' hb'

/-- The pairwise-distinct formulation of the property text implies `DistinctTs`. -/
theorem distinctTs_of_pairwise (node : Nat) (rs : List Rec)
    (h : (rs.filter (authentic node)).Pairwise (fun a b => a.ts ≠ b.ts)) : DistinctTs node rs := by
  intro a ha b hb haa hab hts
  have hfa : a ∈ rs.filter (authentic node) := List.mem_filter.2 ⟨ha, haa⟩
  have hfb : b ∈ rs.filter (authentic node) := List.mem_filter.2 ⟨hb, hab⟩
  by_cases hab' : a = b
  · exact hab'
  · rcases pairwise_mem h hfa hfb hab' with h1 | h1
    · exact absurd hts h1
    · exact absurd hts.symm h1

/-- **C27 (order independence)**: for every permutation of the arriving records (distinct timestamps
    among the authentic ones) the final register is the same. -/
theorem c27_order_independent (node : Nat) (rs rs' : List Rec) (hp : rs.Perm rs')
    (hd : DistinctTs node rs) : run node none rs = run node none rs' := by
  have h1 := c27_newest_authentic node rs
  have h2 := c27_newest_authentic node rs'
  cases e1 : run node none rs with
  | none =>
    rw [e1] at h1
    cases e2 : run node none rs' with
    | none => rfl
    | some m' =>
      rw [e2] at h2
      obtain ⟨hm, ha, _⟩ := h2
      have := h1 m' (hp.mem_iff.2 hm)
      rw [ha] at this; cases this
  | some m =>
    rw [e1] at h1
    obtain ⟨hm, ha, hmax⟩ := h1
    cases e2 : run node none rs' with
    | none =>
      rw [e2] at h2
      have := h2 m (hp.mem_iff.1 hm)
      rw [ha] at this; cases this
    | some m' =>
      rw [e2] at h2
      obtain ⟨hm', ha', hmax'⟩ := h2
      have hm'rs : m' ∈ rs := hp.mem_iff.2 hm'
      have e : m.ts = m'.ts :=
        eq_of_not_lt_not_lt (hmax m' hm'rs ha') (hmax' m (hp.mem_iff.1 hm) ha)
      rw [hd m hm m' hm'rs ha ha' e]

/-- **C27 (forged records never stored)**: whatever arrives, the register's content is either what
    was stored initially or an *authentic* record that arrived. -/
theorem c27_forged_never_stored (node : Nat) (rs : List Rec) (reg : Option Rec) (m : Rec)
    (h : run node reg rs = some m) :
    reg = some m ∨ (m ∈ rs ∧ authentic node m = true) := by
  induction rs generalizing reg with
  | nil => left; simpa [run] using h
  | cons r rs ih =>
    rw [run_cons] at h
    rcases ih _ h with h' | ⟨h1, h2⟩
    · rw [update_fst] at h'
      by_cases ha : authentic node r = true
      · simp only [ha, if_true] at h'
        cases reg with
        | none => simp at h'; subst h'; right; exact ⟨by simp, ha⟩
        | some c =>
          by_cases hlt : c.ts < r.ts
          · simp [hlt] at h'; subst h'; right; exact ⟨by simp, ha⟩
          · simp [hlt] at h'; subst h'; left; rfl
      · simp only [ha] at h'; left; exact h'
    · right; exact ⟨List.mem_cons_of_mem _ h1, h2⟩

/-- **C27 (monotone register)**: along any history the stored timestamp never decreases and changes
    only to strictly larger values. -/
theorem c27_register_monotone (node : Nat) (rs : List Rec) (c : Rec) :
    ∃ m, run node (some c) rs = some m ∧ (m = c ∨ c.ts < m.ts) := by
  induction rs generalizing c with
  | nil => exact ⟨c, rfl, Or.inl rfl⟩
  | cons r rs ih =>
    rw [run_cons]
    rcases c27_replace_only_newer node c r with h | ⟨h, _, hlt⟩
    · rw [h]; exact ih c
    · rw [h]
      obtain ⟨m, hm, hor⟩ := ih r
      refine ⟨m, hm, Or.inr ?_⟩
      rcases hor with rfl | h2
      · exact hlt
      · exact lt_trans hlt h2

/-- Starting from a stored authentic record is the same as having received it first. -/
theorem c27_from_stored (node : Nat) (c : Rec) (hc : authentic node c = true) (rs : List Rec) :
    run node (some c) rs = run node none (c :: rs) := by
  rw [run_cons, update_fst]; simp [hc]

/-- Equal timestamps: the record that arrived first stays (`>` and not `>=` in the code). -/
theorem c27_equal_ts_keeps_first (node : Nat) (c r : Rec) (h : r.ts = c.ts) :
    (update node (some c) r).1 = some c := by
  rw [update_fst]
  have : ¬ c.ts < r.ts := by rw [h]; exact lt_irrefl _
  by_cases ha : authentic node r = true <;> simp [ha, this]

/-! ### what "authentic" means in the model -/

theorem authentic_auth_iff (node : Nat) (r : Rec) (hk : r.kind = .auth) :
    authentic node r = true ↔ (r.sigKey = node ∧ r.sigTs = r.ts ∧ r.sigPayload = r.payload) := by
  unfold authentic verify
  rw [hk]
  by_cases h : r.sigKey = node ∧ r.sigTs = r.ts ∧ r.sigPayload = r.payload <;> simp [h]

theorem authentic_trusted_iff (node : Nat) (r : Rec) (hk : r.kind = .trusted) :
    authentic node r = true ↔ ∀ i ∈ r.addrIds, i = node := by
  unfold authentic verify
  rw [hk]
  by_cases h : (r.addrIds.all (· == node)) = true
  · simp only [h, if_true, Option.isNone_none, true_iff]
    intro i hi; simpa using (List.all_eq_true.1 h) i hi
  · simp only [h, if_false, Option.isNone_some, Bool.false_eq_true, false_iff]
    intro hall; apply h
    exact List.all_eq_true.2 (fun i hi => by simpa using hall i hi)

/-! ### the whole-NodeInfo entry point (`NodeInfo::verify`, `AddressBook::insert_node_info`) -/

/-- **C27 (node-info insert sound)**: `insert_node_info` stores only node infos whose transports pass
    verification — whatever was stored and whatever the timestamps; a node info failing `NodeInfo::verify`
    is answered with the error and leaves the entry (row and transports) untouched. -/
theorem c27_nodeinfo_insert_sound (node : Nat) (b : Book) (t : Option Rec) :
    (nodeInfoVerify node t = none →
        (insertNodeInfo node b t).1 = { row := true, reg := t } ∧
        (insertNodeInfo node b t).2 = .ok (!b.row)) ∧
    (∀ e, nodeInfoVerify node t = some e →
        (insertNodeInfo node b t).1 = b ∧ (insertNodeInfo node b t).2 = .err e) ∧
    (∀ m, (insertNodeInfo node b t).1.reg = some m → b.reg = some m ∨ (t = some m ∧ authentic node m = true)) := by
  refine ⟨?_, ?_, ?_⟩
  · intro h; simp [insertNodeInfo, h]
  · intro e h; simp [insertNodeInfo, h]
  · intro m hm
    unfold insertNodeInfo at hm
    cases hv : nodeInfoVerify node t with
    | some e => rw [hv] at hm; left; exact hm
    | none =>
      rw [hv] at hm
      simp only at hm
      right
      refine ⟨hm, ?_⟩
      rw [hm] at hv
      simpa [nodeInfoVerify, authentic] using congrArg Option.isNone hv

/-- The record-arrival entry point on a book entry changes the transports exactly like `update`. -/
theorem arrive_reg (node : Nat) (b : Book) (r : Rec) : (arrive node b r).1.reg = (update node b.reg r).1 := by
  unfold arrive
  cases h : (update node b.reg r).2 with
  | ok newer => rfl
  | err e =>
    simp only
    -- an error leaves the register untouched
    have : authentic node r = false := by
      unfold update at h
      cases hv : verify node r with
      | none =>
        rw [hv] at h
        cases hreg : b.reg with
        | none => rw [hreg] at h; simp at h
        | some c => rw [hreg] at h; by_cases hlt : c.ts < r.ts <;> simp [hlt] at h
      | some e' => simp [authentic, hv]
    exact ((c27_forged_step node b.reg r this).1).symm

/-- **C27 (both entry points, any history)**: whatever mix of arriving records and complete node infos
    (authentic, forged, trusted with a mismatching id, without transports) is applied to a node's entry,
    the stored transports — if any — are a record of the history that passes verification for this node. -/
theorem c27_book_always_authentic (node : Nat) (ops : List Op) (b : Book)
    (hb : ∀ m, b.reg = some m → authentic node m = true) :
    ∀ m, (runOps node b ops).reg = some m → authentic node m = true := by
  induction ops generalizing b with
  | nil => simpa [runOps] using hb
  | cons op ops ih =>
    have hstep : ∀ m, (applyOp node b op).reg = some m → authentic node m = true := by
      intro m hm
      cases op with
      | transport r =>
        simp only [applyOp] at hm
        rw [arrive_reg] at hm
        have := c27_forged_never_stored node [r] b.reg m (by simpa [run] using hm)
        rcases this with h | ⟨h1, h2⟩
        · exact hb m h
        · exact h2
      | nodeInfo t =>
        simp only [applyOp] at hm
        rcases (c27_nodeinfo_insert_sound node b t).2.2 m hm with h | ⟨_, h⟩
        · exact hb m h
        · exact h
    exact ih (applyOp node b op) hstep

/-- `NodeInfo::verify` as `rs2lean` translates the current text: *any* stored transports — signed or
    trusted — are handed to `TransportInfo::verify` against the node id; only a node info without
    transports is accepted unchecked. -/
theorem c27_nodeinfo_verify_is_source (node : Nat) (t : Option Rec) :
    nodeInfoVerify node t = P2.Extracted.C27.nodeInfoVerifyT t (verify node) := by
  unfold nodeInfoVerify P2.Extracted.C27.nodeInfoVerifyT
  cases t <;> rfl

/-- Text ties: `TransportInfo::verify` dispatches to the variant's own `verify` for *both* variants, and
    the actor's two handlers verify before touching the store. -/
theorem c27_entry_points_shape :
    P2.Extracted.C27.transportInfoVerifyArms =
      "TransportInfo::Trusted(info) => info.verify(node_id), TransportInfo::Authenticated(info) => info.verify(node_id)," ∧
    P2.Extracted.C27.actorInsertNodeInfoGuard =
      "if let Err(err) = node_info.verify() { let _ = reply.send(Err(err)); return Ok(()); }" ∧
    P2.Extracted.C27.actorInsertTransportGuard =
      "if let Err(err) = transport_info.verify(&node_id) { let _ = reply.send(Err(err)); return Ok(()); }" := by
  decide

/-! ### ties to the source text (regenerated from /repo on every run) -/

/-- The `Some(current)` arm of `update_transports`, as `rs2lean` translates the current Rust text
    (strict `>` on the timestamps, store + `is_newer = true` only in that case), is the model's step. -/
theorem c27_update_is_source (node : Nat) (c r : Rec) (hv : verify node r = none) :
    update node (some c) r =
      ((P2.Extracted.C27.updateSomeT c.ts r.ts c r).1, .ok (P2.Extracted.C27.updateSomeT c.ts r.ts c r).2) := by
  unfold update P2.Extracted.C27.updateSomeT
  rw [hv]
  by_cases h : c.ts < r.ts
  · simp [h]
  · simp [h]

/-- `AuthenticatedTransportInfo::verify` as translated from the current text: one signature check of the
    *node id* over the bytes of `self.to_unsigned()` with `self.signature`; error exactly when it fails. -/
theorem c27_auth_verify_is_source (node : Nat) (r : Rec) (hk : r.kind = .auth) :
    verify node r =
      (P2.Extracted.C27.authVerifyT
        (fun _ => decide (r.sigKey = node ∧ r.sigTs = r.ts ∧ r.sigPayload = r.payload)) 0).map
        (fun _ => VErr.invalidSignature) := by
  unfold verify P2.Extracted.C27.authVerifyT
  rw [hk]
  by_cases h : r.sigKey = node ∧ r.sigTs = r.ts ∧ r.sigPayload = r.payload <;> simp [h]

/-- The parts of `update_transports` / `verify` / `sign` that are outside the translator's subset, tied as
    text: verification is the *first* statement (before any comparison or store), the match is on the stored
    transports, the `None` arm stores unconditionally, the result is `is_newer`; the signed bytes are those of
    (timestamp, addresses); trusted records check *every* address against the node id. -/
theorem c27_source_shape :
    P2.Extracted.C27.updateFirstStmt = "other.verify(&self.node_id)?;" ∧
    P2.Extracted.C27.updateMatchScrutinee = "self.transports.as_ref()" ∧
    P2.Extracted.C27.updateNoneArm = "is_newer = true; self.transports = Some(other)" ∧
    P2.Extracted.C27.updateResult = "Ok(is_newer)" ∧
    P2.Extracted.C27.toUnsignedFields = "timestamp: self.timestamp, addresses: self.addresses.clone()," ∧
    P2.Extracted.C27.unsignedSignBytes = "let bytes = self.to_bytes()?; signing_key.sign(&bytes)" ∧
    P2.Extracted.C27.trustedVerifyBody = "for address in &self.addresses { address.verify(node_id)?; } Ok(())" ∧
    P2.Extracted.C27.addrVerifyCond =
      "TransportAddress::Iroh(endpoint_addr) = self && &to_verifying_key(endpoint_addr.id) != node_id" := by
  decide

/-! ### non-vacuity: a forged record with the largest timestamp among honest ones, two orders -/

private def mk (k : Nat) (w l p : Nat) : Rec :=
  { kind := .auth, ts := ⟨w, l⟩, payload := p, addrIds := [], sigKey := k, sigTs := ⟨w, l⟩, sigPayload := p }

private def sample : List Rec :=
  [mk 1 5 0 10, mk 2 99 0 11, { mk 1 7 0 12 with ts := ⟨100, 0⟩ }, mk 1 7 1 13, mk 1 7 0 14,
   { kind := .trusted, ts := ⟨200, 0⟩, payload := 15, addrIds := [1, 3], sigKey := 0, sigTs := ⟨0, 0⟩, sigPayload := 0 }]

example : run 1 none sample = some (mk 1 7 1 13) := by decide
example : run 1 none sample.reverse = some (mk 1 7 1 13) := by decide
example : DistinctTs 1 sample := by
  intro a ha b hb; revert a b; decide

example : (runOps 1 Book.empty [.transport (mk 1 5 0 10),
    .nodeInfo (some { kind := .trusted, ts := ⟨9, 0⟩, payload := 11, addrIds := [2], sigKey := 0, sigTs := ⟨0, 0⟩, sigPayload := 0 })]).reg
    = some (mk 1 5 0 10) := by decide

end P2.C27
