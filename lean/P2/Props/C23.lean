/-
C23 — Live mode forwards every new operation once to every other session.
Model: `P2/Model/LiveFwd.lean` (a transition system over explicit queues; every interleaving of
session tasks and consumer is a list of `Act`s), built on the de-duplication buffer of C24.
All theorems: any number of sessions and topics, any capacities ≥ 1, any action list.
-/
import P2.Model.LiveFwd
import P2.Props.C24
import P2.Extracted.C23

namespace P2.C23
open P2.Dedup P2.LiveFwd

set_option linter.unusedSectionVars false
set_option linter.unusedVariables false
set_option linter.unusedSimpArgs false

/-! ## "At most once per window" as a property of a sequence -/

/-- Every element is absent from the `cap` elements before it. -/
def WindowDistinct (cap : Nat) (l : List Nat) : Prop :=
  ∀ q x, (q ++ [x]) <+: l → x ∉ lastN cap q

theorem windowDistinct_nil (cap : Nat) : WindowDistinct cap [] := by
  intro q x h
  have := List.IsPrefix.length_le h
  simp at this

private theorem prefix_snoc_cases {α : Type} (q acc : List α) (y x : α)
    (h : (q ++ [y]) <+: (acc ++ [x])) : (q ++ [y]) <+: acc ∨ (q = acc ∧ y = x) := by
  obtain ⟨t, ht⟩ := h
  rcases List.eq_nil_or_concat t with rfl | ⟨t', z, rfl⟩
  · right
    simp only [List.append_nil] at ht
    exact List.append_inj' ht rfl |>.imp id (by intro h; simpa using h)
  · left
    rw [List.concat_eq_append, ← List.append_assoc] at ht
    have := List.append_inj' ht rfl
    exact ⟨t', this.1⟩

theorem windowDistinct_snoc (cap : Nat) (acc : List Nat) (x : Nat)
    (h : WindowDistinct cap acc) (hx : x ∉ lastN cap acc) : WindowDistinct cap (acc ++ [x]) := by
  intro q y hp
  rcases prefix_snoc_cases q acc y x hp with h1 | ⟨rfl, rfl⟩
  · exact h q y h1
  · exact hx

/-- Two occurrences of the same element are separated by at least `cap` other elements. -/
theorem windowDistinct_gap (cap : Nat) (l a b c : List Nat) (x : Nat)
    (h : WindowDistinct cap l) (hl : l = a ++ [x] ++ b ++ [x] ++ c) : cap ≤ b.length := by
  have hp : ((a ++ [x] ++ b) ++ [x]) <+: l := ⟨c, by rw [hl]⟩
  have hx := h _ _ hp
  rcases Nat.lt_or_ge b.length cap with hlt | hge
  case inr => exact hge
  exfalso
  apply hx
  unfold lastN
  rw [List.mem_drop_iff_getElem]
  refine ⟨a.length - ((a ++ [x] ++ b).length - cap), ?_, ?_⟩
  · simp only [List.length_append, List.length_cons, List.length_nil]; omega
  · have hidx : (a ++ [x] ++ b).length - cap + (a.length - ((a ++ [x] ++ b).length - cap)) = a.length := by
      simp only [List.length_append, List.length_cons, List.length_nil]; omega
    simp only [hidx]
    simp [List.getElem_append_left, List.getElem_append_right]

/-! ## Invariants -/

/-- The session's buffer is the C24 ring over the hashes of its log, and the log is
    window-distinct. -/
structure SessInv (s : Sess) : Prop where
  ring : P2.C24.Inv s.dedup (s.log.map (·.2))
  distinct : WindowDistinct s.dedup.cap (s.log.map (·.2))

/-- Same for the consumer side of the manager event stream. -/
structure ConsInv (st : St) : Prop where
  ring : P2.C24.Inv st.cdedup (st.reports.map (·.2))
  distinct : WindowDistinct st.cdedup.cap (st.reports.map (·.2))

structure GInv (st : St) : Prop where
  sess : ∀ s ∈ st.sess, SessInv s
  cons : ConsInv st

theorem sessInv_new (sid topic : Nat) (live : Bool) (cap : Nat) (h : 1 ≤ cap) :
    SessInv (newSess sid topic live cap) :=
  ⟨by simpa [newSess] using P2.C24.inv_new (α := Nat) cap h, by simpa [newSess, new] using windowDistinct_nil cap⟩

/-- One buffer insert extends ring + window-distinctness; used for sessions and consumer. -/
private theorem insert_keeps {β : Type} (d : Buf Nat) (log : List (β × Nat)) (tag : β) (x : Nat)
    (hr : P2.C24.Inv d (log.map (·.2))) (hd : WindowDistinct d.cap (log.map (·.2))) :
    P2.C24.Inv (d.insert x).1 ((if (d.insert x).2 then log ++ [(tag, x)] else log).map (·.2))
    ∧ WindowDistinct (d.insert x).1.cap ((if (d.insert x).2 then log ++ [(tag, x)] else log).map (·.2)) := by
  obtain ⟨h1, h2, h3⟩ := P2.C24.insert_step d (log.map (·.2)) x hr
  cases hb : (d.insert x).2
  · rw [hb] at h1
    simp only [Bool.false_eq_true, if_false] at h1 ⊢
    exact ⟨h1, by rw [h3]; exact hd⟩
  · rw [hb] at h1
    simp only [if_true] at h1 ⊢
    have hnot : x ∉ lastN d.cap (log.map (·.2)) := by
      intro hin
      have := h2.2 hin
      rw [hb] at this; cases this
    refine ⟨by simpa using h1, ?_⟩
    rw [h3]
    simpa using windowDistinct_snoc d.cap _ x hd hnot

theorem stepLive_inv (s : Sess) (h : SessInv s) : SessInv s.stepLive := by
  unfold Sess.stepLive
  split
  · split
    · exact h
    · rename_i x q hq
      obtain ⟨a, b⟩ := insert_keeps s.dedup s.log Src.live x h.ring h.distinct
      exact ⟨a, b⟩
  · exact h

theorem stepRemote_inv (s : Sess) (h : SessInv s) : SessInv s.stepRemote := by
  unfold Sess.stepRemote
  split
  · split
    · exact h
    · rename_i x q hq
      obtain ⟨a, b⟩ := insert_keeps s.dedup s.log Src.remote x h.ring h.distinct
      exact ⟨a, b⟩
  · exact h

theorem syncRecv_inv (s : Sess) (x : Nat) (h : SessInv s) : SessInv (s.syncRecv x) := by
  obtain ⟨a, b⟩ := insert_keeps s.dedup s.log Src.remote x h.ring h.distinct
  exact ⟨a, b⟩

private theorem updSess_inv (sid : Nat) (f : Sess → Sess) (l : List Sess)
    (hf : ∀ s, SessInv s → SessInv (f s)) (h : ∀ s ∈ l, SessInv s) :
    ∀ s ∈ updSess sid f l, SessInv s := by
  intro s hs
  simp only [updSess, List.mem_map] at hs
  obtain ⟨s0, hs0, rfl⟩ := hs
  split
  · exact hf s0 (h s0 hs0)
  · exact h s0 hs0

theorem step_inv (st : St) (a : Act) (h : GInv st) : GInv (st.step a) := by
  cases a with
  | remote sid op =>
    refine ⟨updSess_inv sid _ st.sess ?_ h.sess, ⟨h.cons.ring, h.cons.distinct⟩⟩
    intro s hs; split
    · exact ⟨hs.ring, hs.distinct⟩
    · exact hs
  | publish sid op =>
    refine ⟨updSess_inv sid _ st.sess ?_ h.sess, ⟨h.cons.ring, h.cons.distinct⟩⟩
    intro s hs; split
    · exact ⟨hs.ring, hs.distinct⟩
    · exact hs
  | liveStep sid => exact ⟨updSess_inv sid _ st.sess stepLive_inv h.sess, ⟨h.cons.ring, h.cons.distinct⟩⟩
  | remoteStep sid => exact ⟨updSess_inv sid _ st.sess stepRemote_inv h.sess, ⟨h.cons.ring, h.cons.distinct⟩⟩
  | syncRecv sid op =>
    exact ⟨updSess_inv sid _ st.sess (fun s hs => syncRecv_inv s op hs) h.sess, ⟨h.cons.ring, h.cons.distinct⟩⟩
  | consume sid =>
    simp only [St.step, St.consume]
    split
    · exact h
    · rename_i s hfind
      split
      · exact h
      · rename_i x q hq
        split
        · exact ⟨updSess_inv sid (fun s => { s with evQ := q }) st.sess (fun s hs => ⟨hs.ring, hs.distinct⟩) h.sess,
            ⟨h.cons.ring, h.cons.distinct⟩⟩
        obtain ⟨a, b⟩ := insert_keeps st.cdedup st.reports sid x h.cons.ring h.cons.distinct
        refine ⟨?_, ⟨a, b⟩⟩
        intro s' hs'
        simp only [List.mem_map] at hs'
        obtain ⟨s1, hs1, rfl⟩ := hs'
        have h1 : SessInv s1 :=
          updSess_inv sid (fun s => { s with evQ := q }) st.sess (fun s hs => ⟨hs.ring, hs.distinct⟩) h.sess s1 hs1
        split
        · exact ⟨h1.ring, h1.distinct⟩
        · exact h1

theorem run_inv (acts : List Act) : ∀ (st : St), GInv st → GInv (st.run acts) := by
  induction acts with
  | nil => intro st h; exact h
  | cons a as ih => intro st h; exact ih _ (step_inv st a h)

/-- Initial states: any sessions with empty logs and buffers of capacity ≥ 1 (also states with
    buffers handed over from a sync phase satisfy `GInv`, with the sync-phase hashes as log). -/
theorem ginv_init (sess : List Sess) (ccap : Nat) (hc : 1 ≤ ccap)
    (hs : ∀ s ∈ sess, ∃ sid topic live cap, 1 ≤ cap ∧ s = newSess sid topic live cap) :
    GInv { sess := sess, cdedup := new ccap, reports := [] } := by
  refine ⟨?_, ⟨by simpa using P2.C24.inv_new (α := Nat) ccap hc, by simpa [new] using windowDistinct_nil ccap⟩⟩
  intro s h
  obtain ⟨sid, topic, live, cap, hcap, rfl⟩ := hs s h
  exact sessInv_new sid topic live cap hcap

/-! ## Static configuration is never changed by a run -/

def conf (s : Sess) : Nat × Nat × Bool × Nat := (s.sid, s.topic, s.live, s.dedup.cap)

private theorem cap_insert (d : Buf Nat) (x : Nat) : (d.insert x).1.cap = d.cap := by
  unfold Buf.insert; split <;> rfl

private theorem conf_stepLive (s : Sess) : conf s.stepLive = conf s := by
  unfold Sess.stepLive conf
  split
  · split
    · rfl
    · simp [cap_insert]
  · rfl

private theorem conf_stepRemote (s : Sess) : conf s.stepRemote = conf s := by
  unfold Sess.stepRemote conf
  split
  · split
    · rfl
    · simp [cap_insert]
  · rfl

private theorem conf_syncRecv (s : Sess) (x : Nat) : conf (s.syncRecv x) = conf s := by
  simp [Sess.syncRecv, conf, cap_insert]

private theorem map_conf_updSess (sid : Nat) (f : Sess → Sess) (l : List Sess)
    (hf : ∀ s, conf (f s) = conf s) : (updSess sid f l).map conf = l.map conf := by
  simp only [updSess, List.map_map]
  apply List.map_congr_left
  intro s _
  simp only [Function.comp]
  split
  · exact hf s
  · rfl

theorem step_conf (st : St) (a : Act) : (st.step a).sess.map conf = st.sess.map conf := by
  cases a with
  | remote sid op =>
    exact map_conf_updSess sid _ _ (by intro s; split <;> rfl)
  | publish sid op =>
    exact map_conf_updSess sid _ _ (by intro s; split <;> rfl)
  | liveStep sid => exact map_conf_updSess sid _ _ conf_stepLive
  | remoteStep sid => exact map_conf_updSess sid _ _ conf_stepRemote
  | syncRecv sid op => exact map_conf_updSess sid _ _ (fun s => conf_syncRecv s op)
  | consume sid =>
    simp only [St.step, St.consume]
    split
    · rfl
    · split
      · rfl
      · split
        · exact map_conf_updSess sid _ _ (by intro s; rfl)
        simp only [List.map_map]
        rw [← map_conf_updSess sid (fun s => { s with evQ := _ }) st.sess (by intro s; rfl)]
        simp only [updSess, List.map_map]
        apply List.map_congr_left
        intro s _
        simp only [Function.comp]
        split <;> split <;> rfl

/-- Sessions, their topics, live flags and capacities are the same before and after any run. -/
theorem c23_config_static (st : St) (acts : List Act) :
    (st.run acts).sess.map conf = st.sess.map conf := by
  induction acts generalizing st with
  | nil => rfl
  | cons a as ih => simp only [St.run, List.foldl_cons] at ih ⊢; rw [ih, step_conf]

/-! ## Property theorems -/

/-- General form: in a session's log of accepted hashes, two entries with the same hash —
    whatever their sources — are at least `capacity` accepted entries apart. -/
theorem c23_log_gap (st : St) (h : GInv st) (acts : List Act) (s : Sess)
    (hs : s ∈ (st.run acts).sess) (a b c : List (Src × Nat)) (x : Nat) (s1 s2 : Src)
    (hl : s.log = a ++ [(s1, x)] ++ b ++ [(s2, x)] ++ c) : s.dedup.cap ≤ b.length := by
  have hi := (run_inv acts st h).sess s hs
  have := windowDistinct_gap s.dedup.cap (s.log.map (·.2)) (a.map (·.2)) (b.map (·.2)) (c.map (·.2)) x
    hi.distinct (by rw [hl]; simp)
  simpa using this

/-- **Each session sends a given operation at most once within its window**: between two `Live`
    messages with the same hash written to one remote there are at least `capacity` other hashes
    accepted by that session's buffer. -/
theorem c23_session_once (st : St) (h : GInv st) (acts : List Act) (s : Sess)
    (hs : s ∈ (st.run acts).sess) (a b c : List (Src × Nat)) (x : Nat)
    (hl : s.log = a ++ [(Src.live, x)] ++ b ++ [(Src.live, x)] ++ c) : s.dedup.cap ≤ b.length :=
  c23_log_gap st h acts s hs a b c x _ _ hl

/-- **No echo**: a session never writes to its remote an operation it accepted from that same
    remote while the hash is inside its window (fewer than `capacity` accepted hashes later). -/
theorem c23_no_echo (st : St) (h : GInv st) (acts : List Act) (s : Sess)
    (hs : s ∈ (st.run acts).sess) (a b c : List (Src × Nat)) (x : Nat)
    (hl : s.log = a ++ [(Src.remote, x)] ++ b ++ [(Src.live, x)] ++ c) : s.dedup.cap ≤ b.length :=
  c23_log_gap st h acts s hs a b c x _ _ hl

/-- Conversely an operation just sent to the remote and bounced back by it is not reported
    (no event) while it is inside the window. -/
theorem c23_no_bounce (st : St) (h : GInv st) (acts : List Act) (s : Sess)
    (hs : s ∈ (st.run acts).sess) (a b c : List (Src × Nat)) (x : Nat)
    (hl : s.log = a ++ [(Src.live, x)] ++ b ++ [(Src.remote, x)] ++ c) : s.dedup.cap ≤ b.length :=
  c23_log_gap st h acts s hs a b c x _ _ hl

/-- **The consumer sees a given operation at most once within its window**, whichever sessions
    it arrived through. -/
theorem c23_consumer_once (st : St) (h : GInv st) (acts : List Act)
    (a b c : List (Nat × Nat)) (x s1 s2 : Nat)
    (hl : (st.run acts).reports = a ++ [(s1, x)] ++ b ++ [(s2, x)] ++ c) :
    (st.run acts).cdedup.cap ≤ b.length := by
  have hi := (run_inv acts st h).cons
  have := windowDistinct_gap _ ((st.run acts).reports.map (·.2)) (a.map (·.2)) (b.map (·.2)) (c.map (·.2)) x
    hi.distinct (by rw [hl]; simp)
  simpa using this

/-- **Forward to all others** (the `consume` transition): when the manager event stream takes
    an `OperationReceived(x)` of session `sid` (still registered in its topic map), every *other* live session of the same topic gets
    `x` appended to its `live_mode_rx` — nothing else about that session changes. There is no
    bound on the queue length: a full channel makes the real forward wait, never drop. -/
theorem c23_forward_all (st : St) (sid : Nat) (s : Sess) (x : Nat) (q : List Nat)
    (hfind : st.sess.find? (fun s => s.sid = sid) = some s) (hq : s.evQ = x :: q)
    (hnd : st.dropped.contains sid = false)
    (s' : Sess) (hs' : s' ∈ st.sess) (hne : s'.sid ≠ sid) (htop : s'.topic = s.topic)
    (hlive : s'.live = true) :
    { s' with liveQ := s'.liveQ ++ [x] } ∈ (st.consume sid).sess := by
  simp only [St.consume, hfind, hq, hnd, Bool.false_eq_true, if_false, List.mem_map, updSess]
  refine ⟨s', ⟨s', hs', by simp [hne]⟩, ?_⟩
  simp [hne, htop, hlive]

/-- … and an offered operation is sent unless it is inside the session's window: taking `x`
    from `live_mode_rx` writes `Live(x)` to the remote iff `x` is not among the last `capacity`
    accepted hashes. -/
theorem c23_offered_is_sent (s : Sess) (h : SessInv s) (x : Nat) (q : List Nat)
    (hlive : s.live = true) (hq : s.liveQ = x :: q) :
    s.stepLive.liveQ = q
    ∧ (x ∉ lastN s.dedup.cap (s.log.map (·.2)) → s.stepLive.log = s.log ++ [(Src.live, x)])
    ∧ (x ∈ lastN s.dedup.cap (s.log.map (·.2)) → s.stepLive.log = s.log) := by
  obtain ⟨_, h2, _⟩ := P2.C24.insert_step s.dedup (s.log.map (·.2)) x h.ring
  simp only [Sess.stepLive, hlive, hq, if_true]
  refine ⟨trivial, ?_, ?_⟩
  · intro hn
    cases hb : (s.dedup.insert x).2
    · exact absurd (h2.1 hb) hn
    · simp
  · intro hin
    simp [h2.2 hin]

/-- **No self-forward, nothing across topics** (the `consume` transition): the source session
    only loses the event, and sessions of other topics are not touched at all. -/
theorem c23_other_topics_untouched (st : St) (sid : Nat) (s : Sess)
    (hfind : st.sess.find? (fun s => s.sid = sid) = some s)
    (s' : Sess) (hs' : s' ∈ st.sess) :
    (s'.sid ≠ sid → s'.topic ≠ s.topic → s' ∈ (st.consume sid).sess)
    ∧ (s'.sid = sid → ∃ s'' ∈ (st.consume sid).sess, s''.sid = sid ∧ s''.liveQ = s'.liveQ
        ∧ s''.log = s'.log ∧ s''.dedup = s'.dedup) := by
  constructor
  · intro hne htop
    simp only [St.consume, hfind]
    split
    · exact hs'
    · split
      · simp only [List.mem_map, updSess]
        exact ⟨s', hs', by simp [hne]⟩
      · simp only [List.mem_map, updSess]
        exact ⟨s', ⟨s', hs', by simp [hne]⟩, by simp [hne, htop]⟩
  · intro heq
    simp only [St.consume, hfind]
    split
    · exact ⟨s', hs', heq, rfl, rfl, rfl⟩
    · rename_i x q hq
      split
      · simp only [List.mem_map, updSess]
        exact ⟨{ s' with evQ := q }, ⟨s', hs', by simp [heq]⟩, heq, rfl, rfl, rfl⟩
      · simp only [List.mem_map, updSess]
        refine ⟨{ s' with evQ := q }, ⟨{ s' with evQ := q }, ⟨s', hs', by simp [heq]⟩, by simp [heq]⟩, heq, rfl, rfl, rfl⟩

/-! ### Trace level: nothing ever crosses topics

Every hash found anywhere in a session of topic `τ` (queues, log — hence every `Live` message it
sends and every event it emits) was put into the system through a session of the same topic `τ`
(`remote` or `publish` action). `topicOf` is the session-id → topic table of the manager. -/

/-- hashes input through sessions of topic `τ` by an action list -/
def inputs (topicOf : Nat → Option Nat) (τ : Nat) : List Act → List Nat
  | [] => []
  | .remote sid op :: as => if topicOf sid = some τ then op :: inputs topicOf τ as else inputs topicOf τ as
  | .publish sid op :: as => if topicOf sid = some τ then op :: inputs topicOf τ as else inputs topicOf τ as
  | .liveStep _ :: as => inputs topicOf τ as
  | .remoteStep _ :: as => inputs topicOf τ as
  | .consume _ :: as => inputs topicOf τ as
  | .syncRecv sid op :: as => if topicOf sid = some τ then op :: inputs topicOf τ as else inputs topicOf τ as

def holds (s : Sess) : List Nat := s.remoteQ ++ s.liveQ ++ s.evQ ++ s.log.map (·.2)

def TopicInv (topicOf : Nat → Option Nat) (known : Nat → List Nat) (l : List Sess) : Prop :=
  ∀ s ∈ l, topicOf s.sid = some s.topic ∧ ∀ x ∈ holds s, x ∈ known s.topic

private theorem topicInv_map (topicOf : Nat → Option Nat) (known known' : Nat → List Nat)
    (l : List Sess) (g : Sess → Sess)
    (hmono : ∀ τ x, x ∈ known τ → x ∈ known' τ)
    (hg : ∀ s ∈ l, topicOf s.sid = some s.topic → (g s).sid = s.sid ∧ (g s).topic = s.topic
      ∧ ∀ x ∈ holds (g s), x ∈ holds s ∨ x ∈ known' s.topic)
    (h : TopicInv topicOf known l) : TopicInv topicOf known' (l.map g) := by
  intro s hs
  simp only [List.mem_map] at hs
  obtain ⟨s0, hs0, rfl⟩ := hs
  obtain ⟨ht, hk⟩ := h s0 hs0
  obtain ⟨g1, g2, g3⟩ := hg s0 hs0 ht
  refine ⟨by rw [g1, g2]; exact ht, ?_⟩
  intro x hx
  rw [g2]
  rcases g3 x hx with h1 | h1
  · exact hmono _ _ (hk x h1)
  · exact h1

private theorem mem_holds_stepLive (s : Sess) (x : Nat) (h : x ∈ holds s.stepLive) : x ∈ holds s := by
  unfold Sess.stepLive at h
  split at h
  · split at h
    · exact h
    · rename_i y q hq
      simp only [holds, hq, List.mem_append, List.mem_map, List.mem_cons] at h ⊢
      rcases h with ((h | h) | h) | h
      · exact Or.inl (Or.inl (Or.inl h))
      · exact Or.inl (Or.inl (Or.inr (Or.inr h)))
      · exact Or.inl (Or.inr h)
      · split at h
        · obtain ⟨e, he, rfl⟩ := h
          simp only [List.mem_append, List.mem_singleton] at he
          rcases he with he | rfl
          · exact Or.inr ⟨e, he, rfl⟩
          · exact Or.inl (Or.inl (Or.inr (Or.inl rfl)))
        · exact Or.inr h
  · exact h

private theorem mem_holds_stepRemote (s : Sess) (x : Nat) (h : x ∈ holds s.stepRemote) : x ∈ holds s := by
  unfold Sess.stepRemote at h
  split at h
  · split at h
    · exact h
    · rename_i y q hq
      simp only [holds, hq, List.mem_append, List.mem_map, List.mem_cons] at h ⊢
      rcases h with ((h | h) | h) | h
      · exact Or.inl (Or.inl (Or.inl (Or.inr h)))
      · exact Or.inl (Or.inl (Or.inr h))
      · split at h
        · simp only [List.mem_append, List.mem_singleton] at h
          rcases h with h | rfl
          · exact Or.inl (Or.inr h)
          · exact Or.inl (Or.inl (Or.inl (Or.inl rfl)))
        · exact Or.inl (Or.inr h)
      · split at h
        · obtain ⟨e, he, rfl⟩ := h
          simp only [List.mem_append, List.mem_singleton] at he
          rcases he with he | rfl
          · exact Or.inr ⟨e, he, rfl⟩
          · exact Or.inl (Or.inl (Or.inl (Or.inl rfl)))
        · exact Or.inr h
  · exact h

private theorem mem_holds_syncRecv (s : Sess) (op x : Nat) (h : x ∈ holds (s.syncRecv op)) :
    x ∈ holds s ∨ x = op := by
  simp only [Sess.syncRecv, holds, List.mem_append, List.mem_map] at h ⊢
  rcases h with ((h | h) | h) | h
  · exact Or.inl (Or.inl (Or.inl (Or.inl h)))
  · exact Or.inl (Or.inl (Or.inl (Or.inr h)))
  · split at h
    · simp only [List.mem_append, List.mem_singleton] at h
      rcases h with h | rfl
      · exact Or.inl (Or.inl (Or.inr h))
      · exact Or.inr rfl
    · exact Or.inl (Or.inl (Or.inr h))
  · split at h
    · obtain ⟨e, he, rfl⟩ := h
      simp only [List.mem_append, List.mem_singleton] at he
      rcases he with he | rfl
      · exact Or.inl (Or.inr ⟨e, he, rfl⟩)
      · exact Or.inr rfl
    · exact Or.inl (Or.inr h)

private theorem find_mem {l : List Sess} {sid : Nat} {s : Sess}
    (h : l.find? (fun s => s.sid = sid) = some s) : s ∈ l ∧ s.sid = sid := by
  have := List.find?_some h
  exact ⟨List.mem_of_find?_eq_some h, by simpa using this⟩

theorem step_topicInv (topicOf : Nat → Option Nat) (known : Nat → List Nat) (st : St) (a : Act)
    (h : TopicInv topicOf known st.sess) :
    TopicInv topicOf (fun τ => known τ ++ inputs topicOf τ [a]) (st.step a).sess := by
  have hmono : ∀ (τ x : Nat), x ∈ known τ → x ∈ known τ ++ inputs topicOf τ [a] :=
    fun τ x hx => List.mem_append_left _ hx
  cases a with
  | remote sid op =>
    apply topicInv_map topicOf known _ st.sess _ hmono _ h
    intro s hs ht
    by_cases hsid : s.sid = sid
    · by_cases hl : s.live = true
      · simp only [hsid, hl, if_true]
        refine ⟨by first | trivial | rfl | exact hsid, by first | trivial | rfl, ?_⟩
        intro x hx
        simp only [holds, List.mem_append, List.mem_singleton] at hx ⊢
        rcases hx with (((hx | rfl) | hx) | hx) | hx
        · exact Or.inl (Or.inl (Or.inl (Or.inl hx)))
        · right; right; simp [inputs, ← hsid, ht]
        · exact Or.inl (Or.inl (Or.inl (Or.inr hx)))
        · exact Or.inl (Or.inl (Or.inr hx))
        · exact Or.inl (Or.inr hx)
      · simp only [hsid, hl, if_true]
        exact ⟨by first | trivial | rfl | exact hsid, by first | trivial | rfl, fun x hx => Or.inl hx⟩
    · simp only [hsid, if_false]
      exact ⟨by first | trivial | rfl, by first | trivial | rfl, fun x hx => Or.inl hx⟩
  | publish sid op =>
    apply topicInv_map topicOf known _ st.sess _ hmono _ h
    intro s hs ht
    by_cases hsid : s.sid = sid
    · by_cases hl : s.live = true
      · simp only [hsid, hl, if_true]
        refine ⟨by first | trivial | rfl | exact hsid, by first | trivial | rfl, ?_⟩
        intro x hx
        simp only [holds, List.mem_append, List.mem_singleton] at hx ⊢
        rcases hx with ((hx | (hx | rfl)) | hx) | hx
        · exact Or.inl (Or.inl (Or.inl (Or.inl hx)))
        · exact Or.inl (Or.inl (Or.inl (Or.inr hx)))
        · right; right; simp [inputs, ← hsid, ht]
        · exact Or.inl (Or.inl (Or.inr hx))
        · exact Or.inl (Or.inr hx)
      · simp only [hsid, hl, if_true]
        exact ⟨by first | trivial | rfl | exact hsid, by first | trivial | rfl, fun x hx => Or.inl hx⟩
    · simp only [hsid, if_false]
      exact ⟨by first | trivial | rfl, by first | trivial | rfl, fun x hx => Or.inl hx⟩
  | liveStep sid =>
    apply topicInv_map topicOf known _ st.sess _ hmono _ h
    intro s hs ht
    by_cases hsid : s.sid = sid
    · simp only [hsid, if_true]
      have hc := conf_stepLive s
      simp only [conf, Prod.mk.injEq] at hc
      exact ⟨hsid ▸ hc.1, hc.2.1, fun x hx => Or.inl (mem_holds_stepLive s x hx)⟩
    · simp only [hsid, if_false]
      exact ⟨by first | trivial | rfl, by first | trivial | rfl, fun x hx => Or.inl hx⟩
  | remoteStep sid =>
    apply topicInv_map topicOf known _ st.sess _ hmono _ h
    intro s hs ht
    by_cases hsid : s.sid = sid
    · simp only [hsid, if_true]
      have hc := conf_stepRemote s
      simp only [conf, Prod.mk.injEq] at hc
      exact ⟨hsid ▸ hc.1, hc.2.1, fun x hx => Or.inl (mem_holds_stepRemote s x hx)⟩
    · simp only [hsid, if_false]
      exact ⟨by first | trivial | rfl, by first | trivial | rfl, fun x hx => Or.inl hx⟩
  | syncRecv sid op =>
    apply topicInv_map topicOf known _ st.sess _ hmono _ h
    intro s hs ht
    by_cases hsid : s.sid = sid
    · simp only [hsid, if_true]
      have hc := conf_syncRecv s op
      simp only [conf, Prod.mk.injEq] at hc
      refine ⟨hsid ▸ hc.1, hc.2.1, ?_⟩
      intro x hx
      rcases mem_holds_syncRecv s op x hx with h1 | rfl
      · exact Or.inl h1
      · right; simp [inputs, ← hsid, ht]
    · simp only [hsid, if_false]
      exact ⟨by first | trivial | rfl, by first | trivial | rfl, fun x hx => Or.inl hx⟩
  | consume sid =>
    simp only [St.step, St.consume]
    split
    · exact fun s hs => ⟨(h s hs).1, fun x hx => hmono _ _ ((h s hs).2 x hx)⟩
    · rename_i src hfind
      obtain ⟨hsrc, hsrcid⟩ := find_mem hfind
      split
      · exact fun s hs => ⟨(h s hs).1, fun x hx => hmono _ _ ((h s hs).2 x hx)⟩
      · rename_i y q hq
        obtain ⟨htsrc, hksrc⟩ := h src hsrc
        have hyq : ∀ z, z = y ∨ z ∈ q → z ∈ known src.topic := by
          intro z hz
          apply hksrc z
          simp only [holds, hq, List.mem_append, List.mem_cons]
          rcases hz with rfl | hz
          · exact Or.inl (Or.inr (Or.inl rfl))
          · exact Or.inl (Or.inr (Or.inr hz))
        split
        · simp only [updSess]
          apply topicInv_map topicOf known _ st.sess _ hmono _ h
          intro s hs ht
          by_cases hsid : s.sid = sid
          · have htop : s.topic = src.topic := by
              have : topicOf s.sid = topicOf src.sid := by rw [hsid, hsrcid]
              rw [ht, htsrc] at this
              exact Option.some.inj this
            simp only [hsid, if_true]
            refine ⟨by first | trivial | rfl | exact hsid, by first | trivial | rfl, ?_⟩
            intro x hx
            simp only [holds, List.mem_append] at hx ⊢
            rcases hx with ((hx | hx) | hx) | hx
            · exact Or.inl (Or.inl (Or.inl (Or.inl hx)))
            · exact Or.inl (Or.inl (Or.inl (Or.inr hx)))
            · right; rw [htop]; exact Or.inl (hyq x (Or.inr hx))
            · exact Or.inl (Or.inr hx)
          · simp only [hsid, if_false]
            exact ⟨by first | trivial | rfl, by first | trivial | rfl, fun x hx => Or.inl hx⟩
        simp only [updSess, List.map_map]
        apply topicInv_map topicOf known _ st.sess _ hmono _ h
        intro s hs ht
        simp only [Function.comp]
        by_cases hsid : s.sid = sid
        · -- the source session (same id ⇒ same topic): loses the head event
          have htop : s.topic = src.topic := by
            have : topicOf s.sid = topicOf src.sid := by rw [hsid, hsrcid]
            rw [ht, htsrc] at this
            exact Option.some.inj this
          simp only [hsid, if_true, ne_eq, not_true_eq_false, false_and, if_false]
          refine ⟨by first | trivial | rfl | exact hsid, by first | trivial | rfl, ?_⟩
          intro x hx
          simp only [holds, List.mem_append] at hx ⊢
          rcases hx with ((hx | hx) | hx) | hx
          · exact Or.inl (Or.inl (Or.inl (Or.inl hx)))
          · exact Or.inl (Or.inl (Or.inl (Or.inr hx)))
          · right; rw [htop]; exact Or.inl (hyq x (Or.inr hx))
          · exact Or.inl (Or.inr hx)
        · simp only [hsid, if_false]
          by_cases hc : s.topic = src.topic ∧ s.live = true
          · simp only [ne_eq, hsid, not_false_eq_true, hc, and_self, if_true]
            refine ⟨by first | trivial | rfl, by first | trivial | rfl, ?_⟩
            intro x hx
            simp only [holds, List.mem_append, List.mem_singleton] at hx ⊢
            rcases hx with ((hx | (hx | rfl)) | hx) | hx
            · exact Or.inl (Or.inl (Or.inl (Or.inl hx)))
            · exact Or.inl (Or.inl (Or.inl (Or.inr hx)))
            · right; exact Or.inl (hyq x (Or.inl rfl))
            · exact Or.inl (Or.inl (Or.inr hx))
            · exact Or.inl (Or.inr hx)
          · have : ¬ (s.sid ≠ sid ∧ s.topic = src.topic ∧ s.live = true) := fun hh => hc hh.2
            simp only [this, if_false]
            exact ⟨by first | trivial | rfl, by first | trivial | rfl, fun x hx => Or.inl hx⟩

private theorem inputs_append (topicOf : Nat → Option Nat) (τ : Nat) (a : Act) (as : List Act) :
    inputs topicOf τ (a :: as) = inputs topicOf τ [a] ++ inputs topicOf τ as := by
  cases a <;> simp only [inputs] <;> (try split) <;> simp

theorem run_topicInv (topicOf : Nat → Option Nat) (acts : List Act) :
    ∀ (known : Nat → List Nat) (st : St), TopicInv topicOf known st.sess →
      TopicInv topicOf (fun τ => known τ ++ inputs topicOf τ acts) (st.run acts).sess := by
  induction acts with
  | nil => intro known st h; simpa [St.run, inputs] using h
  | cons a as ih =>
    intro known st h
    have h1 := step_topicInv topicOf known st a h
    have h2 := ih _ _ h1
    intro s hs
    obtain ⟨ha, hb⟩ := h2 s hs
    refine ⟨ha, ?_⟩
    intro x hx
    have h3 : x ∈ (known s.topic ++ inputs topicOf s.topic [a]) ++ inputs topicOf s.topic as := hb x hx
    show x ∈ known s.topic ++ inputs topicOf s.topic (a :: as)
    rw [inputs_append]
    simpa [List.append_assoc] using h3

/-- **Nothing is forwarded across topics** (trace level): starting with empty queues and logs,
    after any run every `Live` message a session writes to its remote — and every event it
    emits, every hash queued for it — carries a hash that entered the system through a
    `remote`/`publish` action on a session of the *same* topic. -/
theorem c23_no_cross_topic (topicOf : Nat → Option Nat) (st : St) (acts : List Act)
    (htop : ∀ s ∈ st.sess, topicOf s.sid = some s.topic)
    (hempty : ∀ s ∈ st.sess, holds s = [])
    (s : Sess) (hs : s ∈ (st.run acts).sess) (x : Nat)
    (hx : x ∈ s.sent ∨ x ∈ s.received ∨ x ∈ s.liveQ ∨ x ∈ s.evQ) :
    x ∈ inputs topicOf s.topic acts := by
  have h0 : TopicInv topicOf (fun _ => []) st.sess := by
    intro s hs
    refine ⟨htop s hs, ?_⟩
    intro x hx; rw [hempty s hs] at hx; cases hx
  have := (run_topicInv topicOf acts _ st h0 s hs).2 x ?_
  · simpa using this
  · simp only [holds, List.mem_append, List.mem_map]
    rcases hx with hx | hx | hx | hx
    · simp only [Sess.sent, List.mem_map, List.mem_filter] at hx
      obtain ⟨e, ⟨he, _⟩, rfl⟩ := hx
      exact Or.inr ⟨e, he, rfl⟩
    · simp only [Sess.received, List.mem_map, List.mem_filter] at hx
      obtain ⟨e, ⟨he, _⟩, rfl⟩ := hx
      exact Or.inr ⟨e, he, rfl⟩
    · exact Or.inl (Or.inl (Or.inr hx))
    · exact Or.inl (Or.inr hx)

/-! ### Trace level: never back to the only peer it came from

Whatever the windows: a session writes `Live(x)` to its remote only if `x` was published on that
very session or was sent by the remote of *another* session of the same topic. An operation
that entered the node only through session `s` is never sent on `s`. -/

/-- hashes sent by the remote of session `sid` (live or sync phase) -/
def rin (sid : Nat) : List Act → List Nat
  | [] => []
  | .remote s op :: as => if s = sid then op :: rin sid as else rin sid as
  | .syncRecv s op :: as => if s = sid then op :: rin sid as else rin sid as
  | _ :: as => rin sid as

/-- hashes published on session `sid` -/
def pin (sid : Nat) : List Act → List Nat
  | [] => []
  | .publish s op :: as => if s = sid then op :: pin sid as else pin sid as
  | _ :: as => pin sid as

def inbound (s : Sess) : List Nat := s.remoteQ ++ s.evQ ++ s.received
def outbound (s : Sess) : List Nat := s.liveQ ++ s.sent

def OK (topicOf : Nat → Option Nat) (R Pn : Nat → List Nat) (s : Sess) (x : Nat) : Prop :=
  x ∈ Pn s.sid ∨ ∃ sid2, sid2 ≠ s.sid ∧ topicOf sid2 = some s.topic ∧ x ∈ R sid2

def SoleInv (topicOf : Nat → Option Nat) (R Pn : Nat → List Nat) (l : List Sess) : Prop :=
  ∀ s ∈ l, topicOf s.sid = some s.topic ∧ (∀ x ∈ inbound s, x ∈ R s.sid)
    ∧ (∀ x ∈ outbound s, OK topicOf R Pn s x)

private theorem ok_mono (topicOf : Nat → Option Nat) (R R' Pn Pn' : Nat → List Nat)
    (hR : ∀ i x, x ∈ R i → x ∈ R' i) (hP : ∀ i x, x ∈ Pn i → x ∈ Pn' i) (s : Sess) (x : Nat)
    (h : OK topicOf R Pn s x) : OK topicOf R' Pn' s x := by
  rcases h with h | ⟨sid2, h1, h2, h3⟩
  · exact Or.inl (hP _ _ h)
  · exact Or.inr ⟨sid2, h1, h2, hR _ _ h3⟩

private theorem soleInv_map (topicOf : Nat → Option Nat) (R R' Pn Pn' : Nat → List Nat)
    (l : List Sess) (g : Sess → Sess)
    (hR : ∀ i x, x ∈ R i → x ∈ R' i) (hP : ∀ i x, x ∈ Pn i → x ∈ Pn' i)
    (hg : ∀ s ∈ l, topicOf s.sid = some s.topic → (g s).sid = s.sid ∧ (g s).topic = s.topic
      ∧ (∀ x ∈ inbound (g s), x ∈ inbound s ∨ x ∈ R' s.sid)
      ∧ (∀ x ∈ outbound (g s), x ∈ outbound s ∨ OK topicOf R' Pn' s x))
    (h : SoleInv topicOf R Pn l) : SoleInv topicOf R' Pn' (l.map g) := by
  intro s hs
  simp only [List.mem_map] at hs
  obtain ⟨s0, hs0, rfl⟩ := hs
  obtain ⟨ht, hi, ho⟩ := h s0 hs0
  obtain ⟨g1, g2, g3, g4⟩ := hg s0 hs0 ht
  refine ⟨by rw [g1, g2]; exact ht, ?_, ?_⟩
  · intro x hx
    rw [g1]
    rcases g3 x hx with h1 | h1
    · exact hR _ _ (hi x h1)
    · exact h1
  · intro x hx
    have : OK topicOf R' Pn' s0 x := by
      rcases g4 x hx with h1 | h1
      · exact ok_mono topicOf R R' Pn Pn' hR hP s0 x (ho x h1)
      · exact h1
    simpa [OK, g1, g2] using this

private theorem sent_snoc_live (l : List (Src × Nat)) (x : Nat) :
    ((l ++ [(Src.live, x)]).filter (fun e => e.1 = Src.live)).map (·.2)
      = (l.filter (fun e => e.1 = Src.live)).map (·.2) ++ [x] := by simp [List.filter_append]
private theorem sent_snoc_remote (l : List (Src × Nat)) (x : Nat) :
    ((l ++ [(Src.remote, x)]).filter (fun e => e.1 = Src.live)).map (·.2)
      = (l.filter (fun e => e.1 = Src.live)).map (·.2) := by simp [List.filter_append]
private theorem recv_snoc_live (l : List (Src × Nat)) (x : Nat) :
    ((l ++ [(Src.live, x)]).filter (fun e => e.1 = Src.remote)).map (·.2)
      = (l.filter (fun e => e.1 = Src.remote)).map (·.2) := by simp [List.filter_append]
private theorem recv_snoc_remote (l : List (Src × Nat)) (x : Nat) :
    ((l ++ [(Src.remote, x)]).filter (fun e => e.1 = Src.remote)).map (·.2)
      = (l.filter (fun e => e.1 = Src.remote)).map (·.2) ++ [x] := by simp [List.filter_append]

private theorem io_stepLive (s : Sess) :
    (∀ x ∈ inbound s.stepLive, x ∈ inbound s) ∧ (∀ x ∈ outbound s.stepLive, x ∈ outbound s) := by
  unfold Sess.stepLive
  split
  · split
    · exact ⟨fun _ h => h, fun _ h => h⟩
    · rename_i y q hq
      cases hb : (s.dedup.insert y).2
      · simp only [inbound, outbound, Sess.sent, Sess.received, hb, hq, Bool.false_eq_true, if_false]
        exact ⟨fun _ h => h, fun x h => by
          simp only [List.mem_append, List.mem_cons] at h ⊢
          rcases h with h | h
          · exact Or.inl (Or.inr h)
          · exact Or.inr h⟩
      · simp only [inbound, outbound, Sess.sent, Sess.received, hb, hq, if_true,
          sent_snoc_live, recv_snoc_live]
        exact ⟨fun _ h => h, fun x h => by
          simp only [List.mem_append, List.mem_cons, List.mem_singleton, List.not_mem_nil, or_false] at h ⊢
          rcases h with h | h | h
          · exact Or.inl (Or.inr h)
          · exact Or.inr h
          · exact Or.inl (Or.inl h)⟩
  · exact ⟨fun _ h => h, fun _ h => h⟩

private theorem io_stepRemote (s : Sess) :
    (∀ x ∈ inbound s.stepRemote, x ∈ inbound s) ∧ (∀ x ∈ outbound s.stepRemote, x ∈ outbound s) := by
  unfold Sess.stepRemote
  split
  · split
    · exact ⟨fun _ h => h, fun _ h => h⟩
    · rename_i y q hq
      cases hb : (s.dedup.insert y).2
      · simp only [inbound, outbound, Sess.sent, Sess.received, hb, hq, Bool.false_eq_true, if_false]
        exact ⟨fun x h => by
          simp only [List.mem_append, List.mem_cons] at h ⊢
          rcases h with (h | h) | h
          · exact Or.inl (Or.inl (Or.inr h))
          · exact Or.inl (Or.inr h)
          · exact Or.inr h, fun _ h => h⟩
      · simp only [inbound, outbound, Sess.sent, Sess.received, hb, hq, if_true,
          sent_snoc_remote, recv_snoc_remote]
        exact ⟨fun x h => by
          simp only [List.mem_append, List.mem_cons, List.mem_singleton, List.not_mem_nil, or_false] at h ⊢
          rcases h with (h | h | h) | h | h
          · exact Or.inl (Or.inl (Or.inr h))
          · exact Or.inl (Or.inr h)
          · exact Or.inl (Or.inl (Or.inl h))
          · exact Or.inr h
          · exact Or.inl (Or.inl (Or.inl h)), fun _ h => h⟩
  · exact ⟨fun _ h => h, fun _ h => h⟩

private theorem io_syncRecv (s : Sess) (op : Nat) :
    (∀ x ∈ inbound (s.syncRecv op), x ∈ inbound s ∨ x = op)
    ∧ (∀ x ∈ outbound (s.syncRecv op), x ∈ outbound s) := by
  cases hb : (s.dedup.insert op).2
  · simp only [Sess.syncRecv, inbound, outbound, Sess.sent, Sess.received, hb, Bool.false_eq_true, if_false]
    exact ⟨fun x h => Or.inl h, fun _ h => h⟩
  · simp only [Sess.syncRecv, inbound, outbound, Sess.sent, Sess.received, hb, if_true,
      sent_snoc_remote, recv_snoc_remote]
    exact ⟨fun x h => by
      simp only [List.mem_append, List.mem_singleton] at h ⊢
      rcases h with (h | h | h) | h | h
      · exact Or.inl (Or.inl (Or.inl h))
      · exact Or.inl (Or.inl (Or.inr h))
      · exact Or.inr h
      · exact Or.inl (Or.inr h)
      · exact Or.inr h, fun _ h => h⟩

theorem step_soleInv (topicOf : Nat → Option Nat) (R Pn : Nat → List Nat) (st : St) (a : Act)
    (h : SoleInv topicOf R Pn st.sess) :
    SoleInv topicOf (fun i => R i ++ rin i [a]) (fun i => Pn i ++ pin i [a]) (st.step a).sess := by
  have hR : ∀ (i x : Nat), x ∈ R i → x ∈ R i ++ rin i [a] := fun i x hx => List.mem_append_left _ hx
  have hP : ∀ (i x : Nat), x ∈ Pn i → x ∈ Pn i ++ pin i [a] := fun i x hx => List.mem_append_left _ hx
  cases a with
  | remote sid op =>
    apply soleInv_map topicOf R _ Pn _ st.sess _ hR hP _ h
    intro s hs ht
    by_cases hsid : s.sid = sid
    · by_cases hl : s.live = true
      · simp only [hsid, hl, if_true]
        refine ⟨by first | trivial | rfl | exact hsid, by first | trivial | rfl, ?_, fun x hx => Or.inl hx⟩
        intro x hx
        simp only [inbound, Sess.received, List.mem_append, List.mem_singleton] at hx ⊢
        rcases hx with ((hx | rfl) | hx) | hx
        · exact Or.inl (Or.inl (Or.inl hx))
        · right; right; simp [rin, hsid]
        · exact Or.inl (Or.inl (Or.inr hx))
        · exact Or.inl (Or.inr hx)
      · simp only [hsid, hl, if_true]
        exact ⟨by first | trivial | rfl | exact hsid, by first | trivial | rfl, fun x hx => Or.inl hx, fun x hx => Or.inl hx⟩
    · simp only [hsid, if_false]
      exact ⟨by first | trivial | rfl, by first | trivial | rfl, fun x hx => Or.inl hx, fun x hx => Or.inl hx⟩
  | publish sid op =>
    apply soleInv_map topicOf R _ Pn _ st.sess _ hR hP _ h
    intro s hs ht
    by_cases hsid : s.sid = sid
    · by_cases hl : s.live = true
      · simp only [hsid, hl, if_true]
        refine ⟨by first | trivial | rfl | exact hsid, by first | trivial | rfl, fun x hx => Or.inl hx, ?_⟩
        intro x hx
        simp only [outbound, Sess.sent, List.mem_append, List.mem_singleton] at hx ⊢
        rcases hx with (hx | rfl) | hx
        · exact Or.inl (Or.inl hx)
        · right; left; simp [pin, hsid]
        · exact Or.inl (Or.inr hx)
      · simp only [hsid, hl, if_true]
        exact ⟨by first | trivial | rfl | exact hsid, by first | trivial | rfl, fun x hx => Or.inl hx, fun x hx => Or.inl hx⟩
    · simp only [hsid, if_false]
      exact ⟨by first | trivial | rfl, by first | trivial | rfl, fun x hx => Or.inl hx, fun x hx => Or.inl hx⟩
  | liveStep sid =>
    apply soleInv_map topicOf R _ Pn _ st.sess _ hR hP _ h
    intro s hs ht
    by_cases hsid : s.sid = sid
    · simp only [hsid, if_true]
      have hc := conf_stepLive s
      simp only [conf, Prod.mk.injEq] at hc
      exact ⟨hsid ▸ hc.1, hc.2.1, fun x hx => Or.inl ((io_stepLive s).1 x hx), fun x hx => Or.inl ((io_stepLive s).2 x hx)⟩
    · simp only [hsid, if_false]
      exact ⟨by first | trivial | rfl, by first | trivial | rfl, fun x hx => Or.inl hx, fun x hx => Or.inl hx⟩
  | remoteStep sid =>
    apply soleInv_map topicOf R _ Pn _ st.sess _ hR hP _ h
    intro s hs ht
    by_cases hsid : s.sid = sid
    · simp only [hsid, if_true]
      have hc := conf_stepRemote s
      simp only [conf, Prod.mk.injEq] at hc
      exact ⟨hsid ▸ hc.1, hc.2.1, fun x hx => Or.inl ((io_stepRemote s).1 x hx), fun x hx => Or.inl ((io_stepRemote s).2 x hx)⟩
    · simp only [hsid, if_false]
      exact ⟨by first | trivial | rfl, by first | trivial | rfl, fun x hx => Or.inl hx, fun x hx => Or.inl hx⟩
  | syncRecv sid op =>
    apply soleInv_map topicOf R _ Pn _ st.sess _ hR hP _ h
    intro s hs ht
    by_cases hsid : s.sid = sid
    · simp only [hsid, if_true]
      have hc := conf_syncRecv s op
      simp only [conf, Prod.mk.injEq] at hc
      refine ⟨hsid ▸ hc.1, hc.2.1, ?_, fun x hx => Or.inl ((io_syncRecv s op).2 x hx)⟩
      intro x hx
      rcases (io_syncRecv s op).1 x hx with h1 | rfl
      · exact Or.inl h1
      · right; simp [rin, hsid]
    · simp only [hsid, if_false]
      exact ⟨by first | trivial | rfl, by first | trivial | rfl, fun x hx => Or.inl hx, fun x hx => Or.inl hx⟩
  | consume sid =>
    have keep : SoleInv topicOf (fun i => R i ++ rin i [Act.consume sid]) (fun i => Pn i ++ pin i [Act.consume sid]) st.sess :=
      fun s hs => ⟨(h s hs).1, fun x hx => hR _ _ ((h s hs).2.1 x hx),
        fun x hx => ok_mono topicOf R _ Pn _ hR hP s x ((h s hs).2.2 x hx)⟩
    simp only [St.step, St.consume]
    split
    · exact keep
    · rename_i src hfind
      obtain ⟨hsrc, hsrcid⟩ := find_mem hfind
      split
      · exact keep
      · rename_i y q hq
        obtain ⟨htsrc, hisrc, _⟩ := h src hsrc
        have hyq : ∀ z, z = y ∨ z ∈ q → z ∈ R sid := by
          intro z hz
          rw [← hsrcid]
          apply hisrc z
          simp only [inbound, hq, List.mem_append, List.mem_cons]
          rcases hz with rfl | hz
          · exact Or.inl (Or.inr (Or.inl rfl))
          · exact Or.inl (Or.inr (Or.inr hz))
        split
        · simp only [updSess]
          apply soleInv_map topicOf R _ Pn _ st.sess _ hR hP _ h
          intro s hs ht
          by_cases hsid : s.sid = sid
          · simp only [hsid, if_true]
            refine ⟨by first | trivial | rfl | exact hsid, by first | trivial | rfl, ?_, fun x hx => Or.inl hx⟩
            intro x hx
            simp only [inbound, Sess.received, List.mem_append] at hx ⊢
            rcases hx with (hx | hx) | hx
            · exact Or.inl (Or.inl (Or.inl hx))
            · right; exact Or.inl (hyq x (Or.inr hx))
            · exact Or.inl (Or.inr hx)
          · simp only [hsid, if_false]
            exact ⟨by first | trivial | rfl, by first | trivial | rfl, fun x hx => Or.inl hx, fun x hx => Or.inl hx⟩
        simp only [updSess, List.map_map]
        apply soleInv_map topicOf R _ Pn _ st.sess _ hR hP _ h
        intro s hs ht
        simp only [Function.comp]
        by_cases hsid : s.sid = sid
        · simp only [hsid, if_true, ne_eq, not_true_eq_false, false_and, if_false]
          refine ⟨by first | trivial | rfl | exact hsid, by first | trivial | rfl, ?_, fun x hx => Or.inl hx⟩
          intro x hx
          simp only [inbound, Sess.received, List.mem_append] at hx ⊢
          rcases hx with (hx | hx) | hx
          · exact Or.inl (Or.inl (Or.inl hx))
          · right; exact Or.inl (hyq x (Or.inr hx))
          · exact Or.inl (Or.inr hx)
        · simp only [hsid, if_false]
          by_cases hc : s.topic = src.topic ∧ s.live = true
          · simp only [ne_eq, hsid, not_false_eq_true, hc, and_self, if_true]
            refine ⟨by first | trivial | rfl, by first | trivial | rfl, fun x hx => Or.inl hx, ?_⟩
            intro x hx
            simp only [outbound, Sess.sent, List.mem_append, List.mem_singleton] at hx
            rcases hx with (hx | rfl) | hx
            · exact Or.inl (by simp only [outbound, List.mem_append]; exact Or.inl hx)
            · right; right
              refine ⟨sid, fun e => hsid e.symm, ?_, hR _ _ (hyq x (Or.inl rfl))⟩
              rw [← hsrcid, htsrc, hc.1]
            · exact Or.inl (by simp only [outbound, Sess.sent, List.mem_append]; exact Or.inr hx)
          · have : ¬ (s.sid ≠ sid ∧ s.topic = src.topic ∧ s.live = true) := fun hh => hc hh.2
            simp only [this, if_false]
            exact ⟨by first | trivial | rfl, by first | trivial | rfl, fun x hx => Or.inl hx, fun x hx => Or.inl hx⟩

private theorem rin_cons (i : Nat) (a : Act) (as : List Act) : rin i (a :: as) = rin i [a] ++ rin i as := by
  cases a <;> simp only [rin] <;> (try split) <;> simp
private theorem pin_cons (i : Nat) (a : Act) (as : List Act) : pin i (a :: as) = pin i [a] ++ pin i as := by
  cases a <;> simp only [pin] <;> (try split) <;> simp

theorem run_soleInv (topicOf : Nat → Option Nat) (acts : List Act) :
    ∀ (R Pn : Nat → List Nat) (st : St), SoleInv topicOf R Pn st.sess →
      SoleInv topicOf (fun i => R i ++ rin i acts) (fun i => Pn i ++ pin i acts) (st.run acts).sess := by
  induction acts with
  | nil => intro R Pn st h; simpa [St.run, rin, pin] using h
  | cons a as ih =>
    intro R Pn st h
    have h2 := ih _ _ _ (step_soleInv topicOf R Pn st a h)
    intro s hs
    obtain ⟨ha, hb, hc⟩ := h2 s hs
    refine ⟨ha, ?_, ?_⟩
    · intro x hx
      have h3 : x ∈ (R s.sid ++ rin s.sid [a]) ++ rin s.sid as := hb x hx
      show x ∈ R s.sid ++ rin s.sid (a :: as)
      rw [rin_cons]; simpa [List.append_assoc] using h3
    · intro x hx
      rcases hc x hx with h3 | ⟨sid2, h4, h5, h6⟩
      · left
        have h3' : x ∈ (Pn s.sid ++ pin s.sid [a]) ++ pin s.sid as := h3
        show x ∈ Pn s.sid ++ pin s.sid (a :: as)
        rw [pin_cons]; simpa [List.append_assoc] using h3'
      · right
        refine ⟨sid2, h4, h5, ?_⟩
        have h6' : x ∈ (R sid2 ++ rin sid2 [a]) ++ rin sid2 as := h6
        show x ∈ R sid2 ++ rin sid2 (a :: as)
        rw [rin_cons]; simpa [List.append_assoc] using h6'

/-- **Never back to the only peer it came from** (trace level, whatever the windows): starting
    with empty queues and logs, every `Live(x)` a session writes to its remote was published on
    that session or was sent by the remote of a *different* session of the same topic; every
    event it emits carries a hash its own remote sent. -/
theorem c23_no_self_echo (topicOf : Nat → Option Nat) (st : St) (acts : List Act)
    (htop : ∀ s ∈ st.sess, topicOf s.sid = some s.topic)
    (hempty : ∀ s ∈ st.sess, holds s = [])
    (s : Sess) (hs : s ∈ (st.run acts).sess) :
    (∀ x ∈ s.sent, x ∈ pin s.sid acts ∨ ∃ sid2, sid2 ≠ s.sid ∧ topicOf sid2 = some s.topic ∧ x ∈ rin sid2 acts)
    ∧ (∀ x ∈ s.received, x ∈ rin s.sid acts) := by
  have h0 : SoleInv topicOf (fun _ => []) (fun _ => []) st.sess := by
    intro s hs
    have he := hempty s hs
    simp only [holds, List.append_eq_nil_iff, List.map_eq_nil_iff] at he
    obtain ⟨⟨⟨h1, h2⟩, h3⟩, h4⟩ := he
    refine ⟨htop s hs, ?_, ?_⟩
    · intro x hx; simp [inbound, Sess.received, h1, h3, h4] at hx
    · intro x hx; simp [outbound, Sess.sent, h2, h4] at hx
  obtain ⟨_, hb, hc⟩ := run_soleInv topicOf acts _ _ st h0 s hs
  constructor
  · intro x hx
    have := hc x (by simp only [outbound, List.mem_append]; exact Or.inr hx)
    simpa [OK] using this
  · intro x hx
    have := hb x (by simp only [inbound, List.mem_append]; exact Or.inr hx)
    simpa using this

/-! ## Tie to the source text

`props/C23_extract.py` reads the `OperationReceived` branch of `ManagerEventStream::next_event`
as it is *now* and emits its statements as tokens in source order (an unknown statement is an
extraction failure). `phasesOf` / `consumeOf` give the token list its meaning as a sequential
program with early exit (`continue`); `c23_consume_is_source` proves that this program is the
model's `St.consume` for every state. Moving the consumer de-duplication in front of the
forwarding loop, removing the `id == session_id` skip or the clean-up of failed sessions changes
the token list and breaks the theorem. -/

inductive Phase where
  /-- `let Some(topic) = map.topic(session_id) else { …; continue }` -/
  | swallow
  /-- `for id in keys { [if id == session_id { continue }] …sender_mut… tx.send(Payload(operation.clone())) … }` -/
  | forward (skipSelf : Bool)
  /-- `for id in dropped { map.drop(id) }` -/
  | dropFailed
  /-- `if !state.dedup.insert(operation.hash()) { continue }` -/
  | dedup
  /-- `return (state, Some(from_sync))` -/
  | report
deriving DecidableEq, Repr

def phasesOf : List String → Option (List Phase)
  | [] => some []
  | "lookup-or-swallow" :: r => (phasesOf r).map (Phase.swallow :: ·)
  | "keys" :: "for[" :: "skip-self" :: "sender" :: "send" :: "collect-failed" :: "]" :: r =>
    (phasesOf r).map (Phase.forward true :: ·)
  | "keys" :: "for[" :: "sender" :: "send" :: "collect-failed" :: "]" :: r =>
    (phasesOf r).map (Phase.forward false :: ·)
  | "drop-failed" :: r => (phasesOf r).map (Phase.dropFailed :: ·)
  | "dedup" :: r => (phasesOf r).map (Phase.dedup :: ·)
  | ["report"] => some [Phase.report]
  | _ => none

/-- interpreter state: current state, sessions whose channel turned out closed, `continue` taken -/
structure CS where
  st : St
  failed : List Nat := []
  stopped : Bool := false

def runPhase (base : St) (sid : Nat) (src : Sess) (x : Nat) (c : CS) (p : Phase) : CS :=
  if c.stopped then c else
  match p with
  | .swallow => if base.dropped.contains sid then { c with stopped := true } else c
  | .forward skipSelf =>
    { c with
      st := { c.st with sess := c.st.sess.map (fun s' =>
        if (skipSelf = false ∨ s'.sid ≠ sid) ∧ s'.topic = src.topic ∧ s'.live = true
        then { s' with liveQ := s'.liveQ ++ [x] } else s') },
      failed := (base.sess.filter (fun s' =>
        (skipSelf = false ∨ s'.sid ≠ sid) ∧ s'.topic = src.topic ∧ s'.live = false
          ∧ !base.dropped.contains s'.sid)).map (·.sid) }
  | .dropFailed => { c with st := { c.st with dropped := c.st.dropped ++ c.failed } }
  | .dedup =>
    { c with st := { c.st with cdedup := (c.st.cdedup.insert x).1 },
             stopped := !(c.st.cdedup.insert x).2 }
  | .report => { c with st := { c.st with reports := c.st.reports ++ [(sid, x)] } }

/-- the event is taken from the session's broadcast channel, then the branch runs -/
def consumeOf (ps : List Phase) (st : St) (sid : Nat) : St :=
  match st.sess.find? (fun s => s.sid = sid) with
  | none => st
  | some s =>
    match s.evQ with
    | [] => st
    | x :: q =>
      (ps.foldl (runPhase st sid s x)
        { st := { st with sess := updSess sid (fun s => { s with evQ := q }) st.sess } }).st

theorem skeleton_phases :
    phasesOf P2.Extracted.C23.nextEventSkeleton
      = some [.swallow, .forward true, .dropFailed, .dedup, .report] := by decide

/-- **The model's `consume` is the source**: the branch of `next_event` as extracted on this
    run, interpreted statement by statement, is `St.consume` — for every state and session. -/
theorem c23_consume_is_source (st : St) (sid : Nat) :
    (phasesOf P2.Extracted.C23.nextEventSkeleton).map (fun ps => consumeOf ps st sid)
      = some (st.consume sid) := by
  rw [skeleton_phases]
  simp only [Option.map_some, Option.some.injEq]
  cases hfind : st.sess.find? (fun s => s.sid = sid) with
  | none => simp [consumeOf, St.consume, hfind]
  | some s =>
    cases hq : s.evQ with
    | nil => simp [consumeOf, St.consume, hfind, hq]
    | cons x q =>
      by_cases hd : sid ∈ st.dropped
      · simp [consumeOf, St.consume, hfind, hq, List.foldl, runPhase, hd]
      · cases hb : (st.cdedup.insert x).2 <;>
          simp [consumeOf, St.consume, hfind, hq, List.foldl, runPhase, hd, hb]

/-- The guards of the two arms of the live loop in `TopicLogSync::run`, as extracted on this run
    (each must be the first statement of its arm, with a `continue` block, before the send / the
    event): both *insert* into the session's buffer and skip on a duplicate — what
    `Sess.stepLive` / `Sess.stepRemote` transcribe. -/
theorem c23_session_guards_are_source :
    P2.Extracted.C23.liveArmGuard = "!dedup.insert(operation.hash)"
    ∧ P2.Extracted.C23.remoteArmGuard = "!dedup.insert(header.hash())" := by decide

/-- The live channel's capacity read from the current source (`CHANNEL_BUFFER`) is positive: the
    forward of `c23_forward_all` — which appends whatever the queue length, i.e. *waits for room
    and never drops* — can always eventually proceed once the target session takes a message.
    The harness sizes its back-pressure burst as this capacity + k. -/
theorem c23_channel_buffer_pos : 1 ≤ P2.Extracted.C23.channelBuffer := by decide

/-! ## Non-vacuity -/
section Examples
/-- three live sessions, two on topic 0 with capacity 2, one on topic 1 -/
def ex0 : St := { sess := [newSess 10 0 true 2, newSess 11 0 true 2, newSess 12 1 true 2], cdedup := new 2, reports := [] }

example : GInv ex0 := ginv_init _ 2 (by decide) (by
  intro s hs
  simp only [ex0, List.mem_cons, List.not_mem_nil, or_false] at hs
  rcases hs with rfl | rfl | rfl
  · exact ⟨10, 0, true, 2, by decide, rfl⟩
  · exact ⟨11, 0, true, 2, by decide, rfl⟩
  · exact ⟨12, 1, true, 2, by decide, rfl⟩)

-- op 7 arrives from both remotes of topic 0; it is forwarded 10 → 11, never back to 10, never to 12,
-- reported once; after two other operations it is accepted again (window of 2)
def exActs : List Act :=
  [.remote 10 7, .remote 11 7, .remoteStep 10, .consume 10, .liveStep 11, .remoteStep 11,
   .remote 10 8, .remote 10 9, .remoteStep 10, .remoteStep 10, .consume 10, .consume 10,
   .remote 10 7, .remoteStep 10, .consume 10, .liveStep 11, .liveStep 11, .liveStep 11]

example : ((ex0.run exActs).sess.map Sess.sent) = [[], [7, 8, 9, 7], []] := by decide
example : (ex0.run exActs).reports = [(10, 7), (10, 8), (10, 9), (10, 7)] := by decide
example : ((ex0.run exActs).sess.map Sess.received) = [[7, 8, 9, 7], [], []] := by decide
end Examples

end P2.C23
